/-
  Helper lemmas for C19 (core Lean only): canonical profile descriptions (`lin a b`, `bound l i r`,
  `poly c… : s…`) are accepted by `mpt_iterator_profile` with the denoted sequence; malformed ones are refused.
-/
import MptModel.Lemmas.IterRefuse
namespace Mpt.Iter
open Mpt.IterSpec

/-! ### number lists read by `getValues` / the coefficient loop -/

theorem cdouble_space_inv (x : List Char) (v : Rat) (r : List Char) (h : cdouble (' ' :: x) = .ok v r) :
    cdouble x = .ok v r := by
  unfold cdouble at h ⊢
  rw [if_neg (by simp), infScan_space, scanDouble_space] at h
  by_cases hx : x.isEmpty = true
  · have : x = [] := by simpa using hx
    subst this
    revert h
    simp [infScan, infWord, numStart, signRest, dropSpace, scanDouble, scanOk, spanP, fracDigits, isSpace]
  · rw [if_neg hx]
    cases hi : infScan x with
    | some p => rw [hi] at h; exact h
    | none =>
      rw [hi] at h
      simp only [] at h ⊢
      cases hq : scanDouble x with
      | some p => rw [hq] at h; exact h
      | none => rw [hq] at h; simp only [] at h; split at h <;> cases h

/-- nothing more to read: the text is not a number -/
def NoNumber (tail : List Char) : Prop := ∀ v r, cdouble tail ≠ .ok v r

theorem noNumber_nil : NoNumber [] := by intro v r h; simp [cdouble] at h

theorem noNumber_colon (l : List Char) : NoNumber (' ' :: ':' :: l) := by
  intro v r h
  have h2 := cdouble_space_inv _ v r h
  have := mkValues_refused ':' l (by decide) (by decide) (by decide) (by decide) (by decide) (by decide)
  unfold mkValues at this
  rw [h2] at this
  cases this

theorem polyCoeffs_none (n : Nat) (tail : List Char) (h : NoNumber tail) : polyCoeffs n tail = ([], tail) := by
  cases n with
  | zero => rfl
  | succ k =>
    unfold polyCoeffs
    cases hc : cdouble tail with
    | ok v r => exact absurd hc (h v r)
    | zero => rfl
    | err e => rfl

theorem polyCoeffs_space (n : Nat) (x : List Char) (v : Rat) (r : List Char) (h : cdouble x = .ok v r) :
    polyCoeffs (n + 1) (' ' :: x) = polyCoeffs (n + 1) x := by
  unfold polyCoeffs
  rw [cdouble_space x v r h, h]

/-- the first token of a joined list is read as a number -/
theorem join_head (toks : List (List Char)) (vs : List Rat) (hne : toks ≠ [])
    (h : allSome (toks.map strictNumber) = some vs) (tail : List Char) (hst : Stops tail) :
    ∃ t more v ws R, toks = t :: more ∧ vs = v :: ws ∧ strictNumber t = some v ∧
      allSome (more.map strictNumber) = some ws ∧ joinBlank toks ++ tail = t ++ R ∧
      cdouble (t ++ R) = .ok v R ∧
      ((more = [] ∧ R = tail) ∨ (more ≠ [] ∧ R = ' ' :: (joinBlank more ++ tail))) := by
  cases toks with
  | nil => exact absurd rfl hne
  | cons t more =>
    simp only [List.map_cons, allSome] at h
    cases ht : strictNumber t with
    | none => rw [ht] at h; simp [allSome] at h
    | some v =>
      rw [ht] at h
      simp only [allSome] at h
      cases hm : allSome (more.map strictNumber) with
      | none => rw [hm] at h; simp at h
      | some ws =>
        rw [hm] at h
        simp only [Option.map_some, Option.some.injEq] at h
        subst h
        by_cases hmore : more = []
        · subst hmore
          refine ⟨t, [], v, ws, tail, rfl, rfl, ht, hm, by simp [joinBlank], cdouble_strict t tail v ht hst, Or.inl ⟨rfl, rfl⟩⟩
        · refine ⟨t, more, v, ws, ' ' :: (joinBlank more ++ tail), rfl, rfl, ht, hm, ?_,
            cdouble_strict t _ v ht (stops_space _), Or.inr ⟨hmore, rfl⟩⟩
          rw [joinBlank_cons _ _ hmore]
          simp

theorem polyCoeffs_join (toks : List (List Char)) (vs : List Rat) (hne : toks ≠ [])
    (h : allSome (toks.map strictNumber) = some vs) (tail : List Char) (hst : Stops tail) (hn : NoNumber tail)
    (n : Nat) (hlen : vs.length ≤ n) : polyCoeffs n (joinBlank toks ++ tail) = (vs, tail) := by
  induction toks generalizing vs n with
  | nil => exact absurd rfl hne
  | cons t0 more0 ih =>
    obtain ⟨t, more, v, ws, R, e1, e2, ht, hm, hj, hc, hR⟩ := join_head (t0 :: more0) vs hne h tail hst
    obtain ⟨ea, eb⟩ := List.cons.inj e1
    subst ea; subst eb
    subst e2
    obtain ⟨k, rfl⟩ : ∃ k, n = k + 1 := ⟨n - 1, by simp at hlen; omega⟩
    rw [hj]
    unfold polyCoeffs
    rw [hc]
    simp only []
    rcases hR with ⟨hm0, hr⟩ | ⟨hm0, hr⟩
    · subst hm0; subst hr
      simp only [List.map_nil, allSome, Option.some.injEq] at hm
      subst hm
      rw [polyCoeffs_none k R hn]
    · subst hr
      obtain ⟨t2, more2, v2, ws2, R2, _, e4, _, _, hj2, hc2, _⟩ := join_head more0 ws hm0 hm tail hst
      subst e4
      obtain ⟨k2, rfl⟩ : ∃ k2, k = k2 + 1 := ⟨k - 1, by simp at hlen; omega⟩
      rw [polyCoeffs_space k2 _ v2 R2 (by rw [hj2]; exact hc2)]
      rw [ih (v2 :: ws2) hm0 hm (k2 + 1) (by simp at hlen ⊢; omega)]

/-- a canonical number list begins with a sign or digit: no white space, no colon -/
theorem numbers_head (body : List Char) (vs : List Rat) (h : numbers body = some vs) :
    dropSpace body = body ∧ body.head? ≠ some ':' ∧ body ≠ [] := by
  unfold numbers at h
  have hj := join_split body
  obtain ⟨t, more, v, ws, R, e1, _, ht, _, hj2, _, _⟩ :=
    join_head (IterSpec.splitOn ' ' body) vs (splitOn_ne_nil body) h [] stops_nil
  rw [List.append_nil, hj] at hj2
  have hne := strict_ne_nil t v ht
  cases t with
  | nil => exact absurd rfl hne
  | cons c cs =>
    have hc := strict_head (c :: cs) v ht c rfl
    rw [hj2]
    refine ⟨?_, ?_, by simp⟩
    · apply dropSpace_id
      rcases hc with e | e | e
      · subst e; decide
      · subst e; decide
      · exact digit_not_space c e
    · simp only [List.cons_append, List.head?_cons, ne_eq, Option.some.injEq]
      rcases hc with e | e | e
      · subst e; decide
      · subst e; decide
      · intro e; subst e; simp [isDigit] at e

theorem numbers_polyCoeffs (body : List Char) (vs : List Rat) (h : numbers body = some vs) (n : Nat)
    (hn : vs.length ≤ n) : polyCoeffs n body = (vs, []) := by
  have hj := join_split body
  unfold numbers at h
  have := polyCoeffs_join (IterSpec.splitOn ' ' body) vs (splitOn_ne_nil body) h [] stops_nil noNumber_nil n hn
  rwa [List.append_nil, hj] at this

theorem numbers_getValues (body : List Char) (vs : List Rat) (h : numbers body = some vs) (n : Nat)
    (hn : vs.length ≤ n) : getValues n body = some vs := by
  unfold getValues
  rw [numbers_polyCoeffs body vs h n hn]
  rfl

/-! ### the three profiles -/

theorem profSkip_space (b : List Char) : profSkip (' ' :: b) = profSkip b := by
  unfold profSkip
  have : dropSpace (' ' :: b) = dropSpace b := by simp [dropSpace, isSpace]
  rw [this]

def pick2 (vs : Option (List Rat)) (f : Rat → Rat → Option Gen) : Option Gen :=
  match vs with | some [a, b] => f a b | _ => none
def pick3 (vs : Option (List Rat)) (f : Rat → Rat → Rat → Option Gen) : Option Gen :=
  match vs with | some [a, b, c] => f a b c | _ => none

theorem profile_lin1 (grid : List Rat) (body : List Char) (vs : Option (List Rat)) (hge : grid.isEmpty = false)
    (hps : profSkip body = body) (hgv : getValues 2 body = vs) :
    profile grid ("lin".toList ++ ' ' :: body) = pick2 vs (mkLinear grid.length) := by
  have l3 : "lin".length = 3 := by decide
  simp [profile, hge, dropSpace, isSpace, startsWithCI, lowerAll, lower, profNext, profCont, profSkip_space, hps, l3, hgv]
  match vs with
  | none => rfl
  | some [] => rfl
  | some [_] => rfl
  | some [_, _] => rfl
  | some (_ :: _ :: _ :: _) => rfl

theorem profile_lin2 (grid : List Rat) (body : List Char) (vs : Option (List Rat)) (hge : grid.isEmpty = false)
    (hps : profSkip body = body) (hgv : getValues 2 body = vs) :
    profile grid ("linear".toList ++ ' ' :: body) = pick2 vs (mkLinear grid.length) := by
  have l3 : "lin".length = 3 := by decide
  simp [profile, hge, dropSpace, isSpace, startsWithCI, lowerAll, lower, profNext, profCont, profSkip_space, hps, l3, hgv]
  match vs with
  | none => rfl
  | some [] => rfl
  | some [_] => rfl
  | some [_, _] => rfl
  | some (_ :: _ :: _ :: _) => rfl

theorem profile_bound1 (grid : List Rat) (body : List Char) (vs : Option (List Rat)) (hge : grid.isEmpty = false)
    (hps : profSkip body = body) (hgv : getValues 3 body = vs) :
    profile grid ("bound".toList ++ ' ' :: body) = pick3 vs (mkBoundary grid.length) := by
  have l3 : "lin".length = 3 := by decide
  have l5 : "bound".length = 5 := by decide
  simp [profile, hge, dropSpace, isSpace, startsWithCI, lowerAll, lower, profNext, profCont, profSkip_space, hps, l3, l5, hgv]
  match vs with
  | none => rfl
  | some [] => rfl
  | some [_] => rfl
  | some [_, _] => rfl
  | some [_, _, _] => rfl
  | some (_ :: _ :: _ :: _ :: _) => rfl

theorem profile_bound2 (grid : List Rat) (body : List Char) (vs : Option (List Rat)) (hge : grid.isEmpty = false)
    (hps : profSkip body = body) (hgv : getValues 3 body = vs) :
    profile grid ("boundary".toList ++ ' ' :: body) = pick3 vs (mkBoundary grid.length) := by
  have l3 : "lin".length = 3 := by decide
  have l5 : "bound".length = 5 := by decide
  simp [profile, hge, dropSpace, isSpace, startsWithCI, lowerAll, lower, profNext, profCont, profSkip_space, hps, l3, l5, hgv]
  match vs with
  | none => rfl
  | some [] => rfl
  | some [_] => rfl
  | some [_, _] => rfl
  | some [_, _, _] => rfl
  | some (_ :: _ :: _ :: _ :: _) => rfl

theorem profile_poly (grid : List Rat) (body : List Char) (hge : grid.isEmpty = false) (hps : profSkip body = body) :
    profile grid ("poly".toList ++ ' ' :: body) = mkPoly body grid := by
  have l3 : "lin".length = 3 := by decide
  have l5 : "bound".length = 5 := by decide
  have l4 : "poly".length = 4 := by decide
  simp [profile, hge, dropSpace, isSpace, startsWithCI, lowerAll, lower, profNext, profSkip_space, hps, l3, l5, l4]

theorem profSkip_numbers (body : List Char) (vs : List Rat) (h : numbers body = some vs) : profSkip body = body := by
  obtain ⟨h1, h2, _⟩ := numbers_head body vs h
  unfold profSkip
  simp only [h1]
  rw [if_neg h2]

theorem mkLinear_ok (n : Nat) (a b : Rat) (hn : 1 ≤ n) :
    ∃ g, mkLinear (n + 1) a b = some g ∧ g.all = (IterSpec.linear n a b).elems ∧ g.rem = g.all ∧ g.WF := by
  refine ⟨.linear a ((b - a) / ((n : Nat) : Rat)) (n + 1) 0, ?_, ?_, ?_, trivial⟩
  · unfold mkLinear
    rw [if_neg (by omega)]
    simp
  · simp [Gen.all, IterSpec.linear, Den.elems]
  · simp [Gen.rem]

theorem boundary_all (l i r : Rat) (len : Nat) :
    (Gen.boundary l i r len 0).all = (IterSpec.boundary len l i r).elems := by
  simp only [Gen.all, IterSpec.boundary, Den.elems]
  apply List.map_congr_left
  intro k hk
  have : k < len := by simpa using hk
  unfold bndNth
  by_cases h0 : k = 0
  · simp [h0]
  · simp only [h0, ↓reduceIte]
    by_cases h1 : k < len - 1
    · rw [if_pos h1, if_pos (by omega)]
    · rw [if_neg h1, if_neg (by omega)]

theorem poly_elems (grid : List Rat) (coeff : List (Rat × Rat)) :
    (IterSpec.poly grid coeff).elems = grid.map (IterSpec.polyAt coeff) := by
  unfold IterSpec.poly Den.elems
  apply List.ext_getElem?
  intro i
  simp only [List.getElem?_map, List.getElem?_range]
  by_cases hi : i < grid.length
  · simp [hi, List.getD_eq_getElem?_getD, List.getElem?_eq_getElem hi]
  · simp [hi, List.getElem?_eq_none (Nat.le_of_not_lt hi)]

theorem grid_ne (grid : List Rat) (h : 2 ≤ grid.length) : grid.isEmpty = false := by
  cases grid with
  | nil => simp at h
  | cons _ _ => rfl

/-- **a canonical profile description is accepted and denotes its sequence** -/
theorem accept_profile (grid : List Rat) (s : List Char) (d : PDesc) (den : Den)
    (h : recogniseProfile s = some d) (hd : d.den grid = some den) :
    ∃ g, profile grid s = some g ∧ g.all = den.elems ∧ g.rem = g.all ∧ g.WF := by
  unfold recogniseProfile at h
  simp only [] at h
  have hsplit := List.takeWhile_append_dropWhile (p := isLetter) (l := s)
  split at h
  · rename_i body hbody
    rw [hbody] at hsplit
    split at h
    · -- lin / linear
      rename_i hname
      split at h
      · rename_i a b hnum
        cases h
        simp only [PDesc.den] at hd
        split at hd
        · rename_i hg
          cases hd
          have hgv := numbers_getValues body [a, b] hnum 2 (by simp)
          have hps := profSkip_numbers body [a, b] hnum
          obtain ⟨n, hn⟩ : ∃ n, grid.length = n + 1 := ⟨grid.length - 1, by omega⟩
          obtain ⟨g, h1, h2, h3, h4⟩ := mkLinear_ok n a b (by omega)
          refine ⟨g, ?_, by rw [h2, hn]; rfl, h3, h4⟩
          rw [← h1, ← hn]
          rcases hname with e | e
          · have := ofList_eq _ _ e
            rw [this] at hsplit
            rw [← hsplit, profile_lin1 grid body _ (grid_ne grid hg) hps hgv]
            rfl
          · have := ofList_eq _ _ e
            rw [this] at hsplit
            rw [← hsplit, profile_lin2 grid body _ (grid_ne grid hg) hps hgv]
            rfl
        · cases hd
      · cases h
    · split at h
      · -- bound / boundary
        rename_i hname
        split at h
        · rename_i l i r hnum
          cases h
          simp only [PDesc.den] at hd
          split at hd
          · rename_i hg
            cases hd
            have hgv := numbers_getValues body [l, i, r] hnum 3 (by simp)
            have hps := profSkip_numbers body [l, i, r] hnum
            refine ⟨.boundary l i r grid.length 0, ?_, boundary_all l i r grid.length, by simp [Gen.rem], trivial⟩
            have hmk : mkBoundary grid.length l i r = some (.boundary l i r grid.length 0) := by
              unfold mkBoundary; rw [if_neg (by omega)]
            rw [← hmk]
            rcases hname with e | e
            · have := ofList_eq _ _ e
              rw [this] at hsplit
              rw [← hsplit, profile_bound1 grid body _ (grid_ne grid hg) hps hgv]
              rfl
            · have := ofList_eq _ _ e
              rw [this] at hsplit
              rw [← hsplit, profile_bound2 grid body _ (grid_ne grid hg) hps hgv]
              rfl
          · cases hd
        · cases h
      · split at h
        · -- poly
          rename_i hname
          have hnm := ofList_eq _ _ hname
          rw [hnm] at hsplit
          have hprof : ∀ g, mkPoly body grid = some g → grid.isEmpty = false → dropSpace body = body →
              body.head? ≠ some ':' → profile grid s = some g := by
            intro g hg hge hds hcol
            rw [← hsplit, ← hg]
            have hps : profSkip body = body := by unfold profSkip; simp only [hds]; rw [if_neg hcol]
            exact profile_poly grid body hge hps
          split at h
          · -- coefficients only
            rename_i m hsp
            have hj := join_splitC ':' body
            rw [hsp] at hj
            simp only [joinC] at hj
            subst hj
            cases hm : numbers m with
            | none => rw [hm] at h; simp at h
            | some ms =>
              rw [hm] at h
              simp only [Option.bind_some] at h
              split at h
              · cases h
              · rename_i hlen
                cases h
                simp only [PDesc.den] at hd
                split at hd
                · cases hd
                · rename_i hge
                  cases hd
                  obtain ⟨hds, hcol, _⟩ := numbers_head m ms hm
                  have hpc : polyCoeffs 128 m = (ms, []) := numbers_polyCoeffs m ms hm 128 (by omega)
                  have hms : ms ≠ [] := by
                    intro e
                    have hl := allSome_length _ _ hm
                    rw [e] at hl
                    cases hq : IterSpec.splitOn ' ' m with
                    | nil => exact splitOn_ne_nil m hq
                    | cons _ _ => rw [hq] at hl; simp at hl
                  have hmk : mkPoly m grid = some (.poly grid (polyCoeff ms []) 0 none) := by
                    unfold mkPoly
                    simp only [hpc]
                    rw [if_neg (by simpa using hms)]
                    simp [dropSpace, polyCoeff]
                  refine ⟨_, hprof _ hmk (by simpa using hge) hds hcol, ?_, by simp [Gen.rem], ?_⟩
                  · rw [poly_elems]
                    simp only [Gen.all]
                    apply List.map_congr_left
                    intro x _
                    exact polyEval_eq _ x
                  · intro v hv; cases hv
          · -- coefficients and shifts
            rename_i m sh hsp
            have hj := join_splitC ':' body
            rw [hsp] at hj
            simp only [joinC] at hj
            split at h
            · rename_i hends
              obtain ⟨hlast, hfirst⟩ := hends
              cases hm : numbers m.dropLast with
              | none => rw [hm] at h; simp at h
              | some ms =>
                cases hs : numbers sh.tail with
                | none => rw [hm, hs] at h; simp at h
                | some ss =>
                  rw [hm, hs] at h
                  simp only [] at h
                  split at h
                  · cases h
                  · rename_i hlen
                    cases h
                    simp only [not_or, Nat.not_lt, Nat.not_le] at hlen
                    simp only [PDesc.den] at hd
                    split at hd
                    · cases hd
                    · rename_i hge
                      cases hd
                      -- the shape of the text
                      have hm' : m = m.dropLast ++ [' '] := by
                        have hne : m ≠ [] := by intro e; subst e; simp at hlast
                        have h3 := List.dropLast_concat_getLast hne
                        rw [List.getLast?_eq_some_getLast hne] at hlast
                        have h4 : m.getLast hne = ' ' := by simpa using hlast
                        rw [h4] at h3
                        exact h3.symm
                      have hsh' : sh = ' ' :: sh.tail := by
                        cases sh with
                        | nil => simp at hfirst
                        | cons x xs => simp at hfirst; subst hfirst; rfl
                      have hbody : body = m.dropLast ++ (' ' :: ':' :: ' ' :: sh.tail) := by
                        rw [← hj, hm', hsh']; simp
                      obtain ⟨hds0, hcol0, hne0⟩ := numbers_head m.dropLast ms hm
                      have hds : dropSpace body = body := by
                        rw [hbody]
                        cases hq : m.dropLast with
                        | nil => exact absurd hq hne0
                        | cons c cs =>
                          rw [hq] at hds0
                          have : isSpace c = false := dropSpace_head (c :: cs) c (by rw [hds0]; rfl)
                          exact dropSpace_id c _ this
                      have hcol : body.head? ≠ some ':' := by
                        rw [hbody]
                        cases hq : m.dropLast with
                        | nil => exact absurd hq hne0
                        | cons c cs => rw [hq] at hcol0; simpa using hcol0
                      have hjm := join_split m.dropLast
                      have hjs := join_split sh.tail
                      have hpc : polyCoeffs 128 body = (ms, ' ' :: ':' :: ' ' :: sh.tail) := by
                        have := polyCoeffs_join (IterSpec.splitOn ' ' m.dropLast) ms (splitOn_ne_nil _) hm
                          (' ' :: ':' :: ' ' :: sh.tail) (stops_space _) (noNumber_colon _) 128 hlen.1
                        rwa [hjm, ← hbody] at this
                      have hms : ms ≠ [] := by
                        intro e; rw [e] at hlen; simp at hlen
                      obtain ⟨t2, more2, v2, ws2, R2, _, _, _, _, hj2, hc2, _⟩ :=
                        join_head (IterSpec.splitOn ' ' sh.tail) ss (splitOn_ne_nil _) hs [] stops_nil
                      have hss : ss ≠ [] := by
                        intro e
                        have hl := allSome_length _ _ hs
                        rw [e] at hl
                        cases hq : IterSpec.splitOn ' ' sh.tail with
                        | nil => exact splitOn_ne_nil _ hq
                        | cons _ _ => rw [hq] at hl; simp at hl
                      have hsl : 1 ≤ ss.length := by
                        cases ss with
                        | nil => exact absurd rfl hss
                        | cons _ _ => simp
                      obtain ⟨k, hk⟩ : ∃ k, ms.length - 1 = k + 1 := ⟨ms.length - 2, by omega⟩
                      have hsh : polyCoeffs (ms.length - 1) (' ' :: sh.tail) = (ss, []) := by
                        rw [hk, polyCoeffs_space k sh.tail v2 R2 (by
                          have := hc2; rw [← hj2, List.append_nil, hjs] at this; exact this), ← hk]
                        exact numbers_polyCoeffs sh.tail ss hs _ (by omega)
                      have hmk : mkPoly body grid = some (.poly grid (polyCoeff ms ss) 0 none) := by
                        unfold mkPoly
                        simp only [hpc]
                        rw [if_neg (by simpa using hms)]
                        have hd1 : dropSpace (' ' :: ':' :: ' ' :: sh.tail) = ':' :: ' ' :: sh.tail := by
                          simp [dropSpace, isSpace]
                        simp only [hd1, List.head?_cons, ↓reduceIte, List.tail_cons, hsh]
                        simp [dropSpace, polyCoeff]
                      refine ⟨_, hprof _ hmk (by simpa using hge) hds hcol, ?_, by simp [Gen.rem], ?_⟩
                      · rw [poly_elems]
                        simp only [Gen.all]
                        apply List.map_congr_left
                        intro x _
                        exact polyEval_eq _ x
                      · intro v hv; cases hv
            · cases h
          · cases h
        · cases h
  · cases h

/-! ### malformed profile descriptions -/

theorem toLower_eq : IterSpec.toLower = lower := rfl

theorem startsCI_eq (t : List Char) (w : String) : IterSpec.startsCI t w = startsWithCI t w := by
  unfold IterSpec.startsCI startsWithCI lowerAll
  rw [toLower_eq]

theorem create_like_drop {grid : List Rat} {s : List Char} : profile grid s = profile grid (dropSpace s) := by
  unfold profile
  simp only [dropSpace_idem]

/-- **a malformed profile description is refused** (also every description over an array without points) -/
theorem profile_refused (grid : List Rat) (s : List Char) (h : profileMalformed s = true ∨ grid = []) :
    profile grid s = none := by
  rcases h with h | h
  · unfold profileMalformed at h
    simp only [dropWhile_ws, startsCI_eq, Bool.or_eq_true, Bool.not_eq_eq_eq_not, Bool.not_true,
      Bool.or_eq_false_iff] at h
    by_cases hge : grid.isEmpty = true
    · unfold profile; rw [if_pos hge]
    · have hge : grid.isEmpty = false := by simpa using hge
      rcases h with h | h
      · unfold profile
        rw [if_neg (by simp [hge])]
        simp only []
        rw [if_neg (by simp [h.1.1]), if_neg (by simp [h.1.2]), if_neg (by simp [h.2])]
      · -- too few numbers
        rw [create_like_drop]
        have hsplit := List.takeWhile_append_dropWhile (p := isLetter) (l := dropSpace s)
        split at h
        · rename_i body hbody
          rw [hbody] at hsplit
          cases hn : numbers body with
          | none => rw [hn] at h; simp at h
          | some vs =>
            rw [hn] at h
            simp only [Bool.or_eq_true, Bool.and_eq_true, decide_eq_true_eq] at h
            have hps := profSkip_numbers body vs hn
            rcases h with ⟨hname, hlen⟩ | ⟨hname, hlen⟩
            · have hgv := numbers_getValues body vs hn 2 (by omega)
              rcases hname with e | e
              · have := ofList_eq _ _ e
                rw [this] at hsplit
                have hp := profile_lin1 grid body (some vs) hge hps hgv
                rw [hsplit] at hp
                match vs, hlen, hp with
                | [], _, hp => exact hp
                | [_], _, hp => exact hp
              · have := ofList_eq _ _ e
                rw [this] at hsplit
                have hp := profile_lin2 grid body (some vs) hge hps hgv
                rw [hsplit] at hp
                match vs, hlen, hp with
                | [], _, hp => exact hp
                | [_], _, hp => exact hp
            · have hgv := numbers_getValues body vs hn 3 (by omega)
              rcases hname with e | e
              · have := ofList_eq _ _ e
                rw [this] at hsplit
                have hp := profile_bound1 grid body (some vs) hge hps hgv
                rw [hsplit] at hp
                match vs, hlen, hp with
                | [], _, hp => exact hp
                | [_], _, hp => exact hp
                | [_, _], _, hp => exact hp
              · have := ofList_eq _ _ e
                rw [this] at hsplit
                have hp := profile_bound2 grid body (some vs) hge hps hgv
                rw [hsplit] at hp
                match vs, hlen, hp with
                | [], _, hp => exact hp
                | [_], _, hp => exact hp
                | [_, _], _, hp => exact hp
        · cases h
  · subst h
    rfl

end Mpt.Iter
