/-
  Helper lemmas for C02 (core Lean only): where a decoder call stops.  The bytes a call consumes are non-zero
  except for the delimiter that finishes a message; a message is finished exactly behind the first zero byte
  of the unread input; a `MissingData` exit stands on a zero byte.
-/
import MptModel.Lemmas.DecodeResume
namespace Mpt.Codec
open Mpt.Cobs

/-- what a call that started reading at index `c` of the storage `s` consumed -/
structure Scan (s : List Byte) (c : Nat) (o : DecOut) : Prop where
  unread : o.store.drop o.st.curr = s.drop o.st.curr
  len : o.store.length = s.length
  ge : c ≤ o.st.curr
  le : o.st.curr ≤ s.length
  nz : ∀ i, c ≤ i → i + (if o.ret = .val 1 then 1 else 0) < o.st.curr → s[i]? ≠ some 0
  last : o.ret = .val 1 → c < o.st.curr ∧ s[o.st.curr - 1]? = some 0
  md : o.ret = .err .MissingData → s[o.st.curr]? = some 0

theorem getElem?_of_drop_eq {s t : List Byte} {r : Nat} (h : s.drop r = t.drop r) (i : Nat) (hi : r ≤ i) : s[i]? = t[i]? := by
  have := congrArg (fun x => x[i - r]?) h
  simp only [List.getElem?_drop] at this
  rwa [Nat.add_sub_cancel' hi] at this

theorem Scan.ofSave (s : List Byte) (c : Nat) (l : Loc) (st : DecState) (ret : DecRet) (hne : ret ≠ .val 1)
    (r0 : Nat) (hr0 : l.r = r0) (hd : l.store.drop r0 = s.drop r0) (hl : l.store.length = s.length) (hc : c ≤ r0)
    (hr : r0 ≤ s.length) (hnz : ∀ i, c ≤ i → i < r0 → s[i]? ≠ some 0) (hmd : ret = .err .MissingData → s[r0]? = some 0) :
    Scan s c (l.save st ret) := by
  subst hr0
  refine ⟨hd, hl, hc, hr, ?_, ?_, hmd⟩
  · intro i h1 h2
    simp only [Loc.save, hne, if_false, Nat.add_zero] at h2
    exact hnz i h1 h2
  · intro h; exact absurd h hne

/-- the block loop consumes non-zero bytes, finishes behind a zero byte, stops in front of an inline zero -/
theorem decLoop_scan (v : Variant) (st : DecState) (s : List Byte) (c : Nat) (n : Nat) : ∀ l : Loc,
    l.r + n = l.store.length → l.store.drop l.r = s.drop l.r → l.store.length = s.length → c ≤ l.r →
    (∀ i, c ≤ i → i < l.r → s[i]? ≠ some 0) → Scan s c (decLoop v st false n l) := by
  induction n with
  | zero =>
    intro l hn hd hl hc hnz
    simp only [decLoop]
    exact Scan.ofSave s c l st _ (by simp) l.r rfl hd hl hc (by omega) hnz (by simp)
  | succ n ih =>
    intro l hn hd hl hc hnz
    have hlt : l.r < l.store.length := by omega
    have hb : l.store[l.r]? = some l.store[l.r] := by simp [hlt]
    have hsb : s[l.r]? = some l.store[l.r] := by rw [← getElem?_of_drop_eq hd l.r (Nat.le_refl _)]; exact hb
    have hd1 : l.store.drop (l.r + 1) = s.drop (l.r + 1) := drop_ge_of_drop hd (by omega)
    generalize l.store[l.r] = b at hb hsb
    unfold decLoop
    by_cases hdat : l.pos < lenData v l.code
    · simp only [hdat, if_true, hb]
      by_cases hz : b = 0
      · simp only [hz, if_true]
        exact Scan.ofSave s c _ st _ (by simp) l.r rfl hd hl hc (by omega) hnz (fun _ => by rw [hsb, hz])
      simp only [hz, if_false]
      by_cases hp : l.proc = 0
      · rw [if_pos hp]
        exact Scan.ofSave s c _ st _ (by simp) l.r rfl hd hl hc (by omega) hnz (by simp)
      rw [if_neg hp]
      have hw : l.w < l.r + 1 := by simp only [Loc.w, Loc.r]; omega
      rw [Loc.put_some { l with reads := l.reads ++ [l.r] } (l.r + 1) b hw (by simp only; omega)]
      simp only
      apply ih
      · simp only [Loc.r, List.length_set] at *; omega
      · simp only [Loc.r, Loc.w] at *
        rw [show l.done + (l.mlen + 1) + l.proc = l.done + l.mlen + l.proc + 1 by omega,
          drop_set_lt _ _ _ _ (by omega)]
        exact hd1
      · simp only [List.length_set]; exact hl
      · simp only [Loc.r] at *; omega
      · intro i h1 h2
        by_cases hi : i < l.r
        · exact hnz i h1 hi
        · have : i = l.r := by simp only [Loc.r] at *; omega
          subst this
          rw [hsb]; simp [hz]
    · simp only [hdat, if_false, Bool.false_eq_true, hb]
      obtain ⟨j, _, _, _, g1, g2, g3, _, _, g6, g7, _⟩ := putZeros_gen (lenData v l.code + lenZero v l.code b.toNat - l.pos)
        { l with reads := l.reads ++ [l.r] } (l.r + 1) rfl (by simp only; omega)
      generalize hq : putZeros (lenData v l.code + lenZero v l.code b.toNat - l.pos) { l with reads := l.reads ++ [l.r] } (l.r + 1) = q at g1 g2 g3 g6 g7
      obtain ⟨l', ok⟩ := q
      simp only at g1 g2 g3 g6 g7
      have hr' : l'.r = l.r := by simp only [Loc.r] at *; omega
      have hdr : l'.store.drop l.r = s.drop l.r := by
        have : ({ l with reads := l.reads ++ [l.r] } : Loc).r = l.r := rfl
        rw [this] at g7; rw [g7]; exact hd
      cases ok
      · simp only
        exact Scan.ofSave s c l' st _ (by simp) l.r hr' hdr (by rw [g6]; exact hl) hc (by omega) hnz (by simp)
      · show Scan s c (if b = 0 then _ else _)
        by_cases hz : b = 0
        · simp only [hz, if_true]
          refine ⟨?_, by simp only; rw [g6]; exact hl, by simp only [Loc.r] at *; omega, by simp only [Loc.r] at *; omega, ?_, ?_, by simp⟩
          · simp only [Loc.r] at *
            rw [show l'.done + l'.mlen + (l'.proc + 1) = l.done + l.mlen + l.proc + 1 by omega]
            rw [drop_ge_of_drop hdr (by omega)]
          · intro i h1 h2
            simp only [Loc.r, if_true] at h2 hr'
            exact hnz i h1 (by simp only [Loc.r]; omega)
          · intro _
            simp only [Loc.r] at *
            refine ⟨by omega, ?_⟩
            rw [show l'.done + l'.mlen + (l'.proc + 1) - 1 = l.done + l.mlen + l.proc by omega, hsb, hz]
        · simp only [hz, if_false]
          apply ih
          · simp only [Loc.r] at *; omega
          · simp only [Loc.r] at *
            rw [show l'.done + l'.mlen + (l'.proc + 1) = l.done + l.mlen + l.proc + 1 by omega]
            exact (drop_ge_of_drop hdr (by omega)).trans (by rfl)
          · simp only; rw [g6]; exact hl
          · simp only [Loc.r] at *; omega
          · intro i h1 h2
            by_cases hi : i < l.r
            · exact hnz i h1 hi
            · have : i = l.r := by simp only [Loc.r] at *; omega
              subst this
              rw [hsb]; simp [hz]

end Mpt.Codec
