/-
  mpt_node_move: merging one realised sibling list into another one (the model of node_move.c after the two
  fixes: re-parented children are detached from the source, the list reference follows the first element only).
-/
import MptModel.Lemmas.NodesNames
namespace Mpt.Nodes
open Mpt Mpt.Forest

/-- exchanging the children of one element of a realised sibling list -/
theorem Real.replace_kids {s s' : Store} {i : Nat} {n : Name} {v : Val} {cs cs' : Forest} :
    ∀ {L : Forest} {par prev : Option Nat} {j : Nat},
    Real s par prev L → L[j]? = some (.node i n v cs) → (ids L).Nodup →
    (∀ k ∈ ids L, k ≠ i → k ∉ ids cs → s'.nodes[k]? = s.nodes[k]?) →
    s'.nodes[i]? = (s.nodes[i]?).map (fun x => { x with children := headId cs' }) →
    Real s' (some i) none cs' →
    Real s' par prev (L.set j (.node i n v cs'))
  | [], _, _, _, _, h, _, _, _, _ => by simp at h
  | (.node i0 n0 v0 c0) :: ts, par, prev, 0, hR, h, hnd, hfr, hi, hK => by
    simp at h
    obtain ⟨rfl, rfl, rfl, rfl⟩ := h
    rw [Real_cons] at hR
    rw [ids_cons, List.nodup_cons, List.mem_append, List.nodup_append] at hnd
    obtain ⟨hni, ndcs, ndts, disj⟩ := hnd
    simp only [List.set_cons_zero]
    rw [Real_cons]
    refine ⟨by rw [hi, hR.1]; rfl, hK, ?_⟩
    refine Real.frame hR.2.2 (fun k hk => hfr k (by simp [hk]) ?_ ?_)
    · rintro rfl; exact hni (Or.inr hk)
    · intro h; exact disj k h k hk rfl
  | (.node i0 n0 v0 c0) :: ts, par, prev, j + 1, hR, h, hnd, hfr, hi, hK => by
    rw [Real_cons] at hR
    rw [ids_cons, List.nodup_cons, List.mem_append, List.nodup_append] at hnd
    obtain ⟨hni, ndcs, ndts, disj⟩ := hnd
    have h' : ts[j]? = some (.node i n v cs) := by simpa using h
    have himem : i ∈ ids ts := by
      have := idx?_mem (idx?_of_getElem? ndts h')
      simpa [Tree.id] using this
    have hcsub : ∀ k ∈ ids cs, k ∈ ids ts := by
      intro k hk
      obtain ⟨a, b, hab⟩ := List.append_of_mem (List.mem_of_getElem? h')
      rw [hab, ids_append]; simp [hk]
    simp only [List.set_cons_succ]
    rw [Real_cons]
    have hhead : headId (ts.set j (.node i n v cs')) = headId ts := by
      cases ts with
      | nil => simp at h'
      | cons t ts' =>
        cases j with
        | zero => simp at h'; subst h'; simp
        | succ j' => cases t; simp
    refine ⟨?_, ?_, ?_⟩
    · rw [hfr i0 (by simp) (by rintro rfl; exact hni (Or.inr himem)) (fun h => hni (Or.inr (hcsub i0 h))), hR.1, hhead]
    · refine Real.frame hR.2.1 (fun k hk => hfr k (by simp [hk]) ?_ ?_)
      · rintro rfl; exact disj k hk k himem rfl
      · intro h; exact disj k hk k (hcsub k h) rfl
    · exact Real.replace_kids hR.2.2 h' ndts (fun k hk h1 h2 => hfr k (by simp [hk]) h1 h2) hi hK

/-- the re-parenting loop of node_move.c on a realised list: every element names `p`, the count grows by the length -/
theorem reparent_spec {p : Nat} : ∀ (K : Forest) (s : Store) (fuel m : Nat) (par0 prev : Option Nat),
    Real s par0 prev K → (ids K).Nodup → K.length ≤ fuel →
    ∃ s', s.reparent p fuel (headId K) m = .ok (s', m + K.length) ∧ Real s' (some p) prev K ∧ SameLife s s' ∧
      s'.nodes.length = s.nodes.length ∧ ∀ i, i ∉ K.map Tree.id → s'.nodes[i]? = s.nodes[i]?
  | [], s, fuel, m, _, prev, _, _, _ =>
    ⟨s, by simp [Store.reparent], by simp, ⟨rfl, fun _ => rfl⟩, rfl, fun _ _ => rfl⟩
  | (.node i n v cs) :: ts, s, fuel, m, par0, prev, hR, hnd, hf => by
    rw [Real_cons] at hR
    rw [ids_cons, List.nodup_cons, List.mem_append, List.nodup_append] at hnd
    obtain ⟨hni, ndcs, ndts, disj⟩ := hnd
    obtain ⟨f, rfl⟩ : ∃ f, fuel = f + 1 := ⟨fuel - 1, by simp at hf; omega⟩
    have hlive : s.Live i (recOf (headId ts) prev par0 cs n v) := ⟨hR.1, rfl⟩
    obtain ⟨s1, e1, u1⟩ := Store.modify_ok hlive (fun x => { x with parent := some p })
    have hts1 : Real s1 par0 (some i) ts := Real.frame hR.2.2 (fun k hk => by
      rw [u1.2.2 k]; have : k ≠ i := by rintro rfl; exact hni (Or.inr hk)
      simp [this])
    obtain ⟨s2, e2, r2, l2, len2, f2⟩ := reparent_spec ts s1 f (m + 1) par0 (some i) hts1 ndts (by simpa using hf)
    have hits : i ∉ ts.map Tree.id := fun h => hni (Or.inr (map_id_subset_ids ts i h))
    refine ⟨s2, ?_, ?_, ?_, ?_, ?_⟩
    · simp only [headId_cons, Store.reparent, Store.get_ok hlive, Res.bind_ok, e1]
      rw [e2]; simp; omega
    · rw [Real_cons]
      refine ⟨?_, ?_, r2⟩
      · rw [f2 i hits, u1.2.2 i]; simp
      · refine Real.frame hR.2.1 (fun k hk => ?_)
        have hki : k ≠ i := by rintro rfl; exact hni (Or.inl hk)
        have hkts : k ∉ ts.map Tree.id := fun h => disj k hk k (map_id_subset_ids ts k h) rfl
        rw [f2 k hkts, u1.2.2 k, if_neg hki]
    · refine ⟨by rw [l2.1, u1.1], fun k => ?_⟩
      rw [l2.2 k, u1.2.2 k]
      by_cases hk : k = i
      · subst hk; simp [hR.1]
      · simp [hk]
    · rw [len2, u1.2.1]
    · intro k hk
      simp only [List.map_cons, List.mem_cons, not_or, Tree.id] at hk
      rw [f2 k hk.2, u1.2.2 k, if_neg hk.1]

theorem prevAt_map_mem {L : Forest} {j k : Nat} (h : prevAt none L j = some k) : k ∈ L.map Tree.id := by
  rw [prevAt_none_eq] at h
  split at h
  · simp at h
  · cases hq : L[j - 1]? with
    | none => simp [hq] at h
    | some t => simp [hq] at h; subst h; exact List.mem_map.2 ⟨t, List.mem_of_getElem? hq, rfl⟩

theorem headId_drop_map_mem {L : Forest} {j k : Nat} (h : headId (L.drop j) = some k) : k ∈ L.map Tree.id := by
  rw [headId_drop] at h
  cases hq : L[j]? with
  | none => simp [hq] at h
  | some t => simp [hq] at h; subst h; exact List.mem_map.2 ⟨t, List.mem_of_getElem? hq, rfl⟩

/-- `mpt_node_unlink` of the `j`-th element of a realised sibling list, with the parent's child link -/
theorem unlink_list_spec {s : Store} {S : Forest} {ps : Option Nat} {j : Nat} {t : Tree}
    (hS : Real s ps none S) (hnd : (ids S).Nodup) (ht : S[j]? = some t)
    (hpar : ∀ p, ps = some p → p ∉ ids S ∧ ∃ pn, s.Live p pn ∧ pn.children = headId S) :
    ∃ s', s.unlink t.id = .ok (s', headId (S.drop (j + 1))) ∧ Real s' ps none (S.eraseIdx j) ∧ Real s' none none [t] ∧
      (∀ p, ps = some p → s'.nodes[p]? = (s.nodes[p]?).map (fun x => { x with children := headId (S.eraseIdx j) })) ∧
      SameLife s s' ∧ s'.nodes.length = s.nodes.length ∧
      (∀ i, i ∉ S.map Tree.id → some i ≠ ps → s'.nodes[i]? = s.nodes[i]?) := by
  have hidx : idx? t.id S = some j := idx?_of_getElem? hnd ht
  have hxS : t.id ∈ ids S := idx?_mem hidx
  obtain ⟨xcs, xn, xv, hxrec⟩ := Real.rec_at' hS hidx
  have hnxtL : ∀ q, headId (S.drop (j + 1)) = some q → q ∈ ids S :=
    fun q hq => ids_drop_subset S _ q (headId_mem hq)
  obtain ⟨s', hs', hfreed, hlen, heff⟩ := Store.unlink_ok (s := s) (c := t.id) ⟨hxrec, rfl⟩
    (by
      intro q hq
      obtain ⟨qn, hqn⟩ := Real.live hS q (hnxtL q hq)
      refine ⟨qn, hqn, ?_⟩
      rintro rfl
      exact idx?_not_mem_drop hidx hnd (headId_mem hq))
    (by
      intro q hq
      have hqL : q ∈ ids S := prevAt_mem hq
      obtain ⟨qn, hqn⟩ := Real.live hS q hqL
      refine ⟨qn, hqn, ?_, ?_⟩
      · rintro rfl; exact prevAt_ne hidx hnd (by simp) hq
      · exact fun h => prevAt_ne_next hidx hnd (by simp) q hq h.symm)
    (by
      intro _ r hr
      obtain ⟨hrL, rn, hrn, _⟩ := hpar r hr
      refine ⟨rn, hrn, by rintro rfl; exact hrL hxS, ?_⟩
      exact fun h => hrL (hnxtL r h.symm))
  have hUE : UnlinkEff s s' t.id (headId (S.drop (j + 1))) (prevAt none S j) ps := by
    intro i
    rw [heff i]
    by_cases h1 : i = t.id
    · subst h1; simp [hxrec]
    · simp [h1]
  obtain ⟨hloc, hT⟩ := real_unlink_list (t := t) hS hidx ht hnd (by simp) (fun k hk => (hpar k hk).1) hUE
  refine ⟨s', hs', hloc, hT, ?_, ⟨hfreed, ?_⟩, hlen, ?_⟩
  · intro p hp
    obtain ⟨hpL, pn, hpn, hpc⟩ := hpar p hp
    rw [hUE p]
    have h1 : p ≠ t.id := by rintro rfl; exact hpL hxS
    have h2 : some p ≠ headId (S.drop (j + 1)) := fun h => hpL (hnxtL p h.symm)
    have h3 : some p ≠ prevAt none S j := fun h => hpL (prevAt_mem h.symm)
    simp only [h1, h2, h3, ↓reduceIte]
    have hSne : S ≠ [] := by intro h; simp [h] at ht
    cases j with
    | zero =>
      simp [prevAt, hp]
    | succ j' =>
      have h4 : ¬ (prevAt none S (j' + 1) = none ∧ some p = ps) := by
        intro ⟨h, _⟩
        rw [prevAt_none_eq] at h
        simp at h
        have hlt := (List.getElem?_eq_some_iff.1 ht).1
        omega
      rw [if_neg h4, hpn.1, headId_eraseIdx_succ S j' hSne]
      simp [← hpc]
  · intro i
    rw [hUE i]
    cases hsi : s.nodes[i]? <;> (repeat' split) <;> simp
  · intro i hi hip
    rw [hUE i]
    have h1 : i ≠ t.id := by rintro rfl; exact hi (List.mem_map.2 ⟨t, List.mem_of_getElem? ht, rfl⟩)
    have h2 : some i ≠ headId (S.drop (j + 1)) := fun h => hi (headId_drop_map_mem h.symm)
    have h3 : some i ≠ prevAt none S j := fun h => hi (prevAt_map_mem h.symm)
    have h4 : ¬ (prevAt none S j = none ∧ some i = ps) := fun ⟨_, h⟩ => hip h
    simp [h1, h2, h3, h4]

/-- `mpt_gnode_add(last, 0, r)`: the detached root `r` is appended to the realised sibling list `D` -/
theorem append_spec {s : Store} {D : Forest} {pd : Option Nat} {li r : Nat} {tl : Tree} {n : Name} {v : Val} {cs : Forest}
    (hD : Real s pd none D) (hnd : (ids D ++ ids [.node r n v cs]).Nodup) (htl : D[li]? = some tl)
    (hT : Real s none none [.node r n v cs]) (hfuel : D.length ≤ s.fuel) :
    ∃ s', s.nodeInsert tl.id 0 r false = .ok s' ∧ Real s' pd none (D ++ [.node r n v cs]) ∧ SameLife s s' ∧
      s'.nodes.length = s.nodes.length ∧ (∀ i, i ∉ D.map Tree.id → i ≠ r → s'.nodes[i]? = s.nodes[i]?) := by
  have hndD := (List.nodup_append.1 hnd).1
  have hdisj := (List.nodup_append.1 hnd).2.2
  obtain ⟨jt, tt, htt, hcase⟩ := nodeInsert_pos (x := r) 0 hD htl hfuel
  have hjt : jt + 1 = D.length := by
    rcases hcase with ⟨_, h⟩ | ⟨_, h⟩
    · simpa [addIdx] using h.symm
    · simp [addIdx] at h
      have := (List.getElem?_eq_some_iff.1 htt).1
      omega
  have heq : s.nodeInsert tl.id 0 r false = s.gnodeAfter (some tt.id) r := by
    rcases hcase with ⟨h, _⟩ | ⟨_, h⟩
    · exact h
    · simp [addIdx] at h
      have := (List.getElem?_eq_some_iff.1 htt).1
      omega
  have hidx : idx? tt.id D = some jt := idx?_of_getElem? hndD htt
  obtain ⟨pv, pcs, pn, pvv, hprec, _⟩ := Real.rec_at hD hidx
  have hdrop : D.drop (jt + 1) = [] := by apply List.drop_eq_nil_of_le; omega
  rw [hdrop] at hprec
  have hxrec := hT
  rw [Real_cons] at hxrec
  have httmem : tt.id ∈ ids D := idx?_mem hidx
  have hne : r ≠ tt.id := by rintro rfl; exact hdisj _ httmem _ (by simp) rfl
  obtain ⟨s', hs', hfreed, hlen', heff⟩ := Store.gnodeAfter_ok (s := s) (p := tt.id) (x := r) ⟨hprec, rfl⟩ ⟨hxrec.1, rfl⟩ hne
    (by intro q hq; simp at hq)
  have hAE : AfterEff s s' tt.id r (headId (D.drop (jt + 1))) pd := by
    rw [hdrop]
    intro i
    rw [heff i]
    by_cases h1 : i = r
    · subst h1; simp [hxrec.1]
    · by_cases h2 : i = tt.id
      · subst h2; simp [h1, hprec]
      · simp [h1, h2]
  have hloc := real_after_list hD hidx hT hnd hAE
  have hins : D.insertIdx (jt + 1) (.node r n v cs) = D ++ [.node r n v cs] := by
    rw [hjt]; exact List.insertIdx_length_self
  rw [hins] at hloc
  refine ⟨s', by rw [heq]; exact hs', hloc, ⟨hfreed, ?_⟩, hlen', ?_⟩
  · intro i
    rw [hAE i]
    cases hsi : s.nodes[i]? <;> (repeat' split) <;> simp
  · intro i hi hir
    rw [hAE i, hdrop]
    have : i ≠ tt.id := by rintro rfl; exact hi (List.mem_map.2 ⟨tt, List.mem_of_getElem? htt, rfl⟩)
    simp [hir, this]


/-! ### unfolding `merge` case by case -/

theorem merge_nil (D : Forest) (d : Nat) : merge [] D d = ([], D, 0) := by simp [merge]

theorem merge_none {i : Nat} {n : Name} {v : Val} {cs ts D : Forest} {d : Nat} (hf : findName D d n = none) :
    merge (.node i n v cs :: ts) D d =
      ((merge ts (D ++ [.node i n v cs]) d).1, (merge ts (D ++ [.node i n v cs]) d).2.1,
        (merge ts (D ++ [.node i n v cs]) d).2.2 + 1) := by
  rw [merge]; simp only [hf]

theorem merge_leaf {i : Nat} {n : Name} {v : Val} {ts D : Forest} {d jm : Nat} {t : Tree}
    (hf : findName D d n = some jm) (ht : D[jm]? = some t) :
    merge (.node i n v [] :: ts) D d = (.node i n v [] :: (merge ts D d).1, (merge ts D d).2.1, (merge ts D d).2.2) := by
  rw [merge]; simp only [hf, ht]

theorem merge_hand {i : Nat} {n : Name} {v : Val} {c : Tree} {cs' ts D : Forest} {d jm tj : Nat} {tn : Name} {tv : Val}
    (hf : findName D d n = some jm) (ht : D[jm]? = some (.node tj tn tv [])) :
    merge (.node i n v (c :: cs') :: ts) D d =
      (.node i n v [] :: (merge ts (D.set jm (.node tj tn tv (c :: cs'))) d).1,
        (merge ts (D.set jm (.node tj tn tv (c :: cs'))) d).2.1,
        (merge ts (D.set jm (.node tj tn tv (c :: cs'))) d).2.2 + (c :: cs').length) := by
  rw [merge]; simp only [hf, ht, Tree.children, Tree.setChildren]

theorem merge_rec {i : Nat} {n : Name} {v : Val} {c : Tree} {cs' ts D : Forest} {d jm tj : Nat} {tn : Name} {tv : Val}
    {tc : Tree} {tcs' : Forest}
    (hf : findName D d n = some jm) (ht : D[jm]? = some (.node tj tn tv (tc :: tcs'))) :
    merge (.node i n v (c :: cs') :: ts) D d =
      (.node i n v (merge (c :: cs') (tc :: tcs') 0).1 ::
          (merge ts (D.set jm (.node tj tn tv (merge (c :: cs') (tc :: tcs') 0).2.1)) d).1,
        (merge ts (D.set jm (.node tj tn tv (merge (c :: cs') (tc :: tcs') 0).2.1)) d).2.1,
        (merge ts (D.set jm (.node tj tn tv (merge (c :: cs') (tc :: tcs') 0).2.1)) d).2.2 +
          (merge (c :: cs') (tc :: tcs') 0).2.2) := by
  rw [merge]; simp only [hf, ht, Tree.children, Tree.setChildren]

theorem ids_split_at : ∀ {D : Forest} {jm j : Nat} {n : Name} {v : Val} {cc : Forest}, D[jm]? = some (.node j n v cc) →
    ∃ A B : List Nat, ids D = A ++ (j :: (ids cc ++ B)) ∧
      ∀ cc', ids (D.set jm (.node j n v cc')) = A ++ (j :: (ids cc' ++ B))
  | [], _, _, _, _, _, h => by simp at h
  | t :: ts, 0, j, n, v, cc, h => by
    simp at h; subst h
    exact ⟨[], ids ts, by simp, fun cc' => by simp⟩
  | (.node i0 n0 v0 c0) :: ts, jm + 1, j, n, v, cc, h => by
    obtain ⟨A, B, h1, h2⟩ := ids_split_at (D := ts) (jm := jm) (by simpa using h)
    refine ⟨i0 :: (ids c0 ++ A), B, by simp [h1], fun cc' => ?_⟩
    simp [h2 cc']

theorem findName_spec {D : Forest} {d : Nat} {nm : Name} {jm : Nat} (h : findName D d nm = some jm) :
    d ≤ jm ∧ ∃ t, D[jm]? = some t ∧ t.name = nm := by
  simp only [findName] at h
  have hm := List.mem_of_mem_head? h
  obtain ⟨h1, h2⟩ := List.mem_filter.1 hm
  have hge : d ≤ jm := by simpa using h2
  have := ((mem_midx nm (D.map Tree.name) 0 jm).1 h1).2
  simp only [Nat.sub_zero, List.getElem?_map] at this
  cases hq : D[jm]? with
  | none => simp [hq] at this
  | some t => simp [hq] at this; exact ⟨hge, t, rfl, this⟩

theorem getElem?_set_id {D : Forest} {jm : Nat} {t t' : Tree} (ht : D[jm]? = some t) (hid : t'.id = t.id) (k : Nat) :
    ((D.set jm t')[k]?).map Tree.id = (D[k]?).map Tree.id := by
  by_cases hkj : jm = k
  · subst hkj
    have hlt := (List.getElem?_eq_some_iff.1 ht).1
    rw [List.getElem?_set_self hlt, ht]
    simp [hid]
  · rw [List.getElem?_set_ne hkj]

/-- the destination keeps its elements' handles at their places, it only grows at the end -/
theorem merge_dst_prefix : ∀ (R D : Forest) (d : Nat), D.length ≤ (merge R D d).2.1.length ∧
    ∀ k, k < D.length → ((merge R D d).2.1[k]?).map Tree.id = (D[k]?).map Tree.id
  | [], D, d => by simp [merge_nil]
  | (.node i n v cs) :: ts, D, d => by
    cases hf : findName D d n with
    | none =>
      rw [merge_none hf]
      obtain ⟨h1, h2⟩ := merge_dst_prefix ts (D ++ [.node i n v cs]) d
      simp only [List.length_append, List.length_cons, List.length_nil] at h1
      refine ⟨by simp only; omega, fun k hk => ?_⟩
      simp only
      rw [h2 k (by simp; omega), List.getElem?_append_left hk]
    | some jm =>
      obtain ⟨_, t, ht, _⟩ := findName_spec hf
      cases cs with
      | nil => rw [merge_leaf hf ht]; exact merge_dst_prefix ts D d
      | cons c cs' =>
        cases t with
        | node tj tn tv tcs =>
          cases tcs with
          | nil =>
            rw [merge_hand hf ht]
            obtain ⟨h1, h2⟩ := merge_dst_prefix ts (D.set jm (.node tj tn tv (c :: cs'))) d
            simp only [List.length_set] at h1
            refine ⟨h1, fun k hk => ?_⟩
            simp only
            rw [h2 k (by simpa using hk)]
            exact getElem?_set_id (t' := .node tj tn tv (c :: cs')) ht (by simp [Tree.id]) k
          | cons tc tcs' =>
            rw [merge_rec hf ht]
            obtain ⟨h1, h2⟩ := merge_dst_prefix ts
              (D.set jm (.node tj tn tv (merge (c :: cs') (tc :: tcs') 0).2.1)) d
            simp only [List.length_set] at h1
            refine ⟨h1, fun k hk => ?_⟩
            simp only
            rw [h2 k (by simpa using hk)]
            exact getElem?_set_id (t' := .node tj tn tv (merge (c :: cs') (tc :: tcs') 0).2.1) ht (by simp [Tree.id]) k

theorem perm_insert_mid (X A B T : List Nat) (tj : Nat) :
    (T ++ (A ++ (tj :: (X ++ B)))).Perm (X ++ (T ++ (A ++ (tj :: B)))) := by
  have := @List.perm_append_comm _ (T ++ (A ++ [tj])) X
  have h2 := List.Perm.append_right B this
  simpa [List.append_assoc] using h2

/-- merging keeps every node: the handles of what stays and of the new destination are those of source and destination -/
theorem ids_merge_perm : ∀ (R D : Forest) (d : Nat),
    (ids (merge R D d).1 ++ ids (merge R D d).2.1).Perm (ids R ++ ids D)
  | [], D, d => by simp [merge_nil]
  | (.node i n v cs) :: ts, D, d => by
    cases hf : findName D d n with
    | none =>
      rw [merge_none hf]
      have ih := ids_merge_perm ts (D ++ [.node i n v cs]) d
      simp only [ids_append, ids_cons, ids_nil, List.append_nil] at ih ⊢
      refine ih.trans ?_
      have := @List.perm_append_comm _ (ids ts ++ ids D) (i :: ids cs)
      simpa [List.append_assoc] using this
    | some jm =>
      obtain ⟨_, t, ht, _⟩ := findName_spec hf
      cases cs with
      | nil =>
        rw [merge_leaf hf ht]
        have ih := ids_merge_perm ts D d
        simp only [ids_cons, ids_nil, List.nil_append]
        exact List.Perm.cons _ ih
      | cons c cs' =>
        cases t with
        | node tj tn tv tcs =>
          obtain ⟨A, B, hD1, hD2⟩ := ids_split_at ht
          cases tcs with
          | nil =>
            rw [merge_hand hf ht]
            have ih := ids_merge_perm ts (D.set jm (.node tj tn tv (c :: cs'))) d
            rw [hD2 (c :: cs')] at ih
            rw [hD1]
            simp only [ids_cons (cs := []), ids_cons (cs := c :: cs'), ids_nil, List.nil_append] at ih ⊢
            have g5 : (i :: (ids (c :: cs') ++ ids ts) ++ (A ++ tj :: B)) = i :: (ids (c :: cs') ++ (ids ts ++ (A ++ tj :: B))) := by
              simp [List.append_assoc]
            rw [g5]
            refine (List.Perm.cons _ ih).trans (List.Perm.cons _ ?_)
            exact perm_insert_mid (ids (c :: cs')) A B (ids ts) tj
          | cons tc tcs' =>
            rw [merge_rec hf ht]
            have ihk := ids_merge_perm (c :: cs') (tc :: tcs') 0
            have ih := ids_merge_perm ts (D.set jm (.node tj tn tv (merge (c :: cs') (tc :: tcs') 0).2.1)) d
            rw [hD2 _] at ih
            rw [hD1]
            simp only [ids_cons (cs := (merge (c :: cs') (tc :: tcs') 0).1), ids_cons (cs := c :: cs')]
            generalize ids (merge (c :: cs') (tc :: tcs') 0).1 = X at *
            generalize ids (merge (c :: cs') (tc :: tcs') 0).2.1 = Y at *
            generalize ids (c :: cs') = Sc at *
            generalize ids (tc :: tcs') = Tc at *
            generalize ids (merge ts (D.set jm (.node tj tn tv (merge (c :: cs') (tc :: tcs') 0).2.1)) d).1 = M1 at *
            generalize ids (merge ts (D.set jm (.node tj tn tv (merge (c :: cs') (tc :: tcs') 0).2.1)) d).2.1 = M2 at *
            have g1 : (i :: (X ++ M1) ++ M2).Perm (i :: (X ++ (M1 ++ M2))) := by simp [List.append_assoc]
            refine g1.trans ?_
            have g5 : (i :: (Sc ++ ids ts) ++ (A ++ tj :: (Tc ++ B))) = i :: (Sc ++ (ids ts ++ (A ++ tj :: (Tc ++ B)))) := by
              simp [List.append_assoc]
            rw [g5]
            refine List.Perm.cons _ ?_
            have g2 : (X ++ (M1 ++ M2)).Perm (X ++ (ids ts ++ (A ++ (tj :: (Y ++ B))))) := List.Perm.append_left _ ih
            refine g2.trans ?_
            have g3 : (X ++ (ids ts ++ (A ++ (tj :: (Y ++ B))))).Perm ((X ++ Y) ++ (ids ts ++ (A ++ (tj :: B)))) := by
              have := List.Perm.append_left X (perm_insert_mid Y A B (ids ts) tj)
              simpa [List.append_assoc] using this
            refine g3.trans ?_
            have g4 : ((X ++ Y) ++ (ids ts ++ (A ++ (tj :: B)))).Perm ((Sc ++ Tc) ++ (ids ts ++ (A ++ (tj :: B)))) :=
              List.Perm.append_right _ ihk
            refine g4.trans ?_
            have := List.Perm.append_left Sc (perm_insert_mid Tc A B (ids ts) tj).symm
            simpa [List.append_assoc] using this


/-- the children `RC` of `r` are handed over to the childless node `curr` -/
theorem handOver_spec {s : Store} {r curr sc f : Nat} {rn cn : Node} {RC : Forest}
    (hRC : Real s (some r) none RC) (hnd : (ids RC).Nodup) (hhead : headId RC = some sc)
    (hr : s.Live r rn) (hc : s.Live curr cn) (hrRC : r ∉ ids RC) (hcRC : curr ∉ ids RC) (hrc : r ≠ curr)
    (hf : RC.length ≤ f) :
    ∃ s', s.handOver f r curr sc = .ok (s', RC.length) ∧ Real s' (some curr) none RC ∧
      s'.nodes[curr]? = some { cn with children := some sc } ∧ s'.nodes[r]? = some { rn with children := none } ∧
      SameLife s s' ∧ s'.nodes.length = s.nodes.length ∧
      (∀ i, i ∉ RC.map Tree.id → i ≠ r → i ≠ curr → s'.nodes[i]? = s.nodes[i]?) := by
  obtain ⟨s1, e1, u1⟩ := Store.modify_ok hc (fun x => { x with children := some sc })
  have hRC1 : Real s1 (some r) none RC := Real.frame hRC (fun k hk => by
    rw [u1.2.2 k]; have : k ≠ curr := by rintro rfl; exact hcRC hk
    simp [this])
  obtain ⟨s2, e2, r2, l2, len2, f2⟩ := reparent_spec (p := curr) RC s1 f 0 (some r) none hRC1 hnd hf
  have hrmap : r ∉ RC.map Tree.id := fun h => hrRC (map_id_subset_ids RC r h)
  have hcmap : curr ∉ RC.map Tree.id := fun h => hcRC (map_id_subset_ids RC curr h)
  have hr2 : s2.Live r rn := ⟨by rw [f2 r hrmap, u1.2.2 r]; simp [hrc, hr.1], hr.2⟩
  obtain ⟨s3, e3, u3⟩ := Store.modify_ok hr2 (fun x => { x with children := none })
  refine ⟨s3, ?_, ?_, ?_, ?_, ?_, ?_, ?_⟩
  · simp only [Store.handOver, e1, Res.bind_ok]
    rw [← hhead, e2]
    simp only [Res.bind_ok, e3, Nat.zero_add]
    rfl
  · refine Real.frame r2 (fun k hk => ?_)
    rw [u3.2.2 k]; have : k ≠ r := by rintro rfl; exact hrRC hk
    simp [this]
  · rw [u3.2.2 curr, if_neg (Ne.symm hrc), f2 curr hcmap, u1.2.2 curr]; simp
  · rw [u3.2.2 r]; simp
  · refine ⟨by rw [u3.1, l2.1, u1.1], fun k => ?_⟩
    rw [u3.2.2 k]
    by_cases hk : k = r
    · subst hk; simp [hr.1]
    · rw [if_neg hk, l2.2 k, u1.2.2 k]
      by_cases hk2 : k = curr
      · subst hk2; simp [hc.1]
      · simp [hk2]
  · rw [u3.2.1, len2, u1.2.1]
  · intro i h1 h2 h3
    rw [u3.2.2 i, if_neg h2, f2 i h1, u1.2.2 i, if_neg h3]

/-- what `mpt_node_move` needs of its two lists: source `K ++ R` (`K` = elements already looked at, they stay) under
    `ps`, destination `D` under `pd`, in disjoint parts of the store -/
structure MoveInv (s : Store) (KR D : Forest) (ps pd : Option Nat) : Prop where
  src : Real s ps none KR
  dst : Real s pd none D
  nodup : (ids KR ++ ids D).Nodup
  par : ∀ p, ps = some p → p ∉ ids KR ∧ p ∉ ids D ∧ ∃ pn, s.Live p pn ∧ pn.children = headId KR
  dpar : ∀ q, pd = some q → q ∉ ids KR ∧ q ∉ ids D
  size : (ids KR).length + (ids D).length ≤ s.nodes.length

/-- the effect of (a part of) the move on the two lists -/
structure MoveRes (s s' : Store) (KR D KR' D' : Forest) (ps pd : Option Nat) : Prop where
  src : Real s' ps none KR'
  dst : Real s' pd none D'
  par : ∀ p, ps = some p → s'.nodes[p]? = (s.nodes[p]?).map (fun x => { x with children := headId KR' })
  life : SameLife s s'
  len : s'.nodes.length = s.nodes.length
  frame : ∀ i, i ∉ ids KR → i ∉ ids D → some i ≠ ps → s'.nodes[i]? = s.nodes[i]?
  perm : (ids KR' ++ ids D').Perm (ids KR ++ ids D)

theorem SameLife.trans {s s1 s2 : Store} (h1 : SameLife s s1) (h2 : SameLife s1 s2) : SameLife s s2 :=
  ⟨by rw [h2.1, h1.1], fun i => by rw [h2.2 i, h1.2 i]⟩

theorem MoveRes.trans {s s1 s2 : Store} {KR D KR1 D1 KR2 D2 : Forest} {ps pd : Option Nat}
    (h1 : MoveRes s s1 KR D KR1 D1 ps pd) (h2 : MoveRes s1 s2 KR1 D1 KR2 D2 ps pd) :
    MoveRes s s2 KR D KR2 D2 ps pd := by
  refine ⟨h2.src, h2.dst, ?_, h1.life.trans h2.life, by rw [h2.len, h1.len], ?_, h2.perm.trans h1.perm⟩
  · intro p hp
    rw [h2.par p hp, h1.par p hp]
    cases s.nodes[p]? <;> simp
  · intro i hi1 hi2 hip
    have hmem : i ∉ ids KR1 ∧ i ∉ ids D1 := by
      have : i ∉ ids KR1 ++ ids D1 := by
        intro h
        have := h1.perm.mem_iff.1 h
        rw [List.mem_append] at this
        rcases this with h | h
        · exact hi1 h
        · exact hi2 h
      simpa [List.mem_append, not_or] using this
    rw [h2.frame i hmem.1 hmem.2 hip, h1.frame i hi1 hi2 hip]

theorem MoveInv.next {s s' : Store} {KR D KR' D' : Forest} {ps pd : Option Nat}
    (hI : MoveInv s KR D ps pd) (hR : MoveRes s s' KR D KR' D' ps pd) : MoveInv s' KR' D' ps pd := by
  have hmem : ∀ i, (i ∈ ids KR' ∨ i ∈ ids D') ↔ (i ∈ ids KR ∨ i ∈ ids D) := by
    intro i
    have := hR.perm.mem_iff (a := i)
    simpa [List.mem_append] using this
  refine ⟨hR.src, hR.dst, hR.perm.nodup_iff.2 hI.nodup, ?_, ?_, ?_⟩
  · intro p hp
    obtain ⟨h1, h2, pn, hpn, hpc⟩ := hI.par p hp
    have hnot : ¬ (p ∈ ids KR' ∨ p ∈ ids D') := by rw [hmem]; exact fun h => h.elim h1 h2
    refine ⟨fun h => hnot (Or.inl h), fun h => hnot (Or.inr h), { pn with children := headId KR' }, ⟨?_, hpn.2⟩, rfl⟩
    rw [hR.par p hp, hpn.1]; rfl
  · intro q hq
    obtain ⟨h1, h2⟩ := hI.dpar q hq
    have hnot : ¬ (q ∈ ids KR' ∨ q ∈ ids D') := by rw [hmem]; exact fun h => h.elim h1 h2
    exact ⟨fun h => hnot (Or.inl h), fun h => hnot (Or.inr h)⟩
  · have := hR.perm.length_eq
    simp only [List.length_append] at this
    rw [hR.len]
    have := hI.size
    omega


theorem length_le_nodes {s : Store} {KR D : Forest} {ps pd : Option Nat} (hI : MoveInv s KR D ps pd) :
    D.length ≤ s.fuel ∧ KR.length ≤ s.fuel := by
  have h1 := length_le_ids D
  have h2 := length_le_ids KR
  have := hI.size
  simp only [Store.fuel]
  omega

/-- one source element without namesake is moved to the end of the destination -/
theorem step_move {s : Store} {K ts D cs : Forest} {ps pd : Option Nat} {i li : Nat} {n : Name} {v : Val} {tl : Tree}
    {slot : Store.Slot}
    (hI : MoveInv s (K ++ .node i n v cs :: ts) D ps pd) (htl : D[li]? = some tl)
    (hslot : ∀ p, slot = .kids p → ps = some p) :
    ∃ u s1, s.unlink i = .ok (u, headId ts) ∧ u.nodeInsert tl.id 0 i false = .ok s1 ∧
      s1.slotFix slot i (headId ts) = .ok s1 ∧
      MoveRes s s1 (K ++ .node i n v cs :: ts) D (K ++ ts) (D ++ [.node i n v cs]) ps pd := by
  have hndS : (ids (K ++ .node i n v cs :: ts)).Nodup := (List.nodup_append.1 hI.nodup).1
  have hndD : (ids D).Nodup := (List.nodup_append.1 hI.nodup).2.1
  have hdisj := (List.nodup_append.1 hI.nodup).2.2
  have hSj : (K ++ .node i n v cs :: ts)[K.length]? = some (.node i n v cs) := by simp
  obtain ⟨u, hu, huS, huT, hupar, hulife, hulen, hufr⟩ := unlink_list_spec hI.src hndS hSj
    (fun p hp => by
      obtain ⟨h1, _, pn, hpn, hpc⟩ := hI.par p hp
      exact ⟨h1, pn, hpn, hpc⟩)
  have herase : (K ++ .node i n v cs :: ts).eraseIdx K.length = K ++ ts := by
    rw [List.eraseIdx_append_of_length_le (Nat.le_refl _)]; simp
  have hdrop : (K ++ .node i n v cs :: ts).drop (K.length + 1) = ts := by
    have : K.length + 1 = K.length + 1 := rfl
    rw [List.drop_append]
    simp
  rw [herase] at huS hupar
  rw [hdrop] at hu
  simp only [Tree.id] at hu
  have himem : i ∈ ids (K ++ .node i n v cs :: ts) := by rw [ids_append]; simp
  have hmapS : ∀ k, k ∈ (K ++ .node i n v cs :: ts).map Tree.id → k ∈ ids (K ++ .node i n v cs :: ts) :=
    map_id_subset_ids _
  -- the destination is untouched by the unlink
  have huD : Real u pd none D := Real.frame hI.dst (fun k hk => by
    refine hufr k (fun h => hdisj k (hmapS k h) k hk rfl) ?_
    intro h
    obtain ⟨_, h2, _⟩ := hI.par k h.symm
    exact h2 hk)
  have hndApp : (ids D ++ ids [.node i n v cs]).Nodup := by
    rw [List.nodup_append]
    refine ⟨hndD, ?_, ?_⟩
    · have : (ids (K ++ .node i n v cs :: ts)).Nodup := hndS
      rw [ids_append, List.nodup_append] at this
      have := this.2.1
      simp only [ids_cons, List.nodup_cons, List.mem_append, List.nodup_append] at this
      simp only [ids_cons, ids_nil, List.append_nil, List.nodup_cons]
      exact ⟨fun h => this.1 (Or.inl h), this.2.1⟩
    · intro a ha b hb hab
      subst hab
      have hbS : a ∈ ids (K ++ .node i n v cs :: ts) := by
        rw [ids_append]; simp only [ids_cons, ids_nil, List.append_nil] at hb ⊢
        simp only [List.mem_append, List.mem_cons] at hb ⊢
        rcases hb with rfl | hb
        · simp
        · simp [hb]
      exact hdisj a hbS a ha rfl
  have hfuelD : D.length ≤ u.fuel := by
    have := (length_le_nodes hI).1
    simp only [Store.fuel, hulen] at this ⊢
    exact this
  obtain ⟨s1, hs1, h1D, h1life, h1len, h1fr⟩ := append_spec huD hndApp htl huT hfuelD
  have hinK : ∀ k ∈ ids (K ++ ts), k ∈ ids (K ++ .node i n v cs :: ts) ∧ k ≠ i := by
    intro k hk
    rw [ids_append] at hk
    have hnd' := hndS
    rw [ids_append, ids_cons, List.nodup_append] at hnd'
    rw [List.mem_append] at hk
    refine ⟨by rw [ids_append, ids_cons]; simp only [List.mem_append, List.mem_cons]; rcases hk with h | h <;> simp [h], ?_⟩
    rintro rfl
    rcases hk with h | h
    · exact hnd'.2.2 k h k (by simp) rfl
    · have := hnd'.2.1; simp only [List.nodup_cons, List.mem_append] at this; exact this.1 (Or.inr h)
  have hres : MoveRes s s1 (K ++ .node i n v cs :: ts) D (K ++ ts) (D ++ [.node i n v cs]) ps pd := by
    refine ⟨?_, h1D, ?_, hulife.trans h1life, by rw [h1len, hulen], ?_, ?_⟩
    · refine Real.frame huS (fun k hk => ?_)
      obtain ⟨hkS, hki⟩ := hinK k hk
      exact h1fr k (fun h => hdisj k hkS k (map_id_subset_ids D k h) rfl) hki
    · intro p hp
      obtain ⟨h1, h2, _⟩ := hI.par p hp
      rw [h1fr p (fun h => h2 (map_id_subset_ids D p h)) (by rintro rfl; exact h1 himem)]
      exact hupar p hp
    · intro k hk1 hk2 hkp
      rw [h1fr k (fun h => hk2 (map_id_subset_ids D k h)) (by rintro rfl; exact hk1 himem)]
      exact hufr k (fun h => hk1 (hmapS k h)) hkp
    · simp only [ids_append, ids_cons, ids_nil, List.append_nil]
      have := @List.perm_append_comm _ (ids ts ++ ids D) (i :: ids cs)
      have h2 := List.Perm.append_left (ids K) this
      have h3 : (ids K ++ ids ts ++ (ids D ++ i :: ids cs)).Perm (ids K ++ (ids ts ++ ids D ++ i :: ids cs)) := by
        simp [List.append_assoc]
      refine h3.trans (h2.trans ?_)
      simp [List.append_assoc]
  refine ⟨u, s1, hu, hs1, ?_, hres⟩
  cases slot with
  | loc => simp [Store.slotFix]
  | kids p =>
    have hp := hslot p rfl
    obtain ⟨h1, h2, pn, hpn, hpc⟩ := hI.par p hp
    have hp1 : s1.nodes[p]? = some { pn with children := headId (K ++ ts) } := by
      rw [hres.par p hp, hpn.1]; rfl
    have hlive : s1.Live p { pn with children := headId (K ++ ts) } := ⟨hp1, hpn.2⟩
    have hne : headId (K ++ ts) ≠ some i := by
      intro h
      exact (hinK i (headId_mem h)).2 rfl
    simp [Store.slotFix, Store.get_ok hlive, hne]


theorem Real.kids_at {s : Store} : ∀ {L : Forest} {par prev : Option Nat} {j : Nat} {t : Tree},
    Real s par prev L → L[j]? = some t → Real s (some t.id) none t.children
  | [], _, _, _, _, _, h => by simp at h
  | (.node i n v cs) :: ts, par, prev, 0, t, hL, h => by
    rw [Real_cons] at hL
    simp at h; subst h
    exact hL.2.1
  | (.node i n v cs) :: ts, par, prev, j + 1, t, hL, h => by
    rw [Real_cons] at hL
    exact Real.kids_at hL.2.2 (by simpa using h)

theorem ids_mid (K ts : Forest) (i : Nat) (n : Name) (v : Val) (cs : Forest) :
    ids (K ++ .node i n v cs :: ts) = ids K ++ (i :: (ids cs ++ ids ts)) := by
  rw [ids_append, ids_cons]

theorem set_mid (K ts : Forest) (t t' : Tree) : (K ++ t :: ts).set K.length t' = K ++ t' :: ts := by
  rw [List.set_append_right _ _ (Nat.le_refl _)]; simp

theorem headId_mid (K ts : Forest) (i : Nat) (n : Name) (v : Val) (cs cs' : Forest) :
    headId (K ++ .node i n v cs' :: ts) = headId (K ++ .node i n v cs :: ts) := by
  cases K with
  | nil => simp
  | cons a as => cases a; simp

/-- the children of a source element go to its childless namesake in the destination -/
theorem step_hand {s : Store} {K ts D : Forest} {ps pd : Option Nat} {i jm tj f : Nat} {n tn : Name} {v tv : Val}
    {c : Tree} {cs' : Forest}
    (hI : MoveInv s (K ++ .node i n v (c :: cs') :: ts) D ps pd) (hjm : D[jm]? = some (.node tj tn tv []))
    (hf : (c :: cs').length ≤ f) :
    ∃ s', s.handOver f i tj c.id = .ok (s', (c :: cs').length) ∧
      MoveRes s s' (K ++ .node i n v (c :: cs') :: ts) D (K ++ .node i n v [] :: ts) (D.set jm (.node tj tn tv (c :: cs'))) ps pd := by
  have hndS : (ids (K ++ .node i n v (c :: cs') :: ts)).Nodup := (List.nodup_append.1 hI.nodup).1
  have hndD : (ids D).Nodup := (List.nodup_append.1 hI.nodup).2.1
  have hdisj := (List.nodup_append.1 hI.nodup).2.2
  have hSj : (K ++ .node i n v (c :: cs') :: ts)[K.length]? = some (.node i n v (c :: cs')) := by simp
  have hrrec : s.nodes[i]? = some (recOf (headId ((K ++ .node i n v (c :: cs') :: ts).drop (K.length + 1)))
      (prevAt none (K ++ .node i n v (c :: cs') :: ts) K.length) ps (c :: cs') n v) := Real.rec_tree hI.src hSj
  have hcrec : s.nodes[tj]? = some (recOf (headId (D.drop (jm + 1))) (prevAt none D jm) pd [] tn tv) :=
    Real.rec_tree hI.dst hjm
  have hRC : Real s (some i) none (c :: cs') := Real.kids_at hI.src hSj
  have hiS : i ∈ ids (K ++ .node i n v (c :: cs') :: ts) := by rw [ids_mid]; simp
  have hRCsub : ∀ k ∈ ids (c :: cs'), k ∈ ids (K ++ .node i n v (c :: cs') :: ts) := by
    intro k hk; rw [ids_mid]; simp [hk]
  have htjD : tj ∈ ids D := by
    have := idx?_mem (idx?_of_getElem? hndD hjm); simpa [Tree.id] using this
  have hndRC : (ids (c :: cs')).Nodup := by
    rw [ids_mid, List.nodup_append] at hndS
    have := hndS.2.1
    rw [List.nodup_cons, List.nodup_append] at this
    exact this.2.1
  have hiRC : i ∉ ids (c :: cs') := by
    rw [ids_mid, List.nodup_append] at hndS
    have := hndS.2.1
    rw [List.nodup_cons] at this
    exact fun h => this.1 (List.mem_append_left _ h)
  have hhead : headId (c :: cs') = some c.id := by cases c; simp [Tree.id]
  obtain ⟨s', hs', hK, hcur, hsrc, hlife, hlen, hfr⟩ := handOver_spec (f := f) hRC hndRC hhead
    ⟨hrrec, rfl⟩ ⟨hcrec, rfl⟩ hiRC (fun h => hdisj tj (hRCsub tj h) tj htjD rfl)
    (by rintro rfl; exact hdisj i hiS i htjD rfl) hf
  refine ⟨s', hs', ?_, ?_, ?_, hlife, hlen, ?_, ?_⟩
  · have := Real.replace_kids (cs' := []) hI.src hSj hndS
      (fun k hk h1 h2 => hfr k (fun h => h2 (map_id_subset_ids _ k h)) h1
        (by rintro rfl; exact hdisj k hk k htjD rfl))
      (by rw [hsrc, hrrec]; rfl) (by simp)
    rwa [set_mid] at this
  · exact Real.replace_kids (cs' := c :: cs') hI.dst hjm hndD
      (fun k hk h1 _ => hfr k (fun h => hdisj k (hRCsub k (map_id_subset_ids _ k h)) k hk rfl)
        (by rintro rfl; exact hdisj k hiS k hk rfl) h1)
      (by rw [hcur, hcrec, hhead]; rfl) hK
  · intro p hp
    obtain ⟨h1, h2, pn, hpn, hpc⟩ := hI.par p hp
    rw [hfr p (fun h => h1 (hRCsub p (map_id_subset_ids _ p h))) (by rintro rfl; exact h1 hiS)
      (by rintro rfl; exact h2 htjD), hpn.1, headId_mid K ts i n v (c :: cs') []]
    simp [← hpc]
  · intro k hk1 hk2 hkp
    exact hfr k (fun h => hk1 (hRCsub k (map_id_subset_ids _ k h))) (by rintro rfl; exact hk1 hiS)
      (by rintro rfl; exact hk2 htjD)
  · obtain ⟨A, B, hD1, hD2⟩ := ids_split_at hjm
    rw [hD2 (c :: cs'), hD1, ids_mid, ids_mid]
    simp only [ids_nil, List.nil_append]
    have := perm_insert_mid (ids (c :: cs')) A B (ids ts) tj
    have h2 := List.Perm.append_left (ids K ++ [i]) this
    have h3 : (ids K ++ i :: ids ts ++ (A ++ tj :: (ids (c :: cs') ++ B))).Perm
        (ids K ++ [i] ++ (ids ts ++ (A ++ tj :: (ids (c :: cs') ++ B)))) := by simp [List.append_assoc]
    refine h3.trans (h2.trans ?_)
    simp [List.append_assoc]


/-- the children lists of a source element and its namesake satisfy the invariant of the move themselves -/
theorem inner_inv {s : Store} {K ts D RC CC : Forest} {ps pd : Option Nat} {i jm tj : Nat} {n tn : Name} {v tv : Val}
    (hI : MoveInv s (K ++ .node i n v RC :: ts) D ps pd) (hjm : D[jm]? = some (.node tj tn tv CC)) :
    MoveInv s RC CC (some i) (some tj) := by
  have hndS : (ids (K ++ .node i n v RC :: ts)).Nodup := (List.nodup_append.1 hI.nodup).1
  have hndD : (ids D).Nodup := (List.nodup_append.1 hI.nodup).2.1
  have hdisj := (List.nodup_append.1 hI.nodup).2.2
  have hSj : (K ++ .node i n v RC :: ts)[K.length]? = some (.node i n v RC) := by simp
  have hrrec : s.nodes[i]? = some (recOf (headId ((K ++ .node i n v RC :: ts).drop (K.length + 1)))
      (prevAt none (K ++ .node i n v RC :: ts) K.length) ps RC n v) := Real.rec_tree hI.src hSj
  have hRCsub : ∀ k ∈ ids RC, k ∈ ids (K ++ .node i n v RC :: ts) := by
    intro k hk; rw [ids_mid]; simp [hk]
  have hiS : i ∈ ids (K ++ .node i n v RC :: ts) := by rw [ids_mid]; simp
  obtain ⟨A, B, hD1, _⟩ := ids_split_at hjm
  have hCCsub : ∀ k ∈ ids CC, k ∈ ids D := by intro k hk; rw [hD1]; simp [hk]
  have htjD : tj ∈ ids D := by rw [hD1]; simp
  have hS' := hndS
  rw [ids_mid, List.nodup_append] at hS'
  have hmid := hS'.2.1
  rw [List.nodup_cons, List.nodup_append] at hmid
  have hD' := hndD
  rw [hD1, List.nodup_append] at hD'
  have hmidD := hD'.2.1
  rw [List.nodup_cons, List.nodup_append] at hmidD
  refine ⟨Real.kids_at hI.src hSj, Real.kids_at hI.dst hjm, ?_, ?_, ?_, ?_⟩
  · rw [List.nodup_append]
    exact ⟨hmid.2.1, hmidD.2.1, fun a ha b hb => hdisj a (hRCsub a ha) b (hCCsub b hb)⟩
  · intro p hp
    simp at hp; subst hp
    refine ⟨fun h => hmid.1 (List.mem_append_left _ h), fun h => hdisj i hiS i (hCCsub i h) rfl, _, ⟨hrrec, rfl⟩, rfl⟩
  · intro q hq
    simp at hq; subst hq
    exact ⟨fun h => hdisj tj (hRCsub tj h) tj htjD rfl, fun h => hmidD.1 (List.mem_append_left _ h)⟩
  · have h1 : (ids RC).length ≤ (ids (K ++ .node i n v RC :: ts)).length := by rw [ids_mid]; simp; omega
    have h2 : (ids CC).length ≤ (ids D).length := by rw [hD1]; simp; omega
    have := hI.size
    omega

/-- the children of a source element are merged into the children of its namesake: lifting the inner result -/
theorem step_rec {s s' : Store} {K ts D RC CC RC' CC' : Forest} {ps pd : Option Nat} {i jm tj : Nat} {n tn : Name}
    {v tv : Val}
    (hI : MoveInv s (K ++ .node i n v RC :: ts) D ps pd) (hjm : D[jm]? = some (.node tj tn tv CC))
    (hin : MoveRes s s' RC CC RC' CC' (some i) (some tj)) (hhead : headId CC' = headId CC) :
    MoveRes s s' (K ++ .node i n v RC :: ts) D (K ++ .node i n v RC' :: ts) (D.set jm (.node tj tn tv CC')) ps pd := by
  have hndS : (ids (K ++ .node i n v RC :: ts)).Nodup := (List.nodup_append.1 hI.nodup).1
  have hndD : (ids D).Nodup := (List.nodup_append.1 hI.nodup).2.1
  have hdisj := (List.nodup_append.1 hI.nodup).2.2
  have hSj : (K ++ .node i n v RC :: ts)[K.length]? = some (.node i n v RC) := by simp
  have hcrec : s.nodes[tj]? = some (recOf (headId (D.drop (jm + 1))) (prevAt none D jm) pd CC tn tv) :=
    Real.rec_tree hI.dst hjm
  have hRCsub : ∀ k ∈ ids RC, k ∈ ids (K ++ .node i n v RC :: ts) := by
    intro k hk; rw [ids_mid]; simp [hk]
  have hiS : i ∈ ids (K ++ .node i n v RC :: ts) := by rw [ids_mid]; simp
  obtain ⟨A, B, hD1, hD2⟩ := ids_split_at hjm
  have hCCsub : ∀ k ∈ ids CC, k ∈ ids D := by intro k hk; rw [hD1]; simp [hk]
  have htjD : tj ∈ ids D := by rw [hD1]; simp
  have hD' := hndD
  rw [hD1, List.nodup_append] at hD'
  have hmidD := hD'.2.1
  rw [List.nodup_cons, List.nodup_append] at hmidD
  have htjCC : tj ∉ ids CC := fun h => hmidD.1 (List.mem_append_left _ h)
  have hitj : i ≠ tj := by rintro rfl; exact hdisj i hiS i htjD rfl
  have htj' : s'.nodes[tj]? = s.nodes[tj]? :=
    hin.frame tj (fun h => hdisj tj (hRCsub tj h) tj htjD rfl) htjCC (by simpa using Ne.symm hitj)
  refine ⟨?_, ?_, ?_, hin.life, hin.len, ?_, ?_⟩
  · have := Real.replace_kids (cs' := RC') hI.src hSj hndS
      (fun k hk h1 h2 => hin.frame k h2 (fun h => hdisj k hk k (hCCsub k h) rfl) (by simpa using h1))
      (hin.par i rfl) hin.src
    rwa [set_mid] at this
  · refine Real.replace_kids (cs' := CC') hI.dst hjm hndD
      (fun k hk h1 h2 => hin.frame k (fun h => hdisj k (hRCsub k h) k hk rfl) h2
        (by intro h; simp at h; subst h; exact hdisj k hiS k hk rfl)) ?_ hin.dst
    rw [htj', hcrec, hhead]; rfl
  · intro p hp
    obtain ⟨h1, h2, pn, hpn, hpc⟩ := hI.par p hp
    rw [hin.frame p (fun h => h1 (hRCsub p h)) (fun h => h2 (hCCsub p h)) (by intro h; simp at h; subst h; exact h1 hiS),
      hpn.1, headId_mid K ts i n v RC RC']
    simp [← hpc]
  · intro k hk1 hk2 hkp
    exact hin.frame k (fun h => hk1 (hRCsub k h)) (fun h => hk2 (hCCsub k h))
      (by intro h; simp at h; subst h; exact hk1 hiS)
  · rw [hD2 CC', hD1, ids_mid, ids_mid]
    have hp := hin.perm
    generalize ids RC' = X at *
    generalize ids CC' = Y at *
    generalize ids RC = Sc at *
    generalize ids CC = Tc at *
    have g1 : (ids K ++ i :: (X ++ ids ts) ++ (A ++ tj :: (Y ++ B))).Perm
        ((ids K ++ [i]) ++ (X ++ (ids ts ++ (A ++ tj :: (Y ++ B))))) := by simp [List.append_assoc]
    have g6 : ((ids K ++ [i]) ++ (Sc ++ (ids ts ++ (A ++ tj :: (Tc ++ B))))).Perm
        (ids K ++ i :: (Sc ++ ids ts) ++ (A ++ tj :: (Tc ++ B))) := by simp [List.append_assoc]
    refine g1.trans (List.Perm.trans (List.Perm.append_left _ ?_) g6)
    have g3 : (X ++ (ids ts ++ (A ++ (tj :: (Y ++ B))))).Perm ((X ++ Y) ++ (ids ts ++ (A ++ (tj :: B)))) := by
      have := List.Perm.append_left X (perm_insert_mid Y A B (ids ts) tj)
      simpa [List.append_assoc] using this
    refine g3.trans ?_
    have g4 : ((X ++ Y) ++ (ids ts ++ (A ++ (tj :: B)))).Perm ((Sc ++ Tc) ++ (ids ts ++ (A ++ (tj :: B)))) :=
      List.Perm.append_right _ hp
    refine g4.trans ?_
    have := List.Perm.append_left Sc (perm_insert_mid Tc A B (ids ts) tj).symm
    simpa [List.append_assoc] using this


theorem MoveRes.refl {s : Store} {KR D : Forest} {ps pd : Option Nat} (hI : MoveInv s KR D ps pd) :
    MoveRes s s KR D KR D ps pd := by
  refine ⟨hI.src, hI.dst, ?_, ⟨rfl, fun _ => rfl⟩, rfl, fun _ _ _ _ => rfl, List.Perm.refl _⟩
  intro p hp
  obtain ⟨_, _, pn, hpn, hpc⟩ := hI.par p hp
  rw [hpn.1]; simp [← hpc]

theorem findName_eq_locIdx (D : Forest) (d : Nat) (nm : Name) : locIdx D d nm 1 = findName D d nm := by
  simp [locIdx, findName, List.head?_eq_getElem?]

theorem append_assoc_mid (K ts : Forest) (t : Tree) : K ++ t :: ts = (K ++ [t]) ++ ts := by simp

/-- `mpt_node_move` (its loop) merges the rest `R` of the source list into the destination `D` as `merge` says -/
theorem moveLoop_spec : ∀ (R : Forest) (s : Store) (K D : Forest) (ps pd : Option Nat) (slot : Store.Slot)
    (cur : Option Nat) (d li dstId lastId m fuel : Nat),
    MoveInv s (K ++ R) D ps pd →
    (D[d]?).map Tree.id = some dstId → (D[li]?).map Tree.id = some lastId →
    (∀ p, slot = .kids p → ps = some p) → (ids R).length ≤ fuel →
    ∃ s', s.moveLoop fuel slot cur (headId R) dstId lastId m = .ok (s', m + (merge R D d).2.2) ∧
      MoveRes s s' (K ++ R) D (K ++ (merge R D d).1) (merge R D d).2.1 ps pd
  | [], s, K, D, ps, pd, slot, cur, d, li, dstId, lastId, m, fuel, hI, _, _, _, _ => by
    refine ⟨s, by cases fuel <;> simp [Store.moveLoop, merge_nil], ?_⟩
    simpa [merge_nil] using MoveRes.refl hI
  | (.node i n v cs) :: ts, s, K, D, ps, pd, slot, cur, d, li, dstId, lastId, m, fuel, hI, hd, hl, hslot, hf => by
    simp only [ids_cons, List.length_cons, List.length_append] at hf
    obtain ⟨f, rfl⟩ : ∃ f, fuel = f + 1 := ⟨fuel - 1, by omega⟩
    obtain ⟨td, htd, htdid⟩ : ∃ td, D[d]? = some td ∧ td.id = dstId := by
      cases hq : D[d]? with
      | none => simp [hq] at hd
      | some t => simp [hq] at hd; exact ⟨t, rfl, hd⟩
    obtain ⟨tl, htl, htlid⟩ : ∃ tl, D[li]? = some tl ∧ tl.id = lastId := by
      cases hq : D[li]? with
      | none => simp [hq] at hl
      | some t => simp [hq] at hl; exact ⟨t, rfl, hl⟩
    have hSj : (K ++ .node i n v cs :: ts)[K.length]? = some (.node i n v cs) := by simp
    have hrrec : s.nodes[i]? = some (recOf (headId ((K ++ .node i n v cs :: ts).drop (K.length + 1)))
        (prevAt none (K ++ .node i n v cs :: ts) K.length) ps cs n v) := Real.rec_tree hI.src hSj
    have hdrop : (K ++ .node i n v cs :: ts).drop (K.length + 1) = ts := by
      rw [List.drop_append]; simp
    rw [hdrop] at hrrec
    have hfound : s.locate (some dstId) 1 n = .ok ((findName D d n).bind fun j => (D[j]?).map Tree.id) := by
      rw [← htdid, locate_real n 1 hI.dst htd (length_le_nodes hI).1, findName_eq_locIdx]
    cases hfn : findName D d n with
    | none =>
      -- no namesake: the element moves
      obtain ⟨u, s1, hu, hs1, hfix, hres⟩ := step_move hI htl hslot
      have hI1 := hI.next hres
      have hd1 : ((D ++ [.node i n v cs])[d]?).map Tree.id = some dstId := by
        rw [List.getElem?_append_left (List.getElem?_eq_some_iff.1 htd).1, htd]; simp [htdid]
      have hl1 : ((D ++ [.node i n v cs])[D.length]?).map Tree.id = some i := by simp [Tree.id]
      obtain ⟨s2, hs2, hres2⟩ := moveLoop_spec ts s1 K (D ++ [.node i n v cs]) ps pd slot
        (if cur = some i then headId ts else cur) d D.length dstId i (m + 1) f hI1 hd1 hl1 hslot (by omega)
      refine ⟨s2, ?_, ?_⟩
      · simp only [headId_cons, Store.moveLoop, Store.get_ok ⟨hrrec, rfl⟩, Res.bind_ok, recOf, hfound, hfn,
          Option.bind_none, hu, ← htlid, hs1, hfix]
        rw [hs2, merge_none hfn]
        simp only [Res.ok.injEq, Prod.mk.injEq, true_and]
        omega
      · rw [merge_none hfn]
        exact hres.trans hres2
    | some jm =>
      obtain ⟨_, t, ht, htn⟩ := findName_spec hfn
      have hfound' : s.locate (some dstId) 1 n = .ok (some t.id) := by rw [hfound, hfn]; simp [ht]
      cases cs with
      | nil =>
        -- nothing to hand over: the element stays
        have hI' : MoveInv s ((K ++ [.node i n v []]) ++ ts) D ps pd := by rw [← append_assoc_mid]; exact hI
        obtain ⟨s2, hs2, hres2⟩ := moveLoop_spec ts s (K ++ [.node i n v []]) D ps pd slot cur d li dstId lastId m f
          hI' hd hl hslot (by omega)
        refine ⟨s2, ?_, ?_⟩
        · simp only [headId_cons, Store.moveLoop, Store.get_ok ⟨hrrec, rfl⟩, Res.bind_ok, recOf, hfound', headId_nil]
          rw [hs2, merge_leaf hfn ht]
        · rw [merge_leaf hfn ht]
          simpa [List.append_assoc] using hres2
      | cons c cs' =>
        cases t with
        | node tj tn tv tcs =>
          have hcrec : s.nodes[tj]? = some (recOf (headId (D.drop (jm + 1))) (prevAt none D jm) pd tcs tn tv) :=
            Real.rec_tree hI.dst ht
          have hfound'' : s.locate (some dstId) 1 n = .ok (some tj) := hfound'
          have hchead : headId (c :: cs') = some c.id := by cases c; simp [Tree.id]
          cases tcs with
          | nil =>
            -- the namesake has no children: hand them over
            obtain ⟨s1, hs1, hres⟩ := step_hand (f := f) hI ht (by
              have := length_le_ids (c :: cs')
              omega)
            have hI1 := hI.next hres
            have hI1' : MoveInv s1 ((K ++ [.node i n v []]) ++ ts) (D.set jm (.node tj tn tv (c :: cs'))) ps pd := by
              rw [← append_assoc_mid]; exact hI1
            have hi1 : s1.nodes[i]? = some (recOf (headId ts) (prevAt none (K ++ .node i n v [] :: ts) K.length) ps [] n v) := by
              have := Real.rec_tree hres.src (j := K.length) (t := .node i n v []) (by simp)
              rwa [show (K ++ .node i n v [] :: ts).drop (K.length + 1) = ts by rw [List.drop_append]; simp] at this
            have hd1 : (((D.set jm (.node tj tn tv (c :: cs')))[d]?).map Tree.id) = some dstId := by
              rw [getElem?_set_id ht (by simp [Tree.id]) d]; exact hd
            have hl1 : (((D.set jm (.node tj tn tv (c :: cs')))[li]?).map Tree.id) = some lastId := by
              rw [getElem?_set_id ht (by simp [Tree.id]) li]; exact hl
            obtain ⟨s2, hs2, hres2⟩ := moveLoop_spec ts s1 (K ++ [.node i n v []]) _ ps pd slot cur d li dstId lastId
              (m + (c :: cs').length) f hI1' hd1 hl1 hslot (by omega)
            refine ⟨s2, ?_, ?_⟩
            · simp only [headId_cons, Store.moveLoop, Store.get_ok ⟨hrrec, rfl⟩, Res.bind_ok, recOf, hfound'', hchead,
                Store.get_ok ⟨hcrec, rfl⟩, headId_nil, hs1, Store.get_ok ⟨hi1, rfl⟩]
              rw [hs2, merge_hand hfn ht]
              simp only [Res.ok.injEq, Prod.mk.injEq, true_and]
              omega
            · rw [merge_hand hfn ht]
              refine hres.trans ?_
              simpa [List.append_assoc] using hres2
          | cons tc tcs' =>
            -- both have children: merge them first
            have hIin := inner_inv hI ht
            have hIin' : MoveInv s ([] ++ (c :: cs')) (tc :: tcs') (some i) (some tj) := by simpa using hIin
            have htchead : headId (tc :: tcs') = some tc.id := by cases tc; simp [Tree.id]
            obtain ⟨s1, hs1, hin⟩ := moveLoop_spec (c :: cs') s [] (tc :: tcs') (some i) (some tj) (.kids i) (some c.id)
              0 0 tc.id tc.id 0 f hIin' (by simp) (by simp) (by intro p hp; cases hp; rfl)
              (by omega)
            simp only [List.nil_append] at hin
            have hheadCC : headId (merge (c :: cs') (tc :: tcs') 0).2.1 = headId (tc :: tcs') := by
              obtain ⟨h1, h2⟩ := merge_dst_prefix (c :: cs') (tc :: tcs') 0
              have := h2 0 (by simp)
              cases hq : (merge (c :: cs') (tc :: tcs') 0).2.1 with
              | nil => rw [hq] at h1; simp at h1
              | cons a as => rw [hq] at this; cases a; cases tc; simpa [Tree.id] using this
            have hres := step_rec hI ht hin hheadCC
            have hI1 := hI.next hres
            have hI1' : MoveInv s1 ((K ++ [.node i n v (merge (c :: cs') (tc :: tcs') 0).1]) ++ ts)
                (D.set jm (.node tj tn tv (merge (c :: cs') (tc :: tcs') 0).2.1)) ps pd := by
              rw [← append_assoc_mid]; exact hI1
            have hi1 : s1.nodes[i]? = some (recOf (headId ts)
                (prevAt none (K ++ .node i n v (merge (c :: cs') (tc :: tcs') 0).1 :: ts) K.length) ps
                (merge (c :: cs') (tc :: tcs') 0).1 n v) := by
              have := Real.rec_tree hres.src (j := K.length) (t := .node i n v (merge (c :: cs') (tc :: tcs') 0).1) (by simp)
              rwa [show (K ++ .node i n v (merge (c :: cs') (tc :: tcs') 0).1 :: ts).drop (K.length + 1) = ts by
                rw [List.drop_append]; simp] at this
            have hd1 : (((D.set jm (.node tj tn tv (merge (c :: cs') (tc :: tcs') 0).2.1))[d]?).map Tree.id) = some dstId := by
              rw [getElem?_set_id ht (by simp [Tree.id]) d]; exact hd
            have hl1 : (((D.set jm (.node tj tn tv (merge (c :: cs') (tc :: tcs') 0).2.1))[li]?).map Tree.id) = some lastId := by
              rw [getElem?_set_id ht (by simp [Tree.id]) li]; exact hl
            obtain ⟨s2, hs2, hres2⟩ := moveLoop_spec ts s1 (K ++ [.node i n v (merge (c :: cs') (tc :: tcs') 0).1]) _ ps pd
              slot cur d li dstId lastId (m + (merge (c :: cs') (tc :: tcs') 0).2.2) f hI1' hd1 hl1 hslot (by omega)
            refine ⟨s2, ?_, ?_⟩
            · simp only [hchead, Nat.zero_add] at hs1
              simp only [headId_cons, Store.moveLoop, Store.get_ok ⟨hrrec, rfl⟩, Res.bind_ok, recOf, hfound'', hchead,
                Store.get_ok ⟨hcrec, rfl⟩, htchead, hs1, Store.get_ok ⟨hi1, rfl⟩]
              rw [hs2, merge_rec hfn ht]
              simp only [Res.ok.injEq, Prod.mk.injEq, true_and]
              omega
            · rw [merge_rec hfn ht]
              refine hres.trans ?_
              simpa [List.append_assoc] using hres2


theorem headId_take_drop {S : Forest} {ia : Nat} {ta : Tree} (h : S[ia]? = some ta) : headId (S.drop ia) = some ta.id := by
  rw [headId_drop, h]; rfl

/-- `mpt_node_move(&from, to)`: the sibling list from `a` on is merged into the sibling list of `b` (namesakes looked
    for from `b` on) as `merge` says; `a` and `b` live in different top-level structures.  `slot` is where the caller
    keeps the list reference: the child link of the parent (only possible when there is one) or a variable. -/
theorem move_refines {s : Store} {a b ia d : Nat} {lsrc ldst S D : Forest} {rest : List Forest} {ps pd : Option Nat}
    {slot : Store.Slot}
    (hR : Realises s (lsrc :: ldst :: rest)) (hsa : SibsAt a lsrc S ia ps) (hsb : SibsAt b ldst D d pd)
    (hslot : ∀ p, slot = .kids p → ps = some p) :
    ∃ s', s.move s.fuel slot (some a) b = .ok (s', (merge (S.drop ia) D d).2.2) ∧
      Realises s' ((if (applyAt ps (fun _ => S.take ia ++ (merge (S.drop ia) D d).1) lsrc).isEmpty then []
          else [applyAt ps (fun _ => S.take ia ++ (merge (S.drop ia) D d).1) lsrc]) ++
        applyAt pd (fun _ => (merge (S.drop ia) D d).2.1) ldst :: rest) := by
  have hls := hR.real lsrc (by simp)
  have hld := hR.real ldst (by simp)
  have hnd := hR.nodup
  simp only [List.flatMap_cons] at hnd
  have hnds : (ids lsrc).Nodup := (List.nodup_append.1 hnd).1
  have hnd2 := (List.nodup_append.1 hnd).2.1
  have hndd : (ids ldst).Nodup := (List.nodup_append.1 hnd2).1
  have hdisj_sd : ∀ x ∈ ids lsrc, ∀ y ∈ ids ldst, x ≠ y :=
    fun x hx y hy => (List.nodup_append.1 hnd).2.2 x hx y (by simp [hy])
  have hdisj_sr : ∀ x ∈ ids lsrc, ∀ y ∈ rest.flatMap ids, x ≠ y :=
    fun x hx y hy => (List.nodup_append.1 hnd).2.2 x hx y (by simp [hy])
  have hdisj_dr := (List.nodup_append.1 hnd2).2.2
  obtain ⟨ta, hta, htaid⟩ := getElem?_of_idx? hsa.idx
  obtain ⟨tb, htb, htbid⟩ := getElem?_of_idx? hsb.idx
  have hSD : S.take ia ++ S.drop ia = S := List.take_append_drop ia S
  have hSsub := hsa.subset
  have hDsub := hsb.subset
  -- the invariant of the move
  have hI : MoveInv s (S.take ia ++ S.drop ia) D ps pd := by
    rw [hSD]
    refine ⟨hsa.real hls.2, hsb.real hld.2, ?_, ?_, ?_, ?_⟩
    · rw [List.nodup_append]
      exact ⟨hsa.nodup hnds, hsb.nodup hndd, fun x hx y hy => hdisj_sd x (hSsub x hx) y (hDsub y hy)⟩
    · intro p hp
      obtain ⟨h1, h2⟩ := hsa.par_not_mem hnds p hp
      obtain ⟨pn, hpn, hpc⟩ := hsa.par_rec hls.2 p hp
      obtain ⟨m, hm⟩ := Real.live hls.2 p h2
      rw [hm.1] at hpn
      have hmp : m = pn := Option.some.inj hpn
      subst hmp
      exact ⟨h1, fun h => hdisj_sd p h2 p (hDsub p h) rfl, m, hm, hpc⟩
    · intro q hq
      obtain ⟨h1, h2⟩ := hsb.par_not_mem hndd q hq
      exact ⟨fun h => hdisj_sd q (hSsub q h) q h2 rfl, h1⟩
    · have hb : ∀ x ∈ ids lsrc ++ ids ldst, x < s.nodes.length := by
        intro x hx
        rw [List.mem_append] at hx
        rcases hx with h | h
        · exact hR.ids_lt (l := lsrc) (by simp) x h
        · exact hR.ids_lt (l := ldst) (by simp) x h
      have hnsd : (ids lsrc ++ ids ldst).Nodup := by
        rw [List.nodup_append]; exact ⟨hnds, hndd, hdisj_sd⟩
      have := nodup_bound _ _ hnsd hb
      obtain ⟨A, B, h1, _⟩ := hsa.ids_split hnds
      obtain ⟨A2, B2, h2, _⟩ := hsb.ids_split hndd
      simp only [List.length_append] at this
      have e1 : (ids lsrc).length = A.length + (ids S).length + B.length := by simp only [h1, List.length_append]
      have e2 : (ids ldst).length = A2.length + (ids D).length + B2.length := by simp only [h2, List.length_append]
      omega
  have hfuel : (ids (S.drop ia)).length ≤ s.fuel := by
    have h1 := hI.size
    rw [hSD] at h1
    have h2 : (ids (S.drop ia)).length ≤ (ids S).length := by
      conv => rhs; rw [← hSD, ids_append]
      simp only [List.length_append]; omega
    unfold Store.fuel
    omega
  obtain ⟨s', hs', hres⟩ := moveLoop_spec (S.drop ia) s (S.take ia) D ps pd slot (some a) d d b b 0 s.fuel hI
    (by rw [htb]; simp [htbid]) (by rw [htb]; simp [htbid]) hslot hfuel
  rw [hSD] at hres
  rw [headId_take_drop hta, htaid, Nat.zero_add] at hs'
  refine ⟨s', by simpa [Store.move] using hs', ?_⟩
  have hDne : D ≠ [] := by intro h; rw [h] at htb; simp at htb
  have hheadD : headId (merge (S.drop ia) D d).2.1 = headId D := by
    obtain ⟨h1, h2⟩ := merge_dst_prefix (S.drop ia) D d
    have hlen : 0 < D.length := List.length_pos_iff.2 hDne
    have := h2 0 hlen
    cases hq : (merge (S.drop ia) D d).2.1 with
    | nil => rw [hq] at h1; simp only [List.length_nil] at h1; omega
    | cons x xs =>
      rw [hq] at this
      cases hD : D with
      | nil => exact absurd hD hDne
      | cons y ys => rw [hD] at this; cases x; cases y; simpa [Tree.id] using this
  -- the two changed top-level lists
  have hsrc' : Real s' none none (applyAt ps (fun _ => S.take ia ++ (merge (S.drop ia) D d).1) lsrc) := by
    refine hsa.lift hls.2 hnds hres.src (fun q hq => hres.par q hq) ?_
    intro i hi hip hiS
    exact hres.frame i hiS (fun h => hdisj_sd i hi i (hDsub i h) rfl) hip
  have hps_src : ∀ p, ps = some p → p ∈ ids lsrc := fun p hp => (hsa.par_not_mem hnds p hp).2
  have hdst' : Real s' none none (applyAt pd (fun _ => (merge (S.drop ia) D d).2.1) ldst) := by
    refine hsb.lift hld.2 hndd hres.dst ?_ ?_
    · intro q hq
      obtain ⟨h1, h2⟩ := hsb.par_not_mem hndd q hq
      obtain ⟨qn, hqn, hqc⟩ := hsb.par_rec hld.2 q hq
      rw [hres.frame q (fun h => hdisj_sd q (hSsub q h) q h2 rfl) h1
        (by intro h; exact hdisj_sd q (hps_src q h.symm) q h2 rfl), hqn, hheadD]
      simp [← hqc]
    · intro i hi hip hiD
      exact hres.frame i (fun h => hdisj_sd i (hSsub i h) i hi rfl) hiD
        (by intro h; exact hdisj_sd i (hps_src i h.symm) i hi rfl)
  have hdstne : applyAt pd (fun _ => (merge (S.drop ia) D d).2.1) ldst ≠ [] := by
    refine applyAt_ne_nil hld.1 ?_
    intro h
    have h1 := (merge_dst_prefix (S.drop ia) D d).1
    rw [h] at h1
    have hlen : 0 < D.length := List.length_pos_iff.2 hDne
    simp only [List.length_nil] at h1; omega
  refine hR.of_sameLife hres.life ?_ ?_
  · intro l' hl'
    rw [List.mem_append] at hl'
    rcases hl' with hl' | hl'
    · split at hl'
      · simp at hl'
      · rename_i hne
        simp at hl'; subst hl'
        exact ⟨by intro h; rw [h] at hne; simp at hne, hsrc'⟩
    · simp only [List.mem_cons] at hl'
      rcases hl' with rfl | hl'
      · exact ⟨hdstne, hdst'⟩
      · have hr := hR.real l' (by simp [hl'])
        refine ⟨hr.1, Real.frame hr.2 (fun i hi => ?_)⟩
        have hirest : i ∈ rest.flatMap ids := List.mem_flatMap.2 ⟨l', hl', hi⟩
        refine hres.frame i (fun h => hdisj_sr i (hSsub i h) i hirest rfl) (fun h => hdisj_dr i (hDsub i h) i hirest rfl) ?_
        intro h; exact hdisj_sr i (hps_src i h.symm) i hirest rfl
  · obtain ⟨A, B, h1, h1'⟩ := hsa.ids_split hnds
    obtain ⟨A2, B2, h2, h2'⟩ := hsb.ids_split hndd
    have hsrcids : ((if (applyAt ps (fun _ => S.take ia ++ (merge (S.drop ia) D d).1) lsrc).isEmpty then []
          else [applyAt ps (fun _ => S.take ia ++ (merge (S.drop ia) D d).1) lsrc]).flatMap ids) =
        ids (applyAt ps (fun _ => S.take ia ++ (merge (S.drop ia) D d).1) lsrc) := by
      split
      · rename_i he
        have : applyAt ps (fun _ => S.take ia ++ (merge (S.drop ia) D d).1) lsrc = [] := by simpa using he
        rw [this]; simp
      · simp
    rw [List.flatMap_append, hsrcids]
    simp only [List.flatMap_cons]
    rw [h1' _, h2' _, h1, h2]
    have hp := hres.perm
    generalize ids (S.take ia ++ (merge (S.drop ia) D d).1) = X at *
    generalize ids (merge (S.drop ia) D d).2.1 = Y at *
    generalize ids S = Sx at *
    generalize ids D = Dx at *
    have g1 : (A ++ X ++ B ++ (A2 ++ Y ++ B2 ++ rest.flatMap ids)).Perm ((X ++ Y) ++ (A ++ B ++ (A2 ++ B2 ++ rest.flatMap ids))) := by
      have e1 : (A ++ X ++ B).Perm (X ++ (A ++ B)) := by
        have := List.Perm.append_right B (@List.perm_append_comm _ A X)
        simpa [List.append_assoc] using this
      have e2 : (A2 ++ Y ++ B2 ++ rest.flatMap ids).Perm (Y ++ (A2 ++ B2 ++ rest.flatMap ids)) := by
        have := List.Perm.append_right (B2 ++ rest.flatMap ids) (@List.perm_append_comm _ A2 Y)
        simpa [List.append_assoc] using this
      refine (List.Perm.append e1 e2).trans ?_
      have := List.Perm.append_right (A2 ++ B2 ++ rest.flatMap ids)
        (List.Perm.append_left X (@List.perm_append_comm _ (A ++ B) Y))
      have e3 : (X ++ (A ++ B) ++ (Y ++ (A2 ++ B2 ++ rest.flatMap ids))).Perm (X ++ (A ++ B ++ Y) ++ (A2 ++ B2 ++ rest.flatMap ids)) := by
        simp [List.append_assoc]
      refine e3.trans (this.trans ?_)
      simp [List.append_assoc]
    have g2 : (A ++ Sx ++ B ++ (A2 ++ Dx ++ B2 ++ rest.flatMap ids)).Perm ((Sx ++ Dx) ++ (A ++ B ++ (A2 ++ B2 ++ rest.flatMap ids))) := by
      have e1 : (A ++ Sx ++ B).Perm (Sx ++ (A ++ B)) := by
        have := List.Perm.append_right B (@List.perm_append_comm _ A Sx)
        simpa [List.append_assoc] using this
      have e2 : (A2 ++ Dx ++ B2 ++ rest.flatMap ids).Perm (Dx ++ (A2 ++ B2 ++ rest.flatMap ids)) := by
        have := List.Perm.append_right (B2 ++ rest.flatMap ids) (@List.perm_append_comm _ A2 Dx)
        simpa [List.append_assoc] using this
      refine (List.Perm.append e1 e2).trans ?_
      have := List.Perm.append_right (A2 ++ B2 ++ rest.flatMap ids)
        (List.Perm.append_left Sx (@List.perm_append_comm _ (A ++ B) Dx))
      have e3 : (Sx ++ (A ++ B) ++ (Dx ++ (A2 ++ B2 ++ rest.flatMap ids))).Perm (Sx ++ (A ++ B ++ Dx) ++ (A2 ++ B2 ++ rest.flatMap ids)) := by
        simp [List.append_assoc]
      refine e3.trans (this.trans ?_)
      simp [List.append_assoc]
    exact g1.trans ((List.Perm.append_right _ hp).trans g2.symm)


theorem Store.ext' {s s' : Store} (h1 : s'.freed = s.freed) (h2 : ∀ j : Nat, s'.nodes[j]? = s.nodes[j]?) : s' = s := by
  cases s; cases s'
  simp only at h1 h2
  subst h1
  congr
  exact List.ext_getElem? h2

/-- `mpt_node_unlink` of a node that is a list of its own changes nothing -/
theorem unlink_lone {s : Store} {x : Nat} {n : Name} {v : Val} {cs : Forest} {rest : List Forest}
    (hR : Realises s ([.node x n v cs] :: rest)) : s.unlink x = .ok (s, none) := by
  have hT := (hR.real [.node x n v cs] (by simp)).2
  rw [Real_cons] at hT
  have hlive : s.Live x (recOf none none none cs n v) := ⟨by simpa [headId] using hT.1, rfl⟩
  obtain ⟨s3, h3, u3⟩ := Store.modify_ok hlive (fun x => { x with parent := none, next := none, prev := none })
  have : s3 = s := by
    refine Store.ext' u3.1 (fun j => ?_)
    rw [u3.2.2 j]
    split
    · next h => subst h; rw [hlive.1]
    · rfl
  subst this
  simp only [Store.unlink, Store.get_ok hlive, Res.bind_ok, Store.unlinkNext, Store.unlinkPrev, h3]
  rfl


end Mpt.Nodes
