/-
  Lemmas for the command text decoder model over arbitrary arrival of the input (core Lean only).
-/
import MptModel.Lemmas.DecodeCommand
import MptModel.Lemmas.DecodeArrive
namespace Mpt.Codec
open Mpt.Cobs

theorem findZero_none (store : List Byte) : ∀ (n i : Nat), (∀ x ∈ store.drop i, x ≠ 0) → findZero store n i = none := by
  intro n
  induction n with
  | zero => intro i _; rfl
  | succ n ih =>
    intro i h
    simp only [findZero]
    have h0 : store[i]? ≠ some 0 := by
      intro he
      have hlt : i < store.length := by
        rcases Nat.lt_or_ge i store.length with h1 | h1
        · exact h1
        · simp [List.getElem?_eq_none h1] at he
      have hmem : (0 : Byte) ∈ store.drop i := by
        rw [List.drop_eq_getElem_cons hlt]
        have : store[i] = 0 := by simpa [List.getElem?_eq_getElem hlt] using he
        simp [this]
      exact h 0 hmem rfl
    rw [if_neg h0]
    apply ih
    intro x hx
    apply h x
    have : store.drop (i + 1) = (store.drop i).drop 1 := by simp [List.drop_drop, Nat.add_comm]
    rw [this] at hx
    exact List.drop_subset _ _ hx

/-- the command decoder has written its header and consumed the zero-free text `text` so far -/
structure CmdMid (st : DecState) (store : List Byte) (p0 : Nat) (text : List Byte) : Prop where
  msg : st.msg = none
  hp0 : 2 ≤ p0
  pos : st.pos = p0 - 2
  len : st.len = 2 + text.length
  curr : st.curr = p0 + text.length
  total : store.length = p0 + text.length
  hdr : (store.drop (p0 - 2)).take 2 = cmdHeader
  body : store.drop p0 = text
  nz : ∀ x ∈ text, x ≠ 0


theorem CmdMid.front {st : DecState} {store : List Byte} {p0 : Nat} {text : List Byte} (h : CmdMid st store p0 text) :
    store.drop (p0 - 2) = cmdHeader ++ text := by
  have h2 := h.hp0
  have := List.take_append_drop 2 (store.drop (p0 - 2))
  rw [h.hdr, List.drop_drop, show p0 - 2 + 2 = p0 by omega, h.body] at this
  exact this.symm

/-- a call that continues a command text with the piece `p` -/
theorem cmd_resume (a : Nat) (st : DecState) (store p : List Byte) (p0 : Nat) (text : List Byte)
    (h : CmdMid st store p0 text) :
    (∀ pre post, p = pre ++ 0 :: post → (∀ x ∈ pre, x ≠ 0) →
      (decodeCommand st [(a, store ++ p)] false).ret = .val 1 ∧
      (decodeCommand st [(a, store ++ p)] false).region = cmdHeader ++ text ++ pre) ∧
    ((∀ x ∈ p, x ≠ 0) → (decodeCommand st [(a, store ++ p)] false).ret = .val 0 ∧
      CmdMid (decodeCommand st [(a, store ++ p)] false).st (decodeCommand st [(a, store ++ p)] false).store p0 (text ++ p)) := by
  have h2 := h.hp0
  have hdrop : (store ++ p).drop st.curr = p := by rw [h.curr, ← h.total]; simp
  have hfront : (store ++ p).drop (p0 - 2) = cmdHeader ++ text ++ p := by
    rw [List.drop_append_of_le_length (by rw [h.total]; omega), h.front]
  have hpre : ∀ (r : Option Nat), decodeCommand st [(a, store ++ p)] false =
      (match findZero (store ++ p) ((store ++ p).length - st.curr) st.curr with
      | some z => { ret := .val 1, st := { st with len := st.len + (z - st.curr), msg := some (st.len + (z - st.curr)), curr := st.pos + (st.len + (z - st.curr)) + 1 },
                    store := store ++ p, reads := (List.range (z + 1 - st.curr)).map (· + st.curr) }
      | none => { ret := .val 0, st := { st with len := st.len + ((store ++ p).length - st.curr), curr := st.pos + (st.len + ((store ++ p).length - st.curr)) },
                  store := store ++ p, reads := (List.range ((store ++ p).length - st.curr)).map (· + st.curr) }) := by
    intro _
    unfold decodeCommand
    simp only [Bool.false_eq_true, if_false, and_false, flat_single, h.msg, Option.getD_none, Nat.sub_zero, Option.isSome_none, or_self]
    rw [if_neg (by rw [h.len]; omega), if_neg (by rw [h.curr, h.pos, h.len]; omega)]
    rw [if_neg (by simp only [List.length_append, h.curr, h.total]; omega)]
    cases findZero (store ++ p) ((store ++ p).length - st.curr) st.curr <;> rfl
  rw [hpre none]
  constructor
  · intro pre post hp hnz
    have hz := findZero_spec (store ++ p) pre st.curr ((store ++ p).length - st.curr) post (by rw [hdrop, hp]) hnz rfl
    rw [hz]
    refine ⟨rfl, ?_⟩
    simp only [DecOut.region]
    rw [h.pos, hfront, h.len, hp]
    have : 2 + text.length + (st.curr + pre.length - st.curr) = (cmdHeader ++ text ++ pre).length := by simp [cmdHeader]; omega
    rw [this, ← List.append_assoc, List.take_append_of_le_length (Nat.le_refl _), List.take_length]
  · intro hnz
    have hz := findZero_none (store ++ p) ((store ++ p).length - st.curr) st.curr (by rw [hdrop]; exact hnz)
    rw [hz]
    refine ⟨rfl, h.msg, h2, h.pos, ?_, ?_, ?_, ?_, ?_, ?_⟩
    · simp [h.len, h.curr, h.total]; omega
    · simp [h.len, h.curr, h.total, h.pos]; omega
    · simp [h.total]; omega
    · simp only
      rw [hfront, List.append_assoc, List.take_append_of_le_length (by simp [cmdHeader])]
      simp [cmdHeader]
    · simp only
      rw [List.drop_append_of_le_length (by rw [h.total]; omega), h.body]
    · intro x hx
      simp only [List.mem_append] at hx
      rcases hx with hx | hx
      · exact h.nz x hx
      · exact hnz x hx


theorem hdr_written (s : List Byte) (pos : Nat) (h2 : 2 ≤ pos) (hl : pos ≤ s.length) :
    ((((s.set (pos - 2) 0x04).set (pos - 1) 0x20).drop (pos - 2)).take 2) = cmdHeader := by
  apply List.ext_getElem?
  intro i
  simp only [List.getElem?_take, List.getElem?_drop, List.getElem?_set, cmdHeader, List.length_set]
  by_cases h0 : i = 0
  · subst h0
    simp
    rw [if_neg (by omega), if_pos (by omega)]
  by_cases h1 : i = 1
  · subst h1
    have : pos - 2 + 1 = pos - 1 := by omega
    simp [this]; omega
  · obtain ⟨k, rfl⟩ : ∃ k, i = k + 2 := ⟨i - 2, by omega⟩
    simp
    omega

/-- the first call for a command text whose terminator has not arrived yet -/
theorem cmd_start (st : DecState) (segs : List Seg)
    (hlen : st.len - st.msg.getD 0 = 0) (hpos : 2 ≤ st.curr) (hle : st.curr ≤ (flat segs).length)
    (hnz : ∀ x ∈ (flat segs).drop st.curr, x ≠ 0) :
    (decodeCommand st segs false).ret = .val 0 ∧
    CmdMid (decodeCommand st segs false).st (decodeCommand st segs false).store st.curr ((flat segs).drop st.curr) := by
  unfold decodeCommand
  simp only [Bool.false_eq_true, if_false, and_false, hlen, if_true]
  rw [if_neg (by omega), if_neg (by omega), if_neg (by omega), if_neg (by omega)]
  have hdrop2 : (((flat segs).set (st.curr - 2) 0x04).set (st.curr - 1) 0x20).drop st.curr = (flat segs).drop st.curr := by
    rw [drop_set_lt _ _ _ _ (by omega), drop_set_lt _ _ _ _ (by omega)]
  have hfz := findZero_none (((flat segs).set (st.curr - 2) 0x04).set (st.curr - 1) 0x20)
    ((flat segs).length - st.curr) st.curr (by rw [hdrop2]; exact hnz)
  simp only [List.length_set] at hfz ⊢
  rw [hfz]
  refine ⟨rfl, rfl, hpos, rfl, by simp, by simp; omega, by simp; omega, ?_, hdrop2, hnz⟩
  exact hdr_written _ _ hpos hle

/-- phase B of the command receiver -/
theorem arriveCmd_mid (a : Nat) (p0 : Nat) (pieces : List (List Byte)) : ∀ (st : DecState) (store text tl junk : List Byte) (o : DecOut),
    CmdMid st store p0 text → (∀ x ∈ tl, x ≠ 0) → pieces.flatten = tl ++ 0 :: junk →
    arriveCmd a st store pieces = some o → o.ret = .val 1 → o.region = cmdHeader ++ (text ++ tl) := by
  induction pieces with
  | nil => intro st store text tl junk o _ _ _ h; simp [arriveCmd] at h
  | cons p ps ih =>
    intro st store text tl junk o hm htl hS h h1
    have hcall := cmd_resume a st store p p0 text hm
    simp only [arriveCmd] at h
    simp only [List.flatten_cons] at hS
    rcases List.append_eq_append_iff.mp hS with ⟨a', ha1, ha2⟩ | ⟨c', hc1, hc2⟩
    · -- the piece lies inside the text
      have hpnz : ∀ x ∈ p, x ≠ 0 := fun x hx => htl x (by rw [ha1]; simp [hx])
      obtain ⟨r0, hmid⟩ := hcall.2 hpnz
      rw [if_pos r0] at h
      have := ih _ _ (text ++ p) a' junk o hmid (fun x hx => htl x (by rw [ha1]; simp [hx])) ha2 h h1
      rw [this, ha1]; simp
    · cases c' with
      | nil =>
        simp only [List.append_nil, List.nil_append] at hc1 hc2
        have hpnz : ∀ x ∈ p, x ≠ 0 := fun x hx => htl x (by rw [← hc1]; exact hx)
        obtain ⟨r0, hmid⟩ := hcall.2 hpnz
        rw [if_pos r0] at h
        have := ih _ _ (text ++ p) [] junk o hmid (by simp) (by simpa using hc2.symm) h h1
        rw [this, hc1]; simp
      | cons z c'' =>
        simp only [List.cons_append, List.cons.injEq] at hc2
        obtain ⟨rfl, _⟩ := hc2
        obtain ⟨r1, hreg⟩ := hcall.1 tl c'' hc1 htl
        rw [if_neg (by rw [r1]; simp)] at h
        simp only [Option.some.injEq] at h
        subst h
        rw [hreg]; simp

/-- honesty of the command decoder over every arrival pattern: from a state between two messages with the two
    bytes of head room, whatever the pieces in which the text arrives, the first delivered message is the
    reference decoding (header ++ text) of the frame at the input position -/
theorem arriveCmd_honest (a : Nat) (pieces : List (List Byte)) : ∀ (st : DecState) (store body junk : List Byte) (o : DecOut),
    st.len - st.msg.getD 0 = 0 → 2 ≤ st.curr → st.curr ≤ store.length →
    store.drop st.curr ++ pieces.flatten = body ++ 0 :: junk → (∀ x ∈ body, x ≠ 0) →
    arriveCmd a st store pieces = some o → o.ret = .val 1 → decCmd (body ++ [0]) = some o.region := by
  intro st store body junk o hlen hpos hle hS hnz h h1
  have hdec : decCmd (body ++ [0]) = some (cmdHeader ++ body) := by
    simp [decCmd]; intro h0; exact hnz 0 h0 rfl
  rw [hdec]
  congr 1
  cases pieces with
  | nil => simp [arriveCmd] at h
  | cons p ps =>
    simp only [arriveCmd] at h
    have hdrop : (store ++ p).drop st.curr = store.drop st.curr ++ p := List.drop_append_of_le_length hle
    simp only [List.flatten_cons, ← List.append_assoc] at hS
    rcases List.append_eq_append_iff.mp hS with ⟨a', ha1, ha2⟩ | ⟨c', hc1, hc2⟩
    · have hxnz : ∀ x ∈ (flat [(a, store ++ p)]).drop st.curr, x ≠ 0 := by
        rw [flat_single, hdrop]; intro x hx; exact hnz x (by rw [ha1]; exact List.mem_append_left _ hx)
      obtain ⟨r0, hmid⟩ := cmd_start st [(a, store ++ p)] hlen hpos (by rw [flat_single]; simp; omega) hxnz
      rw [if_pos r0] at h
      rw [flat_single, hdrop] at hmid
      have := arriveCmd_mid a st.curr ps _ _ _ a' junk o hmid (fun x hx => hnz x (by rw [ha1]; simp [hx])) ha2 h h1
      rw [this, ha1]
    · cases c' with
      | nil =>
        simp only [List.append_nil, List.nil_append] at hc1 hc2
        have hxnz : ∀ x ∈ (flat [(a, store ++ p)]).drop st.curr, x ≠ 0 := by
          rw [flat_single, hdrop, hc1]; exact hnz
        obtain ⟨r0, hmid⟩ := cmd_start st [(a, store ++ p)] hlen hpos (by rw [flat_single]; simp; omega) hxnz
        rw [if_pos r0] at h
        rw [flat_single, hdrop] at hmid
        have := arriveCmd_mid a st.curr ps _ _ _ [] junk o hmid (by simp) (by simpa using hc2.symm) h h1
        rw [this, hc1]; simp
      | cons z c'' =>
        simp only [List.cons_append, List.cons.injEq] at hc2
        obtain ⟨rfl, _⟩ := hc2
        have hin : (flat [(a, store ++ p)]).drop st.curr = body ++ 0 :: c'' := by rw [flat_single, hdrop, hc1]
        obtain ⟨r1, hreg, _, _⟩ := decodeCommand_honest st [(a, store ++ p)] body c'' hlen hpos hin hnz
        rw [if_neg (by rw [r1]; simp)] at h
        simp only [Option.some.injEq] at h
        subst h
        rw [hdec] at hreg
        exact Option.some.inj hreg

end Mpt.Codec
