/-
  node_clear / node_destroy: every node below the argument is released exactly once (post-order),
  nothing else is touched.
-/
import MptModel.Lemmas.NodesOps3
namespace Mpt.Nodes
open Mpt Mpt.Forest

/-- what the release functions need of a sub-forest: live records whose `next`/`children` links follow the forest -/
def Down (s : Store) : Forest → Prop
  | [] => True
  | (.node i _ _ cs) :: ts =>
    (∃ n, s.nodes[i]? = some n ∧ n.alive = true ∧ n.next = headId ts ∧ n.children = headId cs) ∧ Down s cs ∧ Down s ts

theorem Down_cons (s : Store) (i : Nat) (n : Name) (v : Val) (cs ts : Forest) :
    Down s ((.node i n v cs) :: ts) =
      ((∃ m, s.nodes[i]? = some m ∧ m.alive = true ∧ m.next = headId ts ∧ m.children = headId cs) ∧ Down s cs ∧ Down s ts) := by
  simp [Down]

theorem Real.down {s : Store} : ∀ {l : Forest} {par prev : Option Nat}, Real s par prev l → Down s l
  | [], _, _, _ => by simp [Down]
  | (.node i n v cs) :: ts, par, prev, h => by
    rw [Real_cons] at h
    rw [Down_cons]
    exact ⟨⟨_, h.1, rfl, rfl, rfl⟩, Real.down h.2.1, Real.down h.2.2⟩

theorem Down.frame {s s' : Store} : ∀ {l : Forest}, Down s l → (∀ i ∈ ids l, s'.nodes[i]? = s.nodes[i]?) → Down s' l
  | [], _, _ => by simp [Down]
  | (.node i n v cs) :: ts, h, hf => by
    rw [Down_cons] at h ⊢
    refine ⟨?_, Down.frame h.2.1 (fun k hk => hf k (by simp [hk])), Down.frame h.2.2 (fun k hk => hf k (by simp [hk]))⟩
    rw [hf i (by simp)]
    exact h.1

/-- order in which the nodes are released -/
def post : Forest → List Nat
  | [] => []
  | (.node i _ _ cs) :: ts => post cs ++ i :: post ts

theorem post_perm : ∀ l : Forest, (post l).Perm (ids l)
  | [] => by simp [post]
  | (.node i n v cs) :: ts => by
    simp only [post, ids_cons]
    have h1 := post_perm cs
    have h2 := post_perm ts
    have : (post cs ++ i :: post ts).Perm (i :: (post cs ++ post ts)) := List.perm_middle
    exact this.trans (List.Perm.cons _ (List.Perm.append h1 h2))

/-- fuel the release of a forest consumes -/
def cost : Forest → Nat
  | [] => 0
  | (.node _ _ _ cs) :: ts => 3 + cost cs + cost ts

theorem cost_eq (l : Forest) : cost l = 3 * (ids l).length := by
  fun_induction cost l <;> simp_all <;> omega

/-- the result of releasing the forest `l`: its nodes are dead and logged in post-order, the rest is untouched -/
structure Released (s s' : Store) (l : Forest) : Prop where
  freed : s'.freed = s.freed ++ post l
  length : s'.nodes.length = s.nodes.length
  other : ∀ i, i ∉ ids l → s'.nodes[i]? = s.nodes[i]?
  dead : ∀ i ∈ ids l, ∃ n, s'.nodes[i]? = some n ∧ n.alive = false

theorem Store.free_ok {s : Store} {i : Nat} {n : Node} (h : s.Live i n) :
    ∃ s', s.free i = .ok s' ∧ s'.freed = s.freed ++ [i] ∧ s'.nodes.length = s.nodes.length ∧
      ∀ j, s'.nodes[j]? = if j = i then some { n with alive := false } else s.nodes[j]? := by
  have hl := h.lt
  refine ⟨{ nodes := s.nodes.set i { n with alive := false }, freed := s.freed ++ [i] }, by simp [Store.free, h.1, h.2], rfl, by simp, ?_⟩
  intro j
  simp [List.getElem?_set]
  grind

theorem clearLoop_spec : ∀ (l : Forest) (s : Store) (fuel : Nat), Down s l → (ids l).Nodup → cost l ≤ fuel →
    ∃ s', s.clearLoop fuel (headId l) = .ok s' ∧ Released s s' l
  | [], s, fuel, _, _, _ => ⟨s, by simp [Store.clearLoop], by simp [post], rfl, fun _ _ => rfl, by simp⟩
  | (.node i n v cs) :: ts, s, fuel, hD, hnd, hc => by
    rw [Down_cons] at hD
    obtain ⟨⟨tn, htn, halive, hnext, hchild⟩, hDcs, hDts⟩ := hD
    rw [ids_cons, List.nodup_cons, List.mem_append, List.nodup_append] at hnd
    obtain ⟨hni, ndcs, ndts, disj⟩ := hnd
    simp only [cost] at hc
    obtain ⟨f2, rfl⟩ : ∃ f2, fuel = f2 + 3 := ⟨fuel - 3, by omega⟩
    have hlive : s.Live i tn := ⟨htn, halive⟩
    -- isolate the child
    obtain ⟨s1, e1, u1⟩ := Store.modify_ok hlive (fun x => { x with next := none, prev := none, parent := none })
    have hl1 := u1.live_same (m := { tn with next := none, prev := none, parent := none }) halive
    -- release what is below it
    have hD1 : Down s1 cs := Down.frame hDcs (fun k hk => by
      rw [u1.2.2 k]; have : k ≠ i := by rintro rfl; exact hni (Or.inl hk)
      simp [this])
    obtain ⟨s2, e2, r2⟩ := clearLoop_spec cs s1 f2 hD1 ndcs (by omega)
    have hl2 : s2.Live i { tn with next := none, prev := none, parent := none } := by
      refine ⟨?_, halive⟩
      rw [r2.other i (fun h => hni (Or.inl h))]
      exact hl1.1
    obtain ⟨s3, e3, u3⟩ := Store.modify_ok hl2 (fun x => { x with children := none })
    have hl3 := u3.live_same (m := { tn with next := none, prev := none, parent := none, children := none }) halive
    obtain ⟨s4, e4, f4, l4, r4⟩ := Store.free_ok hl3
    -- continue with the siblings
    have hD4 : Down s4 ts := Down.frame hDts (fun k hk => by
      have hki : k ≠ i := by rintro rfl; exact hni (Or.inr hk)
      have hkcs : k ∉ ids cs := fun h => disj k h k hk rfl
      rw [r4 k, if_neg hki, u3.2.2 k, if_neg hki, r2.other k hkcs, u1.2.2 k, if_neg hki])
    obtain ⟨s5, e5, r5⟩ := clearLoop_spec ts s4 (f2 + 2) hD4 ndts (by omega)
    refine ⟨s5, ?_, ?_, ?_, ?_, ?_⟩
    · have hdes : s1.destroy (f2 + 2) i = .ok (s4, true) := by
        simp only [Store.destroy, Store.get_ok hl1, Res.bind_ok]
        simp only [Option.isSome_none, Bool.false_eq_true, or_self, ↓reduceIte]
        have hclr : s1.clear (f2 + 1) i = .ok s3 := by
          simp only [Store.clear, Store.get_ok hl1, Res.bind_ok]
          rw [hchild, e2]
          simp only [Res.bind_ok, e3]
        rw [hclr]
        simp only [Res.bind_ok, e4]
        rfl
      simp only [headId_cons, Store.clearLoop, Store.get_ok hlive, Res.bind_ok, e1, hdes]
      rw [hnext]
      exact e5
    · rw [r5.freed, f4, u3.1, r2.freed, u1.1]
      simp [post]
    · rw [r5.length, l4, u3.2.1, r2.length, u1.2.1]
    · intro k hk
      simp at hk
      have hki : k ≠ i := fun e => hk.1 e
      rw [r5.other k hk.2.2, r4 k, if_neg hki, u3.2.2 k, if_neg hki, r2.other k hk.2.1, u1.2.2 k, if_neg hki]
    · intro k hk
      simp at hk
      by_cases hkts : k ∈ ids ts
      · exact r5.dead k hkts
      · rw [r5.other k hkts]
        rcases hk with rfl | hk | hk
        · exact ⟨{ tn with next := none, prev := none, parent := none, children := none, alive := false }, by rw [r4 k]; simp, rfl⟩
        · obtain ⟨m, hm, hd⟩ := r2.dead k hk
          have hki : k ≠ i := by rintro rfl; exact hni (Or.inl hk)
          exact ⟨m, by rw [r4 k, if_neg hki, u3.2.2 k, if_neg hki]; exact hm, hd⟩
        · exact absurd hk hkts

end Mpt.Nodes
