/-
  node_clear / node_destroy: every node below the argument is released exactly once (post-order),
  nothing else is touched.
-/
import MptModel.Lemmas.NodesOps3
namespace Mpt.Nodes
open Mpt Mpt.Forest

/-- what the release functions need of a sub-forest: live records whose `next`/`children` links follow the forest -/
def Down (s : Store) : Forest → Prop
  | [] => True
  | (.node i _ _ cs) :: ts =>
    (∃ n, s.nodes[i]? = some n ∧ n.alive = true ∧ n.next = headId ts ∧ n.children = headId cs) ∧ Down s cs ∧ Down s ts

theorem Down_cons (s : Store) (i : Nat) (n : Name) (v : Val) (cs ts : Forest) :
    Down s ((.node i n v cs) :: ts) =
      ((∃ m, s.nodes[i]? = some m ∧ m.alive = true ∧ m.next = headId ts ∧ m.children = headId cs) ∧ Down s cs ∧ Down s ts) := by
  simp [Down]

theorem Real.down {s : Store} : ∀ {l : Forest} {par prev : Option Nat}, Real s par prev l → Down s l
  | [], _, _, _ => by simp [Down]
  | (.node i n v cs) :: ts, par, prev, h => by
    rw [Real_cons] at h
    rw [Down_cons]
    exact ⟨⟨_, h.1, rfl, rfl, rfl⟩, Real.down h.2.1, Real.down h.2.2⟩

theorem Down.frame {s s' : Store} : ∀ {l : Forest}, Down s l → (∀ i ∈ ids l, s'.nodes[i]? = s.nodes[i]?) → Down s' l
  | [], _, _ => by simp [Down]
  | (.node i n v cs) :: ts, h, hf => by
    rw [Down_cons] at h ⊢
    refine ⟨?_, Down.frame h.2.1 (fun k hk => hf k (by simp [hk])), Down.frame h.2.2 (fun k hk => hf k (by simp [hk]))⟩
    rw [hf i (by simp)]
    exact h.1

/-- order in which the nodes are released -/
def post : Forest → List Nat
  | [] => []
  | (.node i _ _ cs) :: ts => post cs ++ i :: post ts

theorem post_perm : ∀ l : Forest, (post l).Perm (ids l)
  | [] => by simp [post]
  | (.node i n v cs) :: ts => by
    simp only [post, ids_cons]
    have h1 := post_perm cs
    have h2 := post_perm ts
    have : (post cs ++ i :: post ts).Perm (i :: (post cs ++ post ts)) := List.perm_middle
    exact this.trans (List.Perm.cons _ (List.Perm.append h1 h2))

/-- fuel the release of a forest consumes -/
def cost : Forest → Nat
  | [] => 0
  | (.node _ _ _ cs) :: ts => 3 + cost cs + cost ts

theorem cost_eq (l : Forest) : cost l = 3 * (ids l).length := by
  fun_induction cost l <;> simp_all <;> omega

/-- the result of releasing the forest `l`: its nodes are dead and logged in post-order, the rest is untouched -/
structure Released (s s' : Store) (l : Forest) : Prop where
  freed : s'.freed = s.freed ++ post l
  length : s'.nodes.length = s.nodes.length
  other : ∀ i, i ∉ ids l → s'.nodes[i]? = s.nodes[i]?
  dead : ∀ i ∈ ids l, ∃ n, s'.nodes[i]? = some n ∧ n.alive = false

theorem Store.free_ok {s : Store} {i : Nat} {n : Node} (h : s.Live i n) :
    ∃ s', s.free i = .ok s' ∧ s'.freed = s.freed ++ [i] ∧ s'.nodes.length = s.nodes.length ∧
      ∀ j, s'.nodes[j]? = if j = i then some { n with alive := false } else s.nodes[j]? := by
  have hl := h.lt
  refine ⟨{ nodes := s.nodes.set i { n with alive := false }, freed := s.freed ++ [i] }, by simp [Store.free, h.1, h.2], rfl, by simp, ?_⟩
  intro j
  simp [List.getElem?_set]
  grind

theorem clearLoop_spec : ∀ (l : Forest) (s : Store) (fuel : Nat), Down s l → (ids l).Nodup → cost l ≤ fuel →
    ∃ s', s.clearLoop fuel (headId l) = .ok s' ∧ Released s s' l
  | [], s, fuel, _, _, _ => ⟨s, by simp [Store.clearLoop], by simp [post], rfl, fun _ _ => rfl, by simp⟩
  | (.node i n v cs) :: ts, s, fuel, hD, hnd, hc => by
    rw [Down_cons] at hD
    obtain ⟨⟨tn, htn, halive, hnext, hchild⟩, hDcs, hDts⟩ := hD
    rw [ids_cons, List.nodup_cons, List.mem_append, List.nodup_append] at hnd
    obtain ⟨hni, ndcs, ndts, disj⟩ := hnd
    simp only [cost] at hc
    obtain ⟨f2, rfl⟩ : ∃ f2, fuel = f2 + 3 := ⟨fuel - 3, by omega⟩
    have hlive : s.Live i tn := ⟨htn, halive⟩
    -- isolate the child
    obtain ⟨s1, e1, u1⟩ := Store.modify_ok hlive (fun x => { x with next := none, prev := none, parent := none })
    have hl1 := u1.live_same (m := { tn with next := none, prev := none, parent := none }) halive
    -- release what is below it
    have hD1 : Down s1 cs := Down.frame hDcs (fun k hk => by
      rw [u1.2.2 k]; have : k ≠ i := by rintro rfl; exact hni (Or.inl hk)
      simp [this])
    obtain ⟨s2, e2, r2⟩ := clearLoop_spec cs s1 f2 hD1 ndcs (by omega)
    have hl2 : s2.Live i { tn with next := none, prev := none, parent := none } := by
      refine ⟨?_, halive⟩
      rw [r2.other i (fun h => hni (Or.inl h))]
      exact hl1.1
    obtain ⟨s3, e3, u3⟩ := Store.modify_ok hl2 (fun x => { x with children := none })
    have hl3 := u3.live_same (m := { tn with next := none, prev := none, parent := none, children := none }) halive
    obtain ⟨s4, e4, f4, l4, r4⟩ := Store.free_ok hl3
    -- continue with the siblings
    have hD4 : Down s4 ts := Down.frame hDts (fun k hk => by
      have hki : k ≠ i := by rintro rfl; exact hni (Or.inr hk)
      have hkcs : k ∉ ids cs := fun h => disj k h k hk rfl
      rw [r4 k, if_neg hki, u3.2.2 k, if_neg hki, r2.other k hkcs, u1.2.2 k, if_neg hki])
    obtain ⟨s5, e5, r5⟩ := clearLoop_spec ts s4 (f2 + 2) hD4 ndts (by omega)
    refine ⟨s5, ?_, ?_, ?_, ?_, ?_⟩
    · have hdes : s1.destroy (f2 + 2) i = .ok (s4, true) := by
        simp only [Store.destroy, Store.get_ok hl1, Res.bind_ok]
        simp only [Option.isSome_none, Bool.false_eq_true, or_self, ↓reduceIte]
        have hclr : s1.clear (f2 + 1) i = .ok s3 := by
          simp only [Store.clear, Store.get_ok hl1, Res.bind_ok]
          rw [hchild, e2]
          simp only [Res.bind_ok, e3]
        rw [hclr]
        simp only [Res.bind_ok, e4]
        rfl
      simp only [headId_cons, Store.clearLoop, Store.get_ok hlive, Res.bind_ok, e1, hdes]
      rw [hnext]
      exact e5
    · rw [r5.freed, f4, u3.1, r2.freed, u1.1]
      simp [post]
    · rw [r5.length, l4, u3.2.1, r2.length, u1.2.1]
    · intro k hk
      simp at hk
      have hki : k ≠ i := fun e => hk.1 e
      rw [r5.other k hk.2.2, r4 k, if_neg hki, u3.2.2 k, if_neg hki, r2.other k hk.2.1, u1.2.2 k, if_neg hki]
    · intro k hk
      simp at hk
      by_cases hkts : k ∈ ids ts
      · exact r5.dead k hkts
      · rw [r5.other k hkts]
        rcases hk with rfl | hk | hk
        · exact ⟨{ tn with next := none, prev := none, parent := none, children := none, alive := false }, by rw [r4 k]; simp, rfl⟩
        · obtain ⟨m, hm, hd⟩ := r2.dead k hk
          have hki : k ≠ i := by rintro rfl; exact hni (Or.inl hk)
          exact ⟨m, by rw [r4 k, if_neg hki, u3.2.2 k, if_neg hki]; exact hm, hd⟩
        · exact absurd hk hkts

/-- `mpt_node_clear(x)` at record level -/
theorem clear_spec {s : Store} {x : Nat} {xn : Node} {cs : Forest} {fuel : Nat}
    (hx : s.Live x xn) (hc : xn.children = headId cs) (hD : Down s cs) (hnd : (ids cs).Nodup) (hxcs : x ∉ ids cs)
    (hf : cost cs + 1 ≤ fuel) :
    ∃ s', s.clear fuel x = .ok s' ∧ s'.freed = s.freed ++ post cs ∧ s'.nodes.length = s.nodes.length ∧
      s'.nodes[x]? = some { xn with children := none } ∧
      (∀ i, i ≠ x → i ∉ ids cs → s'.nodes[i]? = s.nodes[i]?) ∧
      (∀ i ∈ ids cs, ∃ n, s'.nodes[i]? = some n ∧ n.alive = false) := by
  obtain ⟨f, rfl⟩ : ∃ f, fuel = f + 1 := ⟨fuel - 1, by omega⟩
  obtain ⟨s1, e1, r1⟩ := clearLoop_spec cs s f hD hnd (by omega)
  have hl1 : s1.Live x xn := ⟨by rw [r1.other x hxcs]; exact hx.1, hx.2⟩
  obtain ⟨s2, e2, u2⟩ := Store.modify_ok hl1 (fun n => { n with children := none })
  refine ⟨s2, ?_, ?_, ?_, ?_, ?_, ?_⟩
  · simp only [Store.clear, Store.get_ok hx, Res.bind_ok]
    rw [hc, e1]
    simp only [Res.bind_ok, e2]
  · rw [u2.1, r1.freed]
  · rw [u2.2.1, r1.length]
  · rw [u2.2.2 x]; simp
  · intro i h1 h2
    rw [u2.2.2 i, if_neg h1, r1.other i h2]
  · intro i hi
    obtain ⟨n, hn, hd⟩ := r1.dead i hi
    have : i ≠ x := by rintro rfl; exact hxcs hi
    exact ⟨n, by rw [u2.2.2 i, if_neg this]; exact hn, hd⟩

/-- `mpt_node_destroy(x)` of an unlinked node at record level -/
theorem destroy_spec {s : Store} {x : Nat} {n : Name} {v : Val} {cs : Forest} {fuel : Nat}
    (hR : Real s none none [.node x n v cs]) (hnd : (ids [.node x n v cs]).Nodup)
    (hf : cost cs + 2 ≤ fuel) :
    ∃ s', s.destroy fuel x = .ok (s', true) ∧ Released s s' [.node x n v cs] := by
  rw [Real_cons] at hR
  simp at hnd
  obtain ⟨f, rfl⟩ : ∃ f, fuel = f + 1 := ⟨fuel - 1, by omega⟩
  have hx : s.Live x (recOf none none none cs n v) := ⟨by simpa using hR.1, rfl⟩
  obtain ⟨s1, e1, f1, l1, rx, ro, rd⟩ := clear_spec (fuel := f) hx rfl (Real.down hR.2.1) hnd.2 hnd.1 (by omega)
  have hl1 : s1.Live x { recOf none none none cs n v with children := none } := ⟨rx, rfl⟩
  obtain ⟨s2, e2, f2, l2, r2⟩ := Store.free_ok hl1
  refine ⟨s2, ?_, ?_, ?_, ?_, ?_⟩
  · simp only [Store.destroy, Store.get_ok hx, Res.bind_ok]
    simp only [recOf, Option.isSome_none, Bool.false_eq_true, or_self, ↓reduceIte]
    rw [e1]
    simp only [Res.bind_ok, e2]
    rfl
  · rw [f2, f1]; simp [post]
  · rw [l2, l1]
  · intro i hi
    simp at hi
    rw [r2 i, if_neg hi.1, ro i hi.1 hi.2]
  · intro i hi
    simp at hi
    rcases hi with rfl | hi
    · exact ⟨{ recOf none none none cs n v with children := none, alive := false }, by rw [r2 i]; simp, rfl⟩
    · obtain ⟨m, hm, hd⟩ := rd i hi
      have : i ≠ x := by rintro rfl; exact hnd.1 hi
      exact ⟨m, by rw [r2 i, if_neg this]; exact hm, hd⟩

/-- `mpt_node_destroy` refuses a node that is still linked: nothing changes -/
theorem destroy_refused {s : Store} {x : Nat} {xn : Node} {fuel : Nat} (hx : s.Live x xn)
    (hl : xn.parent.isSome ∨ xn.next.isSome ∨ xn.prev.isSome) : s.destroy (fuel + 1) x = .ok (s, false) := by
  simp only [Store.destroy, Store.get_ok hx, Res.bind_ok]
  simp only [hl, ↓reduceIte]
  rfl


/-- generic bookkeeping for a step that releases the live nodes `D` (logged as `P`) and leaves the
    live/dead flag of every other record alone -/
theorem Realises.release {s s' : Store} {tops tops' : List Forest} {D P : List Nat} (h : Realises s tops)
    (hP : P.Perm D) (hfreed : s'.freed = s.freed ++ P)
    (hother : ∀ i, i ∉ D → (s'.nodes[i]?).map Node.alive = (s.nodes[i]?).map Node.alive)
    (hdead : ∀ i ∈ D, ∃ n, s'.nodes[i]? = some n ∧ n.alive = false)
    (hlive : ∀ i ∈ D, ∃ n, s.Live i n)
    (hr : ∀ l ∈ tops', l ≠ [] ∧ Real s' none none l)
    (hp : (tops'.flatMap ids ++ D).Perm (tops.flatMap ids)) :
    Realises s' tops' := by
  have hndall : (tops'.flatMap ids ++ D).Nodup := hp.nodup_iff.2 h.nodup
  have hnd' := (List.nodup_append.1 hndall).1
  have hndD := (List.nodup_append.1 hndall).2.1
  have hdisj := (List.nodup_append.1 hndall).2.2
  refine ⟨hr, hnd', ?_, ?_, ?_⟩
  · intro i n hn ha
    have hiD : i ∉ D := by
      intro hi
      obtain ⟨m, hm, hd⟩ := hdead i hi
      rw [hn] at hm
      have := Option.some.inj hm
      subst this
      rw [ha] at hd
      exact absurd hd (by simp)
    have := hother i hiD
    rw [hn] at this
    cases hs : s.nodes[i]? with
    | none => simp [hs] at this
    | some m =>
      simp [hs] at this
      have hm := h.cover i m hs (by rw [← this]; exact ha)
      have := hp.mem_iff.2 hm
      rw [List.mem_append] at this
      rcases this with h1 | h1
      · exact h1
      · exact absurd h1 hiD
  · rw [hfreed, List.nodup_append]
    refine ⟨h.freedNodup, hP.nodup_iff.2 hndD, ?_⟩
    intro a ha b hb hab
    subst hab
    obtain ⟨n, hn, hd⟩ := (h.freedIff a).1 ha
    obtain ⟨m, hm1, hm2⟩ := hlive a (hP.mem_iff.1 hb)
    rw [hn] at hm1
    have := Option.some.inj hm1
    subst this
    rw [hm2] at hd
    exact absurd hd (by simp)
  · intro i
    rw [hfreed, List.mem_append, h.freedIff i]
    constructor
    · rintro (⟨n, hn, hd⟩ | hi)
      · have hiD : i ∉ D := by
          intro hi
          obtain ⟨m, hm1, hm2⟩ := hlive i hi
          rw [hn] at hm1
          have := Option.some.inj hm1
          subst this
          rw [hm2] at hd
          exact absurd hd (by simp)
        have := hother i hiD
        rw [hn] at this
        cases hs : s'.nodes[i]? with
        | none => simp [hs] at this
        | some m => simp [hs] at this; exact ⟨m, rfl, by rw [this]; exact hd⟩
      · exact hdead i (hP.mem_iff.1 hi)
    · rintro ⟨n, hn, hd⟩
      by_cases hiD : i ∈ D
      · exact Or.inr (hP.mem_iff.2 hiD)
      · left
        have := hother i hiD
        rw [hn] at this
        cases hs : s.nodes[i]? with
        | none => simp [hs] at this
        | some m => simp [hs] at this; exact ⟨m, rfl, by rw [← this]; exact hd⟩

/-- `mpt_node_destroy(x)` of a detached root: everything of the tree is released exactly once, in post-order -/
theorem destroy_refines {s : Store} {x : Nat} {n : Name} {v : Val} {cs : Forest} {rest : List Forest} {fuel : Nat}
    (hR : Realises s ([.node x n v cs] :: rest)) (hf : cost cs + 2 ≤ fuel) :
    ∃ s', s.destroy fuel x = .ok (s', true) ∧ Realises s' rest ∧ s'.freed = s.freed ++ post [.node x n v cs] := by
  have hT := (hR.real [.node x n v cs] (by simp)).2
  have hnd := hR.nodup
  simp only [List.flatMap_cons] at hnd
  have hndT := (List.nodup_append.1 hnd).1
  have hdisj := (List.nodup_append.1 hnd).2.2
  obtain ⟨s', hs', rel⟩ := destroy_spec hT hndT hf
  refine ⟨s', hs', ?_, rel.freed⟩
  refine hR.release (D := ids [.node x n v cs]) (post_perm _) rel.freed ?_ rel.dead (Real.live hT) ?_ ?_
  · intro i hi
    rw [rel.other i hi]
  · intro l hl
    have hr := hR.real l (by simp [hl])
    refine ⟨hr.1, Real.frame hr.2 (fun i hi => rel.other i ?_)⟩
    intro h
    exact hdisj i h i (List.mem_flatMap.2 ⟨l, hl, hi⟩) rfl
  · simp only [List.flatMap_cons]
    exact List.perm_append_comm

/-- `mpt_node_clear(x)`: everything below `x` is released exactly once, `x` keeps its place -/
theorem clear_refines {s : Store} {x : Nat} {l0 : Forest} {tx : Tree} {rest : List Forest} {fuel : Nat}
    (hR : Realises s (l0 :: rest)) (hfx : find? x l0 = some tx) (hf : cost tx.children + 1 ≤ fuel) :
    ∃ s', s.clear fuel x = .ok s' ∧ Realises s' (modKids x (fun _ => []) l0 :: rest) ∧
      s'.freed = s.freed ++ post tx.children := by
  have hl0 := hR.real l0 (by simp)
  have hnd := hR.nodup
  simp only [List.flatMap_cons] at hnd
  have hnd0 := (List.nodup_append.1 hnd).1
  have hdisj := (List.nodup_append.1 hnd).2.2
  obtain ⟨⟨nx, pv, pr, hxrec⟩, hkids⟩ := Real.of_find hl0.2 hfx
  have hxcs := find?_not_in_children hnd0 hfx
  have hcsnd := find?_children_nodup hnd0 hfx
  have hsub := find?_children_subset hfx
  obtain ⟨s', hs', hfreed, hlen, rx, ro, rd⟩ :=
    clear_spec (fuel := fuel) (s := s) (x := x) ⟨hxrec, rfl⟩ rfl (Real.down hkids) hcsnd hxcs hf
  refine ⟨s', hs', ?_, hfreed⟩
  obtain ⟨A, B, hsplit, hsplit'⟩ := ids_modKids_split hnd0 hfx
  refine hR.release (D := ids tx.children) (post_perm _) hfreed ?_ rd (Real.live hkids) ?_ ?_
  · intro i hi
    by_cases hix : i = x
    · subst hix; rw [rx, hxrec]; rfl
    · rw [ro i hix hi]
  · intro l hl
    simp only [List.mem_cons] at hl
    rcases hl with rfl | hl
    · refine ⟨?_, ?_⟩
      · intro h
        have := headId_modKids (q := x) (g := fun _ => []) l0
        rw [h] at this
        cases l0 with
        | nil => exact hl0.1 rfl
        | cons t ts => cases t; simp at this
      · refine real_modKids hl0.2 hnd0 hfx (by simp) ?_ (fun i _ h1 h2 => ro i h1 h2)
        rw [rx, hxrec]; rfl
    · have hr := hR.real l (by simp [hl])
      refine ⟨hr.1, Real.frame hr.2 (fun i hi => ?_)⟩
      have hirest : i ∈ rest.flatMap ids := List.mem_flatMap.2 ⟨l, hl, hi⟩
      refine ro i ?_ ?_
      · rintro rfl; exact hdisj i (find?_mem hfx).1 i hirest rfl
      · intro h; exact hdisj i (hsub i h) i hirest rfl
  · simp only [List.flatMap_cons]
    rw [hsplit, hsplit' (fun _ => [])]
    simp only [ids_nil, List.append_nil]
    have : (A ++ B ++ rest.flatMap ids ++ ids tx.children).Perm (A ++ ids tx.children ++ B ++ rest.flatMap ids) := by
      have h1 := @List.perm_append_comm _ (B ++ rest.flatMap ids) (ids tx.children)
      have h2 := List.Perm.append_left A h1
      simpa [List.append_assoc] using h2
    exact this


/-- pigeonhole: a duplicate-free list of numbers below `n` has at most `n` elements -/
theorem nodup_bound : ∀ (n : Nat) (l : List Nat), l.Nodup → (∀ i ∈ l, i < n) → l.length ≤ n
  | 0, l, _, hb => by
    cases l with
    | nil => simp
    | cons a as => exact absurd (hb a (by simp)) (by omega)
  | n + 1, l, hnd, hb => by
    have h1 : (l.erase n).Nodup := hnd.erase n
    have h2 : ∀ i ∈ l.erase n, i < n := by
      intro i hi
      have hm := (List.Nodup.mem_erase_iff hnd).1 hi
      have := hb i hm.2
      omega
    have ih := nodup_bound n (l.erase n) h1 h2
    have := List.length_erase (a := n) (l := l)
    split at this <;> omega

/-- the fuel the drivers pass (`Store.fuel`) is enough to release any realised forest -/
theorem Realises.cost_le {s : Store} {tops : List Forest} (h : Realises s tops) {l : Forest} (hl : l ∈ tops) :
    cost l ≤ 3 * s.nodes.length := by
  rw [cost_eq]
  have hnd : (ids l).Nodup := by
    have hsub : (ids l).Sublist (tops.flatMap ids) := by
      obtain ⟨a, b, rfl⟩ := List.append_of_mem hl
      simp only [List.flatMap_append, List.flatMap_cons]
      exact (List.sublist_append_left _ _).trans (List.sublist_append_right _ _)
    exact h.nodup.sublist hsub
  have hb : ∀ i ∈ ids l, i < s.nodes.length := by
    intro i hi
    obtain ⟨n, hn⟩ := Real.live (h.real l hl).2 i hi
    exact hn.lt
  have := nodup_bound _ _ hnd hb
  omega

end Mpt.Nodes
