/-
  Helper lemmas for C19 (core Lean only): building blocks for the keyword descriptions
  `lin(n : a b)`, `range(a b : s)`, `fac(n:b:f:i)` — counts, optional blanks, parentheses, keywords.
-/
import MptModel.Lemmas.IterAccept
namespace Mpt.Iter
open Mpt.IterSpec

/-- an optional single blank -/
def OptBlank (a : List Char) : Prop := a = [] ∨ a = [' ']

theorem trimLast_inv (a : List Char) :
    ∃ b, a = (if a.getLast? = some ' ' then a.dropLast else a) ++ b ∧ OptBlank b := by
  by_cases h2 : a.getLast? = some ' '
  · rw [if_pos h2]
    have hne : a ≠ [] := by intro e; subst e; simp at h2
    have h3 := List.dropLast_concat_getLast hne
    rw [List.getLast?_eq_some_getLast hne] at h2
    have h4 : a.getLast hne = ' ' := by simpa using h2
    rw [h4] at h3
    exact ⟨[' '], h3.symm, Or.inr rfl⟩
  · rw [if_neg h2]
    exact ⟨[], by simp, Or.inl rfl⟩

theorem trimFirst_inv (s : List Char) :
    ∃ a, s = a ++ (if s.head? = some ' ' then s.tail else s) ∧ OptBlank a := by
  by_cases h1 : s.head? = some ' '
  · rw [if_pos h1]
    cases s with
    | nil => simp at h1
    | cons x xs =>
      have : x = ' ' := by simpa using h1
      subst this
      exact ⟨[' '], rfl, Or.inr rfl⟩
  · rw [if_neg h1]
    exact ⟨[], rfl, Or.inl rfl⟩

theorem trim1_inv (f : List Char) : ∃ a b, f = a ++ trim1 f ++ b ∧ OptBlank a ∧ OptBlank b := by
  obtain ⟨a, ha, oa⟩ := trimFirst_inv f
  unfold trim1
  simp only []
  generalize (if f.head? = some ' ' then f.tail else f) = m at ha ⊢
  obtain ⟨b, hb, ob⟩ := trimLast_inv m
  refine ⟨a, b, ?_, oa, ob⟩
  rw [List.append_assoc, ← hb]
  exact ha

/-- value of a digit string is below the power of ten of its length -/
theorem digitsVal_lt_aux (ds : List Char) (acc : Nat) (h : ∀ c ∈ ds, isDigit c = true) :
    ds.foldl (fun a c => a * 10 + (c.toNat - 48)) acc < (acc + 1) * 10 ^ ds.length := by
  induction ds generalizing acc with
  | nil => simp
  | cons c cs ih =>
    simp only [List.foldl_cons, List.length_cons]
    have hc := h c (by simp)
    have hlt : c.toNat - 48 ≤ 9 := by
      unfold isDigit at hc
      simp only [Bool.and_eq_true, decide_eq_true_eq] at hc
      omega
    have := ih (acc * 10 + (c.toNat - 48)) (fun x hx => h x (by simp [hx]))
    calc _ < (acc * 10 + (c.toNat - 48) + 1) * 10 ^ cs.length := this
      _ ≤ ((acc + 1) * 10) * 10 ^ cs.length := Nat.mul_le_mul_right _ (by omega)
      _ = (acc + 1) * 10 ^ (cs.length + 1) := by rw [Nat.pow_succ, Nat.mul_assoc, Nat.mul_comm 10]

theorem digitsVal_lt (ds : List Char) (h : ∀ c ∈ ds, isDigit c = true) : digitsVal 10 ds < 10 ^ ds.length := by
  have := digitsVal_lt_aux ds 0 h
  simpa [digitsVal] using this

theorem all_digits (s : List Char) (h : s.all isDig = true) : ∀ c ∈ s, isDigit c = true := by
  intro c hc
  exact (List.all_eq_true.1 h) c hc

/-- a count token is read by `mpt_cuint32` to its decimal value -/
theorem cuint32_strict (n rest : List Char) (k : Nat) (h : strictCount n = some k)
    (hr : ∀ c, rest.head? = some c → isDigit c = false) :
    cuint32 (n ++ rest) = .ok k rest ∧ k < 1000000000 := by
  unfold strictCount at h
  split at h
  · cases h
  · rename_i hc
    cases h
    simp only [not_or, Bool.not_eq_true', Bool.not_eq_false, Nat.not_lt, not_and] at hc
    obtain ⟨hne, hlen, hall, hzero⟩ := hc
    have hd := all_digits n hall
    have hnne : n ≠ [] := by intro e; subst e; simp at hne
    obtain ⟨a, as, ha⟩ : ∃ a as, n = a :: as := by
      cases n with
      | nil => exact absurd rfl hnne
      | cons a as => exact ⟨a, as, rfl⟩
    have hda : isDigit a = true := hd a (by rw [ha]; simp)
    have hsp : isSpace a = false := digit_not_space a hda
    have hds : dropSpace (n ++ rest) = n ++ rest := by rw [ha]; exact dropSpace_id a _ hsp
    have hsg : signRest (n ++ rest) = n ++ rest := by
      unfold signRest
      rw [ha]
      simp only [List.cons_append, List.head?_cons, Option.some.injEq]
      rw [if_neg]
      intro hc
      rcases hc with e | e <;> (subst e; simp [isDigit] at hda)
    have hns : numStart (n ++ rest) = n ++ rest := by unfold numStart; rw [hds, hsg]
    have hbound : natOf n < 1000000000 := by
      have := digitsVal_lt n hd
      rw [natOf_eq]
      calc digitsVal 10 n < 10 ^ n.length := this
        _ ≤ 10 ^ 9 := Nat.pow_le_pow_right (by omega) hlen
    refine ⟨?_, hbound⟩
    have he : (n ++ rest).isEmpty = false := by rw [ha]; rfl
    have hne2 : n.isEmpty = false := by rw [ha]; rfl
    have hnosign : ¬ (n ++ rest).head? = some '-' := by
      rw [ha]; simp only [List.cons_append, List.head?_cons, Option.some.injEq]
      intro e; subst e; simp [isDigit] at hda
    -- digits, rest and value as `strtoumax` sees them
    have key : uintDigits (n ++ rest) = n ∧ uintRest (n ++ rest) = rest ∧ uintVal (n ++ rest) = natOf n := by
      by_cases hz : a = '0'
      · have hn1 : n = ['0'] := by
          subst hz
          cases as with
          | nil => exact ha
          | cons b bs =>
            exfalso
            have := hzero (by rw [ha]; simp)
            rw [ha] at this; simp at this
        have hsp8 : spanP isOct (n ++ rest) = (n, rest) := by
          apply spanP_app
          · intro c hc; rw [hn1] at hc; simp at hc; subst hc; decide
          · intro c hc
            have := hr c hc
            unfold isOct; unfold isDigit at this
            simp only [Bool.and_eq_false_iff, decide_eq_false_iff_not] at this ⊢
            omega
        have hh : (n ++ rest).head? = some '0' := by rw [hn1]; rfl
        unfold uintVal uintDigits uintRest
        simp only [hns, if_pos hh, hsp8]
        refine ⟨trivial, trivial, ?_⟩
        rw [hn1]; rfl
      · have hsp10 : spanP isDigit (n ++ rest) = (n, rest) := spanP_app _ _ _ hd hr
        have hh : ¬ (n ++ rest).head? = some '0' := by rw [ha]; simpa using hz
        unfold uintVal uintDigits uintRest
        simp only [hns, if_neg hh, hsp10]
        exact ⟨trivial, trivial, rfl⟩
    obtain ⟨k1, k2, k3⟩ := key
    unfold cuint32
    rw [he, k1, hne2, k2, k3, hds]
    simp only [Bool.false_eq_true, ↓reduceIte]
    rw [if_neg]
    intro hc
    rcases hc with e | e
    · exact hnosign e
    · omega

theorem uint_space (x : List Char) (k : Nat) (r : List Char) (h : cuint32 x = .ok k r) :
    cuint32 (' ' :: x) = .ok k r := by
  have hd : dropSpace (' ' :: x) = dropSpace x := by simp [dropSpace, isSpace]
  have e1 : uintDigits (' ' :: x) = uintDigits x := by unfold uintDigits numStart; rw [hd]
  have e2 : uintRest (' ' :: x) = uintRest x := by unfold uintRest numStart; rw [hd]
  have e3 : uintVal (' ' :: x) = uintVal x := by unfold uintVal numStart; rw [hd, e1]
  unfold cuint32 at h ⊢
  rw [e1, e2, e3, hd]
  by_cases hx : x.isEmpty = true
  · rw [if_pos hx] at h; cases h
  · rw [if_neg hx] at h
    rw [if_neg (by simp)]
    by_cases hdg : (uintDigits x).isEmpty = true
    · rw [if_pos hdg] at h; split at h <;> cases h
    · rw [if_neg hdg] at h ⊢
      exact h

/-! ### `nextvis` on canonical separators -/

theorem nextvis_here (c : Char) (t : List Char) (h : isSpace c = false) : nextvis (c :: t) = .ok (c, c :: t) := by
  simp [nextvis, h]

theorem nextvis_blank (c : Char) (t : List Char) (h : isGraph c = true) :
    nextvis (' ' :: c :: t) = .ok (c, c :: t) := by
  have : isSpace ' ' = true := by decide
  simp [nextvis, this, h]

/-- behind an optional blank the visible character `c` is found, the position is at it -/
theorem nextvis_opt (a : List Char) (c : Char) (t : List Char) (ha : OptBlank a) (hg : isGraph c = true)
    (hs : isSpace c = false) : nextvis (a ++ c :: t) = .ok (c, c :: t) := by
  rcases ha with e | e <;> subst e
  · exact nextvis_here c t hs
  · exact nextvis_blank c t hg

theorem nextIs_opt (a : List Char) (c : Char) (t : List Char) (ha : OptBlank a) (hg : isGraph c = true)
    (hs : isSpace c = false) : nextIs (a ++ c :: t) c = true ∧ nextPos (a ++ c :: t) = c :: t := by
  unfold nextIs nextPos
  rw [nextvis_opt a c t ha hg hs]
  simp

/-- a closing parenthesis (after an optional blank) with nothing behind it ends the description -/
theorem closeOk_opt (b : List Char) (ob : OptBlank b) : closeOk (b ++ [')']) = true := by
  have hg : isGraph ')' = true ∧ isSpace ')' = false := by decide
  have hv := nextvis_opt b ')' [] ob hg.1 hg.2
  unfold closeOk nextIs nextPos
  rw [hv]
  simp

theorem cdouble_opt (a x : List Char) (v : Rat) (r : List Char) (ha : OptBlank a) (h : cdouble x = .ok v r) :
    cdouble (a ++ x) = .ok v r := by
  rcases ha with e | e <;> subst e
  · exact h
  · exact cdouble_space x v r h

theorem uint_opt (a x : List Char) (k : Nat) (r : List Char) (ha : OptBlank a) (h : cuint32 x = .ok k r) :
    cuint32 (a ++ x) = .ok k r := by
  rcases ha with e | e <;> subst e
  · exact h
  · exact uint_space x k r h

theorem stops_opt (a : List Char) (c : Char) (t : List Char) (ha : OptBlank a)
    (hc : isDigit c = false ∧ c ≠ '.' ∧ c ≠ 'e' ∧ c ≠ 'E') : Stops (a ++ c :: t) := by
  rcases ha with e | e <;> subst e
  · intro x hx; simp at hx; subst hx; exact hc
  · exact stops_space _

end Mpt.Iter
