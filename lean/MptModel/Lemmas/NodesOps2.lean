/-
  Refinement of gnode_before / node_unlink / node_insert (continuation of NodesOps).
-/
import MptModel.Lemmas.NodesOps
namespace Mpt.Nodes
open Mpt Mpt.Forest

/-- generic assembly for "the detached root `x` is placed at index `k` of the sibling list `L`":
    the changed records are `x`, elements of `L` (not what is below them) and the parent of `L` -/
theorem place_core {s s' : Store} {p x j k : Nat} {n' : Name} {v' : Val} {cs' l0 L : Forest} {rest : List Forest}
    {par : Option Nat}
    (hR : Realises s ([.node x n' v' cs'] :: l0 :: rest)) (hat : SibsAt p l0 L j par) (hk : k ≤ L.length)
    (hsl : SameLife s s')
    (hloc : Real s' par none (L.insertIdx k (.node x n' v' cs')))
    (hpar : ∀ q, par = some q →
      s'.nodes[q]? = (s.nodes[q]?).map (fun n => { n with children := headId (L.insertIdx k (.node x n' v' cs')) }))
    (hunch : ∀ i, i ≠ x → i ∉ ids L → some i ≠ par → s'.nodes[i]? = s.nodes[i]?) :
    Realises s' (applyAt par (fun L => L.insertIdx k (.node x n' v' cs')) l0 :: rest) := by
  have hl0 := hR.real l0 (by simp)
  have hnd := hR.nodup
  simp only [List.flatMap_cons, ids_cons, ids_nil, List.append_nil] at hnd
  have hnd0 : (ids l0).Nodup := by
    have := (List.nodup_append.1 hnd).2.1
    exact (List.nodup_append.1 this).1
  have hLsub := hat.subset
  have hdisj : ∀ k, k ∈ ids l0 → k ≠ x ∧ k ∉ ids cs' := by
    intro k hk
    have h1 := (List.nodup_append.1 hnd).2.2
    refine ⟨?_, ?_⟩
    · rintro rfl; exact h1 k (by simp) k (by simp [hk]) rfl
    · intro h; exact h1 k (by simp [h]) k (by simp [hk]) rfl
  refine hR.of_sameLife hsl ?_ ?_
  · intro l' hl'
    simp only [List.mem_cons] at hl'
    rcases hl' with rfl | hl'
    · refine ⟨applyAt_ne_nil hl0.1 (by
        cases l0 with
        | nil => exact absurd rfl hl0.1
        | cons a as => cases k <;> simp), ?_⟩
      refine hat.lift hl0.2 hnd0 hloc hpar ?_
      intro i hi hip hiL
      exact hunch i (hdisj i hi).1 hiL hip
    · have hr := hR.real l' (by simp [hl'])
      refine ⟨hr.1, Real.frame hr.2 (fun i hi => ?_)⟩
      have hirest : i ∈ rest.flatMap ids := List.mem_flatMap.2 ⟨l', hl', hi⟩
      have h2 := (List.nodup_append.1 hnd).2.2
      have h3 := (List.nodup_append.1 (List.nodup_append.1 hnd).2.1).2.2
      refine hunch i ?_ ?_ ?_
      · rintro rfl; exact h2 i (by simp) i (by simp [hirest]) rfl
      · intro h; exact h3 i (hLsub i h) i hirest rfl
      · intro h
        obtain ⟨_, hq⟩ := hat.par_not_mem hnd0 i h.symm
        exact h3 i hq i hirest rfl
  · simp only [List.flatMap_cons]
    have := hat.ids_perm (g := fun L => L.insertIdx k (.node x n' v' cs')) hnd0
      (ids_insertIdx_perm (.node x n' v' cs') L k hk)
    have h2 := List.Perm.append_right (rest.flatMap ids) this
    simpa [List.append_assoc] using h2

/-- predecessor of the `j`-th element of a sibling list whose first element has predecessor `prev` -/
def prevAt (prev : Option Nat) (L : Forest) (j : Nat) : Option Nat :=
  if j = 0 then prev else headId (L.drop (j - 1))

theorem prevAt_succ (prev : Option Nat) (t : Tree) (ts : Forest) (j : Nat) :
    prevAt prev (t :: ts) (j + 1) = prevAt (some t.id) ts j := by
  cases t with
  | node i n v cs =>
    cases j with
    | zero => simp [prevAt, Tree.id]
    | succ j' => simp [prevAt]

theorem Real.rec_at' {s : Store} {p : Nat} : ∀ {L : Forest} {par prev : Option Nat} {j : Nat},
    Real s par prev L → idx? p L = some j →
    ∃ cs n v, s.nodes[p]? = some (recOf (headId (L.drop (j + 1))) (prevAt prev L j) par cs n v)
  | [], _, _, _, _, hj => by simp at hj
  | (.node i n v cs) :: ts, par, prev, j, hL, hj => by
    rw [Real_cons] at hL
    rw [idx?_cons] at hj
    by_cases hip : i = p
    · subst hip
      simp at hj; subst hj
      exact ⟨cs, n, v, by simpa [prevAt] using hL.1⟩
    · simp [hip] at hj
      obtain ⟨j', hj', rfl⟩ := hj
      obtain ⟨cs', n', v', h⟩ := Real.rec_at' hL.2.2 hj'
      exact ⟨cs', n', v', by rw [prevAt_succ]; simpa [Tree.id] using h⟩

/-- the records after `gnodeBefore(p, x)`; `pvp` = old predecessor of `p`, `par` = parent of `p` -/
def BeforeEff (s s' : Store) (p x : Nat) (pvp par : Option Nat) : Prop :=
  ∀ i, s'.nodes[i]? =
    if i = x then (s.nodes[i]?).map (fun xn => { xn with prev := pvp, next := some p, parent := par })
    else if i = p then (s.nodes[i]?).map (fun pn => { pn with prev := some x })
    else if some i = pvp then (s.nodes[i]?).map (fun qn => { qn with next := some x })
    else if pvp = none ∧ some i = par then (s.nodes[i]?).map (fun rn => { rn with children := some x })
    else s.nodes[i]?

theorem real_before_list {s s' : Store} {p x : Nat} {n' : Name} {v' : Val} {cs' : Forest} :
    ∀ {L : Forest} {par prev : Option Nat} {j : Nat},
    Real s par prev L → idx? p L = some j → Real s none none [.node x n' v' cs'] →
    (ids L ++ ids [.node x n' v' cs']).Nodup →
    (∀ k, prev = some k → k ∉ ids L ∧ k ∉ ids [.node x n' v' cs']) →
    (∀ k, par = some k → k ∉ ids L ∧ k ∉ ids [.node x n' v' cs']) →
    BeforeEff s s' p x (prevAt prev L j) par →
    Real s' par prev (L.insertIdx j (.node x n' v' cs'))
  | [], _, _, _, _, hj, _, _, _, _, _ => by simp at hj
  | (.node i n v cs) :: ts, par, prev, j, hL, hj, hT, hnd, hpv, hpa, he => by
    rw [idx?_cons] at hj
    rw [Real_cons] at hL
    have hT' := hT
    rw [Real_cons] at hT'
    simp at hnd
    have hpv' : ∀ k, some k = prev → k ≠ i ∧ k ∉ ids cs ∧ k ∉ ids ts ∧ k ≠ x ∧ k ∉ ids cs' := by
      intro k hk
      have := hpv k hk.symm
      simp at this
      grind
    have hpa' : ∀ k, some k = par → k ≠ i ∧ k ∉ ids cs ∧ k ∉ ids ts ∧ k ≠ x ∧ k ∉ ids cs' := by
      intro k hk
      have := hpa k hk.symm
      simp at this
      grind
    by_cases hip : i = p
    · subst hip
      simp at hj
      subst hj
      simp only [List.insertIdx_zero, prevAt, ↓reduceIte] at he ⊢
      rw [Real_cons, Real_cons]
      have hxi : x ≠ i := by grind
      refine ⟨?_, ?_, ?_, ?_, ?_⟩
      · rw [he x]; simp [hT'.1]
      · refine Real.frame hT'.2.1 (fun k hk => ?_)
        rw [he k]
        have h1 : k ≠ x := by grind
        have h2 : k ≠ i := by grind
        have h3 : some k ≠ prev := by intro h; have := hpv' k h; grind
        have h4 : ¬ (prev = none ∧ some k = par) := by intro ⟨_, h⟩; have := hpa' k h; grind
        simp [h1, h2, h3, h4]
      · rw [he i]; simp [Ne.symm hxi, hL.1]
      · refine Real.frame hL.2.1 (fun k hk => ?_)
        rw [he k]
        have h1 : k ≠ x := by grind
        have h2 : k ≠ i := by grind
        have h3 : some k ≠ prev := by intro h; have := hpv' k h; grind
        have h4 : ¬ (prev = none ∧ some k = par) := by intro ⟨_, h⟩; have := hpa' k h; grind
        simp [h1, h2, h3, h4]
      · refine Real.frame hL.2.2 (fun k hk => ?_)
        rw [he k]
        have h1 : k ≠ x := by grind
        have h2 : k ≠ i := by grind
        have h3 : some k ≠ prev := by intro h; have := hpv' k h; grind
        have h4 : ¬ (prev = none ∧ some k = par) := by intro ⟨_, h⟩; have := hpa' k h; grind
        simp [h1, h2, h3, h4]
    · simp [hip] at hj
      obtain ⟨j', hj', rfl⟩ := hj
      rw [prevAt_succ] at he
      simp only [Tree.id] at he
      simp only [List.insertIdx_succ_cons] at he ⊢
      rw [Real_cons]
      have hpts : p ∈ ids ts := idx?_mem hj'
      have hmem : ∀ k, some k = prevAt (some i) ts j' → k = i ∨ k ∈ ids ts := by
        intro k hk
        unfold prevAt at hk
        split at hk
        · left; simpa using hk
        · right; exact ids_drop_subset ts _ k (headId_mem hk.symm)
      refine ⟨?_, ?_, ?_⟩
      · rw [he i]
        have h1 : i ≠ x := by grind
        simp only [h1, hip, ↓reduceIte]
        cases j' with
        | zero =>
          simp [prevAt, hL.1]
        | succ j'' =>
          have hne : ts ≠ [] := by intro h; simp [h] at hj'
          rw [headId_insertIdx_succ ts j'' _ hne]
          have h3 : some i ≠ prevAt (some i) ts (j'' + 1) := by
            intro h
            unfold prevAt at h
            simp at h
            have := ids_drop_subset ts _ i (headId_mem h.symm)
            grind
          have h4 : ¬ (prevAt (some i) ts (j'' + 1) = none ∧ some i = par) := by
            intro ⟨_, h⟩; have := hpa' i h; grind
          simp [h3, h4, hL.1]
      · refine Real.frame hL.2.1 (fun k hk => ?_)
        rw [he k]
        have h1 : k ≠ x := by grind
        have h2 : k ≠ p := by grind
        have h3 : some k ≠ prevAt (some i) ts j' := by
          intro h; rcases hmem k h with rfl | h' <;> grind
        have h4 : ¬ (prevAt (some i) ts j' = none ∧ some k = par) := by
          intro ⟨_, h⟩; have := hpa' k h; grind
        simp [h1, h2, h3, h4]
      · refine real_before_list hL.2.2 hj' hT (by simp; grind) ?_ ?_ he
        · intro k hk; simp at hk; subst hk; simp; grind
        · intro k hk; have := hpa' k hk.symm; simp; grind

theorem prevAt_mem {L : Forest} {j : Nat} {k : Nat} (h : prevAt none L j = some k) : k ∈ ids L := by
  unfold prevAt at h
  split at h
  · simp at h
  · exact ids_drop_subset L _ k (headId_mem h)

theorem prevAt_ne {p : Nat} : ∀ {L : Forest} {prev : Option Nat} {j : Nat}, idx? p L = some j → (ids L).Nodup →
    prev ≠ some p → prevAt prev L j ≠ some p
  | [], _, _, hj, _, _ => by simp at hj
  | (.node i n v cs) :: ts, prev, j, hj, hnd, hpv => by
    rw [idx?_cons] at hj
    rw [ids_cons, List.nodup_cons, List.mem_append, List.nodup_append] at hnd
    obtain ⟨hni, ndcs, ndts, disj⟩ := hnd
    by_cases hip : i = p
    · subst hip
      simp at hj; subst hj
      simpa [prevAt] using hpv
    · simp [hip] at hj
      obtain ⟨j', hj', rfl⟩ := hj
      rw [prevAt_succ]
      exact prevAt_ne hj' ndts (by simpa [Tree.id] using hip)

/-- `mpt_gnode_before(p, x)` with `x` a detached root: `x` becomes the predecessor of `p` in `p`'s sibling list -/
theorem before_refines {s : Store} {p x j : Nat} {n' : Name} {v' : Val} {cs' l0 L : Forest} {rest : List Forest}
    {par : Option Nat}
    (hR : Realises s ([.node x n' v' cs'] :: l0 :: rest)) (hat : SibsAt p l0 L j par) :
    ∃ s', s.gnodeBefore (some p) x = .ok s' ∧
      Realises s' (applyAt par (fun L => L.insertIdx j (.node x n' v' cs')) l0 :: rest) := by
  have hT := (hR.real [.node x n' v' cs'] (by simp)).2
  have hl0 := hR.real l0 (by simp)
  have hnd := hR.nodup
  simp only [List.flatMap_cons, ids_cons, ids_nil, List.append_nil] at hnd
  have hnd0 : (ids l0).Nodup := by
    have := (List.nodup_append.1 hnd).2.1
    exact (List.nodup_append.1 this).1
  have hLr := hat.real hl0.2
  have hLnd := hat.nodup hnd0
  have hidx := hat.idx
  have hpL : p ∈ ids L := idx?_mem hidx
  have hLsub := hat.subset
  obtain ⟨pcs, pn, pvv, hprec⟩ := Real.rec_at' hLr hidx
  have hxrec := hT
  rw [Real_cons] at hxrec
  have hdisj : ∀ k, k ∈ ids l0 → k ≠ x ∧ k ∉ ids cs' := by
    intro k hk
    have h1 := (List.nodup_append.1 hnd).2.2
    refine ⟨?_, ?_⟩
    · rintro rfl; exact h1 k (by simp) k (by simp [hk]) rfl
    · intro h; exact h1 k (by simp [h]) k (by simp [hk]) rfl
  have hpx : x ≠ p := fun e => (hdisj p (hLsub p hpL)).1 e.symm
  have hparL : ∀ q, par = some q → q ∉ ids L ∧ q ∈ ids l0 := hat.par_not_mem hnd0
  obtain ⟨s', hs', hfreed, hlen, heff⟩ := Store.gnodeBefore_ok (s := s) (p := p) (x := x) ⟨hprec, rfl⟩ ⟨hxrec.1, rfl⟩ hpx
    (by
      intro q hq
      have hqL : q ∈ ids L := prevAt_mem hq
      obtain ⟨qn, hqn⟩ := Real.live hLr q hqL
      refine ⟨qn, hqn, (hdisj q (hLsub q hqL)).1, ?_⟩
      rintro rfl
      exact prevAt_ne hidx hLnd (by simp) hq)
    (by
      intro _ r hr
      obtain ⟨hrL, hrl0⟩ := hparL r hr
      obtain ⟨rn, hrn⟩ := Real.live hl0.2 r hrl0
      exact ⟨rn, hrn, (hdisj r hrl0).1, by rintro rfl; exact hrL hpL⟩)
  refine ⟨s', hs', ?_⟩
  have hBE : BeforeEff s s' p x (prevAt none L j) par := by
    intro i
    rw [heff i]
    by_cases h1 : i = x
    · subst h1; simp [hxrec.1]
    · by_cases h2 : i = p
      · subst h2; simp [h1, hprec]
      · simp [h1, h2]
  have hjl : j ≤ L.length := Nat.le_of_lt (idx?_lt hidx)
  have hLne : L ≠ [] := by intro h; simp [h] at hidx
  have hxL : ∀ k, k ∈ ids L → k ≠ x ∧ k ∉ ids cs' := fun k hk => hdisj k (hLsub k hk)
  have hloc : Real s' par none (L.insertIdx j (.node x n' v' cs')) := by
    refine real_before_list hLr hidx hT ?_ (by simp) ?_ hBE
    · rw [List.nodup_append]
      refine ⟨hLnd, ?_, ?_⟩
      · have := (List.nodup_append.1 hnd).1
        simpa using this
      · intro a ha b hb hab
        subst hab
        have := hxL a ha
        simp at hb
        rcases hb with rfl | hb
        · exact this.1 rfl
        · exact this.2 hb
    · intro k hk
      obtain ⟨h1, h2⟩ := hparL k hk
      have := hdisj k h2
      exact ⟨h1, by simp; exact ⟨this.1, this.2⟩⟩
  have hpvL : ∀ i, some i = prevAt none L j → i ∈ ids L := fun i h => prevAt_mem h.symm
  refine place_core hR hat hjl ⟨hfreed, ?_⟩ hloc ?_ ?_
  · intro i
    rw [hBE i]
    cases hsi : s.nodes[i]? <;> (repeat' split) <;> simp
  · intro q hq
    obtain ⟨hqL, hql0⟩ := hparL q hq
    obtain ⟨qn, hqn, hqc⟩ := hat.par_rec hl0.2 q hq
    rw [hBE q]
    have h1 : q ≠ x := (hdisj q hql0).1
    have h2 : q ≠ p := by rintro rfl; exact hqL hpL
    have h3 : some q ≠ prevAt none L j := fun h => hqL (hpvL q h)
    simp only [h1, h2, h3, ↓reduceIte]
    cases j with
    | zero =>
      simp [prevAt, hq]
    | succ j' =>
      have h4 : ¬ (prevAt none L (j' + 1) = none ∧ some q = par) := by
        intro ⟨h, _⟩
        obtain ⟨cs2, n2, v2, hh⟩ := Real.rec_at' hLr hidx
        unfold prevAt at h
        simp at h
        have hlt := idx?_lt hidx
        have : L.drop j' ≠ [] := by
          intro e
          have := congrArg List.length e
          simp at this
          omega
        cases hd : L.drop j' with
        | nil => exact this hd
        | cons a as => cases a; simp [hd] at h
      rw [if_neg h4, hqn, headId_insertIdx_succ L j' _ hLne]
      simp [← hqc]
  · intro i h1 h2 h3
    rw [hBE i]
    have h4 : i ≠ p := by rintro rfl; exact h2 hpL
    have h5 : some i ≠ prevAt none L j := fun h => h2 (hpvL i h)
    have h6 : ¬ (prevAt none L j = none ∧ some i = par) := fun ⟨_, h⟩ => h3 h
    simp [h1, h4, h5, h6]

end Mpt.Nodes
