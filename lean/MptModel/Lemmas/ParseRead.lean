/-
  How the parser model consumes its input (core Lean only: imported by the model driver through
  Impl/ParseConfig.lean, where the termination proof of the `mpt_parse_config` loop needs it).

  `Reads a b`: source state `b` is reached from `a` by delivering a block `cs` of characters, in
  order, each once: `a.rest = cs ++ b.rest`, the trace grew by exactly `cs`, and at least one
  `getc` call was made per character.
-/
import MptModel.Impl.Parse

namespace Mpt.Parse

def Reads (a b : Src) : Prop :=
  ∃ cs : List UInt8, a.rest = cs ++ b.rest ∧ b.trace = cs.reverse ++ a.trace ∧ a.reads + cs.length ≤ b.reads

theorem Reads.refl (a : Src) : Reads a a := ⟨[], by simp⟩

theorem Reads.trans {a b c : Src} (h1 : Reads a b) (h2 : Reads b c) : Reads a c := by
  obtain ⟨c1, r1, t1, n1⟩ := h1
  obtain ⟨c2, r2, t2, n2⟩ := h2
  refine ⟨c1 ++ c2, ?_, ?_, ?_⟩
  · rw [r1, r2, List.append_assoc]
  · rw [t2, t1, List.reverse_append, List.append_assoc]
  · rw [List.length_append]; omega

theorem Reads.length_le {a b : Src} (h : Reads a b) : b.rest.length ≤ a.rest.length := by
  obtain ⟨cs, r, _, _⟩ := h
  rw [r, List.length_append]; omega

/-- at least one character was delivered -/
def ReadsSome (a b : Src) : Prop := Reads a b ∧ b.rest.length < a.rest.length

theorem ReadsSome.trans_right {a b c : Src} (h1 : ReadsSome a b) (h2 : Reads b c) : ReadsSome a c :=
  ⟨h1.1.trans h2, by have := h2.length_le; have := h1.2; omega⟩

theorem scanAux_reads {σ ρ : Type} (step : σ → UInt8 → Step σ ρ) (atEnd : σ → ρ) :
    ∀ (rest : List UInt8) (n : Nat) (t : List UInt8) (s : σ),
      Reads { rest := rest, reads := n, trace := t } (scanAux step atEnd rest n t s).2 := by
  intro rest
  induction rest with
  | nil => intro n t s; exact ⟨[], by simp [scanAux]⟩
  | cons c r ih =>
    intro n t s
    unfold scanAux
    split
    · rename_i s' _
      obtain ⟨cs, h1, h2, h3⟩ := ih (n + 1) (c :: t) s'
      refine ⟨c :: cs, ?_, ?_, ?_⟩
      · simp only [List.cons_append]; rw [← h1]
      · rw [h2]; simp
      · simp only [List.length_cons] at *; omega
    · exact ⟨[c], by simp⟩

theorem scan_reads {σ ρ : Type} (step : σ → UInt8 → Step σ ρ) (atEnd : σ → ρ) (src : Src) (s : σ) :
    Reads src (scan step atEnd src s).2 := scanAux_reads step atEnd src.rest src.reads src.trace s

/-- a loop that was left through its body (not by the end marker) has read a character -/
theorem scanAux_done {σ ρ : Type} (step : σ → UInt8 → Step σ ρ) (atEnd : σ → ρ) (P : ρ → Prop)
    (hend : ∀ s, ¬ P (atEnd s)) :
    ∀ (rest : List UInt8) (n : Nat) (t : List UInt8) (s : σ),
      P (scanAux step atEnd rest n t s).1 → (scanAux step atEnd rest n t s).2.rest.length < rest.length := by
  intro rest
  induction rest with
  | nil => intro n t s h; simp only [scanAux] at h; exact absurd h (hend s)
  | cons c r ih =>
    intro n t s
    unfold scanAux
    split
    · rename_i s' _
      intro h
      have := ih (n + 1) (c :: t) s' h
      simp only [List.length_cons]; omega
    · intro _; simp

theorem scan_done {σ ρ : Type} (step : σ → UInt8 → Step σ ρ) (atEnd : σ → ρ) (P : ρ → Prop)
    (hend : ∀ s, ¬ P (atEnd s)) (src : Src) (s : σ) (h : P (scan step atEnd src s).1) :
    (scan step atEnd src s).2.rest.length < src.rest.length :=
  scanAux_done step atEnd P hend src.rest src.reads src.trace s h

theorem getc_reads (src : Src) : Reads src (getc src).2 := by
  unfold getc
  split
  · exact ⟨[], by simp_all⟩
  · rename_i c r h
    exact ⟨[c], by simp_all⟩

theorem getc_some (src : Src) (c : UInt8) (src1 : Src) (h : getc src = (some c, src1)) :
    ReadsSome src src1 := by
  have hr := getc_reads src
  rw [h] at hr
  refine ⟨hr, ?_⟩
  unfold getc at h
  split at h
  · simp at h
  · rename_i c' r hs
    simp only [Prod.mk.injEq] at h
    rw [← h.2, hs]; simp

theorem endline_reads (s : St) (src : Src) : Reads src (endline s src).2 := by
  unfold endline; exact scan_reads _ _ _ _

theorem nextvis_reads (f : Format) (s : St) (src : Src) : Reads src (nextvis f s src).2.2 := by
  unfold nextvis; exact scan_reads _ _ _ _

theorem nextvis_some (f : Format) (s : St) (src : Src) (c : UInt8) (s1 : St) (src1 : Src)
    (h : nextvis f s src = (some c, s1, src1)) : ReadsSome src src1 := by
  have hr := nextvis_reads f s src
  rw [h] at hr
  refine ⟨hr, ?_⟩
  unfold nextvis at h
  simp only [Prod.mk.injEq] at h
  have := scan_done (nextvisStep f) (fun v => (none, v.line)) (fun r => r.1.isSome = true)
    (by intro v; simp) src { line := s.line, skip := false } (by rw [h.1]; rfl)
  rw [← h.2.2]; exact this

theorem dataFinish_src (cfg : Cfg) (s : St) (b : Bool) (src : Src) : (dataFinish cfg s b src).2.2 = src := by
  unfold dataFinish; split <;> rfl

theorem nextvis_eq_reads {f : Format} {s : St} {src : Src} {x : Option UInt8} {s1 : St} {src1 : Src}
    (h : nextvis f s src = (x, s1, src1)) : Reads src src1 := by
  have hv := nextvis_reads f s src; rw [h] at hv; exact hv

theorem optFirst_reads (f : Format) (s : St) (src : Src) : Reads src (optFirst f s src).2.2 := by
  unfold optFirst
  split
  · have := getc_reads src
    split
    · rename_i h; rw [h] at this; exact this
    · rename_i h; rw [h] at this; exact this
  · exact nextvis_reads _ _ _

theorem optFirst_eq_reads {f : Format} {s : St} {src : Src} {x : Option UInt8} {s1 : St} {src1 : Src}
    (h : optFirst f s src = (x, s1, src1)) : Reads src src1 := by
  have hv := optFirst_reads f s src; rw [h] at hv; exact hv

theorem optFirst_some (f : Format) (s : St) (src : Src) (c : UInt8) (s1 : St) (src1 : Src)
    (h : optFirst f s src = (some c, s1, src1)) : ReadsSome src src1 := by
  unfold optFirst at h
  split at h
  · split at h
    · cases h
    · rename_i c' src' hg
      simp only [Prod.mk.injEq, Option.some.injEq] at h
      rw [← h.2.2]
      exact getc_some src c' src' hg
  · exact nextvis_some f s src c s1 src1 h

theorem Err.code_neg (e : Err) : e.code < 0 := by cases e <;> decide

theorem err_not_pos (e : Err) (s : St) (src : Src) : ¬ 0 < (err e s src).1 := by
  have := Err.code_neg e; simp only [err]; omega

/-- the return code in the goal's hypothesis is not positive -/
macro "nopos" : tactic =>
  `(tactic| (intro hpos; first | exact absurd hpos (err_not_pos _ _ _) | exact absurd hpos (by decide) | (simp at hpos)))

theorem parseData_reads (cfg : Cfg) (s : St) (src : Src) : Reads src (parseData cfg s src).2.2 := by
  unfold parseData
  have h := scan_reads (dataStep cfg.fmt) (fun d => DataExit.eof d.st) src { st := s }
  simp only []
  split
  · rw [dataFinish_src]; exact h
  · rw [dataFinish_src]; exact h
  · rw [dataFinish_src]; exact h
  · rw [dataFinish_src]; exact h.trans (endline_reads _ _)

theorem nameThenData_reads (cfg : Cfg) (s : St) (src : Src) (e : Err) :
    Reads src (nameThenData cfg s src e).2.2 := by
  unfold nameThenData
  split
  · exact Reads.refl _
  · simp only []
    split
    · exact parseData_reads _ _ _
    · split <;> exact parseData_reads _ _ _

theorem optFinish_src (cfg : Cfg) (s : St) (src : Src) : (optFinish cfg s src).2.2 = src := by
  unfold optFinish; simp only []; split <;> rfl

theorem optExit_reads (cfg : Cfg) (e : OptExit) (src : Src) : Reads src (optExit cfg e src).2.2 := by
  unfold optExit
  split
  · exact Reads.refl _
  · exact nameThenData_reads _ _ _ _
  · rw [optFinish_src]; exact Reads.refl _
  · simp only []; rw [optFinish_src]; exact endline_reads _ _

theorem parseOption_reads (cfg : Cfg) (s : St) (src : Src) : Reads src (parseOption cfg s src).2.2 := by
  unfold parseOption
  simp only []
  split
  · rename_i s1 src1 h
    have hv := optFirst_eq_reads h
    split
    · exact hv
    · split <;> exact hv
  · rename_i c s1 src1 h
    have hv := optFirst_eq_reads h
    split
    · exact hv
    · split
      · exact hv.trans (optExit_reads _ _ _)
      · exact hv.trans ((scan_reads _ _ _ _).trans (optExit_reads _ _ _))

/-- an element returned by `mpt_parse_option` cost at least one character -/
theorem parseOption_pos (cfg : Cfg) (s : St) (src : Src) (h : 0 < (parseOption cfg s src).1) :
    ReadsSome src (parseOption cfg s src).2.2 := by
  refine ⟨parseOption_reads cfg s src, ?_⟩
  revert h
  unfold parseOption
  simp only []
  split
  · rename_i s1 src1 h
    split
    · nopos
    · split <;> nopos
  · rename_i c s1 src1 h
    have hv := optFirst_some cfg.fmt s src c s1 src1 h
    intro _
    split
    · exact hv.2
    · split
      · exact (hv.trans_right (optExit_reads _ _ _)).2
      · exact (hv.trans_right ((scan_reads _ _ _ _).trans (optExit_reads _ _ _))).2

theorem preFinish_src (cfg : Cfg) (s : St) (c : Option UInt8) (src : Src) :
    (preFinish cfg s c src).2.2 = src := by
  unfold preFinish
  simp only []
  split
  · split <;> rfl
  · split
    · split <;> rfl
    · rfl

theorem preExit_reads (cfg : Cfg) (e : PreExit) (src : Src) : Reads src (preExit cfg e src).2.2 := by
  unfold preExit
  split
  · exact Reads.refl _
  · exact parseOption_reads _ _ _
  · exact nameThenData_reads _ _ _ _
  · rw [preFinish_src]; exact Reads.refl _
  · simp only []; rw [preFinish_src]; exact endline_reads _ _
  · split
    · rename_i h; rw [preFinish_src]; exact nextvis_eq_reads h
    · rename_i h; rw [preFinish_src]; exact nextvis_eq_reads h

theorem parseFormatPre_reads (cfg : Cfg) (s : St) (src : Src) :
    Reads src (parseFormatPre cfg s src).2.2 := by
  unfold parseFormatPre
  simp only []
  split
  · rename_i s1 src1 h
    have hv := nextvis_eq_reads h
    split
    · exact hv
    · split <;> exact hv
  · rename_i c s1 src1 h
    have hv := nextvis_eq_reads h
    split
    · split <;> exact hv
    · split
      · exact hv.trans (preExit_reads _ _ _)
      · exact hv.trans ((scan_reads _ _ _ _).trans (preExit_reads _ _ _))

theorem parseFormatPre_pos (cfg : Cfg) (s : St) (src : Src) (h : 0 < (parseFormatPre cfg s src).1) :
    ReadsSome src (parseFormatPre cfg s src).2.2 := by
  refine ⟨parseFormatPre_reads cfg s src, ?_⟩
  revert h
  unfold parseFormatPre
  simp only []
  split
  · split
    · nopos
    · split <;> nopos
  · rename_i c s1 src1 h
    have hv := nextvis_some cfg.fmt s src c s1 src1 h
    intro _
    split
    · split <;> exact hv.2
    · split
      · exact (hv.trans_right (preExit_reads _ _ _)).2
      · exact (hv.trans_right ((scan_reads _ _ _ _).trans (preExit_reads _ _ _))).2

theorem encFinish_src (cfg : Cfg) (s : St) (src : Src) : (encFinish cfg s src).2.2 = src := by
  unfold encFinish; split <;> rfl

theorem encSection_reads (cfg : Cfg) (s : St) (src : Src) : Reads src (encSection cfg s src).2.2 := by
  unfold encSection
  simp only []
  split
  · rename_i h; have hv := nextvis_eq_reads h; exact hv
  · rename_i h; have hv := nextvis_eq_reads h
    split
    · exact hv
    · split
      · exact hv.trans (scan_reads _ _ _ _)
      · rw [encFinish_src]; exact hv.trans (scan_reads _ _ _ _)
      · rw [encFinish_src]; exact hv.trans ((scan_reads _ _ _ _).trans (endline_reads _ _))

theorem encSection_pos (cfg : Cfg) (s : St) (src : Src) (h : 0 < (encSection cfg s src).1) :
    ReadsSome src (encSection cfg s src).2.2 := by
  refine ⟨encSection_reads cfg s src, ?_⟩
  revert h
  unfold encSection
  simp only []
  split
  · nopos
  · rename_i c s1 src1 h
    have hv := nextvis_some cfg.fmt _ src c s1 src1 h
    intro _
    split
    · exact hv.2
    · split
      · exact (hv.trans_right (scan_reads _ _ _ _)).2
      · rw [encFinish_src]; exact (hv.trans_right (scan_reads _ _ _ _)).2
      · rw [encFinish_src]; exact (hv.trans_right ((scan_reads _ _ _ _).trans (endline_reads _ _))).2

theorem encOption_reads (cfg : Cfg) (s : St) (c : UInt8) (src : Src) :
    Reads src (encOption cfg s c src).2.2 := by
  unfold encOption
  simp only []
  split
  · split
    · exact Reads.refl _
    · exact parseOption_reads _ _ _
  · exact parseOption_reads _ _ _

theorem parseFormatEnc_reads (cfg : Cfg) (prev : Nat) (s : St) (src : Src) :
    Reads src (parseFormatEnc cfg prev s src).2.2 := by
  unfold parseFormatEnc
  simp only []
  split
  · split
    · exact encSection_reads _ _ _
    · split
      · rename_i h; have hv := nextvis_eq_reads h; split <;> exact hv
      · rename_i h; have hv := nextvis_eq_reads h
        split
        · exact hv
        · split
          · exact hv.trans (encOption_reads _ _ _ _)
          · exact hv.trans (encSection_reads _ _ _)
  · split
    · rename_i h; have hv := nextvis_eq_reads h
      split <;> exact hv
    · rename_i h; have hv := nextvis_eq_reads h
      split
      · exact hv
      · split
        · exact hv.trans (encOption_reads _ _ _ _)
        · exact hv.trans (encSection_reads _ _ _)

theorem parseFormatEnc_pos (cfg : Cfg) (prev : Nat) (s : St) (src : Src)
    (h : 0 < (parseFormatEnc cfg prev s src).1) : ReadsSome src (parseFormatEnc cfg prev s src).2.2 := by
  refine ⟨parseFormatEnc_reads cfg prev s src, ?_⟩
  revert h
  unfold parseFormatEnc
  simp only []
  split
  · split
    · intro h; exact (encSection_pos _ _ _ h).2
    · split
      · split <;> nopos
      · rename_i c s1 src1 h
        have hv := nextvis_some cfg.fmt s src c s1 src1 h
        intro _
        split
        · exact hv.2
        · split
          · exact (hv.trans_right (encOption_reads _ _ _ _)).2
          · exact (hv.trans_right (encSection_reads _ _ _)).2
  · split
    · split <;> nopos
    · rename_i c s1 src1 h
      have hv := nextvis_some cfg.fmt s src c s1 src1 h
      intro _
      split
      · exact hv.2
      · split
        · exact (hv.trans_right (encOption_reads _ _ _ _)).2
        · exact (hv.trans_right (encSection_reads _ _ _)).2

theorem sepExit_src (cfg : Cfg) (e : SepExit) (src : Src) : (sepExit cfg e src).2.2 = src := by
  unfold sepExit
  split
  · simp only []; split <;> rfl
  · rfl

theorem sepName_reads (cfg : Cfg) (s : St) (c : UInt8) (src : Src) :
    Reads src (sepName cfg s c src).2.2 := by
  unfold sepName
  split
  · rw [sepExit_src]; exact Reads.refl _
  · simp only []; rw [sepExit_src]; exact scan_reads _ _ _ _

theorem sepFirst_reads (cfg : Cfg) (s : St) (src : Src) : Reads src (sepFirst cfg s src).2.2 := by
  unfold sepFirst
  simp only []
  split
  · split
    · rename_i h; have hv := getc_reads src; rw [h] at hv; exact hv
    · rename_i h; have hv := getc_reads src; rw [h] at hv
      exact hv.trans (sepName_reads _ _ _ _)
  · exact sepName_reads _ _ _ _

theorem parseFormatSep_reads (cfg : Cfg) (prev : Nat) (s : St) (src : Src) :
    Reads src (parseFormatSep cfg prev s src).2.2 := by
  unfold parseFormatSep
  simp only []
  split
  · exact sepFirst_reads _ _ _
  · split
    · rename_i h; have hv := nextvis_eq_reads h
      split <;> exact hv
    · rename_i h; have hv := nextvis_eq_reads h
      split
      · split
        · exact hv.trans (parseOption_reads _ _ _)
        · exact hv.trans (parseOption_reads _ _ _)
      · split
        · exact hv
        · exact hv.trans (sepFirst_reads _ _ _)

/-- `mpt_parse_format_sep` reads a character for every element it returns, unless the previous
    operation was a section end (then the implied section start may be returned without reading;
    the operation code it leaves is not a section end) -/
theorem parseFormatSep_pos (cfg : Cfg) (prev : Nat) (s : St) (src : Src)
    (h : 0 < (parseFormatSep cfg prev s src).1) (hp : ¬ (prev &&& 0xf == Flag.sectEnd) = true) :
    ReadsSome src (parseFormatSep cfg prev s src).2.2 := by
  refine ⟨parseFormatSep_reads cfg prev s src, ?_⟩
  revert h
  unfold parseFormatSep
  simp only []
  rw [if_neg hp]
  split
  · split <;> nopos
  · rename_i c s1 src1 h
    have hv := nextvis_some cfg.fmt s src c s1 src1 h
    intro _
    split
    · split
      · exact (hv.trans_right (parseOption_reads _ _ _)).2
      · exact (hv.trans_right (parseOption_reads _ _ _)).2
    · split
      · exact hv.2
      · exact (hv.trans_right (sepFirst_reads _ _ _)).2

/-- operation code left by a successful implied section start -/
theorem sepFirst_curr (cfg : Cfg) (s : St) (src : Src) (h : 0 < (sepFirst cfg s src).1) :
    (sepFirst cfg s src).2.1.curr = Flag.section_ ||| Flag.name ∨
      (sepFirst cfg s src).2.2.rest.length < src.rest.length := by
  have hcurr : ∀ (e : SepExit) (src' : Src), 0 < (sepExit cfg e src').1 →
      (sepExit cfg e src').2.1.curr = Flag.section_ ||| Flag.name := by
    intro e src'
    unfold sepExit
    split
    · simp only []
      split
      · nopos
      · rename_i s2 hc
        intro _
        simp only [St.commit] at hc
        split at hc
        · simp at hc
        · split at hc
          · simp at hc
          · simp only [Except.ok.injEq] at hc; rw [← hc]
    · nopos
  revert h
  unfold sepFirst
  simp only []
  split
  · split
    · nopos
    · rename_i c src1 h
      have hv := getc_some src c src1 h
      intro _
      exact Or.inr (hv.trans_right (sepName_reads _ _ _ _)).2
  · intro h
    unfold sepName at h ⊢
    split
    · rename_i e he
      rw [he] at h
      exact Or.inl (hcurr _ _ h)
    · rename_i s1 he
      rw [he] at h
      simp only [] at h ⊢
      exact Or.inl (hcurr _ _ h)

theorem next_reads (k : Kind) (cfg : Cfg) (prev : Nat) (s : St) (src : Src) :
    Reads src (next k cfg prev s src).2.2 := by
  cases k <;> simp only [next]
  · exact parseFormatPre_reads _ _ _
  · exact parseFormatEnc_reads _ _ _ _
  · exact parseFormatSep_reads _ _ _ _
  · exact parseOption_reads _ _ _

/-- what is left to read, doubled, plus one while a section end was the previous operation
    (the only situation in which a format function may return an element without reading) -/
def measure (prev : Nat) (src : Src) : Nat :=
  2 * src.rest.length + (if prev &&& 0xf == Flag.sectEnd then 1 else 0)

/-- **every element costs input**: the loop of `mpt_parse_config` makes progress -/
theorem next_measure (k : Kind) (cfg : Cfg) (prev : Nat) (s : St) (src : Src)
    (h : 0 < (next k cfg prev s src).1) :
    measure (next k cfg prev s src).2.1.curr (next k cfg prev s src).2.2 < measure prev src := by
  have key : ∀ (o : Out), ReadsSome src o.2.2 → measure o.2.1.curr o.2.2 < measure prev src := by
    intro o ho
    unfold measure
    have := ho.2
    split <;> split <;> omega
  cases k
  · exact key _ (parseFormatPre_pos _ _ _ h)
  · exact key _ (parseFormatEnc_pos _ _ _ _ h)
  · by_cases hp : (prev &&& 0xf == Flag.sectEnd) = true
    · simp only [next] at h ⊢
      have hr := parseFormatSep_reads cfg prev s src
      have hl := hr.length_le
      have hc : (parseFormatSep cfg prev s src).2.1.curr = Flag.section_ ||| Flag.name ∨
          (parseFormatSep cfg prev s src).2.2.rest.length < src.rest.length := by
        unfold parseFormatSep at h ⊢
        simp only [] at h ⊢
        rw [if_pos hp] at h ⊢
        exact sepFirst_curr _ _ _ h
      unfold measure
      rw [if_pos hp]
      rcases hc with hc | hc
      · rw [hc]
        have : ¬ ((Flag.section_ ||| Flag.name) &&& 0xf == Flag.sectEnd) = true := by decide
        rw [if_neg this]; omega
      · split <;> omega
    · exact key _ (parseFormatSep_pos _ _ _ _ h hp)
  · exact key _ (parseOption_pos _ _ _ h)

end Mpt.Parse
