/-
  C05, layer 7: `detach` (private copy / move) on buffers of managed elements.
-/
import MptModel.Lemmas.TokUnits
namespace Mpt.Heap
open Mpt

theorem fresh_toks (len f : Nat) (t : Traits) (mt : Managed t) : (State.fresh len f (some t)).toks = [] := by
  rw [toks_of_used (x := State.fresh len f (some t)) (n := 0) rfl mt (by simp [State.fresh])]
  rfl

/-- outcome of `detach` on a live buffer of managed elements -/
inductive DetachM (s : State) (b : Nat) (x : Buf) (t : Traits) : Out Nat → Prop where
  | same : DetachM s b x t (.ok s b)
  | refused (s' : State) (e : Fail) : (∀ c, s'.buf? c = s.buf? c) → s'.hs = s.hs → s'.log = s.log → s'.next = s.next →
      DetachM s b x t (.fail s' e)
  | copied (s' : State) (z : Buf) (m : Nat) (cre : List Ev) : 2 ≤ x.ref → s'.hs = s.hs →
      (∀ c, s'.buf? c = if c = s.bufs.length then some z else if c = b then some { x with ref := x.ref - 1 } else s.buf? c) →
      z.ref = 1 → z.traits = some t → GoodBuf z → z.used ≤ x.used → s'.next = s.next + m → s'.log = s.log ++ cre → Creates x.toks s.next cre m →
      (s'.next ≤ tokLimit → z.toks = seqFrom s.next m) →
      DetachM s b x t (.ok s' s.bufs.length)
  | moved (s' : State) (z : Buf) (A T : List Nat) : x.ref = 1 → s'.hs = s.hs →
      (∀ c, s'.buf? c = if c = s.bufs.length then some z else if c = b then none else s.buf? c) →
      z.ref = 1 → z.traits = some t → GoodBuf z → z.used ≤ x.used → s'.next = s.next → s'.log = s.log ++ T.map Ev.fini →
      x.toks = A ++ T → z.toks = A →
      DetachM s b x t (.ok s' s.bufs.length)

theorem roundUp_aligned (n sz : Nat) (h : sz ≠ 0) : ∃ L, roundUp n sz = L * sz ∧ n ≤ L * sz := by
  refine ⟨roundUp n sz / sz, used_eq_mul (roundUp_mod n sz h), ?_⟩
  rw [← used_eq_mul (roundUp_mod n sz h)]; exact le_roundUp n sz

theorem detach_managed {s : State} {b : Nat} {x : Buf} {t : Traits} (inv : InvM s) (hb : s.buf? b = some x)
    (xt : x.traits = some t) (n : Nat) : DetachM s b x t (detach s b n) := by
  obtain ⟨t', N, xt', mt, hu, hsz⟩ := (inv.good b x hb).elems
  rw [xt] at xt'; cases xt'
  have h4 := mt.2.2
  have sz0 : t.size ≠ 0 := by omega
  have blt := State.buf?_lt hb
  have r := inv.ref b x hb
  have nbne : s.bufs.length ≠ b := by omega
  have bne : ¬ b = s.bufs.length := fun e => nbne e.symm
  have nsz : N * t.size ≤ x.data.length := by rw [← hu]; exact hsz
  unfold detach
  rw [hb]
  simp only [xt, esize]
  rw [if_neg sz0]
  obtain ⟨L, hL, nL⟩ := roundUp_aligned n t.size sz0
  rw [hL]
  split
  · exact DetachM.same
  · split
    · exact DetachM.refused s _ (fun _ => rfl) rfl rfl rfl
    · rename_i notin notnc
      have asz := le_allocSize (L * t.size)
      have hzf : ∀ s2 : State, s2.bufs.length = s.bufs.length + 1 → True := fun _ _ => trivial
      split
      · -- shared: element-wise copy
        rename_i shared
        unfold detachCopy
        simp only
        generalize hs2 : (s.newBuf (L * t.size) (x.flags - x.flags % 2) (some t)).setBuf b { x with ref := x.ref - 1 } = s2
        have l2 : s2.bufs.length = s.bufs.length + 1 := by rw [← hs2]; simp
        have h2 : ∀ c, s2.buf? c = if c = b then some { x with ref := x.ref - 1 } else if c = s.bufs.length then
            some (State.fresh (L * t.size) (x.flags - x.flags % 2) (some t)) else s.buf? c := by
          intro c; rw [← hs2, State.buf?_setBuf _ _ _ _ (by simp; omega), State.buf?_newBuf]
        have hz : s2.buf? s.bufs.length = some (State.fresh (L * t.size) (x.flags - x.flags % 2) (some t)) := by
          rw [h2]; simp [nbne]
        have n2 : s2.next = s.next := by rw [← hs2]; rfl
        have lg2 : s2.log = s.log := by rw [← hs2]; rfl
        have hh2 : s2.hs = s.hs := by rw [← hs2]; rfl
        have cl : x.content.length = N * t.size := by rw [content_length x hsz, hu]
        have srcs : true = true → ∀ j, j < x.content.length / t.size → slot x.content t.size j ∈ x.toks := by
          intro _ j hj
          rw [cl, mul_div_self N t.size sz0] at hj
          rw [toks_of_used xt mt hu, mem_slotsFrom]
          refine ⟨j, by omega, by omega, ?_⟩
          simp only [Buf.content]
          rw [slot_take x.data t.size x.used j h4 (by rw [hu]; exact Nat.mul_le_mul_right _ (by omega))]
        rw [show bufferSet s2 s.bufs.length x.traits 0 x.content true = bufferSet s2 s.bufs.length (some t) 0 x.content true from by rw [xt]]
        rcases bufferSet_managed (s := s2) hz rfl mt (n := 0) (by simp [State.fresh]) (by simp [State.fresh]) 0 x.content true x.toks srcs with
          ⟨e, he⟩ | ⟨p, k, m, fatal, s3, z, v, ep, ek, qfit, he, sd⟩ | ⟨p, m, s3, z, ep, lt, _⟩
        · -- the data does not fit: the new buffer is released again, the reference restored
          rw [he]
          simp only
          obtain ⟨s4, hu4, hn4, ho4, hh4, nx4, _, lg4⟩ := unref_last_managed (s := s2) hz rfl (t := t) rfl mt.2.1 sz0 (by simp [State.fresh])
          rw [hu4]
          simp only
          have hb4 : s4.buf? b = some { x with ref := x.ref - 1 } := by rw [ho4 b bne, h2]; simp
          rw [hb4]
          simp only
          have l4 : b < s4.bufs.length := State.buf?_lt hb4
          refine DetachM.refused _ _ ?_ ?_ ?_ ?_
          · intro c
            rw [State.buf?_setBuf _ _ _ _ l4]
            by_cases e1 : c = b
            · rw [e1, hb]
              have : x.ref - 1 + 1 = x.ref := by omega
              simp [this]
            · rw [if_neg e1]
              by_cases e2 : c = s.bufs.length
              · rw [e2, hn4, State.buf?_ge_length s _ (Nat.le_refl _)]
              · rw [ho4 c e2, h2]; simp [e1, e2]
          · show s4.hs = _; rw [hh4, hh2]
          · show s4.log = _; rw [lg4, fresh_toks _ _ t mt, lg2]; simp
          · show s4.next = _; rw [nx4, n2]
        · rw [he]
          simp only
          have p0 : p = 0 := by
            rcases Nat.mul_eq_zero.mp ep.symm with h | h
            · exact h
            · omega
          subst p0
          have zu : z.used = m * t.size := by
            rw [sd.used]
            cases fatal with
            | true => simp
            | false => simp only [Bool.false_eq_true, if_false]; rw [sd.nfat rfl]; simp
          have zfit : m * t.size ≤ z.size := by
            simp only [Buf.size, sd.len]
            have : m * t.size ≤ (0 + k) * t.size := Nat.mul_le_mul_right _ (by have := sd.mle; omega)
            simp only [Buf.size] at qfit; omega
          obtain ⟨cre, crc, lg⟩ := sd.log
          have zle : z.used ≤ x.used := by
            rw [zu, hu]
            have kN : 0 + k = N := by
              have : (0 + k) * t.size = N * t.size := by rw [Nat.zero_add, ← ek, cl]
              exact Nat.eq_of_mul_eq_mul_right (by omega) this
            exact Nat.mul_le_mul_right _ (by have := sd.mle; omega)
          refine DetachM.copied s3 z m cre shared ?_ ?_ (by rw [sd.ref]; rfl) (sd.traits.trans rfl) (goodBuf_of (sd.traits.trans rfl) mt zu zfit) zle
            (by rw [sd.next, n2]; omega) ?_ (by rw [n2] at crc; simpa using crc) ?_
          · rw [sd.frame.hs, hh2]
          · intro c
            by_cases e1 : c = s.bufs.length
            · rw [e1, sd.buf]; simp
            · rw [sd.frame.other c e1, h2]; simp [e1]
          · have z1 : min 0 (0 + k) - 0 = 0 := by omega
            have z2 : 0 - (0 + k) = 0 := by omega
            rw [lg, lg2, z1, z2]
            cases fatal <;> simp [slotsFrom]
          · intro small
            rw [toks_of_used (sd.traits.trans rfl) mt zu]
            apply slotsFrom_eq_seqFrom
            intro j h1 h2
            rw [sd.new small j h1 h2, n2]
            omega
        · rcases Nat.mul_eq_zero.mp ep.symm with h | h <;> omega
      · -- unique: move
        rename_i uniq
        have r1 : x.ref = 1 := by omega
        unfold detachMove
        generalize hs2 : (s.newBuf (L * t.size) (x.flags - x.flags % 2) (some t)).setBuf b { x with ref := 0 } = s2
        have l2 : s2.bufs.length = s.bufs.length + 1 := by rw [← hs2]; simp
        have h2 : ∀ c, s2.buf? c = if c = b then some { x with ref := 0 } else if c = s.bufs.length then
            some (State.fresh (L * t.size) (x.flags - x.flags % 2) (some t)) else s.buf? c := by
          intro c; rw [← hs2, State.buf?_setBuf _ _ _ _ (by simp; omega), State.buf?_newBuf]
        have hb2 : s2.buf? b = some { x with ref := 0 } := by rw [h2]; simp
        -- destroy what does not fit
        have tail : ∃ s3 d3, finiTail s2 b x (L * t.size) = .ok s3 () ∧ OnlyBuf s2 s3 b ∧
            s3.log = s2.log ++ (slotsFrom x.data t.size L (N - L)).map Ev.fini ∧
            s3.buf? b = some { x with ref := 0, data := d3 } ∧ d3.length = x.data.length ∧
            (∀ j, j < L → slot d3 t.size j = slot x.data t.size j) := by
          have ual : x.used - x.used % t.size = N * t.size := by rw [hu, Nat.mul_mod_left]; simp
          have ftd : finiTail s2 b x (L * t.size) =
              if x.used > L * t.size then finiLoop (N - L) s2 b (L * t.size) t.size else .ok s2 () := by
            unfold finiTail
            rw [xt]
            simp only [mt.2.1, if_true]
            rw [ual, iters_aligned L N t.size sz0]
          rw [ftd]
          by_cases gt : x.used > L * t.size
          · rw [if_pos gt]
            have LN : L < N := by
              rw [hu] at gt
              exact Nat.lt_of_mul_lt_mul_right gt
            obtain ⟨s3, d3, hf, ob, l3, hb3, dl3, same3⟩ := finiLoop_slots (N - L) s2 b L t.size { x with ref := 0 } hb2 h4
              (by simp only [Buf.size]; have : L + (N - L) = N := by omega
                  rw [this]; exact nsz)
            exact ⟨s3, d3, hf, ob, l3, hb3, dl3, fun j hj => same3 j (Or.inl hj)⟩
          · rw [if_neg gt]
            have NL : N - L = 0 := by
              rw [hu] at gt
              have : N * t.size ≤ L * t.size := by omega
              have := Nat.le_of_mul_le_mul_right this (by omega : 0 < t.size)
              omega
            exact ⟨s2, x.data, rfl, OnlyBuf.refl s2 b, by rw [NL]; simp [slotsFrom], hb2, rfl, fun _ _ => rfl⟩
        obtain ⟨s3, d3, hf, ob, l3, hb3, dl3, same3⟩ := tail
        rw [hf]
        simp only
        have hz3 : s3.buf? s.bufs.length = some (State.fresh (L * t.size) (x.flags - x.flags % 2) (some t)) := by
          rw [ob.other _ nbne, h2]; simp [nbne]
        rw [hb3, hz3]
        simp only
        have adde : min x.used (L * t.size) = (min N L) * t.size := by
          rw [hu]
          rcases Nat.le_total N L with h | h
          · rw [Nat.min_eq_left h, Nat.min_eq_left (Nat.mul_le_mul_right _ h)]
          · rw [Nat.min_eq_right h, Nat.min_eq_right (Nat.mul_le_mul_right _ h)]
        rw [adde]
        have addle : (min N L) * t.size ≤ L * t.size := Nat.mul_le_mul_right _ (Nat.min_le_right _ _)
        have fsz : (State.fresh (L * t.size) (x.flags - x.flags % 2) (some t)).size = allocSize (L * t.size) := by
          simp [State.fresh, Buf.size]
        rw [if_neg (by rw [fsz]; omega)]
        have tl : (List.take ((min N L) * t.size) d3).length = (min N L) * t.size := by
          rw [List.length_take, dl3]
          have : (min N L) * t.size ≤ N * t.size := Nat.mul_le_mul_right _ (Nat.min_le_left _ _)
          omega
        generalize hz' : ({ State.fresh (L * t.size) (x.flags - x.flags % 2) (some t) with
            data := Mem.write (State.fresh (L * t.size) (x.flags - x.flags % 2) (some t)).data 0 (List.take ((min N L) * t.size) d3),
            used := (min N L) * t.size } : Buf) = z
        have zdl : z.data.length = allocSize (L * t.size) := by
          rw [← hz']
          show (Mem.write _ 0 _).length = _
          rw [write_length _ _ _ (by rw [tl]; simp [State.fresh]; omega)]; simp [State.fresh]
        have zslots : ∀ j, j < min N L → slot z.data t.size j = slot x.data t.size j := by
          intro j hj
          rw [← hz']
          show slot (Mem.write _ 0 _) t.size j = _
          have := slot_write (State.fresh (L * t.size) (x.flags - x.flags % 2) (some t)).data t.size 0 (min N L)
            (List.take ((min N L) * t.size) d3) h4 tl (by simp [State.fresh]; omega) j
          rw [Nat.zero_mul] at this
          rw [this]
          have c : 0 ≤ j ∧ j < 0 + min N L := by omega
          rw [if_pos c, Nat.sub_zero, slot_take d3 t.size _ j h4 (Nat.mul_le_mul_right _ (by omega))]
          exact same3 j (by omega)
        have l3' : b < s3.bufs.length := State.buf?_lt hb3
        have nl3 : s.bufs.length < s3.bufs.length := State.buf?_lt hz3
        refine DetachM.moved _ z (slotsFrom x.data t.size 0 (min N L)) (slotsFrom x.data t.size L (N - L)) r1 ?_ ?_ (by rw [← hz']; rfl)
          (by rw [← hz']; rfl) (goodBuf_of (by rw [← hz']; rfl) mt (by rw [← hz']) (by simp only [Buf.size, zdl]; omega))
          (by rw [← hz', hu]; exact Nat.mul_le_mul_right _ (Nat.min_le_left _ _)) ?_ ?_ ?_ ?_
        · show s3.hs = _; rw [ob.hs, ← hs2]; rfl
        · intro c
          rw [State.buf?_freeBuf _ _ _ (by simp; exact l3'), State.buf?_setBuf _ _ _ _ nl3]
          by_cases e1 : c = b
          · rw [e1]; simp [bne]
          · rw [if_neg e1]
            by_cases e2 : c = s.bufs.length
            · rw [e2]; simp
            · rw [if_neg e2, ob.other c e1, h2]; simp [e1, e2]
        · show s3.next = _; rw [ob.next, ← hs2]; rfl
        · show s3.log = _; rw [l3, ← hs2]; rfl
        · rw [toks_of_used xt mt hu]
          have e : N = min N L + (N - L) := by omega
          conv => lhs; rw [e]
          rw [slotsFrom_add]
          congr 1
          exact slotsFrom_start (by intro h; omega)
        · rw [toks_of_used (x := z) (by rw [← hz']; rfl) mt (n := min N L) (by rw [← hz'])]
          exact slotsFrom_congr (fun j _ h2 => zslots j (by omega))


/-- the live buffers, the handles, the log and the counter are the same (temporary allocations aside) -/
theorem step_of_same {amb : List Nat} {s s' : State} (gs : GoodS amb s) (hbuf : ∀ c, s'.buf? c = s.buf? c) (hhs : s'.hs = s.hs)
    (hlog : s'.log = s.log) (hn : s'.next = s.next) : Step amb s s' := by
  refine ⟨gs.inv.congr hbuf hhs, by rw [hhs], by rw [hn]; exact Nat.le_refl _, ?_⟩
  intro small
  obtain ⟨tp, am⟩ := gs.tok (by rw [← hn]; exact small)
  have tp' : TokP s' := tp.same (by rw [hn]; exact Nat.le_refl _) (fun c y hy => ⟨y, by rw [← hbuf c]; exact hy, rfl⟩)
  have mem : ∀ t, t ∈ stored s' ↔ t ∈ stored s := by
    intro t; rw [mem_stored, mem_stored]
    constructor
    · rintro ⟨c, y, hy, ht⟩; exact ⟨c, y, by rw [← hbuf c]; exact hy, ht⟩
    · rintro ⟨c, y, hy, ht⟩; exact ⟨c, y, by rw [hbuf c]; exact hy, ht⟩
  have am' : AmbOK amb s' := ⟨am.1, fun t ht => ⟨by rw [hn]; exact (am.2 t ht).1, fun h => (am.2 t ht).2 ((mem t).mp h)⟩⟩
  refine ⟨tp', am', [], by rw [hlog]; simp, ?_⟩
  refine (Run.nil _).perm_right (List.Perm.append_left amb ?_)
  exact perm_of_mem_iff tp.nodup_stored tp'.nodup_stored (fun t => (mem t).symm)

/-- `ensure`: the handle gets a private buffer (or keeps its buffer); a complete step in every outcome -/
theorem ensure_step {amb : List Nat} {s : State} {h b : Nat} {x : Buf} {t : Traits} (gs : GoodS amb s) (hh : s.handle h = some b)
    (hb : s.buf? b = some x) (xt : x.traits = some t) (need : Bool) (n : Nat) :
    match ensure s h b need n with
    | .fault _ => False
    | .fail s' _ => Step amb s s'
    | .ok s' nb => Step amb s s' ∧ s'.handle h = some nb ∧ ∃ z, s'.buf? nb = some z ∧ z.traits = some t ∧ z.used ≤ x.used := by
  have hlt := State.handle_lt hh
  have hnb : s.buf? s.bufs.length = none := State.buf?_ge_length s _ (Nat.le_refl _)
  have blt := State.buf?_lt hb
  have nbne : s.bufs.length ≠ b := by omega
  unfold ensure
  cases need with
  | false => exact ⟨Step.refl gs, hh, x, hb, xt, Nat.le_refl _⟩
  | true =>
    simp only [if_true]
    have dm := detach_managed gs.inv hb xt n
    generalize detach s b n = r at dm
    cases dm with
    | same =>
      simp only
      rw [setHandle_self hh]
      exact ⟨Step.refl gs, hh, x, hb, xt, Nat.le_refl _⟩
    | refused s' e hbuf hhs hlog hnx => exact step_of_same gs hbuf hhs hlog hnx
    | copied s' z m cre shared hhs hbuf zr zt zg zle hnx hlog crc ztoks =>
      simp only
      have hbuf' : ∀ c, (s'.setHandle h (some s.bufs.length)).buf? c =
          if c = s.bufs.length then some z else
            if s.handle h = some c then
              (match s.buf? c with
               | some x => if x.ref = 1 then none else some { x with ref := x.ref - 1 }
               | none => none)
            else s.buf? c := by
        intro c
        rw [State.buf?_setHandle, hbuf c, hh]
        by_cases e1 : c = s.bufs.length
        · simp [e1]
        · simp only [e1, if_false]
          by_cases e2 : c = b
          · rw [e2, hb]
            have : ¬ x.ref = 1 := by omega
            simp [this]
          · have : ¬ some b = some c := by intro e; cases e; exact e2 rfl
            simp [e2, this]
      obtain ⟨inv', hh'⟩ := gs.inv.retarget (s' := s'.setHandle h (some s.bufs.length)) hlt hnb (by simp [hhs]) hbuf' zr zg
      refine ⟨?_, hh', z, by rw [hbuf']; simp, zt, zle⟩
      have hbb : (s'.setHandle h (some s.bufs.length)).buf? b = some { x with ref := x.ref - 1 } := by
        have bne : ¬ b = s.bufs.length := fun e => nbne e.symm
        rw [State.buf?_setHandle, hbuf b]; simp [bne]
      have hbn : (s'.setHandle h (some s.bufs.length)).buf? s.bufs.length = some z := by
        rw [State.buf?_setHandle, hbuf]; simp
      refine step_of_pair gs hb hnb inv' (by simp [hhs]) (by show s.next ≤ s'.next; omega)
        (by intro c c1 c2; rw [State.buf?_setHandle, hbuf c]; simp [c1, c2]) ?_
      intro small
      have small' : s'.next ≤ tokLimit := small
      obtain ⟨tp, am⟩ := gs.tok (by omega)
      have zt' := ztoks small'
      rw [hbb, hbn]
      have xtk : ({ x with ref := x.ref - 1 } : Buf).toks = x.toks := rfl
      simp only [bufToks, xtk, zt']
      have nd := tp.nodup b x hb
      have old := tp.fresh b x hb
      refine ⟨Delta.mk [] [] cre m x.toks hnx (by show s'.log = _; rw [hlog]; simp) crc List.nodup_nil (fun t ht => by cases ht)
        (fun k hk => ⟨Or.inr ((mem_stored_split hb k).mpr (Or.inl hk)), by simp⟩) List.nodup_nil (fun t ht => by cases ht) ?_ ?_⟩
      · rw [List.nodup_append]
        refine ⟨nd, seqFrom_nodup _ _, fun a ha c hc e => ?_⟩
        subst e
        have := old a ha
        have := mem_seqFrom.mp hc
        omega
      · intro t
        rw [List.mem_append, mem_seqFrom]
        simp
    | moved s' z A T r1 hhs hbuf zr zt zg zle hnx hlog xtk ztk =>
      simp only
      have hbuf' : ∀ c, (s'.setHandle h (some s.bufs.length)).buf? c =
          if c = s.bufs.length then some z else
            if s.handle h = some c then
              (match s.buf? c with
               | some x => if x.ref = 1 then none else some { x with ref := x.ref - 1 }
               | none => none)
            else s.buf? c := by
        intro c
        rw [State.buf?_setHandle, hbuf c, hh]
        by_cases e1 : c = s.bufs.length
        · simp [e1]
        · simp only [e1, if_false]
          by_cases e2 : c = b
          · rw [e2, hb]; simp [r1]
          · have : ¬ some b = some c := by intro e; cases e; exact e2 rfl
            simp [e2, this]
      obtain ⟨inv', hh'⟩ := gs.inv.retarget (s' := s'.setHandle h (some s.bufs.length)) hlt hnb (by simp [hhs]) hbuf' zr zg
      refine ⟨?_, hh', z, by rw [hbuf']; simp, zt, zle⟩
      have hbb : (s'.setHandle h (some s.bufs.length)).buf? b = none := by
        have bne : ¬ b = s.bufs.length := fun e => nbne e.symm
        rw [State.buf?_setHandle, hbuf b]; simp [bne]
      have hbn : (s'.setHandle h (some s.bufs.length)).buf? s.bufs.length = some z := by
        rw [State.buf?_setHandle, hbuf]; simp
      refine step_of_pair gs hb hnb inv' (by simp [hhs]) (by show s.next ≤ s'.next; omega)
        (by intro c c1 c2; rw [State.buf?_setHandle, hbuf c]; simp [c1, c2]) ?_
      intro small
      have small' : s'.next ≤ tokLimit := small
      obtain ⟨tp, am⟩ := gs.tok (by omega)
      rw [hbb, hbn]
      simp only [bufToks, List.nil_append, ztk]
      have nd := tp.nodup b x hb
      rw [xtk] at nd
      have ndp := List.nodup_append.mp nd
      refine ⟨Delta.mk T [] [] 0 [] (by show s'.next = _; rw [hnx]; rfl) (by show s'.log = _; rw [hlog]; simp) (Creates.nil _) ndp.2.1
        (fun t ht => by rw [xtk]; exact List.mem_append.mpr (Or.inr ht)) (fun k hk => by cases hk) List.nodup_nil
        (fun t ht => by cases ht) ndp.1 ?_⟩
      intro t
      rw [xtk, List.mem_append]
      constructor
      · intro hA
        exact ⟨Or.inl ⟨Or.inl hA, fun hT => ndp.2.2 t hA t hT rfl⟩, by simp⟩
      · rintro ⟨(⟨hA | hT, nT⟩ | h), _⟩
        · exact hA
        · exact absurd hT nT
        · omega

end Mpt.Heap
