/-
  C12, requester side: ids handed out by mpt_command_reserve are not in use, and a reply is
  delivered to the one handler waiting for its id, after which nobody waits for that id.
-/
import MptModel.Impl.Reply
namespace Mpt.Requester

/-- ids of the entries with a handler -/
def activeIds (es : List Slot) : List Nat := (active es).map (·.id)

theorem foldl_max_ge (es : List Slot) (a : Nat) : a ≤ es.foldl (fun m e => Nat.max m e.id) a := by
  induction es generalizing a with
  | nil => simp
  | cons e r ih =>
    simp only [List.foldl_cons]
    exact Nat.le_trans (Nat.le_max_left a e.id) (ih _)

theorem foldl_max_mem (es : List Slot) (a : Nat) (e : Slot) (h : e ∈ es) :
    e.id ≤ es.foldl (fun m e => Nat.max m e.id) a := by
  induction es generalizing a with
  | nil => simp at h
  | cons x r ih =>
    simp only [List.foldl_cons]
    rcases List.mem_cons.mp h with rfl | h
    · exact Nat.le_trans (Nat.le_max_right a e.id) (foldl_max_ge r _)
    · exact ih _ h

theorem freeId_spec (act : List Slot) (fuel i r : Nat) (h : freeId act fuel i = some r) :
    act.any (·.id == r) = false ∧ i ≤ r := by
  induction fuel generalizing i with
  | zero => simp [freeId] at h
  | succ n ih =>
    unfold freeId at h
    split at h
    · have := ih (i + 1) h
      exact ⟨this.1, by omega⟩
    · rename_i hn
      cases h
      exact ⟨by simpa using hn, Nat.le_refl _⟩

theorem active_active (es : List Slot) : active (active es) = active es := by
  simp [active, List.filter_filter]

theorem findActive_eq (es : List Slot) (id : Nat) :
    findActive es id = ((active es).find? fun e => e.id == id).bind (·.tag) := by
  unfold findActive active
  induction es with
  | nil => rfl
  | cons e r ih =>
    by_cases h1 : e.tag.isSome = true
    · by_cases h2 : (e.id == id) = true
      · simp [List.find?_cons, List.filter_cons, h1, h2]
      · simp only [List.find?_cons, List.filter_cons, h1, h2, Bool.true_and, Bool.false_eq_true, if_false, if_true]
        simpa [h1, h2] using ih
    · simp only [List.find?_cons, List.filter_cons, h1, Bool.false_and, Bool.false_eq_true, if_false]
      simpa [h1] using ih

/-- **a new request gets an id nobody is waiting for** (and a legal one); the handler is registered
    under it and the ids in use stay pairwise distinct -/
theorem reserve_fresh (arr : Option (List Slot)) (idlen tag : Nat) (a : List Slot) (i : Nat)
    (hn : ∀ es, arr = some es → (activeIds es).Nodup)
    (h : reserve arr idlen tag = some (a, i)) :
    1 ≤ i ∧ i ≤ idMax idlen ∧ (∀ es, arr = some es → i ∉ activeIds es) ∧ (activeIds a).Nodup ∧ i ∈ activeIds a := by
  unfold reserve at h
  split at h
  · cases h
  · rename_i hw
    cases arr with
    | none =>
      simp only [Option.some.injEq, Prod.mk.injEq] at h
      obtain ⟨rfl, rfl⟩ := h
      refine ⟨Nat.le_refl _, ?_, ?_, ?_, ?_⟩
      · cases idlen with
        | zero => exact absurd rfl hw
        | succ n => unfold idMax; split <;> simp_all <;> omega
      · intro es he; cases he
      · simp [activeIds, active]
      · simp [activeIds, active]
    | some es =>
      simp only at h
      have hnd := hn es rfl
      -- the id chosen
      generalize hid : (if es.foldl (fun m e => Nat.max m e.id) 0 ≥ idMax idlen then freeId (active es) ((active es).length + 1) 1
        else some (es.foldl (fun m e => Nat.max m e.id) 0 + 1)) = idc at h
      cases idc with
      | none => cases h
      | some j =>
        simp only at h
        split at h
        · cases h
        · rename_i hle
          simp only [Option.some.injEq, Prod.mk.injEq] at h
          obtain ⟨rfl, rfl⟩ := h
          have hfresh : j ∉ activeIds es ∧ 1 ≤ j := by
            split at hid
            · have := freeId_spec _ _ _ _ hid
              refine ⟨?_, this.2⟩
              intro hm
              simp only [activeIds, List.mem_map] at hm
              obtain ⟨e, he, hej⟩ := hm
              have h2 := this.1
              rw [List.any_eq_false] at h2
              exact h2 e he (by simp [hej])
            · cases hid
              refine ⟨?_, by omega⟩
              intro hm
              simp only [activeIds, List.mem_map] at hm
              obtain ⟨e, he, hej⟩ := hm
              have hmem : e ∈ es := (List.mem_filter.mp he).1
              have := foldl_max_mem es 0 e hmem
              omega
          have hact : active (active es ++ [⟨j, some tag⟩]) = active es ++ [⟨j, some tag⟩] := by
            simp [active, List.filter_append, List.filter_filter]
          refine ⟨hfresh.2, by omega, ?_, ?_, ?_⟩
          · intro es' he; cases he; exact hfresh.1
          · simp only [activeIds, hact, List.map_append, List.map_cons, List.map_nil]
            rw [List.nodup_append]
            refine ⟨hnd, by simp, ?_⟩
            intro x hx y hy
            simp at hy
            subst hy
            intro hxy
            exact hfresh.1 (hxy ▸ hx)
          · simp [activeIds, hact]

theorem deactivate_active (es : List Slot) (id : Nat) (h : (activeIds es).Nodup) :
    activeIds (deactivate es id) = (activeIds es).filter (· != id) := by
  induction es with
  | nil => rfl
  | cons e r ih =>
    unfold deactivate
    by_cases h1 : e.tag.isSome = true
    · by_cases h2 : (e.id == id) = true
      · have hid : e.id = id := by simpa using h2
        have hnd : (e.id :: activeIds r).Nodup := by simpa [activeIds, active, List.filter_cons, h1] using h
        have hnot : id ∉ activeIds r := by rw [← hid]; exact (List.nodup_cons.mp hnd).1
        have hfilter : (activeIds r).filter (· != id) = activeIds r := by
          rw [List.filter_eq_self]
          intro x hx
          simp only [bne_iff_ne, ne_eq]
          intro hxe; exact hnot (hxe ▸ hx)
        have e1 : activeIds ({ e with tag := none } :: r) = activeIds r := by
          simp [activeIds, active, List.filter_cons]
        have e2 : activeIds (e :: r) = e.id :: activeIds r := by
          simp [activeIds, active, List.filter_cons, h1]
        simp only [h1, h2, Bool.true_and, if_true]
        rw [e1, e2, List.filter_cons, hid]
        simp [hfilter]
      · have hnd : (e.id :: activeIds r).Nodup := by simpa [activeIds, active, List.filter_cons, h1] using h
        have := ih (List.nodup_cons.mp hnd).2
        have hne : (e.id != id) = true := by simpa using h2
        simp only [h1, h2, Bool.true_and, Bool.false_eq_true, if_false]
        simp only [activeIds, active, List.filter_cons, h1, if_true, List.map_cons, hne] at this ⊢
        rw [this]
    · have hnd : (activeIds r).Nodup := by simpa [activeIds, active, List.filter_cons, h1] using h
      have := ih hnd
      simp only [h1, Bool.false_and, Bool.false_eq_true, if_false]
      simp only [activeIds, active, List.filter_cons, h1, Bool.false_eq_true, if_false] at this ⊢
      exact this

end Mpt.Requester
