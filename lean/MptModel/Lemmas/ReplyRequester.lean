/-
  C12, requester side: ids handed out by mpt_command_reserve are not in use, and a reply is
  delivered to the one handler waiting for its id, after which nobody waits for that id.
-/
import MptModel.Impl.Reply
import MptModel.Lemmas.ReplyId
namespace Mpt.Requester

/-- ids of the entries with a handler -/
def activeIds (es : List Slot) : List Nat := (active es).map (·.id)

theorem foldl_max_ge (es : List Slot) (a : Nat) : a ≤ es.foldl (fun m e => Nat.max m e.id) a := by
  induction es generalizing a with
  | nil => simp
  | cons e r ih =>
    simp only [List.foldl_cons]
    exact Nat.le_trans (Nat.le_max_left a e.id) (ih _)

theorem foldl_max_mem (es : List Slot) (a : Nat) (e : Slot) (h : e ∈ es) :
    e.id ≤ es.foldl (fun m e => Nat.max m e.id) a := by
  induction es generalizing a with
  | nil => simp at h
  | cons x r ih =>
    simp only [List.foldl_cons]
    rcases List.mem_cons.mp h with rfl | h
    · exact Nat.le_trans (Nat.le_max_right a e.id) (foldl_max_ge r _)
    · exact ih _ h

theorem freeId_spec (act : List Slot) (fuel i r : Nat) (h : freeId act fuel i = some r) :
    act.any (·.id == r) = false ∧ i ≤ r := by
  induction fuel generalizing i with
  | zero => simp [freeId] at h
  | succ n ih =>
    unfold freeId at h
    split at h
    · have := ih (i + 1) h
      exact ⟨this.1, by omega⟩
    · rename_i hn
      cases h
      exact ⟨by simpa using hn, Nat.le_refl _⟩

theorem active_active (es : List Slot) : active (active es) = active es := by
  simp [active, List.filter_filter]

theorem findActive_eq (es : List Slot) (id : Nat) :
    findActive es id = ((active es).find? fun e => e.id == id).bind (·.tag) := by
  unfold findActive active
  induction es with
  | nil => rfl
  | cons e r ih =>
    by_cases h1 : e.tag.isSome = true
    · by_cases h2 : (e.id == id) = true
      · simp [List.find?_cons, List.filter_cons, h1, h2]
      · simp only [List.find?_cons, List.filter_cons, h1, h2, Bool.true_and, Bool.false_eq_true, if_false, if_true]
        simpa [h1, h2] using ih
    · simp only [List.find?_cons, List.filter_cons, h1, Bool.false_and, Bool.false_eq_true, if_false]
      simpa [h1] using ih

/-- **a new request gets an id nobody is waiting for** (and a legal one); the handler is registered
    under it and the ids in use stay pairwise distinct -/
theorem reserve_fresh (arr : Option (List Slot)) (idlen tag : Nat) (a : List Slot) (i : Nat)
    (hn : ∀ es, arr = some es → (activeIds es).Nodup)
    (h : reserve arr idlen tag = some (a, i)) :
    1 ≤ i ∧ i ≤ idMax idlen ∧ (∀ es, arr = some es → i ∉ activeIds es) ∧ (activeIds a).Nodup ∧ i ∈ activeIds a := by
  unfold reserve at h
  split at h
  · cases h
  · rename_i hw
    cases arr with
    | none =>
      simp only [Option.some.injEq, Prod.mk.injEq] at h
      obtain ⟨rfl, rfl⟩ := h
      refine ⟨Nat.le_refl _, ?_, ?_, ?_, ?_⟩
      · cases idlen with
        | zero => exact absurd rfl hw
        | succ n => unfold idMax; split <;> simp_all <;> omega
      · intro es he; cases he
      · simp [activeIds, active]
      · simp [activeIds, active]
    | some es =>
      simp only at h
      have hnd := hn es rfl
      -- the id chosen
      generalize hid : (if es.foldl (fun m e => Nat.max m e.id) 0 ≥ idMax idlen then freeId (active es) ((active es).length + 1) 1
        else some (es.foldl (fun m e => Nat.max m e.id) 0 + 1)) = idc at h
      cases idc with
      | none => cases h
      | some j =>
        simp only at h
        split at h
        · cases h
        · rename_i hle
          simp only [Option.some.injEq, Prod.mk.injEq] at h
          obtain ⟨rfl, rfl⟩ := h
          have hfresh : j ∉ activeIds es ∧ 1 ≤ j := by
            split at hid
            · have := freeId_spec _ _ _ _ hid
              refine ⟨?_, this.2⟩
              intro hm
              simp only [activeIds, List.mem_map] at hm
              obtain ⟨e, he, hej⟩ := hm
              have h2 := this.1
              rw [List.any_eq_false] at h2
              exact h2 e he (by simp [hej])
            · cases hid
              refine ⟨?_, by omega⟩
              intro hm
              simp only [activeIds, List.mem_map] at hm
              obtain ⟨e, he, hej⟩ := hm
              have hmem : e ∈ es := (List.mem_filter.mp he).1
              have := foldl_max_mem es 0 e hmem
              omega
          have hact : active (active es ++ [⟨j, some tag⟩]) = active es ++ [⟨j, some tag⟩] := by
            simp [active, List.filter_append, List.filter_filter]
          refine ⟨hfresh.2, by omega, ?_, ?_, ?_⟩
          · intro es' he; cases he; exact hfresh.1
          · simp only [activeIds, hact, List.map_append, List.map_cons, List.map_nil]
            rw [List.nodup_append]
            refine ⟨hnd, by simp, ?_⟩
            intro x hx y hy
            simp at hy
            subst hy
            intro hxy
            exact hfresh.1 (hxy ▸ hx)
          · simp [activeIds, hact]

theorem deactivate_active (es : List Slot) (id : Nat) (h : (activeIds es).Nodup) :
    activeIds (deactivate es id) = (activeIds es).filter (· != id) := by
  induction es with
  | nil => rfl
  | cons e r ih =>
    unfold deactivate
    by_cases h1 : e.tag.isSome = true
    · by_cases h2 : (e.id == id) = true
      · have hid : e.id = id := by simpa using h2
        have hnd : (e.id :: activeIds r).Nodup := by simpa [activeIds, active, List.filter_cons, h1] using h
        have hnot : id ∉ activeIds r := by rw [← hid]; exact (List.nodup_cons.mp hnd).1
        have hfilter : (activeIds r).filter (· != id) = activeIds r := by
          rw [List.filter_eq_self]
          intro x hx
          simp only [bne_iff_ne, ne_eq]
          intro hxe; exact hnot (hxe ▸ hx)
        have e1 : activeIds ({ e with tag := none } :: r) = activeIds r := by
          simp [activeIds, active, List.filter_cons]
        have e2 : activeIds (e :: r) = e.id :: activeIds r := by
          simp [activeIds, active, List.filter_cons, h1]
        simp only [h1, h2, Bool.true_and, if_true]
        rw [e1, e2, List.filter_cons, hid]
        simp [hfilter]
      · have hnd : (e.id :: activeIds r).Nodup := by simpa [activeIds, active, List.filter_cons, h1] using h
        have := ih (List.nodup_cons.mp hnd).2
        have hne : (e.id != id) = true := by simpa using h2
        simp only [h1, h2, Bool.true_and, Bool.false_eq_true, if_false]
        simp only [activeIds, active, List.filter_cons, h1, if_true, List.map_cons, hne] at this ⊢
        rw [this]
    · have hnd : (activeIds r).Nodup := by simpa [activeIds, active, List.filter_cons, h1] using h
      have := ih hnd
      simp only [h1, Bool.false_and, Bool.false_eq_true, if_false]
      simp only [activeIds, active, List.filter_cons, h1, Bool.false_eq_true, if_false] at this ⊢
      exact this

/- ---------------------------------------------------------------- the ids in use stay distinct over histories -/

theorem nodup_deactivate (es : List Slot) (id : Nat) (h : (activeIds es).Nodup) : (activeIds (deactivate es id)).Nodup := by
  rw [deactivate_active es id h]
  exact List.Nodup.sublist List.filter_sublist h

theorem activeIds_active (es : List Slot) : activeIds (active es) = activeIds es := by
  simp [activeIds, active_active]

/-- `arr.getD []` has distinct active ids -/
def Distinct (s : St) : Prop := (activeIds (s.arr.getD [])).Nodup

theorem distinct_process (s : St) (m : List Byte) (h : Distinct s) : Distinct (process s m).1 := by
  unfold process
  split
  · exact h
  · simp only []
    split
    · cases hb : MsgId.buf2id (Reply.unmark (m.take s.idlen)) with
      | ok pr =>
        obtain ⟨rid, u⟩ := pr
        simp only []
        cases hf : findActive (s.arr.getD []) rid with
        | none => exact h
        | some t =>
          simp only [Distinct]
          cases ha : s.arr with
          | none => simp [activeIds, active]
          | some es =>
            simp only [Option.map_some, Option.getD_some]
            exact nodup_deactivate es rid (by simpa [Distinct, ha] using h)
      | err e => exact h
      | null => exact h
      | oob => exact h
      | fault => exact h
    · exact h

theorem distinct_drain (q : List (List Byte)) (s : St) (log : List Call) (h : Distinct s) : Distinct (drain q s log).1 := by
  induction q generalizing s log with
  | nil => simpa [drain, Distinct] using h
  | cons m ms ih =>
    unfold drain
    exact ih _ _ (distinct_process s m h)

theorem distinct_await (s : St) (tag : Nat) (s' : St) (i : Nat) (h : Distinct s) (ha : await s tag = some (s', i)) :
    Distinct s' := by
  unfold await at ha
  cases hr : reserve s.arr s.idlen tag with
  | none => rw [hr] at ha; cases ha
  | some pr =>
    obtain ⟨a, j⟩ := pr
    rw [hr] at ha
    simp only [Option.some.injEq, Prod.mk.injEq] at ha
    obtain ⟨rfl, rfl⟩ := ha
    have := reserve_fresh s.arr s.idlen tag a j (by intro es he; simpa [Distinct, he] using h) hr
    simpa [Distinct] using this.2.2.2.1

theorem distinct_followUp (follow : Nat → Option Nat) (s : St) (t : Nat) (h : Distinct s) : Distinct (followUp follow s t) := by
  unfold followUp
  cases follow t with
  | none => exact h
  | some t' =>
    simp only []
    cases ha : await s t' with
    | none => exact h
    | some pr => obtain ⟨s', i⟩ := pr; exact distinct_await s t' s' i h ha

theorem distinct_processF (follow : Nat → Option Nat) (s : St) (m : List Byte) (h : Distinct s) :
    Distinct (processF follow s m).1 := by
  unfold processF
  have hp := distinct_process s m h
  generalize process s m = r at hp
  obtain ⟨s1, c⟩ := r
  cases c with
  | none => exact hp
  | some c =>
    obtain ⟨tg, msg⟩ := c
    cases tg with
    | none => exact hp
    | some t => exact distinct_followUp follow _ t hp

theorem distinct_drainF (follow : Nat → Option Nat) (q : List (List Byte)) (s : St) (log : List Call) (h : Distinct s) :
    Distinct (drainF follow q s log).1 := by
  induction q generalizing s log with
  | nil => simpa [drainF, Distinct] using h
  | cons m ms ih =>
    unfold drainF
    exact ih _ _ (distinct_processF follow s m h)

theorem distinct_syncLoop (fails : Nat → Bool) (follow : Nat → Option Nat) (q : List (List Byte)) (s : St) (n : Nat)
    (log : List Call) (h : Distinct s) :
    Distinct (syncLoop fails follow q s n log).1 := by
  induction q generalizing s n log with
  | nil => cases n <;> simpa [syncLoop, Distinct] using h
  | cons m ms ih =>
    cases n with
    | zero => simpa [syncLoop, Distinct] using h
    | succ n =>
      unfold syncLoop
      split
      · simpa [Distinct] using h
      · cases hb : MsgId.buf2id (Reply.unmark (m.take s.idlen)) with
        | ok pr =>
          obtain ⟨rid, u⟩ := pr
          simp only []
          cases hf : findActive (s.arr.getD []) rid with
          | none => exact ih _ _ _ h
          | some t =>
            have hd : Distinct { s with arr := s.arr.map (deactivate · rid) } := by
              simp only [Distinct]
              cases ha : s.arr with
              | none => simp [activeIds, active]
              | some es =>
                simp only [Option.map_some, Option.getD_some]
                exact nodup_deactivate es rid (by simpa [Distinct, ha] using h)
            have hd2 := distinct_followUp follow _ t hd
            simp only []
            split
            · simpa [Distinct] using hd2
            · exact ih _ _ _ hd2
        | err e => simpa [Distinct] using h
        | null => simpa [Distinct] using h
        | oob => simpa [Distinct] using h
        | fault => simpa [Distinct] using h

theorem distinct_sync (fails : Nat → Bool) (follow : Nat → Option Nat) (s : St) (h : Distinct s) :
    Distinct (sync fails follow s).1 := by
  unfold sync
  cases ha : s.arr with
  | none => simpa [Distinct, ha] using h
  | some es =>
    simp only []
    split
    · simpa [Distinct, ha] using h
    · have hl := distinct_syncLoop fails follow s.inq s (active es).length [] h
      split
      · simp only [Distinct, Option.getD_some]
        rw [activeIds_active]
        exact hl
      · exact hl

theorem distinct_rstep (fails : Nat → Bool) (follow : Nat → Option Nat) (s : St) (op : ROp) (h : Distinct s) :
    Distinct (rstep fails follow s op).1 := by
  cases op with
  | await tag =>
    simp only [rstep]
    cases ha : await s tag with
    | none => exact h
    | some pr => obtain ⟨s', i⟩ := pr; exact distinct_await s tag s' i h ha
  | send d => simpa [rstep, send, Distinct] using h
  | answer fs => exact distinct_drainF follow _ s [] h
  | sync fs => exact distinct_sync fails follow _ (by simpa [Distinct] using h)

theorem distinct_rrun (fails : Nat → Bool) (follow : Nat → Option Nat) (s : St) (ops : List ROp) (h : Distinct s) :
    Distinct (rrun fails follow s ops).1 := by
  induction ops generalizing s with
  | nil => exact h
  | cons op ops ih => simp only [rrun]; exact ih _ (distinct_rstep fails follow s op h)

end Mpt.Requester
