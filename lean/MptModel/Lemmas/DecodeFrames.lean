/-
  The decoder state after a call between two messages (core Lean only; built on the call lemmas of C02):
  after a delivery and after a refused delimiter the state is again between two messages and the input
  position stands exactly behind the frame, so the honesty statements chain over every frame of a stream.
-/
import MptModel.Lemmas.DecodeDeliver
namespace Mpt.Codec
open Mpt.Cobs

/-- after a delivery: between two messages again, input position behind the delimiter of the frame,
    unread input untouched, and the message is the reference decoding -/
theorem decodeV_next (v : Variant) (st : DecState) (segs : List Seg) (pre junk : List Byte)
    (hb : Bnd (flat segs).length st) (hf : Fresh st)
    (hin : (flat segs).drop st.curr = pre ++ 0 :: junk) (hnz : ∀ x ∈ pre, x ≠ 0)
    (h1 : (decodeV v st segs false).ret = .val 1) :
    Fresh (decodeV v st segs false).st ∧ (decodeV v st segs false).st.curr = st.curr + pre.length + 1 ∧
    (decodeV v st segs false).store.drop (decodeV v st segs false).st.curr = junk ∧
    (decodeV v st segs false).store.length = (flat segs).length ∧
    dec v (pre ++ [0]) = some (decodeV v st segs false).region := by
  have hhon := (decodeV_honest v st segs pre junk hf hin hnz h1).1
  cases pre with
  | nil =>
    exfalso
    have := ((start_callG v segs st _ rfl hf).2.1 junk (by simpa using hin))
    -- a leading delimiter is never a message, also for the tail framings
    have hne : (decodeCobs v st segs false).ret ≠ .err .MissingData := this.2.2
    rw [decodeV_eq_of_ret v st segs hne] at h1
    exact this.1 h1
  | cons c0 body =>
  have hc0 : c0 ≠ 0 := hnz c0 (by simp)
  have hnzb : ∀ x ∈ body, x ≠ 0 := fun x hx => hnz x (by simp [hx])
  have hU : (flat segs).drop st.curr = c0 :: (body ++ 0 :: junk) := by simpa using hin
  have hout := lift_out v st segs c0.toNat _ _ _ hf.wf (fresh_call0 v segs st _ rfl hb hf c0 _ hU hc0)
  obtain ⟨_, hctx, hmsg⟩ := hout.one h1
  have hsc := hout.scan
  generalize decodeV v st segs false = o at h1 hhon hctx hmsg hsc ⊢
  obtain ⟨hlt, hlast⟩ := hsc.last h1
  -- bytes of the storage behind the input position
  have hget : ∀ i, (flat segs)[st.curr + i]? = (c0 :: (body ++ 0 :: junk))[i]? := by
    intro i
    have := congrArg (fun x => x[i]?) hU
    simpa [List.getElem?_drop] using this
  have hz : (flat segs)[st.curr + 1 + body.length]? = some 0 := by
    have := hget (1 + body.length)
    rw [← Nat.add_assoc] at this
    rw [this]
    simp [List.getElem?_cons]
  have hcurr : o.st.curr = st.curr + 1 + body.length + 1 := by
    rcases Nat.lt_trichotomy (o.st.curr - 1) (st.curr + 1 + body.length) with h | h | h
    · -- the byte in front of the input position would be a body byte
      exfalso
      have hi : o.st.curr - 1 = st.curr + (1 + (o.st.curr - 1 - (st.curr + 1))) := by omega
      rw [hi, hget] at hlast
      have hlt2 : o.st.curr - 1 - (st.curr + 1) < body.length := by omega
      simp only [List.getElem?_cons_succ, Nat.add_comm 1, List.getElem?_append_left hlt2] at hlast
      have hmem := List.mem_of_getElem? hlast
      exact hnzb 0 hmem rfl
    · omega
    · exfalso
      exact hsc.nz (st.curr + 1 + body.length) (by omega) (by rw [if_pos h1]; omega) hz
  have hfresh : Fresh o.st :=
    { ctx := hctx
      hnone := fun hn => by rw [hmsg] at hn; cases hn
      hsome := fun m hm => by rw [hmsg] at hm; exact (Option.some.inj hm).symm }
  refine ⟨hfresh, ?_, ?_, hsc.len, hhon⟩
  · simp only [List.length_cons]; omega
  · rw [hsc.unread, hcurr]
    have := congrArg (List.drop (1 + body.length + 1)) hU
    rw [List.drop_drop] at this
    have e : st.curr + 1 + body.length + 1 = st.curr + (1 + body.length + 1) := by omega
    rw [e, this]
    simp [List.drop_append]

/-- a delimiter where a frame should start (leading or doubled delimiter) is refused, consumed, and the
    decoder stands between two messages again -/
theorem decodeV_skip (v : Variant) (st : DecState) (segs : List Seg) (tl : List Byte)
    (hb : Bnd (flat segs).length st) (hf : Fresh st) (hin : (flat segs).drop st.curr = 0 :: tl) :
    (decodeV v st segs false).ret = .err .BadValue ∧ Fresh (decodeV v st segs false).st ∧
    (decodeV v st segs false).st.curr = st.curr + 1 ∧ (decodeV v st segs false).store = flat segs := by
  have hne := ((start_callG v segs st _ rfl hf).2.1 tl hin).2.2
  rw [decodeV_eq_of_ret v st segs hne]
  obtain ⟨st', l, hprep⟩ := decPrep_noerr st segs (flat segs) hb
  obtain ⟨h1, h2, h3, h4, h5, h6, h7⟩ := decPrep_fresh st _ _ st' l hf hprep
  obtain ⟨hf', hc', hm'⟩ := decPrep_fresh_st st segs _ st' l hf hprep
  have hc : l.store[l.r]? = some 0 := by
    rw [h1, h5]
    have := congrArg (fun x => x[0]?) hin
    simpa using this
  unfold decodeCobs
  simp only [Bool.false_eq_true, if_false, hprep]
  unfold decStart
  rw [if_pos h2, hc]
  simp only [if_true]
  refine ⟨trivial, ⟨hf'.ctx, hf'.hnone, hf'.hsome⟩, ?_, h1⟩
  show l.r + 1 = st.curr + 1
  omega

/-- honesty over every frame of a stream: the decoder is called again and again on the same storage; the
    k-th delivered message is the reference decoding of the k-th frame — frames are neither skipped nor
    merged nor re-delivered -/
theorem decodeAll_honest (v : Variant) (a : Nat) (frames : List (List Byte)) :
    ∀ (n : Nat) (st : DecState) (store junk : List Byte), Bnd store.length st → Fresh st →
      store.drop st.curr = (frames.map (· ++ [0])).flatten ++ junk → (∀ p ∈ frames, ∀ x ∈ p, x ≠ 0) →
      ∀ k, k ≤ frames.length → k ≤ (decodeAll v a n st store).length →
        ((decodeAll v a n st store).take k).map some = (frames.take k).map (fun p => dec v (p ++ [0])) := by
  induction frames with
  | nil => intro n st store junk _ _ _ _ k hk _; simp at hk; subst hk; simp
  | cons p rest ih =>
    intro n st store junk hb hf hin hnz k hk hk2
    cases k with
    | zero => simp
    | succ k =>
    cases n with
    | zero => simp [decodeAll] at hk2
    | succ n =>
    have hflat : flat [(a, store)] = store := flat_single a store
    simp only [decodeAll] at hk2 ⊢
    by_cases h1 : (decodeV v st [(a, store)] false).ret = .val 1
    · rw [if_pos h1] at hk2 ⊢
      have hin' : (flat [(a, store)]).drop st.curr = p ++ 0 :: ((rest.map (· ++ [0])).flatten ++ junk) := by
        rw [hflat, hin]; simp
      obtain ⟨e1, e2, e3, e4, e5⟩ := decodeV_next v st [(a, store)] p _ (by rw [hflat]; exact hb) hf hin'
        (hnz p (by simp)) h1
      have hb' := decodeV_bnd v st [(a, store)] false (by simpa [hflat] using hb)
      simp only [Bool.false_eq_true, if_false, hflat] at hb'
      rw [hflat] at e4
      have := ih n _ _ junk (by rw [e4]; exact hb') e1 e3 (fun q hq => hnz q (by simp [hq])) k
        (by simpa using hk) (by simpa using hk2)
      simp only [List.take_succ_cons, List.map_cons, this]
      congr 1
      exact e5.symm
    · rw [if_neg h1] at hk2; simp at hk2

end Mpt.Codec
