/-
  Refinement of the link-manipulating functions: on a store that realises a collection of top-level
  lists, each function succeeds and the new store realises the lists changed by the forest operation.
-/
import MptModel.Lemmas.NodesReal
namespace Mpt.Nodes
open Mpt Mpt.Forest

/-- the store realises the top-level lists `tops`: every list is laid out without parent, no node
    occurs twice, every live record belongs to one of the lists, and the log of `free` calls lists
    exactly the dead records, each once -/
structure Realises (s : Store) (tops : List Forest) : Prop where
  real : ∀ l ∈ tops, l ≠ [] ∧ Real s none none l
  nodup : (tops.flatMap ids).Nodup
  cover : ∀ i n, s.nodes[i]? = some n → n.alive = true → i ∈ tops.flatMap ids
  freedNodup : s.freed.Nodup
  freedIff : ∀ i, i ∈ s.freed ↔ ∃ n, s.nodes[i]? = some n ∧ n.alive = false

/-- well-formed store: it realises some collection of finite ordered forests -/
def WF (s : Store) : Prop := ∃ tops, Realises s tops

/-- same `free` log, same live/dead flags -/
def SameLife (s s' : Store) : Prop :=
  s'.freed = s.freed ∧ ∀ i : Nat, (s'.nodes[i]?).map Node.alive = (s.nodes[i]?).map Node.alive

theorem Realises.of_sameLife {s s' : Store} {tops tops' : List Forest} (h : Realises s tops) (hl : SameLife s s')
    (hr : ∀ l ∈ tops', l ≠ [] ∧ Real s' none none l) (hp : (tops'.flatMap ids).Perm (tops.flatMap ids)) :
    Realises s' tops' := by
  refine ⟨hr, hp.nodup_iff.2 h.nodup, ?_, ?_, ?_⟩
  · intro i n hn ha
    have := hl.2 i
    rw [hn] at this
    cases hs : s.nodes[i]? with
    | none => simp [hs] at this
    | some m =>
      simp [hs] at this
      exact hp.mem_iff.2 (h.cover i m hs (by rw [← this]; exact ha))
  · rw [hl.1]; exact h.freedNodup
  · intro i
    rw [hl.1, h.freedIff i]
    have := hl.2 i
    constructor
    · rintro ⟨n, hn, ha⟩
      rw [hn] at this
      cases hs : s'.nodes[i]? with
      | none => simp [hs] at this
      | some m => simp [hs] at this; exact ⟨m, rfl, by rw [this]; exact ha⟩
    · rintro ⟨n, hn, ha⟩
      rw [hn] at this
      cases hs : s.nodes[i]? with
      | none => simp [hs] at this
      | some m => simp [hs] at this; exact ⟨m, rfl, by rw [← this]; exact ha⟩

theorem Realises.perm {s : Store} {tops tops' : List Forest} (h : Realises s tops) (hp : tops'.Perm tops) :
    Realises s tops' :=
  h.of_sameLife ⟨rfl, fun _ => rfl⟩ (fun l hl => h.real l (hp.mem_iff.1 hl)) (hp.flatMap_right _)

/-! ### handles of changed lists -/

theorem ids_insertIdx_perm (t : Tree) : ∀ (l : Forest) (k : Nat), k ≤ l.length →
    (ids (l.insertIdx k t)).Perm (ids [t] ++ ids l)
  | l, 0, _ => by
    cases t with
    | node i n v cs => simp
  | [], k + 1, h => by simp at h
  | (.node i n v cs) :: ts, k + 1, h => by
    cases t with
    | node x n' v' cs' =>
      simp only [List.insertIdx_succ_cons, ids_cons]
      have ih := ids_insertIdx_perm (.node x n' v' cs') ts k (by simpa using h)
      simp only [ids_cons, ids_nil, List.append_nil] at ih ⊢
      have h1 : (i :: (ids cs ++ ids (ts.insertIdx k (.node x n' v' cs')))).Perm (i :: (ids cs ++ (x :: ids cs' ++ ids ts))) :=
        List.Perm.cons _ (List.Perm.append_left _ ih)
      refine h1.trans ?_
      have : (i :: (ids cs ++ (x :: ids cs' ++ ids ts))).Perm ((x :: ids cs') ++ (i :: (ids cs ++ ids ts))) := by
        have := @List.perm_append_comm _ (i :: ids cs) (x :: ids cs')
        have h2 := List.Perm.append_right (ids ts) this
        simpa [List.append_assoc] using h2
      simpa using this

theorem ids_modKids_perm {q : Nat} {g : Forest → Forest} {tq : Tree} {E : List Nat} :
    ∀ {l : Forest}, (ids l).Nodup → find? q l = some tq →
    (ids (g tq.children)).Perm (E ++ ids tq.children) →
    (ids (modKids q g l)).Perm (E ++ ids l)
  | [], _, hf, _ => by simp [find?] at hf
  | (.node i n v cs) :: ts, hnd, hf, hg => by
    rw [ids_cons, List.nodup_cons, List.mem_append, List.nodup_append] at hnd
    obtain ⟨hni, ndcs, ndts, disj⟩ := hnd
    simp only [find?] at hf
    simp only [modKids]
    by_cases hiq : i = q
    · subst hiq
      simp at hf; subst hf
      simp only [↓reduceIte, Tree.children, ids_cons] at hg ⊢
      have h1 : (i :: (ids (g cs) ++ ids ts)).Perm (i :: ((E ++ ids cs) ++ ids ts)) :=
        List.Perm.cons _ (List.Perm.append_right _ hg)
      refine h1.trans ?_
      have : (i :: (E ++ ids cs ++ ids ts)).Perm (E ++ i :: (ids cs ++ ids ts)) := by
        have := (@List.perm_middle _ i E (ids cs ++ ids ts)).symm
        simpa [List.append_assoc] using this
      exact this
    · simp only [hiq, ↓reduceIte, ids_cons] at hf ⊢
      cases hc : find? q cs with
      | some t =>
        simp [hc] at hf; subst hf
        have hqcs := (find?_mem hc).1
        have hqts : q ∉ ids ts := fun h => disj q hqcs q h rfl
        rw [modKids_of_not_mem hqts]
        have ih := ids_modKids_perm ndcs hc hg
        have h1 : (i :: (ids (modKids q g cs) ++ ids ts)).Perm (i :: ((E ++ ids cs) ++ ids ts)) :=
          List.Perm.cons _ (List.Perm.append_right _ ih)
        refine h1.trans ?_
        have := (@List.perm_middle _ i E (ids cs ++ ids ts)).symm
        simpa [List.append_assoc] using this
      | none =>
        simp [hc] at hf
        have hqts := (find?_mem hf).1
        have hqcs : q ∉ ids cs := fun h => disj q h q hqts rfl
        rw [modKids_of_not_mem hqcs]
        have ih := ids_modKids_perm ndts hf hg
        have h1 : (i :: (ids cs ++ ids (modKids q g ts))).Perm (i :: (ids cs ++ (E ++ ids ts))) :=
          List.Perm.cons _ (List.Perm.append_left _ ih)
        refine h1.trans ?_
        have h2 : (ids cs ++ (E ++ ids ts)).Perm (E ++ (ids cs ++ ids ts)) := by
          have := List.Perm.append_right (ids ts) (@List.perm_append_comm _ (ids cs) E)
          simpa [List.append_assoc] using this
        have := (@List.perm_middle _ i E (ids cs ++ ids ts)).symm
        exact (List.Perm.cons _ h2).trans (by simpa using this)

/-- the record of the node found by `find?` and the realisation of its children -/
theorem Real.of_find {s : Store} {q : Nat} : ∀ {l : Forest} {par prev : Option Nat} {tq : Tree},
    Real s par prev l → find? q l = some tq →
    (∃ nx pv pr, s.nodes[q]? = some (recOf nx pv pr tq.children tq.name tq.value)) ∧ Real s (some q) none tq.children
  | [], _, _, _, _, hf => by simp [find?] at hf
  | (.node i n v cs) :: ts, par, prev, tq, hL, hf => by
    rw [Real_cons] at hL
    simp only [find?] at hf
    by_cases hiq : i = q
    · subst hiq
      simp at hf; subst hf
      exact ⟨⟨_, _, _, hL.1⟩, hL.2.1⟩
    · simp only [hiq, ↓reduceIte] at hf
      cases hc : find? q cs with
      | some t => simp [hc] at hf; subst hf; exact Real.of_find hL.2.1 hc
      | none => simp [hc] at hf; exact Real.of_find hL.2.2 hf

theorem find?_not_in_children {q : Nat} : ∀ {l : Forest} {tq : Tree}, (ids l).Nodup → find? q l = some tq →
    q ∉ ids tq.children
  | [], _, _, hf => by simp [find?] at hf
  | (.node i n v cs) :: ts, tq, hnd, hf => by
    rw [ids_cons, List.nodup_cons, List.mem_append, List.nodup_append] at hnd
    obtain ⟨hni, ndcs, ndts, disj⟩ := hnd
    simp only [find?] at hf
    by_cases hiq : i = q
    · subst hiq
      simp at hf; subst hf
      exact fun h => hni (Or.inl h)
    · simp only [hiq, ↓reduceIte] at hf
      cases hc : find? q cs with
      | some t => simp [hc] at hf; subst hf; exact find?_not_in_children ndcs hc
      | none => simp [hc] at hf; exact find?_not_in_children ndts hf

theorem find?_children_nodup {q : Nat} : ∀ {l : Forest} {tq : Tree}, (ids l).Nodup → find? q l = some tq →
    (ids tq.children).Nodup
  | [], _, _, hf => by simp [find?] at hf
  | (.node i n v cs) :: ts, tq, hnd, hf => by
    rw [ids_cons, List.nodup_cons, List.mem_append, List.nodup_append] at hnd
    obtain ⟨hni, ndcs, ndts, disj⟩ := hnd
    simp only [find?] at hf
    by_cases hiq : i = q
    · subst hiq
      simp at hf; subst hf
      exact ndcs
    · simp only [hiq, ↓reduceIte] at hf
      cases hc : find? q cs with
      | some t => simp [hc] at hf; subst hf; exact find?_children_nodup ndcs hc
      | none => simp [hc] at hf; exact find?_children_nodup ndts hf

/-- the record of the `j`-th element of a realised sibling list -/
theorem Real.rec_at {s : Store} {p : Nat} : ∀ {L : Forest} {par prev : Option Nat} {j : Nat},
    Real s par prev L → idx? p L = some j →
    ∃ pv cs n v, s.nodes[p]? = some (recOf (headId (L.drop (j + 1))) pv par cs n v) ∧ (j = 0 → pv = prev)
  | [], _, _, _, _, hj => by simp at hj
  | (.node i n v cs) :: ts, par, prev, j, hL, hj => by
    rw [Real_cons] at hL
    rw [idx?_cons] at hj
    by_cases hip : i = p
    · subst hip
      simp at hj; subst hj
      exact ⟨prev, cs, n, v, by simpa using hL.1, fun _ => rfl⟩
    · simp [hip] at hj
      obtain ⟨j', hj', rfl⟩ := hj
      obtain ⟨pv, cs', n', v', h, _⟩ := Real.rec_at hL.2.2 hj'
      exact ⟨pv, cs', n', v', by simpa using h, by simp⟩

/-- `L` is the sibling list inside `l` that contains `p` at index `j`; `par` is its parent -/
inductive SibsAt (p : Nat) (l : Forest) : Forest → Nat → Option Nat → Prop
  | top {j : Nat} : idx? p l = some j → SibsAt p l l j none
  | kids {q : Nat} {tq : Tree} {j : Nat} : find? q l = some tq → idx? p tq.children = some j →
      SibsAt p l tq.children j (some q)

/-- replace the sibling list under `par` (`none`: the list itself) by its image under `g` -/
def applyAt (par : Option Nat) (g : Forest → Forest) (l : Forest) : Forest :=
  match par with
  | none => g l
  | some q => modKids q g l

theorem SibsAt.real {s : Store} {p : Nat} {l L : Forest} {j : Nat} {par : Option Nat}
    (h : SibsAt p l L j par) (hR : Real s none none l) : Real s par none L := by
  cases h with
  | top _ => exact hR
  | kids hf _ => exact (Real.of_find hR hf).2

theorem SibsAt.subset {p : Nat} {l L : Forest} {j : Nat} {par : Option Nat}
    (h : SibsAt p l L j par) : ∀ k ∈ ids L, k ∈ ids l := by
  cases h with
  | top _ => exact fun _ h => h
  | kids hf _ => exact find?_children_subset hf

theorem SibsAt.nodup {p : Nat} {l L : Forest} {j : Nat} {par : Option Nat}
    (h : SibsAt p l L j par) (hnd : (ids l).Nodup) : (ids L).Nodup := by
  cases h with
  | top _ => exact hnd
  | kids hf _ => exact find?_children_nodup hnd hf

theorem SibsAt.idx {p : Nat} {l L : Forest} {j : Nat} {par : Option Nat}
    (h : SibsAt p l L j par) : idx? p L = some j := by
  cases h with
  | top h => exact h
  | kids _ h => exact h

/-- lifting a local change of one sibling list to the whole top-level list -/
theorem SibsAt.lift {s s' : Store} {p : Nat} {l L : Forest} {j : Nat} {par : Option Nat} {g : Forest → Forest}
    (h : SibsAt p l L j par) (hR : Real s none none l) (hnd : (ids l).Nodup)
    (hloc : Real s' par none (g L))
    (hpar : ∀ q, par = some q → s'.nodes[q]? = (s.nodes[q]?).map (fun n => { n with children := headId (g L) }))
    (hfr : ∀ i ∈ ids l, some i ≠ par → i ∉ ids L → s'.nodes[i]? = s.nodes[i]?) :
    Real s' none none (applyAt par g l) := by
  cases h with
  | top _ => exact hloc
  | kids hf _ =>
    exact real_modKids hR hnd hf hloc (hpar _ rfl) (fun i hi h1 h2 => hfr i hi (by simpa using fun e => h1 e) h2)

theorem SibsAt.ids_perm {p : Nat} {l L : Forest} {j : Nat} {par : Option Nat} {g : Forest → Forest} {E : List Nat}
    (h : SibsAt p l L j par) (hnd : (ids l).Nodup) (hg : (ids (g L)).Perm (E ++ ids L)) :
    (ids (applyAt par g l)).Perm (E ++ ids l) := by
  cases h with
  | top _ => exact hg
  | kids hf _ => exact ids_modKids_perm hnd hf hg

theorem SibsAt.par_not_mem {p : Nat} {l L : Forest} {j : Nat} {par : Option Nat}
    (h : SibsAt p l L j par) (hnd : (ids l).Nodup) : ∀ q, par = some q → q ∉ ids L ∧ q ∈ ids l := by
  cases h with
  | top _ => intro q h; simp at h
  | kids hf _ =>
    intro q h; simp at h; subst h
    exact ⟨find?_not_in_children hnd hf, (find?_mem hf).1⟩

theorem applyAt_ne_nil {par : Option Nat} {g : Forest → Forest} {l : Forest} (hl : l ≠ []) (hg : g l ≠ []) :
    applyAt par g l ≠ [] := by
  cases par with
  | none => exact hg
  | some q =>
    intro h
    have := headId_modKids (q := q) (g := g) l
    simp [applyAt] at h
    rw [h] at this
    cases l with
    | nil => exact hl rfl
    | cons t ts => cases t; simp at this


/-- the records after `gnodeAfter(p, x)`; `nxt` = old successor of `p`, `par` = parent of `p` -/
def AfterEff (s s' : Store) (p x : Nat) (nxt par : Option Nat) : Prop :=
  ∀ i, s'.nodes[i]? =
    if i = x then (s.nodes[i]?).map (fun xn => { xn with prev := some p, next := nxt, parent := par })
    else if i = p then (s.nodes[i]?).map (fun pn => { pn with next := some x })
    else if some i = nxt then (s.nodes[i]?).map (fun qn => { qn with prev := some x })
    else s.nodes[i]?

theorem real_after_list {s s' : Store} {p x : Nat} {n' : Name} {v' : Val} {cs' : Forest} :
    ∀ {L : Forest} {par prev : Option Nat} {j : Nat},
    Real s par prev L → idx? p L = some j → Real s none none [.node x n' v' cs'] →
    (ids L ++ ids [.node x n' v' cs']).Nodup →
    AfterEff s s' p x (headId (L.drop (j + 1))) par →
    Real s' par prev (L.insertIdx (j + 1) (.node x n' v' cs'))
  | [], _, _, _, _, hj, _, _, _ => by simp at hj
  | (.node i n v cs) :: ts, par, prev, j, hL, hj, hT, hnd, he => by
    rw [idx?_cons] at hj
    rw [Real_cons] at hL
    have hT' := hT
    rw [Real_cons] at hT'
    simp at hnd
    by_cases hip : i = p
    · subst hip
      simp at hj
      subst hj
      simp only [List.insertIdx_succ_cons, List.insertIdx_zero, List.drop_succ_cons, List.drop_zero] at he ⊢
      rw [Real_cons, Real_cons]
      have hxi : x ≠ i := by grind
      refine ⟨?_, ?_, ?_, ?_, ?_⟩
      · rw [he i]; simp [Ne.symm hxi, hL.1]
      · refine Real.frame hL.2.1 (fun k hk => ?_)
        rw [he k]
        have h1 : k ≠ x := by grind
        have h2 : k ≠ i := by grind
        have h3 : some k ≠ headId ts := by
          intro h; have := headId_mem h.symm; grind
        simp [h1, h2, h3]
      · rw [he x]; simp [hT'.1]
      · refine Real.frame hT'.2.1 (fun k hk => ?_)
        rw [he k]
        have h1 : k ≠ x := by grind
        have h2 : k ≠ i := by grind
        have h3 : some k ≠ headId ts := by
          intro h; have := headId_mem h.symm; grind
        simp [h1, h2, h3]
      · refine Real.set_prev hL.2.2 (by grind) (fun k hk => ?_)
        rw [he k]
        have h1 : k ≠ x := by grind
        have h2 : k ≠ i := by grind
        simp [h1, h2]
    · simp [hip] at hj
      obtain ⟨j', hj', rfl⟩ := hj
      have hne : ts ≠ [] := by intro h; simp [h] at hj'
      simp only [List.insertIdx_succ_cons, List.drop_succ_cons] at he ⊢
      rw [Real_cons]
      have hmem : ∀ k, some k = headId (ts.drop (j' + 1)) → k ∈ ids ts :=
        fun k hk => ids_drop_subset ts (j' + 1) k (headId_mem hk.symm)
      refine ⟨?_, ?_, ?_⟩
      · rw [he i, headId_insertIdx_succ ts j' _ hne]
        have h1 : i ≠ x := by grind
        have h3 : some i ≠ headId (ts.drop (j' + 1)) := by
          intro h; have := hmem i h; grind
        simp [h1, hip, h3, hL.1]
      · refine Real.frame hL.2.1 (fun k hk => ?_)
        rw [he k]
        have h1 : k ≠ x := by grind
        have h2 : k ≠ p := by have := idx?_mem hj'; grind
        have h3 : some k ≠ headId (ts.drop (j' + 1)) := by
          intro h; have := hmem k h; grind
        simp [h1, h2, h3]
      · exact real_after_list hL.2.2 hj' hT (by simp; grind) he

theorem mem_flatMap_cons2 {a b : Forest} {rest : List Forest} {k : Nat} :
    k ∈ (a :: b :: rest).flatMap ids ↔ k ∈ ids a ∨ k ∈ ids b ∨ k ∈ rest.flatMap ids := by
  simp [List.flatMap_cons]

theorem idx?_not_mem_drop {p : Nat} : ∀ {L : Forest} {j : Nat}, idx? p L = some j → (ids L).Nodup →
    p ∉ ids (L.drop (j + 1))
  | [], _, hj, _ => by simp at hj
  | (.node i n v cs) :: ts, j, hj, hnd => by
    rw [idx?_cons] at hj
    rw [ids_cons, List.nodup_cons, List.mem_append, List.nodup_append] at hnd
    obtain ⟨hni, ndcs, ndts, disj⟩ := hnd
    by_cases hip : i = p
    · subst hip
      simp at hj; subst hj
      simp only [List.drop_succ_cons, List.drop_zero]
      exact fun h => hni (Or.inr h)
    · simp [hip] at hj
      obtain ⟨j', hj', rfl⟩ := hj
      simp only [List.drop_succ_cons]
      exact idx?_not_mem_drop hj' ndts

theorem SibsAt.par_rec {s : Store} {p : Nat} {l L : Forest} {j : Nat} {par : Option Nat}
    (h : SibsAt p l L j par) (hR : Real s none none l) :
    ∀ q, par = some q → ∃ n, s.nodes[q]? = some n ∧ n.children = headId L := by
  cases h with
  | top _ => intro q h; simp at h
  | kids hf _ =>
    intro q h; simp at h; subst h
    obtain ⟨⟨nx, pv, pr, hrec⟩, _⟩ := Real.of_find hR hf
    exact ⟨_, hrec, rfl⟩

/-- `mpt_gnode_after(p, x)` with `x` a detached root: `x` becomes the successor of `p` in `p`'s sibling list -/
theorem after_refines {s : Store} {p x j : Nat} {n' : Name} {v' : Val} {cs' l0 L : Forest} {rest : List Forest}
    {par : Option Nat}
    (hR : Realises s ([.node x n' v' cs'] :: l0 :: rest)) (hat : SibsAt p l0 L j par) :
    ∃ s', s.gnodeAfter (some p) x = .ok s' ∧
      Realises s' (applyAt par (fun L => L.insertIdx (j + 1) (.node x n' v' cs')) l0 :: rest) := by
  have hT := (hR.real [.node x n' v' cs'] (by simp)).2
  have hl0 := hR.real l0 (by simp)
  have hnd := hR.nodup
  simp only [List.flatMap_cons, ids_cons, ids_nil, List.append_nil] at hnd
  have hnd0 : (ids l0).Nodup := by
    have := (List.nodup_append.1 hnd).2.1
    exact (List.nodup_append.1 this).1
  have hLr := hat.real hl0.2
  have hLnd := hat.nodup hnd0
  have hidx := hat.idx
  have hpL : p ∈ ids L := idx?_mem hidx
  have hLsub := hat.subset
  obtain ⟨pv, pcs, pn, pvv, hprec, _⟩ := Real.rec_at hLr hidx
  have hxrec := hT
  rw [Real_cons] at hxrec
  -- x and its subtree are disjoint from l0
  have hdisj : ∀ k, k ∈ ids l0 → k ≠ x ∧ k ∉ ids cs' := by
    intro k hk
    have h1 := (List.nodup_append.1 hnd).2.2
    refine ⟨?_, ?_⟩
    · rintro rfl; exact h1 k (by simp) k (by simp [hk]) rfl
    · intro h; exact h1 k (by simp [h]) k (by simp [hk]) rfl
  have hpx : x ≠ p := fun e => (hdisj p (hLsub p hpL)).1 e.symm
  have hnxt : ∀ q, headId (L.drop (j + 1)) = some q → q ∈ ids L ∧ q ≠ p := by
    intro q hq
    have hm := headId_mem hq
    have hqL := ids_drop_subset L (j + 1) q hm
    refine ⟨hqL, ?_⟩
    rintro rfl
    exact idx?_not_mem_drop hidx hLnd hm
  obtain ⟨s', hs', hfreed, hlen, heff⟩ := Store.gnodeAfter_ok (s := s) (p := p) (x := x) ⟨hprec, rfl⟩ ⟨hxrec.1, rfl⟩ hpx
    (by
      intro q hq
      obtain ⟨hqL, hqp⟩ := hnxt q hq
      obtain ⟨qn, hqn⟩ := Real.live hLr q hqL
      exact ⟨qn, hqn, (hdisj q (hLsub q hqL)).1, hqp⟩)
  refine ⟨s', hs', ?_⟩
  have hAE : AfterEff s s' p x (headId (L.drop (j + 1))) par := by
    intro i
    rw [heff i]
    by_cases h1 : i = x
    · subst h1; simp [hxrec.1]
    · by_cases h2 : i = p
      · subst h2; simp [h1, hprec]
      · simp [h1, h2]
  have hjl : j + 1 ≤ L.length := idx?_lt hidx
  have hLne : L ≠ [] := by intro h; simp [h] at hidx
  have hloc : Real s' par none (L.insertIdx (j + 1) (.node x n' v' cs')) := by
    refine real_after_list hLr hidx hT ?_ hAE
    rw [List.nodup_append]
    refine ⟨hLnd, ?_, ?_⟩
    · have := (List.nodup_append.1 hnd).1
      simpa using this
    · intro a ha b hb hab
      subst hab
      have := hdisj a (hLsub a ha)
      simp at hb
      rcases hb with rfl | hb
      · exact this.1 rfl
      · exact this.2 hb
  have hunch : ∀ i, i ≠ x → i ≠ p → some i ≠ headId (L.drop (j + 1)) → s'.nodes[i]? = s.nodes[i]? := by
    intro i h1 h2 h3
    rw [hAE i]; simp [h1, h2, h3]
  refine hR.of_sameLife ⟨hfreed, ?_⟩ ?_ ?_
  · intro i
    rw [hAE i]
    cases hsi : s.nodes[i]? <;> (repeat' split) <;> simp
  · intro l' hl'
    simp only [List.mem_cons] at hl'
    rcases hl' with rfl | hl'
    · refine ⟨applyAt_ne_nil hl0.1 (by cases l0 with | nil => exact absurd rfl hl0.1 | cons a as => simp), ?_⟩
      refine hat.lift hl0.2 hnd0 hloc ?_ ?_
      · intro q hq
        obtain ⟨hqL, hql0⟩ := hat.par_not_mem hnd0 q hq
        obtain ⟨qn, hqn, hqc⟩ := hat.par_rec hl0.2 q hq
        rw [hunch q (hdisj q hql0).1 (by rintro rfl; exact hqL hpL)
          (by intro h; exact hqL (hnxt q h.symm).1)]
        rw [hqn, headId_insertIdx_succ L j _ hLne]
        simp [← hqc]
      · intro i hi _ hiL
        exact hunch i (hdisj i hi).1 (by rintro rfl; exact hiL hpL) (by intro h; exact hiL (hnxt i h.symm).1)
    · have hr := hR.real l' (by simp [hl'])
      refine ⟨hr.1, Real.frame hr.2 (fun i hi => ?_)⟩
      have hirest : i ∈ rest.flatMap ids := List.mem_flatMap.2 ⟨l', hl', hi⟩
      have h2 := (List.nodup_append.1 hnd).2.2
      have h3 := (List.nodup_append.1 (List.nodup_append.1 hnd).2.1).2.2
      refine hunch i ?_ ?_ ?_
      · rintro rfl; exact h2 i (by simp) i (by simp [hirest]) rfl
      · rintro rfl; exact h3 i (hLsub i hpL) i hirest rfl
      · intro h; exact h3 i (hLsub i (hnxt i h.symm).1) i hirest rfl
  · simp only [List.flatMap_cons]
    have := hat.ids_perm (g := fun L => L.insertIdx (j + 1) (.node x n' v' cs')) hnd0
      (ids_insertIdx_perm (.node x n' v' cs') L (j + 1) hjl)
    have h2 := List.Perm.append_right (rest.flatMap ids) this
    simpa [List.append_assoc] using h2

end Mpt.Nodes
