/-
  Helper lemmas for C07 (text -> integer): the scanner of the `strtoimax/strtoumax` model consumes a prefix
  that is a numeral in the sense of `Spec/Scalar.lean` and returns its value.
-/
import MptModel.Impl.Convert
import MptModel.Lemmas.Convert
set_option linter.unusedSimpArgs false
namespace Mpt.Conv
open Mpt.Scalar

theorem take_length_takeWhile {α} (p : α → Bool) (l : List α) : l.take (l.takeWhile p).length = l.takeWhile p := by
  induction l with
  | nil => simp
  | cons a l ih =>
    by_cases h : p a
    · simp [h, ih]
    · simp [h]

theorem all_takeWhile {α} (p : α → Bool) (l : List α) : (l.takeWhile p).all p = true := by
  induction l with
  | nil => simp
  | cons a l ih =>
    by_cases h : p a
    · simp [h]
    · simp [h]

theorem head_takeWhile_ne_nil {α} (p : α → Bool) (l : List α) (h : l.takeWhile p ≠ []) :
    (l.takeWhile p).head? = l.head? := by
  cases l with
  | nil => simp at h
  | cons a l =>
    by_cases hp : p a
    · simp [hp]
    · simp [hp] at h

theorem digitRunValue_eq_horner (base : Nat) (ds : List Nat) : digitRunValue base ds = horner base ds := rfl

/-- a non-empty maximal digit run is a digit string with the scanned value -/
theorem scanDigits_spec (base : Nat) (s : List Nat) (h : (scanDigits base s).2 ≠ 0) :
    digitsValue base (s.take (scanDigits base s).2) = some (scanDigits base s).1 := by
  simp only [scanDigits] at h ⊢
  rw [take_length_takeWhile]
  have hne : s.takeWhile (isDigitOf base) ≠ [] := by
    intro h0; rw [h0] at h; simp at h
  simp [digitsValue, hne, digitRunValue_eq_horner]

theorem isDigitOf_le {b b' : Nat} (h : b ≤ b') (c : Nat) (hd : isDigitOf b c = true) : isDigitOf b' c = true := by
  unfold isDigitOf at *
  cases hv : digitVal c with
  | none => simp [hv] at hd
  | some d => simp [hv] at hd ⊢; omega

theorem not_x_of_digit10 (c : Nat) (hd : isDigitOf 10 c = true) : ¬ (c = 120 ∨ c = 88) := by
  intro h
  rcases h with h | h <;> subst h <;> simp [isDigitOf, digitVal] at hd

/-- a run of decimal (or octal) digits is read by `magnitude` as octal when it starts with `0`, else as decimal -/
theorem magnitude_digits (ds : List Nat) (hall : ds.all (isDigitOf 10) = true) (hne : ds ≠ []) :
    magnitude ds = if ds.head? = some 48 then digitsValue 8 ds else digitsValue 10 ds := by
  match ds, hne with
  | [a], _ =>
    simp only [magnitude, List.head?_cons]
    by_cases ha : a = 48
    · subst ha; simp [digitsValue, isDigitOf, digitVal, horner]
    · simp [ha]
  | a :: b :: rest, _ =>
    have hb : isDigitOf 10 b = true := by simp [List.all_cons] at hall; exact hall.2.1
    have hnx := not_x_of_digit10 b hb
    simp only [magnitude, List.head?_cons]
    by_cases ha : a = 48
    · simp [ha, hnx]
    · simp [ha]

theorem scanBody_spec (s : List Nat) (h : (scanBody s 0).2 ≠ 0) :
    magnitude (s.take (scanBody s 0).2) = some (scanBody s 0).1 := by
  -- the plain (no hex prefix) branch
  have plain : ∀ (hp : scanBody s 0 = scanDigits (if s.head? = some 48 then 8 else 10) s),
      magnitude (s.take (scanBody s 0).2) = some (scanBody s 0).1 := by
    intro hp
    rw [hp] at h ⊢
    have hsp := scanDigits_spec _ s h
    have htk : s.take (scanDigits (if s.head? = some 48 then 8 else 10) s).2 =
        s.takeWhile (isDigitOf (if s.head? = some 48 then 8 else 10)) := by
      simp only [scanDigits]; rw [take_length_takeWhile]
    have hne : s.takeWhile (isDigitOf (if s.head? = some 48 then 8 else 10)) ≠ [] := by
      intro h0; simp [scanDigits, h0] at h
    have hall10 : (s.takeWhile (isDigitOf (if s.head? = some 48 then 8 else 10))).all (isDigitOf 10) = true := by
      rw [List.all_eq_true]
      intro x hx
      have := all_takeWhile (isDigitOf (if s.head? = some 48 then 8 else 10)) s
      rw [List.all_eq_true] at this
      have hx' := this x hx
      split at hx'
      · exact isDigitOf_le (by omega) x hx'
      · exact hx'
    rw [htk] at hsp ⊢
    rw [magnitude_digits _ hall10 hne, head_takeWhile_ne_nil _ _ hne]
    split
    · rename_i h48; simp [h48] at hsp ⊢; exact hsp
    · rename_i h48; simp [h48] at hsp ⊢; exact hsp
  match s with
  | [] => exact plain (by simp [scanBody])
  | [a] => exact plain (by simp [scanBody])
  | a :: b :: rest =>
    by_cases hx : a = 48 ∧ (b = 120 ∨ b = 88)
    · have hb : scanBody (a :: b :: rest) 0 =
          (if (scanDigits 16 rest).2 = 0 then (0, 1) else ((scanDigits 16 rest).1, (scanDigits 16 rest).2 + 2)) := by
        simp [scanBody, hx]
      rw [hb] at h ⊢
      by_cases h0 : (scanDigits 16 rest).2 = 0
      · simp [h0, hx.1, magnitude, digitsValue, isDigitOf, digitVal, horner]
      · simp only [h0, if_false]
        have hsp := scanDigits_spec 16 rest h0
        simp only [List.take_succ_cons]
        simp [magnitude, hx, hsp]
    · exact plain (by simp [scanBody, hx])

theorem scanSigned_spec (s : List Nat) (h : (scanSigned s 0).2.2 ≠ 0) :
    signedMagnitude (s.take (scanSigned s 0).2.2) =
      some (if (scanSigned s 0).1 then -((scanSigned s 0).2.1 : Int) else ((scanSigned s 0).2.1 : Int)) := by
  match s with
  | [] => simp [scanSigned] at h
  | c :: rest =>
    by_cases h45 : c = 45
    · have hs : scanSigned (c :: rest) 0 = (true, (scanBody rest 0).1, if (scanBody rest 0).2 = 0 then 0 else (scanBody rest 0).2 + 1) := by
        simp [scanSigned, h45]
      rw [hs] at h ⊢
      by_cases h0 : (scanBody rest 0).2 = 0
      · simp [h0] at h
      · simp only [h0, if_false, List.take_succ_cons]
        simp [signedMagnitude, h45, scanBody_spec rest h0]
    · by_cases h43 : c = 43
      · have hs : scanSigned (c :: rest) 0 = (false, (scanBody rest 0).1, if (scanBody rest 0).2 = 0 then 0 else (scanBody rest 0).2 + 1) := by
          simp [scanSigned, h43]
        rw [hs] at h ⊢
        by_cases h0 : (scanBody rest 0).2 = 0
        · simp [h0] at h
        · simp only [h0, if_false, List.take_succ_cons]
          simp [signedMagnitude, h43, scanBody_spec rest h0]
      · have hs : scanSigned (c :: rest) 0 = (false, (scanBody (c :: rest) 0).1, (scanBody (c :: rest) 0).2) := by
          simp [scanSigned, h45, h43]
        rw [hs] at h ⊢
        simp only at h ⊢
        have hsp := scanBody_spec (c :: rest) h
        obtain ⟨k, hk⟩ : ∃ k, (scanBody (c :: rest) 0).2 = k + 1 := ⟨(scanBody (c :: rest) 0).2 - 1, by omega⟩
        rw [hk] at hsp ⊢
        simp only [List.take_succ_cons] at hsp ⊢
        simp [signedMagnitude, h45, h43, hsp]

theorem dropWhile_append_all {α} (p : α → Bool) (a b : List α) (ha : a.all p = true) :
    (a ++ b).dropWhile p = b.dropWhile p := by
  induction a with
  | nil => simp
  | cons x a ih =>
    simp [List.all_cons] at ha
    simp [ha.1]
    exact ih (by simpa using ha.2)

theorem dropWhile_take_of_head {α} (p : α → Bool) (l : List α) (k : Nat) (h : ∀ x, l.head? = some x → p x = false) :
    (l.take k).dropWhile p = l.take k := by
  cases l with
  | nil => simp
  | cons x l =>
    cases k with
    | zero => simp
    | succ k =>
      have := h x (by simp)
      simp [List.take_succ_cons, this]

theorem head_dropWhile {α} (p : α → Bool) (l : List α) : ∀ x, (l.dropWhile p).head? = some x → p x = false := by
  induction l with
  | nil => simp
  | cons a l ih =>
    intro x hx
    by_cases hp : p a
    · simp [hp] at hx; exact ih x hx
    · simp [hp] at hx; subst hx; simpa using hp

/-- the numeral denoted by a prefix that covers the leading blanks -/
theorem take_ws_add (s : List Nat) (k : Nat) :
    s.take ((s.takeWhile isSpace).length + k) = s.takeWhile isSpace ++ (s.dropWhile isSpace).take k := by
  have := List.take_length_add_append (l₁ := s.takeWhile isSpace) (l₂ := s.dropWhile isSpace) k
  rwa [List.takeWhile_append_dropWhile] at this

theorem numeral_take (s : List Nat) (k : Nat) :
    numeral (s.take ((s.takeWhile isSpace).length + k)) = signedMagnitude ((s.dropWhile isSpace).take k) := by
  unfold numeral
  rw [take_ws_add, dropWhile_append_all isSpace _ _ (all_takeWhile isSpace s)]
  exact congrArg signedMagnitude (dropWhile_take_of_head isSpace _ k (head_dropWhile isSpace s))

theorem scanNumber_spec (s : List Nat) (h : (scanNumber s 0).2.2 ≠ 0) :
    numeral (s.take (scanNumber s 0).2.2) =
      some (if (scanNumber s 0).1 then -((scanNumber s 0).2.1 : Int) else ((scanNumber s 0).2.1 : Int)) := by
  simp only [scanNumber] at h ⊢
  by_cases h0 : (scanSigned (s.dropWhile isSpace) 0).2.2 = 0
  · simp [h0] at h
  · simp only [h0, if_false]
    rw [numeral_take]
    exact scanSigned_spec _ h0

theorem scanDigits_le (base : Nat) (s : List Nat) : (scanDigits base s).2 ≤ s.length := by
  simp only [scanDigits]
  exact (List.takeWhile_prefix _).length_le

theorem scanBody_le (s : List Nat) (base : Nat) : (scanBody s base).2 ≤ s.length := by
  match s with
  | [] => simp [scanBody, scanDigits]
  | [a] => simp only [scanBody]; exact scanDigits_le _ _
  | a :: b :: rest =>
    simp only [scanBody]
    split
    · have := scanDigits_le 16 rest
      split <;> simp <;> omega
    · exact scanDigits_le _ _

theorem scanSigned_le (s : List Nat) (base : Nat) : (scanSigned s base).2.2 ≤ s.length := by
  match s with
  | [] => simp [scanSigned]
  | c :: rest =>
    simp only [scanSigned]
    have h1 := scanBody_le rest base
    have h2 := scanBody_le (c :: rest) base
    simp only [List.length_cons] at h2 ⊢
    split
    · split <;> simp <;> omega
    · split
      · split <;> simp <;> omega
      · exact h2

theorem scanNumber_le (s : List Nat) (base : Nat) : (scanNumber s base).2.2 ≤ s.length := by
  simp only [scanNumber]
  have h := scanSigned_le (s.dropWhile isSpace) base
  have hl : (s.takeWhile isSpace).length + (s.dropWhile isSpace).length = s.length := by
    rw [← List.length_append, List.takeWhile_append_dropWhile]
  split <;> omega

theorem strtoimax_spec (s : List Nat) (h0 : (strtoimax s 0).consumed ≠ 0) (he : (strtoimax s 0).erange = false) :
    numeral (s.take (strtoimax s 0).consumed) = some (strtoimax s 0).value := by
  have hsp := scanNumber_spec s
  unfold strtoimax at h0 he ⊢
  by_cases hc : (scanNumber s 0).2.2 = 0
  · simp [hc] at h0
  · simp only [hc, if_false] at h0 he ⊢
    have hsp := hsp hc
    by_cases hn : (scanNumber s 0).1 = true
    · simp only [hn, if_true] at he ⊢ hsp
      split at he
      · simp at he
      · rename_i hm; simp only [hm, if_false]; exact hsp
    · simp only [hn] at he ⊢ hsp
      simp only [Bool.false_eq_true, if_false] at he ⊢ hsp
      split at he
      · simp at he
      · rename_i hm; simp only [hm, if_false]; exact hsp

theorem strtoumax_spec (s : List Nat) (h0 : (strtoumax s 0).consumed ≠ 0) (he : (strtoumax s 0).erange = false)
    (hpos : (scanNumber s 0).1 = false) :
    numeral (s.take (strtoumax s 0).consumed) = some (strtoumax s 0).value := by
  have hsp := scanNumber_spec s
  unfold strtoumax at h0 he ⊢
  by_cases hc : (scanNumber s 0).2.2 = 0
  · simp [hc] at h0
  · simp only [hc, if_false] at h0 he ⊢
    have hsp := hsp hc
    simp only [hpos, Bool.false_eq_true, if_false] at he ⊢ hsp
    split at he
    · simp at he
    · rename_i hm; simp only [hm, if_false]; exact hsp

theorem strtoimax_le (s : List Nat) : (strtoimax s 0).consumed ≤ s.length := by
  have := scanNumber_le s 0
  simp only [strtoimax]
  split
  · simp
  · split <;> split <;> simpa using this

theorem strtoumax_le (s : List Nat) : (strtoumax s 0).consumed ≤ s.length := by
  have := scanNumber_le s 0
  simp only [strtoumax]
  split
  · simp
  · split
    · simpa using this
    · split <;> simpa using this

theorem noConversion_ok (tgt : Ty) (s : List Nat) (d : Bool) (o : Option Nat) (n : Nat)
    (h : noConversion s = .ok (o, n)) : TextOK tgt s d o n := by
  unfold noConversion at h
  split at h
  · simp at h; obtain ⟨rfl, rfl⟩ := h
    exact ⟨by simp, Or.inl ⟨rfl, by simp⟩⟩
  · simp at h

theorem convertInt_ok (vlen : Nat) (tgt : Ty) (hp : (vlen, tgt) ∈ [(1, Ty.b), (2, Ty.n), (4, Ty.i), (8, Ty.x)])
    (s : List Nat) (d : Bool) (o : Option Nat) (n : Nat)
    (h : convertInt vlen s 0 d = .ok (o, n)) : TextOK tgt s d o n := by
  unfold convertInt at h
  split at h
  · simp at h; obtain ⟨rfl, rfl⟩ := h
    exact ⟨by simp, Or.inl ⟨rfl, by simp⟩⟩
  split at h
  · exact noConversion_ok tgt s d o n h
  rename_i hc
  split at h
  · simp at h
  rename_i he
  split at h
  · simp at h
  split at h
  · simp at h
  rename_i hrange
  have he' : (strtoimax s 0).erange = false := by simpa using he
  have hnum := strtoimax_spec s hc he'
  have hle := strtoimax_le s
  simp only [Res.ok.injEq, Prod.mk.injEq] at h
  obtain ⟨ho, hn⟩ := h
  subst hn
  simp only [List.mem_cons, Prod.mk.injEq, List.mem_nil_iff, or_false] at hp
  have key : inRange tgt (strtoimax s 0).value ∧ wMod vlen = tgt.card ∧ tgt.isFloat = false := by
    rcases hp with ⟨rfl, rfl⟩ | ⟨rfl, rfl⟩ | ⟨rfl, rfl⟩ | ⟨rfl, rfl⟩ <;>
      simp [sLo, sHi] at hrange <;> simp [inRange, Ty.lo, Ty.hi, wMod, Ty.card, Ty.isFloat] <;> omega
  obtain ⟨hin, hmod, hfl⟩ := key
  refine ⟨hle, Or.inr ⟨(strtoimax s 0).value, hnum, hin, ?_⟩⟩
  cases d with
  | false => right; simp at ho; exact ⟨rfl, ho.symm⟩
  | true =>
    left; simp at ho
    refine ⟨rfl, _, ho.symm, ?_⟩
    rw [hmod]
    exact denote_store tgt _ hfl hin.1 hin.2

theorem convertUint_ok (vlen : Nat) (tgt : Ty) (hp : (vlen, tgt) ∈ [(1, Ty.y), (2, Ty.q), (4, Ty.u), (8, Ty.t)])
    (s : List Nat) (d : Bool) (o : Option Nat) (n : Nat)
    (h : convertUint vlen s 0 d = .ok (o, n)) : TextOK tgt s d o n := by
  unfold convertUint at h
  split at h
  · simp at h; obtain ⟨rfl, rfl⟩ := h
    exact ⟨by simp, Or.inl ⟨rfl, by simp⟩⟩
  split at h
  · exact noConversion_ok tgt s d o n h
  rename_i hc
  split at h
  · simp at h
  rename_i he
  split at h
  · simp at h
  rename_i hneg
  split at h
  · simp at h
  split at h
  · simp at h
  rename_i hrange
  have he' : (strtoumax s 0).erange = false := by simpa using he
  have hneg' : (scanNumber s 0).1 = false := by simpa using hneg
  have hnum := strtoumax_spec s hc he' hneg'
  have hle := strtoumax_le s
  have hnn : 0 ≤ (strtoumax s 0).value := by
    simp only [strtoumax]
    split
    · simp
    · split
      · simp
      · simp [hneg']
  simp only [Res.ok.injEq, Prod.mk.injEq] at h
  obtain ⟨ho, hn⟩ := h
  subst hn
  simp only [List.mem_cons, Prod.mk.injEq, List.mem_nil_iff, or_false] at hp
  have key : inRange tgt (strtoumax s 0).value ∧ wMod vlen = tgt.card ∧ tgt.isFloat = false := by
    rcases hp with ⟨rfl, rfl⟩ | ⟨rfl, rfl⟩ | ⟨rfl, rfl⟩ | ⟨rfl, rfl⟩ <;>
      simp [uHi] at hrange <;> simp [inRange, Ty.lo, Ty.hi, wMod, Ty.card, Ty.isFloat] <;> omega
  obtain ⟨hin, hmod, hfl⟩ := key
  refine ⟨hle, Or.inr ⟨(strtoumax s 0).value, hnum, hin, ?_⟩⟩
  cases d with
  | false => right; simp at ho; exact ⟨rfl, ho.symm⟩
  | true =>
    left; simp at ho
    refine ⟨rfl, _, ho.symm, ?_⟩
    rw [hmod]
    exact denote_store tgt _ hfl hin.1 hin.2

/-- the integer targets of text conversion -/
def textTargets : List Ty := [.b, .y, .n, .q, .i, .u, .x, .t]

theorem convertNumber_ok (tgt : Ty) (s : List Nat) (d : Bool) (o : Option Nat) (n : Nat)
    (h : convertNumber tgt s d = .ok (o, n)) : TextOK tgt s d o n := by
  cases tgt <;> simp only [convertNumber] at h
  all_goals first
    | exact convertInt_ok _ _ (by simp) s d o n h
    | exact convertUint_ok _ _ (by simp) s d o n h
    | (simp at h)

theorem convertString_ok (tgt : Ty) (s : List Nat) (d : Bool) (o : Option Nat) (n : Nat)
    (h : convertString tgt s d = .ok (o, n)) : TextOK tgt s d o n := by
  unfold convertString at h
  split at h
  · simp at h; obtain ⟨rfl, rfl⟩ := h
    exact ⟨by simp, Or.inl ⟨rfl, by simp⟩⟩
  split at h
  · rename_i o' k hk
    split at h
    · simp at h; obtain ⟨rfl, rfl⟩ := h
      exact ⟨by simp, Or.inl ⟨rfl, by simp⟩⟩
    · simp only [Res.ok.injEq, Prod.mk.injEq] at h
      obtain ⟨rfl, rfl⟩ := h
      obtain ⟨hle, hcase⟩ := convertNumber_ok tgt _ d o' k hk
      have hl : (s.takeWhile isSpace).length + (s.dropWhile isSpace).length = s.length := by
        rw [← List.length_append, List.takeWhile_append_dropWhile]
      refine ⟨by omega, ?_⟩
      rcases hcase with ⟨hnone, hblank⟩ | ⟨v, hnum, hin, hval⟩
      · left
        refine ⟨hnone, ?_⟩
        rw [take_ws_add, List.all_append, all_takeWhile, hblank]; rfl
      · right
        refine ⟨v, ?_, hin, hval⟩
        rw [numeral_take]
        unfold numeral at hnum
        rwa [dropWhile_take_of_head isSpace _ k (head_dropWhile isSpace s)] at hnum
  · rename_i hne
    exact absurd h (by intro hh; exact hne _ _ hh)

/-- forget the stored value -/
def dropValue : TextRes → TextRes
  | .ok (_, n) => .ok (none, n)
  | r => r

theorem noConversion_query (s : List Nat) : noConversion s = dropValue (noConversion s) := by
  unfold noConversion; split <;> rfl

theorem convertInt_query (vlen : Nat) (s : List Nat) (base : Nat) :
    convertInt vlen s base false = dropValue (convertInt vlen s base true) := by
  unfold convertInt
  by_cases h1 : s = []
  · simp [h1, dropValue]
  by_cases h2 : (strtoimax s base).consumed = 0
  · simp only [h1, h2, if_false, if_true]; exact noConversion_query s
  by_cases h3 : (strtoimax s base).erange = true
  · simp [h1, h2, h3, dropValue]
  by_cases h4 : widthOK vlen = true
  · by_cases h5 : (strtoimax s base).value < sLo vlen ∨ (strtoimax s base).value > sHi vlen
    · simp [h1, h2, h3, h4, h5, dropValue]
    · simp [h1, h2, h3, h4, h5, dropValue]
  · simp [h1, h2, h3, h4, dropValue]

theorem convertUint_query (vlen : Nat) (s : List Nat) (base : Nat) :
    convertUint vlen s base false = dropValue (convertUint vlen s base true) := by
  unfold convertUint
  by_cases h1 : s = []
  · simp [h1, dropValue]
  by_cases h2 : (strtoumax s base).consumed = 0
  · simp only [h1, h2, if_false, if_true]; exact noConversion_query s
  by_cases h3 : (strtoumax s base).erange = true
  · simp [h1, h2, h3, dropValue]
  by_cases h6 : (scanNumber s base).1 = true
  · simp [h1, h2, h3, h6, dropValue]
  by_cases h4 : widthOK vlen = true
  · by_cases h5 : (strtoumax s base).value > uHi vlen
    · simp [h1, h2, h3, h4, h5, h6, dropValue]
    · simp [h1, h2, h3, h4, h5, h6, dropValue]
  · simp [h1, h2, h3, h4, h6, dropValue]

theorem convertNumber_query (tgt : Ty) (s : List Nat) :
    convertNumber tgt s false = dropValue (convertNumber tgt s true) := by
  cases tgt <;> simp only [convertNumber, convertInt_query, convertUint_query] <;> rfl

theorem convertString_query (tgt : Ty) (s : List Nat) :
    convertString tgt s false = dropValue (convertString tgt s true) := by
  unfold convertString
  rw [convertNumber_query]
  split
  · rfl
  · cases h : convertNumber tgt (List.dropWhile isSpace s) true with
    | ok v => obtain ⟨o, n⟩ := v; simp only [dropValue]; split <;> rfl
    | _ => rfl

theorem dropValue_verdict (r : TextRes) : verdict (dropValue r) = verdict r := by
  cases r <;> rfl

theorem noConversion_notBroken (s : List Nat) : verdict (noConversion s) ≠ .broken := by
  unfold noConversion; split <;> simp [verdict]

theorem convertInt_notBroken (vlen : Nat) (s : List Nat) (base : Nat) (d : Bool) :
    verdict (convertInt vlen s base d) ≠ .broken := by
  unfold convertInt
  by_cases h1 : s = []
  · simp [h1, verdict]
  by_cases h2 : (strtoimax s base).consumed = 0
  · simp only [h1, h2, if_false, if_true]; exact noConversion_notBroken s
  by_cases h3 : (strtoimax s base).erange = true
  · simp [h1, h2, h3, verdict]
  by_cases h4 : widthOK vlen = true
  · by_cases h5 : (strtoimax s base).value < sLo vlen ∨ (strtoimax s base).value > sHi vlen
    · simp [h1, h2, h3, h4, h5, verdict]
    · simp [h1, h2, h3, h4, h5, verdict]
  · simp [h1, h2, h3, h4, verdict]

theorem convertUint_notBroken (vlen : Nat) (s : List Nat) (base : Nat) (d : Bool) :
    verdict (convertUint vlen s base d) ≠ .broken := by
  unfold convertUint
  by_cases h1 : s = []
  · simp [h1, verdict]
  by_cases h2 : (strtoumax s base).consumed = 0
  · simp only [h1, h2, if_false, if_true]; exact noConversion_notBroken s
  by_cases h3 : (strtoumax s base).erange = true
  · simp [h1, h2, h3, verdict]
  by_cases h6 : (scanNumber s base).1 = true
  · simp [h1, h2, h3, h6, verdict]
  by_cases h4 : widthOK vlen = true
  · by_cases h5 : (strtoumax s base).value > uHi vlen
    · simp [h1, h2, h3, h4, h5, h6, verdict]
    · simp [h1, h2, h3, h4, h5, h6, verdict]
  · simp [h1, h2, h3, h4, h6, verdict]

theorem convertNumber_notBroken (tgt : Ty) (ht : tgt ∈ textTargets) (s : List Nat) (d : Bool) :
    verdict (convertNumber tgt s d) ≠ .broken := by
  cases tgt <;> simp [textTargets] at ht <;> simp only [convertNumber] <;>
    first | exact convertInt_notBroken _ _ _ _ | exact convertUint_notBroken _ _ _ _

theorem convertString_notBroken (tgt : Ty) (ht : tgt ∈ textTargets) (s : List Nat) (d : Bool) :
    verdict (convertString tgt s d) ≠ .broken := by
  unfold convertString
  split
  · simp [verdict]
  · have := convertNumber_notBroken tgt ht (s.dropWhile isSpace) d
    cases h : convertNumber tgt (List.dropWhile isSpace s) d with
    | ok v => obtain ⟨o, n⟩ := v; simp only; split <;> simp [verdict]
    | err e => simp [verdict]
    | null => simp [h, verdict] at this
    | oob => simp [h, verdict] at this
    | fault => simp [h, verdict] at this

end Mpt.Conv
