/-
  Helper lemmas for C07 (text -> integer): the scanner of the `strtoimax/strtoumax` model consumes a prefix
  that is a numeral in the sense of `Spec/Scalar.lean` and returns its value.
-/
import MptModel.Impl.Convert
import MptModel.Lemmas.Convert
set_option linter.unusedSimpArgs false
namespace Mpt.Conv
open Mpt.Scalar Mpt.Flt

theorem take_length_takeWhile {α} (p : α → Bool) (l : List α) : l.take (l.takeWhile p).length = l.takeWhile p := by
  induction l with
  | nil => simp
  | cons a l ih =>
    by_cases h : p a
    · simp [h, ih]
    · simp [h]

theorem all_takeWhile {α} (p : α → Bool) (l : List α) : (l.takeWhile p).all p = true := by
  induction l with
  | nil => simp
  | cons a l ih =>
    by_cases h : p a
    · simp [h]
    · simp [h]

theorem head_takeWhile_ne_nil {α} (p : α → Bool) (l : List α) (h : l.takeWhile p ≠ []) :
    (l.takeWhile p).head? = l.head? := by
  cases l with
  | nil => simp at h
  | cons a l =>
    by_cases hp : p a
    · simp [hp]
    · simp [hp] at h

theorem digitRunValue_eq_horner (base : Nat) (ds : List Nat) : digitRunValue base ds = horner base ds := rfl

/-- a non-empty maximal digit run is a digit string with the scanned value -/
theorem scanDigits_spec (base : Nat) (s : List Nat) (h : (scanDigits base s).2 ≠ 0) :
    digitsValue base (s.take (scanDigits base s).2) = some (scanDigits base s).1 := by
  simp only [scanDigits] at h ⊢
  rw [take_length_takeWhile]
  have hne : s.takeWhile (isDigitOf base) ≠ [] := by
    intro h0; rw [h0] at h; simp at h
  simp [digitsValue, hne, digitRunValue_eq_horner]

theorem isDigitOf_le {b b' : Nat} (h : b ≤ b') (c : Nat) (hd : isDigitOf b c = true) : isDigitOf b' c = true := by
  unfold isDigitOf at *
  cases hv : digitVal c with
  | none => simp [hv] at hd
  | some d => simp [hv] at hd ⊢; omega

theorem not_x_of_digit10 (c : Nat) (hd : isDigitOf 10 c = true) : ¬ (c = 120 ∨ c = 88) := by
  intro h
  rcases h with h | h <;> subst h <;> simp [isDigitOf, digitVal] at hd

/-- a run of decimal (or octal) digits is read by `magnitude` as octal when it starts with `0`, else as decimal -/
theorem magnitude_digits (ds : List Nat) (hall : ds.all (isDigitOf 10) = true) (hne : ds ≠ []) :
    magnitude ds = if ds.head? = some 48 then digitsValue 8 ds else digitsValue 10 ds := by
  match ds, hne with
  | [a], _ =>
    simp only [magnitude, List.head?_cons]
    by_cases ha : a = 48
    · subst ha; simp [digitsValue, isDigitOf, digitVal, horner]
    · simp [ha]
  | a :: b :: rest, _ =>
    have hb : isDigitOf 10 b = true := by simp [List.all_cons] at hall; exact hall.2.1
    have hnx := not_x_of_digit10 b hb
    simp only [magnitude, List.head?_cons]
    by_cases ha : a = 48
    · simp [ha, hnx]
    · simp [ha]

theorem scanBody_spec (s : List Nat) (h : (scanBody s 0).2 ≠ 0) :
    magnitude (s.take (scanBody s 0).2) = some (scanBody s 0).1 := by
  -- the plain (no hex prefix) branch
  have plain : ∀ (hp : scanBody s 0 = scanDigits (if s.head? = some 48 then 8 else 10) s),
      magnitude (s.take (scanBody s 0).2) = some (scanBody s 0).1 := by
    intro hp
    rw [hp] at h ⊢
    have hsp := scanDigits_spec _ s h
    have htk : s.take (scanDigits (if s.head? = some 48 then 8 else 10) s).2 =
        s.takeWhile (isDigitOf (if s.head? = some 48 then 8 else 10)) := by
      simp only [scanDigits]; rw [take_length_takeWhile]
    have hne : s.takeWhile (isDigitOf (if s.head? = some 48 then 8 else 10)) ≠ [] := by
      intro h0; simp [scanDigits, h0] at h
    have hall10 : (s.takeWhile (isDigitOf (if s.head? = some 48 then 8 else 10))).all (isDigitOf 10) = true := by
      rw [List.all_eq_true]
      intro x hx
      have := all_takeWhile (isDigitOf (if s.head? = some 48 then 8 else 10)) s
      rw [List.all_eq_true] at this
      have hx' := this x hx
      split at hx'
      · exact isDigitOf_le (by omega) x hx'
      · exact hx'
    rw [htk] at hsp ⊢
    rw [magnitude_digits _ hall10 hne, head_takeWhile_ne_nil _ _ hne]
    split
    · rename_i h48; simp [h48] at hsp ⊢; exact hsp
    · rename_i h48; simp [h48] at hsp ⊢; exact hsp
  match s with
  | [] => exact plain (by simp [scanBody])
  | [a] => exact plain (by simp [scanBody])
  | a :: b :: rest =>
    by_cases hx : a = 48 ∧ (b = 120 ∨ b = 88)
    · have hb : scanBody (a :: b :: rest) 0 =
          (if (scanDigits 16 rest).2 = 0 then (0, 1) else ((scanDigits 16 rest).1, (scanDigits 16 rest).2 + 2)) := by
        simp [scanBody, hx]
      rw [hb] at h ⊢
      by_cases h0 : (scanDigits 16 rest).2 = 0
      · simp [h0, hx.1, magnitude, digitsValue, isDigitOf, digitVal, horner]
      · simp only [h0, if_false]
        have hsp := scanDigits_spec 16 rest h0
        simp only [List.take_succ_cons]
        simp [magnitude, hx, hsp]
    · exact plain (by simp [scanBody, hx])

theorem scanSigned_spec (s : List Nat) (h : (scanSigned s 0).2.2 ≠ 0) :
    signedMagnitude (s.take (scanSigned s 0).2.2) =
      some (if (scanSigned s 0).1 then -((scanSigned s 0).2.1 : Int) else ((scanSigned s 0).2.1 : Int)) := by
  match s with
  | [] => simp [scanSigned] at h
  | c :: rest =>
    by_cases h45 : c = 45
    · have hs : scanSigned (c :: rest) 0 = (true, (scanBody rest 0).1, if (scanBody rest 0).2 = 0 then 0 else (scanBody rest 0).2 + 1) := by
        simp [scanSigned, h45]
      rw [hs] at h ⊢
      by_cases h0 : (scanBody rest 0).2 = 0
      · simp [h0] at h
      · simp only [h0, if_false, List.take_succ_cons]
        simp [signedMagnitude, h45, scanBody_spec rest h0]
    · by_cases h43 : c = 43
      · have hs : scanSigned (c :: rest) 0 = (false, (scanBody rest 0).1, if (scanBody rest 0).2 = 0 then 0 else (scanBody rest 0).2 + 1) := by
          simp [scanSigned, h43]
        rw [hs] at h ⊢
        by_cases h0 : (scanBody rest 0).2 = 0
        · simp [h0] at h
        · simp only [h0, if_false, List.take_succ_cons]
          simp [signedMagnitude, h43, scanBody_spec rest h0]
      · have hs : scanSigned (c :: rest) 0 = (false, (scanBody (c :: rest) 0).1, (scanBody (c :: rest) 0).2) := by
          simp [scanSigned, h45, h43]
        rw [hs] at h ⊢
        simp only at h ⊢
        have hsp := scanBody_spec (c :: rest) h
        obtain ⟨k, hk⟩ : ∃ k, (scanBody (c :: rest) 0).2 = k + 1 := ⟨(scanBody (c :: rest) 0).2 - 1, by omega⟩
        rw [hk] at hsp ⊢
        simp only [List.take_succ_cons] at hsp ⊢
        simp [signedMagnitude, h45, h43, hsp]

theorem dropWhile_append_all {α} (p : α → Bool) (a b : List α) (ha : a.all p = true) :
    (a ++ b).dropWhile p = b.dropWhile p := by
  induction a with
  | nil => simp
  | cons x a ih =>
    simp [List.all_cons] at ha
    simp [ha.1]
    exact ih (by simpa using ha.2)

theorem dropWhile_take_of_head {α} (p : α → Bool) (l : List α) (k : Nat) (h : ∀ x, l.head? = some x → p x = false) :
    (l.take k).dropWhile p = l.take k := by
  cases l with
  | nil => simp
  | cons x l =>
    cases k with
    | zero => simp
    | succ k =>
      have := h x (by simp)
      simp [List.take_succ_cons, this]

theorem head_dropWhile {α} (p : α → Bool) (l : List α) : ∀ x, (l.dropWhile p).head? = some x → p x = false := by
  induction l with
  | nil => simp
  | cons a l ih =>
    intro x hx
    by_cases hp : p a
    · simp [hp] at hx; exact ih x hx
    · simp [hp] at hx; subst hx; simpa using hp

/-- the numeral denoted by a prefix that covers the leading blanks -/
theorem take_ws_add (s : List Nat) (k : Nat) :
    s.take ((s.takeWhile isSpace).length + k) = s.takeWhile isSpace ++ (s.dropWhile isSpace).take k := by
  have := List.take_length_add_append (l₁ := s.takeWhile isSpace) (l₂ := s.dropWhile isSpace) k
  rwa [List.takeWhile_append_dropWhile] at this

theorem numeral_take (s : List Nat) (k : Nat) :
    numeral (s.take ((s.takeWhile isSpace).length + k)) = signedMagnitude ((s.dropWhile isSpace).take k) := by
  unfold numeral
  rw [take_ws_add, dropWhile_append_all isSpace _ _ (all_takeWhile isSpace s)]
  exact congrArg signedMagnitude (dropWhile_take_of_head isSpace _ k (head_dropWhile isSpace s))

theorem scanNumber_spec (s : List Nat) (h : (scanNumber s 0).2.2 ≠ 0) :
    numeral (s.take (scanNumber s 0).2.2) =
      some (if (scanNumber s 0).1 then -((scanNumber s 0).2.1 : Int) else ((scanNumber s 0).2.1 : Int)) := by
  simp only [scanNumber] at h ⊢
  by_cases h0 : (scanSigned (s.dropWhile isSpace) 0).2.2 = 0
  · simp [h0] at h
  · simp only [h0, if_false]
    rw [numeral_take]
    exact scanSigned_spec _ h0

theorem scanDigits_le (base : Nat) (s : List Nat) : (scanDigits base s).2 ≤ s.length := by
  simp only [scanDigits]
  exact (List.takeWhile_prefix _).length_le

theorem scanBody_le (s : List Nat) (base : Nat) : (scanBody s base).2 ≤ s.length := by
  match s with
  | [] => simp [scanBody, scanDigits]
  | [a] => simp only [scanBody]; exact scanDigits_le _ _
  | a :: b :: rest =>
    simp only [scanBody]
    split
    · have := scanDigits_le 16 rest
      split <;> simp <;> omega
    · exact scanDigits_le _ _

theorem scanSigned_le (s : List Nat) (base : Nat) : (scanSigned s base).2.2 ≤ s.length := by
  match s with
  | [] => simp [scanSigned]
  | c :: rest =>
    simp only [scanSigned]
    have h1 := scanBody_le rest base
    have h2 := scanBody_le (c :: rest) base
    simp only [List.length_cons] at h2 ⊢
    split
    · split <;> simp <;> omega
    · split
      · split <;> simp <;> omega
      · exact h2

theorem scanNumber_le (s : List Nat) (base : Nat) : (scanNumber s base).2.2 ≤ s.length := by
  simp only [scanNumber]
  have h := scanSigned_le (s.dropWhile isSpace) base
  have hl : (s.takeWhile isSpace).length + (s.dropWhile isSpace).length = s.length := by
    rw [← List.length_append, List.takeWhile_append_dropWhile]
  split <;> omega

theorem strtoimax_spec (s : List Nat) (h0 : (strtoimax s 0).consumed ≠ 0) (he : (strtoimax s 0).erange = false) :
    numeral (s.take (strtoimax s 0).consumed) = some (strtoimax s 0).value := by
  have hsp := scanNumber_spec s
  unfold strtoimax at h0 he ⊢
  by_cases hc : (scanNumber s 0).2.2 = 0
  · simp [hc] at h0
  · simp only [hc, if_false] at h0 he ⊢
    have hsp := hsp hc
    by_cases hn : (scanNumber s 0).1 = true
    · simp only [hn, if_true] at he ⊢ hsp
      split at he
      · simp at he
      · rename_i hm; simp only [hm, if_false]; exact hsp
    · simp only [hn] at he ⊢ hsp
      simp only [Bool.false_eq_true, if_false] at he ⊢ hsp
      split at he
      · simp at he
      · rename_i hm; simp only [hm, if_false]; exact hsp

theorem strtoumax_spec (s : List Nat) (h0 : (strtoumax s 0).consumed ≠ 0) (he : (strtoumax s 0).erange = false)
    (hpos : (scanNumber s 0).1 = false) :
    numeral (s.take (strtoumax s 0).consumed) = some (strtoumax s 0).value := by
  have hsp := scanNumber_spec s
  unfold strtoumax at h0 he ⊢
  by_cases hc : (scanNumber s 0).2.2 = 0
  · simp [hc] at h0
  · simp only [hc, if_false] at h0 he ⊢
    have hsp := hsp hc
    simp only [hpos, Bool.false_eq_true, if_false] at he ⊢ hsp
    split at he
    · simp at he
    · rename_i hm; simp only [hm, if_false]; exact hsp

theorem strtoimax_le (s : List Nat) : (strtoimax s 0).consumed ≤ s.length := by
  have := scanNumber_le s 0
  simp only [strtoimax]
  split
  · simp
  · split <;> split <;> simpa using this

theorem strtoumax_le (s : List Nat) : (strtoumax s 0).consumed ≤ s.length := by
  have := scanNumber_le s 0
  simp only [strtoumax]
  split
  · simp
  · split
    · simpa using this
    · split <;> simpa using this

theorem noConversion_ok (tgt : Ty) (s : List Nat) (d : Bool) (o : Option Nat) (n : Nat)
    (h : noConversion s = .ok (o, n)) : TextOK tgt s d o n := by
  unfold noConversion at h
  split at h
  · rename_i hall
    simp at h; obtain ⟨rfl, rfl⟩ := h
    exact ⟨by simp, Or.inl ⟨rfl, rfl, hall⟩⟩
  · simp at h

theorem strtoimax_range (s : List Nat) (base : Nat) :
    -9223372036854775808 ≤ (strtoimax s base).value ∧ (strtoimax s base).value ≤ 9223372036854775807 := by
  simp only [strtoimax]
  split
  · simp
  · split <;> split <;> simp <;> omega

theorem strtoumax_range (s : List Nat) (base : Nat) :
    0 ≤ (strtoumax s base).value ∧ (strtoumax s base).value ≤ 18446744073709551615 := by
  simp only [strtoumax]
  split
  · simp
  · split
    · simp
    · split <;> simp <;> omega

/-! ### a verified checker for the generated text parsers -/

/-- values of `iv` for which the conjunction is false; `none` = shape not supported -/
def stepTDisjunct (iv : Iv) (conj : List TextAtom) : Option Iv :=
  match conj with
  | [.erange] => some iv
  | [.minus] => some iv
  | .rangeArg :: _ => some iv
  | [.val a] => stepDisjunct iv [a]
  | _ => none

def stepTDisj (iv : Iv) : List (List TextAtom) → Option Iv
  | [] => some iv
  | c :: cs => match stepTDisjunct iv c with
    | some iv' => stepTDisj iv' cs
    | none => none

def stepTGuards (iv : Iv) : List TextGuard → Option Iv
  | [] => some iv
  | g :: gs => match stepTDisj iv g.conds with
    | some iv' => stepTGuards iv' gs
    | none => none

theorem stepTDisjunct_sound (c : TextCtx) (v : Int) (hc : c.tmp = .int v) (iv iv' : Iv) (conj : List TextAtom)
    (h : stepTDisjunct iv conj = some iv') (hv : iv.mem v) :
    ∃ b, evalTConj c conj = .ok b ∧ (b = false → iv'.mem v) := by
  unfold stepTDisjunct at h
  split at h
  · simp at h; subst h
    exact ⟨c.erange, by simp only [evalTConj, TextAtom.eval]; cases c.erange <;> rfl, fun _ => hv⟩
  · simp at h; subst h
    exact ⟨c.minus, by simp only [evalTConj, TextAtom.eval]; cases c.minus <;> rfl, fun _ => hv⟩
  · simp at h; subst h
    exact ⟨false, by simp [evalTConj, TextAtom.eval], fun _ => hv⟩
  · rename_i a
    obtain ⟨b, hb, hb'⟩ := stepDisjunct_sound c.ty iv iv' [a] v h hv
    rw [evalConj_single] at hb
    refine ⟨b, ?_, hb'⟩
    simp only [evalTConj, TextAtom.eval, hc, hb]
    cases b <;> rfl
  · simp at h

theorem stepTDisj_sound (c : TextCtx) (v : Int) (hc : c.tmp = .int v) (cs : List (List TextAtom)) (iv iv' : Iv)
    (h : stepTDisj iv cs = some iv') (hv : iv.mem v) :
    ∃ b, evalTDisj c cs = .ok b ∧ (b = false → iv'.mem v) := by
  induction cs generalizing iv with
  | nil => simp [stepTDisj] at h; subst h; exact ⟨false, by simp [evalTDisj], fun _ => hv⟩
  | cons x xs ih =>
    simp only [stepTDisj] at h
    split at h
    · rename_i iv1 h1
      obtain ⟨b, hb, hb'⟩ := stepTDisjunct_sound c v hc iv iv1 x h1 hv
      cases b with
      | true => exact ⟨true, by simp [evalTDisj, hb], by simp⟩
      | false =>
        obtain ⟨b2, h2, h2'⟩ := ih iv1 h (hb' rfl)
        exact ⟨b2, by simp [evalTDisj, hb, h2], h2'⟩
    · simp at h

theorem stepTGuards_sound (c : TextCtx) (v : Int) (hc : c.tmp = .int v) (gs : List TextGuard) (iv iv' : Iv)
    (h : stepTGuards iv gs = some iv') (hv : iv.mem v) :
    (evalTGuards c gs = .ok () ∧ iv'.mem v) ∨ (∃ e, evalTGuards c gs = .err e) := by
  induction gs generalizing iv with
  | nil => simp [stepTGuards] at h; subst h; exact Or.inl ⟨by simp [evalTGuards], hv⟩
  | cons g gs ih =>
    simp only [stepTGuards] at h
    split at h
    · rename_i iv1 h1
      obtain ⟨b, hb, hb'⟩ := stepTDisj_sound c v hc g.conds iv iv1 h1 hv
      cases b with
      | true => exact Or.inr ⟨g.err, by simp [evalTGuards, hb]⟩
      | false =>
        rcases ih iv1 h (hb' rfl) with h2 | ⟨e, h2⟩
        · exact Or.inl ⟨by simp [evalTGuards, hb, h2.1], h2.2⟩
        · exact Or.inr ⟨e, by simp [evalTGuards, hb, h2]⟩
    · simp at h

theorem evalTGuards_ok_mem (c : TextCtx) (gs : List TextGuard) (h : evalTGuards c gs = .ok ()) :
    ∀ g ∈ gs, evalTDisj c g.conds = .ok false := by
  induction gs with
  | nil => intro g hg; simp at hg
  | cons g0 rest ih =>
    intro g hg
    simp only [evalTGuards] at h
    cases hd : evalTDisj c g0.conds with
    | ok b =>
      cases b with
      | true => simp [hd] at h
      | false =>
        simp only [hd] at h
        rcases List.mem_cons.mp hg with rfl | hr
        · exact hd
        · exact ih h g hr
    | err e => simp [hd] at h
    | null => simp [hd] at h
    | oob => simp [hd] at h
    | fault => simp [hd] at h

theorem evalTDisj_false_mem (c : TextCtx) (cs : List (List TextAtom)) (h : evalTDisj c cs = .ok false) :
    ∀ x ∈ cs, evalTConj c x = .ok false := by
  induction cs with
  | nil => intro x hx; simp at hx
  | cons c0 rest ih =>
    intro x hx
    simp only [evalTDisj] at h
    cases hd : evalTConj c c0 with
    | ok b =>
      cases b with
      | true => simp [hd] at h
      | false =>
        simp only [hd] at h
        rcases List.mem_cons.mp hx with rfl | hr
        · exact hd
        · exact ih h x hr
    | err e => simp [hd] at h
    | null => simp [hd] at h
    | oob => simp [hd] at h
    | fault => simp [hd] at h

/-- some guard has the single-atom disjunct `[a]` -/
def hasSingle (gs : List TextGuard) (a : TextAtom) : Bool := gs.any fun g => g.conds.any fun c => c == [a]

theorem hasSingle_erange (c : TextCtx) (gs : List TextGuard) (hs : hasSingle gs .erange = true)
    (h : evalTGuards c gs = .ok ()) : c.erange = false := by
  simp only [hasSingle, List.any_eq_true, beq_iff_eq] at hs
  obtain ⟨g, hg, x, hx, rfl⟩ := hs
  have := evalTDisj_false_mem c g.conds (evalTGuards_ok_mem c gs h g hg) _ hx
  simp only [evalTConj, TextAtom.eval] at this
  cases he : c.erange <;> simp_all

theorem hasSingle_minus (c : TextCtx) (gs : List TextGuard) (hs : hasSingle gs .minus = true)
    (h : evalTGuards c gs = .ok ()) : c.minus = false := by
  simp only [hasSingle, List.any_eq_true, beq_iff_eq] at hs
  obtain ⟨g, hg, x, hx, rfl⟩ := hs
  have := evalTDisj_false_mem c g.conds (evalTGuards_ok_mem c gs h g hg) _ hx
  simp only [evalTConj, TextAtom.eval] at this
  cases he : c.minus <;> simp_all

/-- the parser `p`, called with width `vlen`, reads exactly the numerals of numbers of the integer type `tgt`:
    overflow of `strto*` is refused, `strtoumax` is not given a minus sign, the range tests leave values of `tgt`
    only, the store is under `if (val)` and has the target's size -/
def checkParser (p : TextParser) (vlen : Nat) (tgt : Ty) : Bool :=
  !tgt.isFloat &&
  ((p.strto == "strtoimax" && p.tmpTy == .i64) ||
   (p.strto == "strtoumax" && p.tmpTy == .u64 && hasSingle p.guards .minus)) &&
  hasSingle p.guards .erange &&
  match stepTGuards (srcIv p.tmpTy) p.guards with
  | none => false
  | some iv1 =>
    match p.widths.find? (·.size = vlen) with
    | none => true
    | some w =>
      w.guarded && !w.store.isFloat && w.store.size == (tgtCTy tgt).size &&
      match stepTGuards iv1 w.guards with
      | none => false
      | some iv2 => decide (iv2.hi < iv2.lo) || (decide (tgt.lo ≤ iv2.lo) && decide (iv2.hi ≤ tgt.hi))

/-- forget the stored value -/
def dropValue : TextRes → TextRes
  | .ok (_, n) => .ok (none, n)
  | r => r

theorem dropValue_verdict (r : TextRes) : verdict (dropValue r) = verdict r := by
  cases r <;> rfl

theorem noConversion_query (s : List Nat) : noConversion s = dropValue (noConversion s) := by
  unfold noConversion; split <;> rfl

theorem noConversion_notBroken (s : List Nat) : verdict (noConversion s) ≠ .broken := by
  unfold noConversion; split <;> simp [verdict]

/-- everything the property says about one call of a checked parser -/
theorem runParser_sound (p : TextParser) (vlen : Nat) (tgt : Ty) (s : List Nat) (d : Bool)
    (hc : checkParser p vlen tgt = true) :
    verdict (runParser p vlen s 0 d) ≠ .broken ∧
    (∀ o n, runParser p vlen s 0 d = .ok (o, n) → TextOK tgt s d o n) ∧
    runParser p vlen s 0 false = dropValue (runParser p vlen s 0 true) := by
  simp only [checkParser, Bool.and_eq_true, Bool.not_eq_true', Bool.or_eq_true, beq_iff_eq] at hc
  obtain ⟨⟨⟨htf, hkind⟩, hser⟩, hrest⟩ := hc
  -- the strto* result with its value range and its meaning
  have hstr : ∃ r, strtoResult p s 0 = some r ∧ (srcIv p.tmpTy).mem r.value ∧ r.consumed ≤ s.length ∧
      (r.consumed ≠ 0 → r.erange = false → (p.strto = "strtoumax" → (scanNumber s 0).1 = false) →
        numeral (s.take r.consumed) = some r.value) := by
    rcases hkind with ⟨hk, hty⟩ | ⟨⟨hk, hty⟩, _⟩
    · refine ⟨strtoimax s 0, by simp [strtoResult, hk], ?_, strtoimax_le s, fun h0 he _ => strtoimax_spec s h0 he⟩
      have := strtoimax_range s 0
      simp only [srcIv, hty, CTy.lo, CTy.hi, Iv.mem]; omega
    · refine ⟨strtoumax s 0, by simp [strtoResult, hk], ?_, strtoumax_le s, fun h0 he hm => strtoumax_spec s h0 he (hm hk)⟩
      have := strtoumax_range s 0
      simp only [srcIv, hty, CTy.lo, CTy.hi, Iv.mem]; omega
  obtain ⟨r, hr, hmem, hle, hnum⟩ := hstr
  unfold runParser
  by_cases hs0 : s = []
  · subst hs0
    refine ⟨by simp [verdict], ?_, by simp [dropValue]⟩
    intro o n h; simp at h; obtain ⟨rfl, rfl⟩ := h
    exact ⟨by simp, Or.inl ⟨rfl, rfl, by simp⟩⟩
  simp only [hs0, if_false, hr]
  by_cases hc0 : r.consumed = 0
  · simp only [hc0, if_true]
    exact ⟨noConversion_notBroken s, fun o n h => noConversion_ok tgt s d o n h, noConversion_query s⟩
  simp only [hc0, if_false]
  generalize hctx : intCtx p r (scanNumber s 0).1 = ctx
  have hctmp : ctx.tmp = .int r.value := by rw [← hctx]; rfl
  split at hrest
  · simp at hrest
  rename_i iv1 hst1
  rcases stepTGuards_sound ctx r.value hctmp p.guards (srcIv p.tmpTy) iv1 hst1 hmem with ⟨hok1, hin1⟩ | ⟨e, he⟩
  · simp only [hok1]
    have her : r.erange = false := by
      have := hasSingle_erange ctx p.guards hser hok1
      rw [← hctx] at this
      simp [intCtx] at this
      exact this.1
    have hmin : p.strto = "strtoumax" → (scanNumber s 0).1 = false := by
      intro hk
      rcases hkind with ⟨hk', _⟩ | ⟨_, hsm⟩
      · rw [hk] at hk'; simp at hk'
      · have := hasSingle_minus ctx p.guards hsm hok1
        rw [← hctx] at this
        exact this
    have hnumeral := hnum hc0 her hmin
    cases hw : p.widths.find? (·.size = vlen) with
    | none => exact ⟨by simp [verdict], by intro o n h; simp at h, by simp [dropValue]⟩
    | some w =>
      simp only [hw, Bool.and_eq_true, Bool.not_eq_true', beq_iff_eq] at hrest
      obtain ⟨⟨⟨hwg, hwf⟩, hwsz⟩, hrest⟩ := hrest
      split at hrest
      · simp at hrest
      rename_i iv2 hst2
      rcases stepTGuards_sound ctx r.value hctmp w.guards iv1 iv2 hst2 hin1 with ⟨hok2, hin2⟩ | ⟨e, he⟩
      · simp only [hok2, hwg, if_true]
        simp only [Bool.or_eq_true, decide_eq_true_eq, Bool.and_eq_true] at hrest
        have hrange : inRange tgt r.value := by
          unfold Iv.mem at hin2
          rcases hrest with hemp | ⟨hlo, hhi⟩
          · omega
          · exact ⟨by omega, by omega⟩
        refine ⟨by cases d <;> simp [verdict], ?_, by simp [dropValue]⟩
        intro o n h
        have hmod := modulus_of_size w.store tgt hwf htf hwsz
        cases d with
        | false =>
          simp at h; obtain ⟨rfl, rfl⟩ := h
          exact ⟨hle, Or.inr ⟨r.value, hnumeral, hrange, Or.inr ⟨rfl, rfl⟩⟩⟩
        | true =>
          simp at h; obtain ⟨rfl, rfl⟩ := h
          refine ⟨hle, Or.inr ⟨r.value, hnumeral, hrange, Or.inl ⟨rfl, _, rfl, ?_⟩⟩⟩
          rw [hmod]
          exact denote_store tgt _ htf hrange.1 hrange.2
      · simp only [he]
        exact ⟨by simp [verdict], by intro o n h; simp at h, by simp [dropValue]⟩
  · simp only [he]
    exact ⟨by simp [verdict], by intro o n h; simp at h, by simp [dropValue]⟩

/-- the integer targets of text conversion -/
def textTargets : List Ty := [.b, .y, .n, .q, .i, .u, .x, .t]

/-- `mpt_convert_number` reaches a checked parser with base 0 for the target (or refuses the target) -/
def checkTextTarget (tgt : Ty) : Bool :=
  match numberTarget tgt with
  | .ok (p, size, base) => base == 0 && checkParser p size tgt
  | .err _ => true
  | _ => false

def checkTextTable : Bool := textTargets.all checkTextTarget

theorem convertNumber_sound (tgt : Ty) (ht : tgt ∈ textTargets) (hc : checkTextTarget tgt = true) (s : List Nat) (d : Bool) :
    verdict (convertNumber tgt s d) ≠ .broken ∧
    (∀ o n, convertNumber tgt s d = .ok (o, n) → TextOK tgt s d o n) ∧
    convertNumber tgt s false = dropValue (convertNumber tgt s true) := by
  have hnc : tgt ≠ .c := by intro h; subst h; simp [textTargets] at ht
  unfold checkTextTarget at hc
  simp only [convertNumber, hnc, if_false]
  cases hn : numberTarget tgt with
  | ok v =>
    obtain ⟨p, size, base⟩ := v
    simp only [hn, Bool.and_eq_true, beq_iff_eq] at hc
    obtain ⟨hb, hp⟩ := hc
    subst hb
    exact runParser_sound p size tgt s d hp
  | err e => exact ⟨by simp [verdict], by intro o n h; simp at h, by simp [dropValue]⟩
  | null => simp [hn] at hc
  | oob => simp [hn] at hc
  | fault => simp [hn] at hc

theorem convertString_ok (tgt : Ty) (s : List Nat) (d : Bool) (o : Option Nat) (n : Nat)
    (hnum : ∀ s' o' n', convertNumber tgt s' d = .ok (o', n') → TextOK tgt s' d o' n')
    (h : convertString tgt s d = .ok (o, n)) : TextOK tgt s d o n := by
  unfold convertString at h
  split at h
  · rename_i hs; subst hs
    simp at h; obtain ⟨rfl, rfl⟩ := h
    exact ⟨by simp, Or.inl ⟨rfl, rfl, by simp⟩⟩
  split at h
  · rename_i o' k hk
    split at h
    · rename_i hk0
      simp at h; obtain ⟨rfl, rfl⟩ := h
      subst hk0
      refine ⟨by simp, Or.inl ⟨rfl, rfl, ?_⟩⟩
      obtain ⟨_, hcase⟩ := hnum _ o' 0 hk
      rcases hcase with ⟨_, _, hall⟩ | ⟨v, hnum', _⟩
      · rw [← List.takeWhile_append_dropWhile (p := isSpace) (l := s), List.all_append, all_takeWhile, hall]; rfl
      · simp [numeral, signedMagnitude] at hnum'
    · simp only [Res.ok.injEq, Prod.mk.injEq] at h
      obtain ⟨rfl, rfl⟩ := h
      obtain ⟨hle, hcase⟩ := hnum _ o' k hk
      have hl : (s.takeWhile isSpace).length + (s.dropWhile isSpace).length = s.length := by
        rw [← List.length_append, List.takeWhile_append_dropWhile]
      refine ⟨by omega, ?_⟩
      rcases hcase with ⟨hnone, hk0, hblank⟩ | ⟨v, hnum', hin, hval⟩
      · rename_i hkne
        exact absurd hk0 hkne
      · right
        refine ⟨v, ?_, hin, hval⟩
        rw [numeral_take]
        unfold numeral at hnum'
        rwa [dropWhile_take_of_head isSpace _ k (head_dropWhile isSpace s)] at hnum'
  · rename_i hne
    exact absurd h (by intro hh; exact hne _ _ hh)

theorem convertString_query (tgt : Ty) (s : List Nat)
    (hq : ∀ s', convertNumber tgt s' false = dropValue (convertNumber tgt s' true)) :
    convertString tgt s false = dropValue (convertString tgt s true) := by
  unfold convertString
  rw [hq]
  split
  · rfl
  · cases h : convertNumber tgt (List.dropWhile isSpace s) true with
    | ok v => obtain ⟨o, n⟩ := v; simp only [dropValue]; split <;> rfl
    | _ => rfl

theorem convertString_notBroken (tgt : Ty) (s : List Nat) (d : Bool)
    (hn : ∀ s', verdict (convertNumber tgt s' d) ≠ .broken) : verdict (convertString tgt s d) ≠ .broken := by
  unfold convertString
  split
  · simp [verdict]
  · have := hn (s.dropWhile isSpace)
    cases h : convertNumber tgt (List.dropWhile isSpace s) d with
    | ok v => obtain ⟨o, n⟩ := v; simp only; split <;> simp [verdict]
    | err e => simp [verdict]
    | null => simp [h, verdict] at this
    | oob => simp [h, verdict] at this
    | fault => simp [h, verdict] at this

/-! ### the character target -/

/-- outcome of an accepted text -> 'c' conversion: blank text and nothing stored, or blanks followed by a printable
    character, which is what is stored -/
def CharOK (s : List Nat) (d : Bool) (o : Option Nat) (n : Nat) : Prop :=
  n ≤ s.length ∧
  ((o = none ∧ n = 0 ∧ s.all isSpace = true) ∨
   (∃ c, 1 ≤ n ∧ s[n - 1]? = some c ∧ isGraph c = true ∧ (s.take (n - 1)).all isSpace = true ∧
      (if d then o = some c else o = none)))

theorem convertChar_ok (s : List Nat) (d : Bool) (o : Option Nat) (n : Nat) (h : convertChar s d = .ok (o, n)) :
    CharOK s d o n := by
  unfold convertChar at h
  have hdec := List.takeWhile_append_dropWhile (p := isSpace) (l := s)
  have hl : (s.takeWhile isSpace).length + (s.dropWhile isSpace).length = s.length := by
    rw [← List.length_append, hdec]
  split at h
  · rename_i hnil
    simp at h; obtain ⟨rfl, rfl⟩ := h
    refine ⟨by simp, Or.inl ⟨rfl, rfl, ?_⟩⟩
    rw [← hdec, hnil, List.append_nil]; exact all_takeWhile isSpace s
  · rename_i c rest hcons
    split at h
    · rename_i hg
      simp only [Res.ok.injEq, Prod.mk.injEq] at h
      obtain ⟨ho, rfl⟩ := h
      have hlen : (s.dropWhile isSpace).length = rest.length + 1 := by rw [hcons]; simp
      refine ⟨by omega, Or.inr ⟨c, by omega, ?_, ?_, ?_, ?_⟩⟩
      · simp only [Nat.add_sub_cancel]
        have : s[(s.takeWhile isSpace).length]? =
            (s.takeWhile isSpace ++ s.dropWhile isSpace)[(s.takeWhile isSpace).length]? := by rw [hdec]
        rw [this, List.getElem?_append_right (Nat.le_refl _), hcons]; simp
      · simp [isGraph]; omega
      · simp only [Nat.add_sub_cancel]
        rw [take_length_takeWhile]; exact all_takeWhile isSpace s
      · cases d <;> simp at ho ⊢ <;> exact ho.symm
    · simp at h

theorem convertChar_query (s : List Nat) : convertChar s false = dropValue (convertChar s true) := by
  unfold convertChar
  split
  · rfl
  · split <;> rfl

theorem convertChar_notBroken (s : List Nat) (d : Bool) : verdict (convertChar s d) ≠ .broken := by
  unfold convertChar
  split
  · simp [verdict]
  · split <;> simp [verdict]

theorem convertStringChar_ok (s : List Nat) (d : Bool) (o : Option Nat) (n : Nat)
    (h : convertString .c s d = .ok (o, n)) : CharOK s d o n := by
  have hdec := List.takeWhile_append_dropWhile (p := isSpace) (l := s)
  have hl : (s.takeWhile isSpace).length + (s.dropWhile isSpace).length = s.length := by
    rw [← List.length_append, hdec]
  unfold convertString at h
  split at h
  · rename_i hs; subst hs
    simp at h; obtain ⟨rfl, rfl⟩ := h
    exact ⟨by simp, Or.inl ⟨rfl, rfl, by simp⟩⟩
  split at h
  · rename_i o' k hk
    simp only [convertNumber, if_true] at hk
    obtain ⟨hle, hcase⟩ := convertChar_ok _ d o' k hk
    split at h
    · rename_i hk0
      simp at h; obtain ⟨rfl, rfl⟩ := h
      refine ⟨by simp, Or.inl ⟨rfl, rfl, ?_⟩⟩
      rcases hcase with ⟨_, _, hall⟩ | ⟨c, h1, _⟩
      · rw [← hdec, List.all_append, all_takeWhile, hall]; rfl
      · omega
    · rename_i hk0
      simp only [Res.ok.injEq, Prod.mk.injEq] at h
      obtain ⟨rfl, rfl⟩ := h
      rcases hcase with ⟨_, h0, _⟩ | ⟨c, h1, hget, hg, hblank, hso⟩
      · exact absurd h0 hk0
      · refine ⟨by omega, Or.inr ⟨c, by omega, ?_, hg, ?_, hso⟩⟩
        · have : s[(s.takeWhile isSpace).length + k - 1]? =
              (s.takeWhile isSpace ++ s.dropWhile isSpace)[(s.takeWhile isSpace).length + k - 1]? := by rw [hdec]
          rw [this, List.getElem?_append_right (by omega)]
          have : (s.takeWhile isSpace).length + k - 1 - (s.takeWhile isSpace).length = k - 1 := by omega
          rw [this]; exact hget
        · have : (s.takeWhile isSpace).length + k - 1 = (s.takeWhile isSpace).length + (k - 1) := by omega
          rw [this, take_ws_add, List.all_append, all_takeWhile, hblank]; rfl
  · rename_i hne
    exact absurd h (by intro hh; exact hne _ _ hh)

/-! ### floating parsers: an overflowing numeral is refused -/

/-- the parser refuses when `strto*` reports ERANGE and returned an infinity: it has a guard with the disjuncts
    `errno == ERANGE && tmp > F` and `errno == ERANGE && tmp < F'` -/
def checkFloatParser (p : TextParser) : Bool :=
  p.errnoReset && p.tmpTy.isFloat &&
  p.guards.any fun g =>
    (g.conds.any fun c => match c with
      | [.erange, .val (.cmp .gt cty _)] => cty.isFloat && decide (p.tmpTy.size ≤ cty.size)
      | _ => false) &&
    (g.conds.any fun c => match c with
      | [.erange, .val (.cmp .lt cty _)] => cty.isFloat && decide (p.tmpTy.size ≤ cty.size)
      | _ => false)

/-- the libc contract the theorem relies on: an overflowing numeral yields an infinity and `errno = ERANGE` -/
def StrToF.contract (r : StrToF) : Prop := r.overflow = true → r.erange = true ∧ ∃ sg, r.value = .inf sg

theorem evalTConj_erange_cmp (c : TextCtx) (x : FVal) (hx : c.tmp = .flt x) (op : Cmp) (cty : CTy) (k : Int)
    (hf : cty.isFloat = true) (hs : c.ty.size ≤ cty.size) :
    evalTConj c [.erange, .val (.cmp op cty k)] = .ok (c.erange && cmpF op x k) := by
  simp only [evalTConj, TextAtom.eval, Atom.eval, hx, Atom.evalF, hf, hs, and_self, if_true]
  cases c.erange <;> cases cmpF op x k <;> rfl

theorem runFloatParser_no_overflow (p : TextParser) (hc : checkFloatParser p = true) (r : StrToF) (hr : r.contract)
    (s : List Nat) (d : Bool) (o : Option FVal) (n : Nat) (h : runFloatParser p r s d = .ok (o, n)) (hn : n ≠ 0) :
    r.overflow = false ∧ n = r.consumed ∧ (d = true → o = some r.value) := by
  unfold runFloatParser at h
  split at h
  · simp at h; exact absurd h.2.symm hn
  split at h
  · split at h <;> simp at h
    exact absurd h.2.symm hn
  generalize hctx : floatCtx p r.value r.erange = ctx at h
  cases hg : evalTGuards ctx p.guards with
  | ok u =>
    simp only [hg] at h
    simp only [checkFloatParser, Bool.and_eq_true, List.any_eq_true] at hc
    obtain ⟨⟨hreset, htyf⟩, g, hgm, ⟨cu, hcu, htu⟩, ⟨cl, hcl, htl⟩⟩ := hc
    have hdisj := evalTGuards_ok_mem ctx p.guards hg g hgm
    have hnov : r.overflow = false := by
      cases hov : r.overflow with
      | false => rfl
      | true =>
        exfalso
        obtain ⟨her, sg, hval⟩ := hr hov
        have hcer : ctx.erange = true := by rw [← hctx]; simp [floatCtx, her]
        have hctmp : ctx.tmp = .flt (.inf sg) := by rw [← hctx, hval]; rfl
        have hcty : ctx.ty = p.tmpTy := by rw [← hctx]; rfl
        cases sg with
        | false =>
          split at htu
          · rename_i cty k
            simp only [Bool.and_eq_true, decide_eq_true_eq] at htu
            have := evalTDisj_false_mem ctx g.conds hdisj _ hcu
            rw [evalTConj_erange_cmp ctx _ hctmp .gt cty k htu.1 (by rw [hcty]; exact htu.2)] at this
            simp [hcer, cmpF, FVal.gtInt] at this
          · simp at htu
        | true =>
          split at htl
          · rename_i cty k
            simp only [Bool.and_eq_true, decide_eq_true_eq] at htl
            have := evalTDisj_false_mem ctx g.conds hdisj _ hcl
            rw [evalTConj_erange_cmp ctx _ hctmp .lt cty k htl.1 (by rw [hcty]; exact htl.2)] at this
            simp [hcer, cmpF, FVal.ltInt] at this
          · simp at htl
    split at h
    · cases d with
      | true => simp at h; exact ⟨hnov, h.2.symm, fun _ => h.1.symm⟩
      | false =>
        simp only [Bool.false_eq_true, if_false] at h
        split at h
        · simp at h; exact ⟨hnov, h.2.symm, by simp⟩
        · simp at h
    · simp at h
  | err e => simp [hg] at h
  | null => simp [hg] at h
  | oob => simp [hg] at h
  | fault => simp [hg] at h

end Mpt.Conv
