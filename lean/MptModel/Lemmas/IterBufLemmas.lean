/-
  Helper lemmas for C19 (core Lean only): the buffer argument iterator over NUL-terminated strings.
-/
import MptModel.Impl.IterArgs
namespace Mpt.Iter

/-- strings, each followed by its NUL -/
def joinNul : List (List Char) → List Char
  | [] => []
  | s :: more => s ++ nul :: joinNul more

theorem findNul_app (s rest : List Char) (h : nul ∉ s) : findNul (s ++ nul :: rest) = some s.length := by
  induction s with
  | nil => simp [findNul]
  | cons c cs ih =>
    have hc : c ≠ nul := by intro e; apply h; simp [e]
    have := ih (by intro hm; apply h; simp [hm])
    simp [findNul, hc, this]

theorem cstr_app (s rest : List Char) (h : nul ∉ s) : BufIt.cstr (s ++ nul :: rest) = s := by
  induction s with
  | nil => simp [BufIt.cstr]
  | cons c cs ih =>
    have hc : c ≠ nul := by intro e; apply h; simp [e]
    simp [BufIt.cstr, hc, ih (by intro hm; apply h; simp [hm])]

/-- iterator positioned at the string `cur` behind the consumed prefix `pre` -/
def bufAt (args : Bool) (pre cur post : List Char) : BufIt :=
  { data := pre ++ (cur ++ nul :: post), hasBuf := true, off := pre.length, len := cur.length + 1,
    str := some pre.length, args := args }

theorem bufAt_value (args : Bool) (pre cur post : List Char) (h : nul ∉ cur) :
    (bufAt args pre cur post).value = .str cur := by
  unfold BufIt.value bufAt
  simp only [Bool.not_true, Bool.false_eq_true, false_or]
  rw [if_neg (by omega)]
  simp only [List.drop_left]
  rw [cstr_app cur post h]

/-- advancing from the last string ends the iteration -/
theorem bufAt_advance_last (args : Bool) (pre cur : List Char) :
    ((bufAt args pre cur []).advance).2 = .last ∧ ((bufAt args pre cur []).advance).1.value = .null := by
  unfold BufIt.advance BufIt.sliceNext bufAt
  simp only [Bool.not_true, Bool.false_eq_true, ↓reduceIte, false_or, List.length_append, List.length_cons,
    List.length_nil]
  rw [if_neg (by omega), if_pos ⟨by omega, by omega⟩]
  simp [BufIt.value]

/-- advancing to the next string -/
theorem bufAt_advance_more (args : Bool) (pre cur nxt post : List Char) (h : nul ∉ nxt) :
    (bufAt args pre cur (nxt ++ nul :: post)).advance = (bufAt args (pre ++ cur ++ [nul]) nxt post, .more) := by
  unfold BufIt.advance BufIt.sliceNext bufAt
  simp only [Bool.not_true, Bool.false_eq_true, ↓reduceIte, false_or, List.length_append, List.length_cons]
  rw [if_neg (by omega), if_neg (by omega), if_neg (by omega)]
  have hdrop : List.drop (pre.length + (cur.length + 1)) (pre ++ (cur ++ nul :: (nxt ++ nul :: post)))
      = nxt ++ nul :: post := by
    have : pre ++ (cur ++ nul :: (nxt ++ nul :: post)) = (pre ++ cur ++ [nul]) ++ (nxt ++ nul :: post) := by simp
    rw [this]
    have hl : pre.length + (cur.length + 1) = (pre ++ cur ++ [nul]).length := by
      simp only [List.length_append, List.length_cons, List.length_nil]; omega
    rw [hl, List.drop_left]
  simp only [hdrop]
  have htake : List.take (pre.length + (cur.length + (nxt.length + (post.length + 1) + 1)) - pre.length - (cur.length + 1))
      (nxt ++ nul :: post) = nxt ++ nul :: post := by
    apply List.take_of_length_le
    simp; omega
  rw [htake, findNul_app nxt post h]
  simp only []
  congr 1
  · simp only [BufIt.mk.injEq]
    refine ⟨by simp, trivial, by simp; omega, trivial, by simp; omega, trivial⟩

/-- the documented loop on a buffer iterator -/
def bufWalk : Nat → BufIt → List BufIt.BufVal
  | 0, _ => []
  | fuel + 1, b =>
    match b.value with
    | .null => []
    | v =>
      match b.advance with
      | (b2, .more) => v :: bufWalk fuel b2
      | (_, _) => [v]

/-- from a string position the loop yields the current and all following strings -/
theorem bufWalk_from (args : Bool) (cur : List Char) (more : List (List Char)) (pre : List Char) (fuel : Nat)
    (hc : nul ∉ cur) (hm : ∀ s ∈ more, nul ∉ s) (hf : more.length < fuel) :
    bufWalk fuel (bufAt args pre cur (joinNul more)) = (cur :: more).map .str := by
  induction more generalizing cur pre fuel with
  | nil =>
    obtain ⟨f, rfl⟩ : ∃ f, fuel = f + 1 := ⟨fuel - 1, by omega⟩
    simp only [joinNul, bufWalk]
    rw [bufAt_value args pre cur [] hc]
    simp only []
    have := (bufAt_advance_last args pre cur).1
    cases hq : (bufAt args pre cur []).advance with
    | mk b2 r =>
      rw [hq] at this
      simp only [] at this
      subst this
      rfl
  | cons nxt rest ih =>
    obtain ⟨f, rfl⟩ : ∃ f, fuel = f + 1 := ⟨fuel - 1, by omega⟩
    simp only [joinNul, bufWalk]
    rw [bufAt_value args pre cur _ hc]
    simp only []
    rw [bufAt_advance_more args pre cur nxt (joinNul rest) (hm nxt (by simp))]
    simp only []
    rw [ih nxt (pre ++ cur ++ [nul]) f (hm nxt (by simp)) (fun s hs => hm s (by simp [hs])) (by simp at hf; omega)]
    rfl

/-- creation positions the iterator at the first string -/
theorem create_first (cur : List Char) (more : List (List Char)) (hc : nul ∉ cur) :
    BufIt.create (some (joinNul (cur :: more))) false = bufAt false [] cur (joinNul more) := by
  unfold BufIt.create BufIt.reset BufIt.resetPlain BufIt.advance BufIt.sliceNext
  simp only [Option.getD_some, Option.isSome_some, joinNul, Bool.false_eq_true, ↓reduceIte, Bool.not_true,
    false_or, Nat.sub_zero, Nat.add_zero, List.drop_zero]
  rw [if_neg (by simp)]
  simp only [ne_eq, not_true_eq_false, false_and, ↓reduceIte]
  rw [if_neg (by simp)]
  have : List.take (cur ++ nul :: joinNul more).length (cur ++ nul :: joinNul more) = cur ++ nul :: joinNul more :=
    List.take_length
  rw [this, findNul_app cur _ hc]
  simp [bufAt]

end Mpt.Iter
