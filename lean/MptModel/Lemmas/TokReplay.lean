/-
  C05, layer 1: the token spec on callback events (`replay`), its algebra (append, permutation of the live
  set), and the two event shapes the loops produce: destruction of a block of stored tokens, and creation
  of consecutive fresh tokens (`Creates`) interleaved with refused constructors.
-/
import MptModel.Impl.Heap
import MptModel.Spec.Tokens
namespace Mpt.Heap
open Mpt

/-- S on callback events: `none` = the event is illegal (a created token already exists, a copy source or a
    destroyed token is not alive) -/
def replay (l : Tokens.Live) : List Ev → Option Tokens.Live
  | [] => some l
  | .init t :: r => if Tokens.isLive l t then none else replay (Tokens.create l t) r
  | .copy t k :: r => if Tokens.isLive l t ∨ ¬ Tokens.isLive l k then none else replay (Tokens.create l t) r
  | .fail :: r => replay l r
  | .fini t :: r => if Tokens.isLive l t then replay (Tokens.destroy l t) r else none

theorem replay_append (l : Tokens.Live) (e1 e2 : List Ev) :
    replay l (e1 ++ e2) = (replay l e1).bind fun l1 => replay l1 e2 := by
  induction e1 generalizing l with
  | nil => rfl
  | cons e es ih =>
    cases e with
    | init t => simp only [List.cons_append, replay]; split <;> simp [ih]
    | copy t k => simp only [List.cons_append, replay]; split <;> simp [ih]
    | fail => simp only [List.cons_append, replay]; exact ih l
    | fini t => simp only [List.cons_append, replay]; split <;> simp [ih]

theorem isLive_iff (l : Tokens.Live) (t : Nat) : Tokens.isLive l t = true ↔ t ∈ l := by
  simp [Tokens.isLive]

theorem isLive_perm {l m : List Nat} (p : l.Perm m) (t : Nat) : Tokens.isLive l t = Tokens.isLive m t := by
  have := p.mem_iff (a := t)
  cases h1 : Tokens.isLive l t <;> cases h2 : Tokens.isLive m t <;> simp_all [Tokens.isLive]

theorem replay_perm {l m : List Nat} (p : l.Perm m) (evs : List Ev) :
    ∀ l1, replay l evs = some l1 → ∃ m1, replay m evs = some m1 ∧ l1.Perm m1 := by
  induction evs generalizing l m with
  | nil => intro l1 h; cases h; exact ⟨m, rfl, p⟩
  | cons e es ih =>
    intro l1 h
    cases e with
    | init t =>
      simp only [replay] at h ⊢
      rw [← isLive_perm p t]
      split at h
      · cases h
      · rename_i nl
        rw [if_neg nl]
        exact ih (List.Perm.cons t p) l1 h
    | copy t k =>
      simp only [replay] at h ⊢
      rw [← isLive_perm p t, ← isLive_perm p k]
      split at h
      · cases h
      · rename_i nl
        rw [if_neg nl]
        exact ih (List.Perm.cons t p) l1 h
    | fail => exact ih p l1 h
    | fini t =>
      simp only [replay] at h ⊢
      rw [← isLive_perm p t]
      split at h
      · rename_i il
        rw [if_pos il]
        exact ih (List.Perm.erase t p) l1 h
      · cases h

/-- the events are legal from the live set `l` and lead to (a permutation of) `l'` -/
def Run (l : List Nat) (evs : List Ev) (l' : List Nat) : Prop := ∃ l1, replay l evs = some l1 ∧ l1.Perm l'

theorem Run.nil (l : List Nat) : Run l [] l := ⟨l, rfl, List.Perm.refl _⟩

theorem Run.perm_right {l l' l'' : List Nat} {evs : List Ev} (r : Run l evs l') (p : l'.Perm l'') : Run l evs l'' := by
  obtain ⟨l1, h, q⟩ := r; exact ⟨l1, h, q.trans p⟩

theorem Run.perm_left {l m l' : List Nat} {evs : List Ev} (r : Run l evs l') (p : l.Perm m) : Run m evs l' := by
  obtain ⟨l1, h, q⟩ := r
  obtain ⟨m1, hm, pm⟩ := replay_perm p evs l1 h
  exact ⟨m1, hm, pm.symm.trans q⟩

theorem Run.append {l l1 l2 : List Nat} {e1 e2 : List Ev} (r1 : Run l e1 l1) (r2 : Run l1 e2 l2) : Run l (e1 ++ e2) l2 := by
  obtain ⟨a, ha, pa⟩ := r1
  obtain ⟨b, hb, pb⟩ := r2.perm_left pa.symm
  exact ⟨b, by rw [replay_append, ha]; exact hb, pb⟩

/-- destroying a block of live tokens -/
theorem replay_fini_block (toks rest : List Nat) : replay (toks ++ rest) (toks.map Ev.fini) = some rest := by
  induction toks with
  | nil => rfl
  | cons t ts ih =>
    simp only [List.map_cons, replay, List.cons_append]
    have live : Tokens.isLive (t :: (ts ++ rest)) t = true := by simp [Tokens.isLive]
    rw [if_pos live]
    have : Tokens.destroy (t :: (ts ++ rest)) t = ts ++ rest := by simp [Tokens.destroy]
    rw [this]; exact ih

theorem Run.fini {l toks rest : List Nat} (p : l.Perm (toks ++ rest)) : Run l (toks.map Ev.fini) rest :=
  Run.perm_left ⟨rest, replay_fini_block toks rest, List.Perm.refl _⟩ p.symm

/-- consecutive numbers `a, a+1, ..` -/
def seqFrom (a : Nat) : Nat → List Nat
  | 0 => []
  | n + 1 => a :: seqFrom (a + 1) n

theorem mem_seqFrom {a n t : Nat} : t ∈ seqFrom a n ↔ a ≤ t ∧ t < a + n := by
  induction n generalizing a with
  | zero => simp [seqFrom]
  | succ n ih => simp only [seqFrom, List.mem_cons, ih]; omega

theorem seqFrom_nodup (a n : Nat) : (seqFrom a n).Nodup := by
  induction n generalizing a with
  | zero => simp [seqFrom]
  | succ n ih =>
    simp only [seqFrom, List.nodup_cons]
    exact ⟨by rw [mem_seqFrom]; omega, ih (a + 1)⟩

theorem seqFrom_length (a n : Nat) : (seqFrom a n).length = n := by
  induction n generalizing a with
  | zero => rfl
  | succ n ih => simp [seqFrom, ih]

theorem seqFrom_add (a n m : Nat) : seqFrom a (n + m) = seqFrom a n ++ seqFrom (a + n) m := by
  induction n generalizing a with
  | zero => simp [seqFrom]
  | succ n ih =>
    have : n + 1 + m = (n + m) + 1 := by omega
    rw [this]
    simp only [seqFrom, List.cons_append]
    rw [ih (a + 1)]
    congr 3; omega

/-- `evs` creates exactly the tokens `a, a+1, .., a+m-1` in this order, by default or copy construction from
    sources in `S`, possibly interleaved with refused constructor calls -/
inductive Creates (S : List Nat) : Nat → List Ev → Nat → Prop where
  | nil (a : Nat) : Creates S a [] 0
  | fail {a m : Nat} {evs : List Ev} : Creates S a evs m → Creates S a (Ev.fail :: evs) m
  | init {a m : Nat} {evs : List Ev} : Creates S (a + 1) evs m → Creates S a (Ev.init a :: evs) (m + 1)
  | copy {a m k : Nat} {evs : List Ev} : k ∈ S → Creates S (a + 1) evs m → Creates S a (Ev.copy a k :: evs) (m + 1)

theorem Creates.run {S : List Nat} {a m : Nat} {evs : List Ev} (c : Creates S a evs m) :
    ∀ l : List Nat, (∀ t ∈ l, t < a) → (∀ k ∈ S, k ∈ l) → Run l evs (seqFrom a m ++ l) := by
  induction c with
  | nil a => intro l _ _; exact Run.nil l
  | fail _ ih => intro l h1 h2; obtain ⟨l1, h, p⟩ := ih l h1 h2; exact ⟨l1, h, p⟩
  | @init a m evs _ ih =>
    intro l h1 h2
    have nl : ¬ Tokens.isLive l a = true := by
      rw [isLive_iff]; intro hm; have := h1 a hm; omega
    obtain ⟨l1, h, p⟩ := ih (a :: l) (by intro t ht; rcases List.mem_cons.mp ht with e | e; omega; have := h1 t e; omega)
      (by intro k hk; exact List.mem_cons_of_mem _ (h2 k hk))
    refine ⟨l1, by simp only [replay, if_neg nl, Tokens.create]; exact h, p.trans ?_⟩
    simp only [seqFrom, List.cons_append]
    exact List.perm_middle
  | @copy a m k evs hk _ ih =>
    intro l h1 h2
    have nl : ¬ (Tokens.isLive l a = true ∨ ¬ Tokens.isLive l k = true) := by
      rw [isLive_iff, isLive_iff]
      intro hm
      rcases hm with hm | hm
      · have := h1 a hm; omega
      · exact hm (h2 k hk)
    obtain ⟨l1, h, p⟩ := ih (a :: l) (by intro t ht; rcases List.mem_cons.mp ht with e | e; omega; have := h1 t e; omega)
      (by intro k hk; exact List.mem_cons_of_mem _ (h2 k hk))
    refine ⟨l1, by simp only [replay, if_neg nl, Tokens.create]; exact h, p.trans ?_⟩
    simp only [seqFrom, List.cons_append]
    exact List.perm_middle

theorem Creates.append {S : List Nat} {a m n : Nat} {e1 e2 : List Ev} (c1 : Creates S a e1 m) (c2 : Creates S (a + m) e2 n) :
    Creates S a (e1 ++ e2) (m + n) := by
  induction c1 with
  | nil a => simpa using c2
  | fail _ ih => exact Creates.fail (ih c2)
  | @init a m evs _ ih =>
    have : m + 1 + n = (m + n) + 1 := by omega
    rw [this]
    exact Creates.init (ih (by have : a + 1 + m = a + (m + 1) := by omega
                               rw [this]; exact c2))
  | @copy a m k evs hk _ ih =>
    have : m + 1 + n = (m + n) + 1 := by omega
    rw [this]
    exact Creates.copy hk (ih (by have : a + 1 + m = a + (m + 1) := by omega
                                  rw [this]; exact c2))

theorem Creates.mono {S T : List Nat} {a m : Nat} {evs : List Ev} (c : Creates S a evs m) (h : ∀ k ∈ S, k ∈ T) :
    Creates T a evs m := by
  induction c with
  | nil a => exact Creates.nil a
  | fail _ ih => exact Creates.fail ih
  | init _ ih => exact Creates.init ih
  | copy hk _ ih => exact Creates.copy (h _ hk) ih

end Mpt.Heap
