/-
  Helper lemmas for C02 (core Lean only): the reference receiver of Spec/Stream.lean on frames, on
  arbitrary segmentations, and the schedule invariant.
-/
import MptModel.Spec.Stream
import MptModel.Lemmas.Cobs
namespace Mpt.Stream
open Mpt.Cobs

theorem IsFrame.split {f : List Byte} (h : IsFrame f) : ∃ body, f = body ++ [0] ∧ ∀ b ∈ body, b ≠ 0 := by
  obtain ⟨h1, h2⟩ := h
  rcases List.eq_nil_or_concat f with hf | ⟨body, e, hf⟩
  · subst hf; exact absurd h1 (by simp)
  · subst hf
    simp at h1
    subst h1
    exact ⟨body, by simp, by simpa using h2⟩

theorem IsFrame.mk (body : List Byte) (h : ∀ b ∈ body, b ≠ 0) : IsFrame (body ++ [0]) :=
  ⟨by simp, by simpa using h⟩

theorem enc_isFrame (v : Variant) (m : List Byte) : IsFrame (enc v m) := by
  unfold enc
  exact IsFrame.mk _ (encB_nz v _ [] false (Inv.nil v))

theorem encChunks_isFrame (v : Variant) (chunks : List (List Byte)) : IsFrame (encChunks v chunks) := by
  unfold encChunks
  exact IsFrame.mk _ (encB_nz v _ [] false (Inv.nil v))

theorem enc_roundtrip (v : Variant) (m : List Byte) : dec v (enc v m) = some m := by
  have := dec_body_frame v (m.map fun b => (b, false))
  simpa [enc, Function.comp_def] using this

theorem encChunks_roundtrip (v : Variant) (chunks : List (List Byte)) :
    dec v (encChunks v chunks) = some chunks.flatten := by
  have := dec_body_frame v (mark chunks)
  rw [mark_fst] at this
  exact this

/-! ### splitting -/

theorem splitAux_body (body : List Byte) (hnz : ∀ b ∈ body, b ≠ 0) : ∀ (cur rest : List Byte),
    splitAux cur (body ++ 0 :: rest) = ((cur ++ body ++ [0]) :: (splitAux [] rest).1, (splitAux [] rest).2) := by
  induction body with
  | nil => intro cur rest; simp [splitAux]
  | cons b bs ih =>
    intro cur rest
    have hb : b ≠ 0 := hnz b (by simp)
    simp only [List.cons_append, splitAux, hb, if_false]
    rw [ih (fun x hx => hnz x (by simp [hx]))]
    simp

theorem splitAux_frames (fs : List (List Byte)) (h : ∀ f ∈ fs, IsFrame f) :
    splitAux [] fs.flatten = (fs, []) := by
  induction fs with
  | nil => simp [splitAux]
  | cons f fs ih =>
    obtain ⟨body, rfl, hnz⟩ := (h f (by simp)).split
    have := ih (fun g hg => h g (by simp [hg]))
    simp only [List.flatten_cons, List.append_assoc, List.singleton_append]
    rw [splitAux_body body hnz, this]
    simp

/-! ### the receiver -/

theorem segment_append (v : Variant) (r : Recv) (a b : List Byte) :
    Recv.segment v r (a ++ b) = Recv.segment v (Recv.segment v r a) b := by
  simp [Recv.segment, List.foldl_append]

theorem foldl_segment (v : Variant) (segs : List (List Byte)) : ∀ r : Recv,
    segs.foldl (Recv.segment v) r = Recv.segment v r segs.flatten := by
  induction segs with
  | nil => intro r; simp [Recv.segment]
  | cons s ss ih => intro r; simp only [List.foldl_cons, List.flatten_cons, segment_append, ih]

/-- the receiver only sees the concatenation of the segments -/
theorem recvAll_flatten (v : Variant) (segs : List (List Byte)) :
    recvAll v segs = Recv.segment v {} segs.flatten := foldl_segment v segs {}

theorem segment_nz (v : Variant) (body : List Byte) (hnz : ∀ b ∈ body, b ≠ 0) : ∀ r : Recv,
    Recv.segment v r body = { r with pending := r.pending ++ body } := by
  induction body with
  | nil => intro r; simp [Recv.segment]
  | cons b bs ih =>
    intro r
    have hb : b ≠ 0 := hnz b (by simp)
    have hstep : Recv.segment v r (b :: bs) = Recv.segment v (Recv.byte v r b) bs := by simp [Recv.segment]
    rw [hstep, ih (fun x hx => hnz x (by simp [hx]))]
    simp [Recv.byte, hb]

/-- a whole frame arrives at a receiver that has `p` pending: the frame `p ++ f` is decoded -/
theorem segment_frame (v : Variant) (r : Recv) (f : List Byte) (hf : IsFrame f) :
    Recv.segment v r f =
      match dec v (r.pending ++ f) with
      | some m => { pending := [], out := r.out ++ [m] }
      | none => { pending := [], out := r.out } := by
  obtain ⟨body, rfl, hnz⟩ := hf.split
  rw [segment_append, segment_nz v body hnz]
  simp only [Recv.segment, List.foldl_cons, List.foldl_nil, Recv.byte, if_true, List.append_assoc]
  cases dec v (r.pending ++ (body ++ [0])) <;> rfl

theorem byte_out_mono (v : Variant) (r : Recv) (b : Byte) : ∃ more, (Recv.byte v r b).out = r.out ++ more := by
  unfold Recv.byte
  split
  · split
    · exact ⟨_, rfl⟩
    · exact ⟨[], by simp⟩
  · exact ⟨[], by simp⟩

/-- messages once obtained stay: the output only grows -/
theorem segment_out_mono (v : Variant) (s : List Byte) : ∀ r : Recv,
    ∃ more, (Recv.segment v r s).out = r.out ++ more := by
  induction s with
  | nil => intro r; exact ⟨[], by simp [Recv.segment]⟩
  | cons b bs ih =>
    intro r
    have hstep : Recv.segment v r (b :: bs) = Recv.segment v (Recv.byte v r b) bs := by simp [Recv.segment]
    obtain ⟨m1, h1⟩ := byte_out_mono v r b
    obtain ⟨m2, h2⟩ := ih (Recv.byte v r b)
    exact ⟨m1 ++ m2, by rw [hstep, h2, h1]; simp⟩

/-- frames `fs` carrying the messages `ms` -/
inductive Carries (v : Variant) : List (List Byte) → List Msg → Prop where
  | nil : Carries v [] []
  | cons {f m fs ms} : (IsFrame f ∧ dec v f = some m) → Carries v fs ms → Carries v (f :: fs) (m :: ms)

theorem carries_enc (v : Variant) (ms : List Msg) : Carries v (ms.map (enc v)) ms := by
  induction ms with
  | nil => exact Carries.nil
  | cons m ms ih => exact Carries.cons ⟨enc_isFrame v m, enc_roundtrip v m⟩ ih

/-- the receiver on a sequence of whole frames, from a state between two frames -/
theorem segment_frames (v : Variant) (fs : List (List Byte)) (ms : List Msg) (h : Carries v fs ms) :
    ∀ r : Recv, r.pending = [] → Recv.segment v r fs.flatten = { pending := [], out := r.out ++ ms } := by
  induction h with
  | nil => intro r hr; cases r; simp_all [Recv.segment]
  | @cons f m fs' ms' hfm _ ih =>
    intro r hr
    simp only [List.flatten_cons]
    rw [segment_append, segment_frame v r f hfm.1, hr, List.nil_append, hfm.2]
    simp only
    rw [ih _ rfl]
    simp

/-! ### schedules -/

/-- invariant of every schedule: the bytes written so far are, in order, what the receiver has consumed,
    what waits in its input buffer, what is in flight and what is not yet flushed -/
def SysInv (v : Variant) (s : Sys) : Prop :=
  ∃ consumed, s.rx = Recv.segment v {} consumed ∧ consumed ++ s.rxbuf ++ s.chan ++ s.txbuf = wire v s.sent

theorem wire_append (v : Variant) (a b : List Msg) : wire v (a ++ b) = wire v a ++ wire v b := by
  simp [wire]

theorem step_inv (v : Variant) (ms : List Msg) (s : Sys) (e : Event) (h : SysInv v s) : SysInv v (step v ms s e) := by
  obtain ⟨c, h1, h2⟩ := h
  cases e with
  | write i =>
    simp only [step]
    split
    · rename_i m _
      refine ⟨c, h1, ?_⟩
      simp only [wire_append, ← h2]
      simp [wire]
    · exact ⟨c, h1, h2⟩
  | flush =>
    refine ⟨c, h1, ?_⟩
    simp only [step, List.append_nil]
    rw [← h2]; simp
  | deliver k =>
    refine ⟨c, h1, ?_⟩
    simp only [step]
    rw [← h2]
    have := List.take_append_drop k s.chan
    calc c ++ (s.rxbuf ++ List.take k s.chan) ++ List.drop k s.chan ++ s.txbuf
        = c ++ s.rxbuf ++ (List.take k s.chan ++ List.drop k s.chan) ++ s.txbuf := by simp
      _ = c ++ s.rxbuf ++ s.chan ++ s.txbuf := by rw [this]
  | receive =>
    refine ⟨c ++ s.rxbuf, ?_, ?_⟩
    · simp only [step]; rw [segment_append, h1]
    · simp only [step, List.append_nil]; rw [← h2]

theorem run_inv (v : Variant) (ms : List Msg) (evs : List Event) : ∀ s, SysInv v s → SysInv v (evs.foldl (step v ms) s) := by
  induction evs with
  | nil => intro s h; exact h
  | cons e es ih => intro s h; exact ih _ (step_inv v ms s e h)

theorem init_inv (v : Variant) : SysInv v {} := ⟨[], by simp [Recv.segment], by simp [wire]⟩

end Mpt.Stream
