/-
  Helper lemmas for C02, decode side (core Lean only): the offsets of `decode_state` after any decoder call
  (`pos + len ≤ curr ≤ total`), and the queue operations `mpt_queue_shift` / `mpt_queue_recv` on the ring model.
-/
import MptModel.Impl.CodedQueue
import MptModel.Lemmas.DecodeSafe
import MptModel.Lemmas.Decode
import MptModel.Lemmas.Ring3
namespace Mpt.Codec
open Mpt.Cobs

/-- the offsets of a decoder state inside `total` bytes of storage: decoded bytes lie in front of the
    input position, a waiting message is exactly the decoded data -/
structure Bnd (total : Nat) (st : DecState) : Prop where
  le : st.pos + st.len ≤ st.curr
  tot : st.curr ≤ total
  msg : ∀ m, st.msg = some m → m = st.len

theorem putZeros_keeps (k : Nat) : ∀ (l : Loc) (r : Nat),
    (putZeros k l r).1.done = l.done ∧ (putZeros k l r).1.r = l.r := by
  induction k with
  | zero => intro l r; exact ⟨rfl, rfl⟩
  | succ k ih =>
    intro l r
    unfold putZeros
    by_cases hp : l.proc = 0
    · simp only [hp, if_true]; exact ⟨trivial, trivial⟩
    · simp only [hp, if_false]
      cases hput : l.put r 0 with
      | none => exact ⟨rfl, rfl⟩
      | some l' =>
        simp only
        have hl' : l'.done = l.done ∧ l'.mlen = l.mlen + 1 ∧ l'.proc = l.proc := by
          unfold Loc.put at hput
          split at hput
          · cases hput; exact ⟨rfl, rfl, rfl⟩
          · cases hput
        obtain ⟨a, b⟩ := ih { l' with proc := l'.proc - 1, pos := l'.pos + 1 } r
        refine ⟨by rw [a]; exact hl'.1, ?_⟩
        rw [b]; simp only [Loc.r]; omega

theorem save_bnd (total : Nat) (l : Loc) (st : DecState) (ret : DecRet) (hp : st.pos = l.done) (hm : st.msg = none)
    (hr : l.r ≤ total) : Bnd total (l.save st ret).st := by
  refine ⟨?_, ?_, ?_⟩
  · simp only [Loc.save, Loc.r] at *; omega
  · simp only [Loc.save]; exact hr
  · intro m h; simp only [Loc.save, hm] at h; cases h

/-- every exit of the block loop leaves consistent offsets -/
theorem decLoop_bnd (v : Variant) (st : DecState) (peek : Bool) (total : Nat) (hm : st.msg = none) (n : Nat) :
    ∀ l, l.r + n = total → st.pos = l.done → Bnd total (decLoop v st peek n l).st := by
  induction n with
  | zero => intro l h hp; simp only [decLoop]; exact save_bnd total l st _ hp hm (by omega)
  | succ n ih =>
    intro l h hp
    unfold decLoop
    by_cases hd : l.pos < lenData v l.code
    · simp only [hd, if_true]
      cases hb : l.store[l.r]? with
      | none => simp only; exact save_bnd total l st _ hp hm (by omega)
      | some b =>
        simp only
        by_cases hz : b = 0
        · simp only [hz, if_true]; exact save_bnd total _ st _ hp hm (by simp only [Loc.r] at *; omega)
        simp only [hz, if_false]
        by_cases hpz : l.proc = 0
        · rw [if_pos hpz]; exact save_bnd total _ st _ hp hm (by simp only [Loc.r] at *; omega)
        rw [if_neg hpz]
        cases hput : ({ l with reads := l.reads ++ [l.r] } : Loc).put (l.r + 1) b with
        | none => simp only; exact save_bnd total _ st _ hp hm (by simp only [Loc.r] at *; omega)
        | some l' =>
          simp only
          have hl' : l'.done = l.done ∧ l'.mlen = l.mlen + 1 ∧ l'.proc = l.proc := by
            unfold Loc.put at hput
            split at hput
            · cases hput; exact ⟨rfl, rfl, rfl⟩
            · cases hput
          apply ih
          · simp only [Loc.r] at *; omega
          · simp only; rw [hl'.1]; exact hp
    · simp only [hd, if_false]
      by_cases hpk : peek = true
      · simp only [hpk, if_true]; exact save_bnd total l st _ hp hm (by omega)
      have hpf : peek = false := by simpa using hpk
      subst hpf
      simp only [Bool.false_eq_true, if_false]
      cases hb : l.store[l.r]? with
      | none => simp only; exact save_bnd total l st _ hp hm (by omega)
      | some b =>
        simp only
        have hk := putZeros_keeps (lenData v l.code + lenZero v l.code b.toNat - l.pos) { l with reads := l.reads ++ [l.r] } (l.r + 1)
        generalize hq : putZeros (lenData v l.code + lenZero v l.code b.toNat - l.pos) { l with reads := l.reads ++ [l.r] } (l.r + 1) = q at hk
        obtain ⟨l', ok⟩ := q
        simp only at hk
        have hr' : l'.r = l.r := by rw [hk.2]; rfl
        cases ok
        · simp only; exact save_bnd total l' st _ (by rw [hk.1]; exact hp) hm (by omega)
        · show Bnd total (if b = 0 then _ else _ : DecOut).st
          by_cases hn : b = 0
          · simp only [hn, if_true]
            refine ⟨?_, ?_, ?_⟩
            · simp only [Loc.r]; omega
            · simp only [Loc.r] at *; omega
            · intro m hmm; simp only at hmm; cases hmm; rfl
          · simp only [hn, if_false]
            apply ih
            · simp only [Loc.r] at *; omega
            · simp only; rw [hk.1]; exact hp

theorem decPrev_bnd (total : Nat) (st : DecState) (h : Bnd total st) :
    Bnd total (decPrev st).1 ∧ (decPrev st).1.msg = none ∧ (decPrev st).1.curr = st.curr ∧ (decPrev st).1.pos = st.pos ∧
      (decPrev st).1.len = (decPrev st).2.2 ∧ (decPrev st).2.1 + (decPrev st).2.2 = st.pos + st.len := by
  cases hm : st.msg with
  | none =>
    have e : decPrev st = (st, st.pos, st.len) := by simp [decPrev, hm]
    rw [e]
    exact ⟨h, hm, rfl, rfl, rfl, rfl⟩
  | some m =>
    have e : decPrev st = ({ st with len := st.len - m, msg := none }, st.pos + m, st.len - m) := by simp [decPrev, hm]
    rw [e]
    have := h.msg m hm
    have hle := h.le
    exact ⟨⟨by simp only; omega, h.tot, by intro m' hh; cases hh⟩, rfl, rfl, rfl, rfl, by simp only; omega⟩

/-- the part in front of the block loop, error exits: consistent offsets -/
theorem decPrep_bnd_err (st : DecState) (segs : List Seg) (store : List Byte) (peek : Bool) (h : Bnd store.length st)
    (e : Err) (st' : DecState) (he : decPrep st segs store peek = .inl (e, st')) : Bnd store.length st' := by
  obtain ⟨hb, hm, hc, hp, hl, hs⟩ := decPrev_bnd store.length st h
  have hpost := alignPost_le (cursorAt segs (st.pos + st.len)).1 (cursorAt segs (st.pos + st.len)).2 (st.curr - (st.pos + st.len))
  have hlen0 : (decPrev st).2.2 = 0 → (decPrev st).1.len = 0 := fun hz => by rw [hl]; exact hz
  unfold decPrep decEnter at he
  simp only at he
  repeat' split at he
  all_goals first
    | (cases he; done)
    | (cases he; exact h)
    | (cases he; exact hb)
    | (cases he
       have hz := hlen0 (by assumption)
       exact ⟨by simp only [hz, hc]; omega, by simp only [hc]; exact h.tot, by intro m hh; simp only [hm] at hh; cases hh⟩)

/-- the part in front of the block loop, entry into the loop: consistent offsets, the loop starts at the
    input position -/
theorem decPrep_bnd_ok (st : DecState) (segs : List Seg) (store : List Byte) (peek : Bool) (h : Bnd store.length st)
    (st' : DecState) (l : Loc) (he : decPrep st segs store peek = .inr (st', l)) :
    Bnd store.length st' ∧ st'.msg = none ∧ st'.pos = l.done ∧ l.r = st.curr ∧ l.store = store ∧ l.reads = [] := by
  obtain ⟨hb, hm, hc, hp, hl, hs⟩ := decPrev_bnd store.length st h
  have hpost := alignPost_le (cursorAt segs (st.pos + st.len)).1 (cursorAt segs (st.pos + st.len)).2 (st.curr - (st.pos + st.len))
  have hlen0 : (decPrev st).2.2 = 0 → (decPrev st).1.len = 0 := fun hz => by rw [hl]; exact hz
  have hpok := decPrep_ok st segs store peek st' l h.msg he
  unfold decPrep decEnter at he
  simp only at he
  repeat' split at he
  all_goals first
    | (cases he; done)
    | (simp only [Sum.inr.injEq, Prod.mk.injEq] at he
       obtain ⟨rfl, rfl⟩ := he
       have hz := hlen0 (by assumption)
       exact ⟨⟨by simp only [hz, hc]; omega, by simp only [hc]; exact h.tot, by intro m hh; simp only [hm] at hh; cases hh⟩,
          hm, rfl, by simp only [Loc.r]; omega, rfl, rfl⟩)
    | (simp only [Sum.inr.injEq, Prod.mk.injEq] at he
       obtain ⟨rfl, rfl⟩ := he
       exact ⟨hb, hm, hpok.pos, by simp only [Loc.r]; omega, rfl, rfl⟩)

theorem decStart_bnd (v : Variant) (st : DecState) (peek : Bool) (l : Loc) (h : Bnd l.store.length st)
    (hm : st.msg = none) (hp : st.pos = l.done) (hr : l.r = st.curr) :
    Bnd l.store.length (decStart v st peek l).st := by
  have hrt : l.r ≤ l.store.length := by rw [hr]; exact h.tot
  unfold decStart
  split
  · cases hb : l.store[l.r]? with
    | none => exact h
    | some c =>
      simp only
      have hlt : l.r < l.store.length := by
        rcases Nat.lt_or_ge l.r l.store.length with h1 | h1
        · exact h1
        · rw [List.getElem?_eq_none h1] at hb; cases hb
      split
      · refine ⟨?_, by simp only; omega, by intro m hh; simp only [hm] at hh; cases hh⟩
        have := h.le; simp only; omega
      · exact decLoop_bnd v st peek l.store.length hm _ _ (by simp only [Loc.r] at *; omega) hp
  · exact decLoop_bnd v st peek l.store.length hm _ l (by omega) hp

theorem decodeCobs_bnd (v : Variant) (st : DecState) (segs : List Seg) (peek : Bool)
    (h : Bnd (flat (if peek then segs.take 1 else segs)).length st) :
    Bnd (flat (if peek then segs.take 1 else segs)).length (decodeCobs v st segs peek).st := by
  unfold decodeCobs
  simp only
  generalize (if peek = true then List.take 1 segs else segs) = sg at h ⊢
  cases hprep : decPrep st sg (flat sg) peek with
  | inl es =>
    obtain ⟨e, st'⟩ := es
    exact decPrep_bnd_err st sg (flat sg) peek h e st' hprep
  | inr sl =>
    obtain ⟨st', l⟩ := sl
    obtain ⟨a, b, c, d, e, _⟩ := decPrep_bnd_ok st sg (flat sg) peek h st' l hprep
    simp only
    have hcurr : st'.curr = st.curr := by
      have hpok := decPrep_ok st sg (flat sg) peek st' l h.msg hprep
      unfold decPrep decEnter at hprep
      simp only at hprep
      have hc := (decPrev_bnd (flat sg).length st h).2.2.1
      repeat' split at hprep
      all_goals first
        | (cases hprep; done)
        | (simp only [Sum.inr.injEq, Prod.mk.injEq] at hprep
           obtain ⟨rfl, _⟩ := hprep
           exact hc)
    have := decStart_bnd v st' peek l (by rw [e]; exact a) b c (by rw [d, hcurr])
    rwa [e] at this

/-- **offsets after any decoder call** (all four decoders, any state with consistent offsets, any
    segments, peek or not) -/
theorem decodeV_bnd (v : Variant) (st : DecState) (segs : List Seg) (peek : Bool)
    (h : Bnd (flat (if peek then segs.take 1 else segs)).length st) :
    Bnd (flat (if peek then segs.take 1 else segs)).length (decodeV v st segs peek).st := by
  have hb := decodeCobs_bnd v st segs peek h
  have hsafe := decodeCobs_safe v st segs peek h.msg
  unfold decodeV
  cases ht : v.tail
  · simp only [Bool.false_eq_true, if_false]; exact hb
  · simp only [if_true]
    unfold decodeCobsR
    simp only
    generalize decodeCobs v st segs peek = o at hb hsafe
    by_cases hc : o.ret = .err .MissingData ∧ o.st.ctx ≠ 0
    · rw [if_pos hc]
      have hmd := hsafe.md hc.1
      by_cases h1 : peek = true ∨ o.store.length ≤ o.st.pos + o.st.len
      · rw [if_pos h1]; exact hb
      · rw [if_neg h1]
        have hle := hb.le
        have hlt : o.st.pos + o.st.len < o.st.curr + 1 := by omega
        rw [if_pos hlt]
        exact ⟨by simp only; omega, by simp only; omega, by intro m hh; cases hh; rfl⟩
    · rw [if_neg hc]; exact hb

end Mpt.Codec

namespace Mpt.CQ
open Mpt Mpt.Cobs Mpt.Codec Mpt.Ring

theorem err_code_neg' (e : Err) : e.code < 0 := by cases e <;> decide

/-- the parts handed to the decoder are the queue content -/
theorem flat_segsOf (r : Ring) (h : r.WF) (base : Nat) : flat (segsOf r base) = r.content := by
  obtain ⟨h1, h2⟩ := h
  unfold segsOf content
  simp only [Ring.max]
  split
  · rename_i hw
    simp only [flat, List.flatMap_cons, List.flatMap_nil, List.append_nil]
    have e1 : (r.store.drop r.off).take r.len = r.store.drop r.off :=
      List.take_of_length_le (by rw [List.length_drop]; omega)
    have e2 : (r.store.take r.off).take (r.len - (r.store.length - r.off)) = r.store.take (r.len - (r.store.length - r.off)) := by
      rw [List.take_take, Nat.min_eq_left (by omega)]
    rw [List.take_append, e1, List.length_drop, e2]
  · rename_i hw
    simp only [flat, List.flatMap_cons, List.flatMap_nil, List.append_nil]
    rw [List.take_append_of_le_length (by rw [List.length_drop]; omega)]

/-- storing the decoder's result: the content is the decoder's storage -/
theorem putContent_spec (r : Ring) (h : r.WF) (bytes : List Byte) (hl : bytes.length = r.len) :
    (putContent r bytes).length = r.store.length ∧
    ({ r with store := putContent r bytes } : Ring).content = bytes := by
  obtain ⟨h1, h2⟩ := h
  unfold putContent
  simp only [Ring.max]
  have hl1 : (bytes.take (min (r.store.length - r.off) r.len)).length = min (r.store.length - r.off) r.len := by
    rw [List.length_take]; omega
  have hl2 : (bytes.drop (min (r.store.length - r.off) r.len)).length = r.len - min (r.store.length - r.off) r.len := by
    rw [List.length_drop]; omega
  have hw1 := Mem.write_length r.store r.off (bytes.take (min (r.store.length - r.off) r.len)) (by omega)
  have hw2 := Mem.write_length (Mem.write r.store r.off (bytes.take (min (r.store.length - r.off) r.len))) 0
    (bytes.drop (min (r.store.length - r.off) r.len)) (by omega)
  refine ⟨by rw [hw2, hw1], ?_⟩
  apply List.ext_getElem?; intro i
  rw [getElem?_content _ _ (by simp only; rw [hw2, hw1]; exact h1) (by simp only; rw [hw2, hw1]; exact h2)]
  simp only [hw2, hw1]
  rw [Mem.getElem?_write _ _ _ _ (by omega), Mem.getElem?_write _ _ _ _ (by omega),
    Mem.getElem?_write _ _ _ _ (by omega), Mem.getElem?_write _ _ _ _ (by omega), hl1, hl2]
  simp only [List.getElem?_take, List.getElem?_drop]
  by_cases hi : i < r.len
  · rw [if_pos hi]
    ite_idx
  · rw [if_neg hi, List.getElem?_eq_none (by omega)]

/-- representation invariant of a decode queue: well-formed ring, consistent decoder offsets inside the
    queue data -/
structure DInv (q : DecodeQueue) : Prop where
  wf : q.ring.WF
  bnd : Bnd q.ring.len q.st

theorem DInv.fresh (store : List Byte) (off : Nat) (h : off ≤ store.length) (c : Option Variant) (base : Nat) :
    DInv { ring := { store := store, len := 0, off := off }, codec := c, base := base } :=
  ⟨⟨by simp, h⟩, ⟨by simp, by simp, by intro m hh; cases hh⟩⟩

/-- one decoder call on the queue data: no access outside the data, consistent offsets afterwards -/
theorem decCall_inv (v : Variant) (q : DecodeQueue) (h : DInv q) :
    DInv (decCall v q).1 ∧ (decCall v q).1.ring.store.length = q.ring.store.length ∧
    (decCall v q).1.ring.len = q.ring.len ∧ (decCall v q).1.ring.off = q.ring.off ∧
    (decCall v q).2 ≠ .oob ∧ (decCall v q).2 ≠ .clobber := by
  have hflat := flat_segsOf q.ring h.wf q.base
  have hcl := content_length q.ring h.wf.1 h.wf.2
  have htot : (flat (if false = true then (segsOf q.ring q.base).take 1 else segsOf q.ring q.base)).length = q.ring.len := by
    simp [hflat, hcl]
  have hb := decodeV_bnd v q.st (segsOf q.ring q.base) false (by rw [htot]; exact h.bnd)
  have hs := decodeV_safe v q.st (segsOf q.ring q.base) false h.bnd.msg
  rw [htot] at hb
  have hsl := hs.len
  rw [htot] at hsl
  obtain ⟨hpl, hpc⟩ := putContent_spec q.ring h.wf _ hsl
  unfold decCall
  refine ⟨⟨⟨by simp only; rw [hpl]; exact h.wf.1, by simp only; rw [hpl]; exact h.wf.2⟩, hb⟩, hpl, rfl, rfl, hs.nofault.1, hs.nofault.2⟩

/-- `mpt_queue_shift`: total, keeps the invariant and the capacity -/
theorem queueShift_inv (q : DecodeQueue) (h : DInv q) :
    ∃ q', queueShift q = .ok q' ∧ DInv q' ∧ q'.ring.store.length = q.ring.store.length ∧ q'.st.msg = q.st.msg ∧
      q'.codec = q.codec := by
  have hle := h.bnd.le
  have htot := h.bnd.tot
  unfold queueShift
  simp only
  by_cases hc : q.st.curr = 0
  · rw [if_pos hc]; exact ⟨q, rfl, h, rfl, rfl, rfl⟩
  rw [if_neg hc]
  generalize hcut : (if q.st.pos ≠ 0 ∨ q.st.len ≠ 0 ∨ q.st.ctx ≠ 0 then
      if q.st.pos < q.st.curr then (q.st.pos, 0) else (q.st.curr, q.st.pos - q.st.curr)
    else (q.st.curr, q.st.pos)) = cut
  have hcut1 : cut.1 ≤ q.st.curr ∧ cut.2 + q.st.len ≤ q.st.curr - cut.1 := by
    rw [← hcut]
    split
    · split
      · exact ⟨by simp only; omega, by simp only; omega⟩
      · exact ⟨by simp, by simp only; omega⟩
    · exact ⟨by simp, by simp only; omega⟩
  by_cases h0 : cut.1 = 0
  · rw [if_pos h0]; exact ⟨q, rfl, h, rfl, rfl, rfl⟩
  rw [if_neg h0]
  obtain ⟨r', c, he, hwf', hs', hl', _⟩ := crop_front q.ring h.wf cut.1 (by omega)
  rw [he]
  refine ⟨_, rfl, ⟨hwf', ⟨?_, ?_, ?_⟩⟩, by simp only; rw [hs'], rfl, rfl⟩
  · simp only; omega
  · simp only; omega
  · exact h.bnd.msg

theorem _root_.Mpt.Codec.Bnd.mono {total total' : Nat} {st : DecState} (h : Bnd total st) (ht : total ≤ total') : Bnd total' st :=
  ⟨h.le, Nat.le_trans h.tot ht, h.msg⟩

/-- more input arrives: total, keeps the invariant; accepted bytes are appended to the content -/
theorem queueFeed_inv (q : DecodeQueue) (bytes : List Byte) (h : DInv q) :
    ∃ q' c, queueFeed q bytes = .ok (q', c) ∧ DInv q' ∧ q'.ring.store.length = q.ring.store.length ∧ q'.st = q.st ∧
      ((c < 0 ∧ q' = q) ∨ q'.ring.content = q.ring.content ++ bytes) := by
  unfold queueFeed
  by_cases hc : q.ring.len < q.ring.store.length ∧ bytes.length ≤ q.ring.store.length - q.ring.len
  · obtain ⟨r', c, he, hwf', hs', hc'⟩ := qpush_ok q.ring h.wf bytes.length (some bytes) hc.1 hc.2
    rw [he]
    have hsrc := setSrc_some' bytes
    rw [hsrc] at hc'
    have hl' : r'.len = q.ring.len + bytes.length := by
      have a := content_length r' hwf'.1 hwf'.2
      have b := content_length q.ring h.wf.1 h.wf.2
      rw [hc', List.length_append, b] at a; omega
    exact ⟨_, c, rfl, ⟨hwf', h.bnd.mono (by simp only; omega)⟩, hs', rfl, Or.inr hc'⟩
  · rw [qpush_refused q.ring h.wf bytes.length (some bytes) (by have := h.wf.1; omega)]
    exact ⟨q, _, rfl, h, rfl, rfl, Or.inl ⟨err_code_neg' _, rfl⟩⟩

/-- the decoded data is moved to the start of the enlarged work area: total, shape of the ring kept -/
theorem moveBackLoop_shape (shift : Nat) : ∀ (fuel left : Nat) (r : Ring) (pos : Nat), left ≤ fuel → r.WF →
    pos + shift + left ≤ r.len →
    ∃ r', moveBackLoop shift fuel r pos left = .ok r' ∧ r'.WF ∧ r'.store.length = r.store.length ∧ r'.len = r.len ∧ r'.off = r.off := by
  intro fuel
  induction fuel with
  | zero => intro left r pos _ hwf _; exact ⟨r, rfl, hwf, rfl, rfl, rfl⟩
  | succ fuel ih =>
    intro left r pos hf hwf hfit
    unfold moveBackLoop
    by_cases h0 : left = 0
    · rw [if_pos h0]; exact ⟨r, rfl, hwf, rfl, rfl, rfl⟩
    rw [if_neg h0]
    simp only
    obtain ⟨c, hget⟩ := get_ok r hwf (pos + shift) (min left 256) (by omega) (by omega)
    rw [hget]
    simp only
    obtain ⟨r1, c1, hset, hwf1, hs1, ho1, hl1, _⟩ := set_ok r hwf pos (min left 256)
      (some ((r.content.drop (pos + shift)).take (min left 256))) (by omega) (by omega)
    rw [hset]
    simp only
    obtain ⟨r', he, hwf', hs', hl', ho'⟩ := ih (left - min left 256) r1 (pos + min left 256) (by omega) hwf1 (by rw [hl1]; omega)
    exact ⟨r', he, hwf', by rw [hs', hs1], by rw [hl', hl1], by rw [ho', ho1]⟩

theorem moveBack_shape (shift left : Nat) (r : Ring) (pos : Nat) (hwf : r.WF) (hfit : pos + shift + left ≤ r.len) :
    ∃ r', moveBack r shift pos left = .ok r' ∧ r'.WF ∧ r'.store.length = r.store.length ∧ r'.len = r.len ∧ r'.off = r.off :=
  moveBackLoop_shape shift left left r pos (Nat.le_refl _) hwf hfit

/-- enlarge the storage: total, keeps the invariant and the content -/
theorem queueGrow_inv (q : DecodeQueue) (n : Nat) (h : DInv q) :
    ∃ q', queueGrow q n = .ok q' ∧ DInv q' ∧ q'.st = q.st ∧ q'.ring.content = q.ring.content ∧
      q.ring.store.length ≤ q'.ring.store.length := by
  unfold queueGrow
  simp only [Ring.max]
  by_cases hn : n ≤ q.ring.store.length
  · rw [if_pos hn]; exact ⟨q, rfl, h, rfl, rfl, Nat.le_refl _⟩
  rw [if_neg hn]
  obtain ⟨r', he, hwf', hs', hc'⟩ := resize_spec q.ring h.wf n
  rw [he]
  have hsub : q.ring.len - n = 0 := by have := h.wf.1; omega
  rw [hsub, List.drop_zero] at hc'
  have hl' : r'.len = q.ring.len := by
    have a := content_length r' hwf'.1 hwf'.2
    have b := content_length q.ring h.wf.1 h.wf.2
    rw [hc', b] at a; exact a.symm
  exact ⟨_, rfl, ⟨hwf', by simp only; rw [hl']; exact h.bnd⟩, rfl, hc', by simp only; omega⟩

/-- the end of a successful receive -/
theorem recvDone_inv (q : DecodeQueue) (h : DInv q) :
    ∃ q' r, recvDone q = .ok (q', r) ∧ DInv q' ∧ q'.ring.store.length = q.ring.store.length ∧
      q'.codec = q.codec ∧ (r = 1 ∨ r = 0) ∧ (r = 1 ↔ q'.st.msg.isSome) := by
  obtain ⟨q', he, hi, hs, hm, hcd⟩ := queueShift_inv q h
  unfold recvDone
  rw [he]
  refine ⟨q', _, rfl, hi, hs, hcd, ?_, ?_⟩
  · split <;> simp
  · split <;> simp_all

/-- `MissingBuffer` recovery: total, keeps the invariant and the capacity -/
theorem recvRetry_inv (v : Variant) (q : DecodeQueue) (h : DInv q) :
    ∃ q' r, recvRetry v q = .ok (q', r) ∧ DInv q' ∧ q'.ring.store.length = q.ring.store.length ∧ q'.codec = q.codec := by
  unfold recvRetry
  simp only [Ring.max]
  by_cases hfull : q.ring.len < q.ring.store.length
  · obtain ⟨r1, k, he, hwf1, hs1, hl1, _⟩ := qpre_ok q.ring h.wf (q.ring.store.length - q.ring.len) hfull (Nat.le_refl _)
    rw [he]
    simp only
    have hle := h.bnd.le
    have htot := h.bnd.tot
    obtain ⟨r2, hmv, hwf2, hs2, hl2, ho2⟩ := moveBack_shape (q.ring.store.length - q.ring.len) q.st.len r1 q.st.pos hwf1
      (by rw [hl1]; omega)
    rw [hmv]
    simp only
    have hi1 : DInv { q with ring := r2, st := { q.st with curr := q.st.curr + (q.ring.store.length - q.ring.len) } } :=
      ⟨hwf2, ⟨by simp only; omega, by simp only; rw [hl2, hl1]; omega, h.bnd.msg⟩⟩
    obtain ⟨hi2, hsl2, _, _, hno, hnc⟩ := decCall_inv v _ hi1
    have hcd2 : (decCall v { q with ring := r2, st := { q.st with curr := q.st.curr + (q.ring.store.length - q.ring.len) } }).1.codec = q.codec := rfl
    generalize hdc : decCall v { q with ring := r2, st := { q.st with curr := q.st.curr + (q.ring.store.length - q.ring.len) } } = dc at hi2 hsl2 hno hnc hcd2
    obtain ⟨q2, ret⟩ := dc
    have hsl : q2.ring.store.length = q.ring.store.length := by
      simp only at hsl2; rw [hsl2, hs2, hs1]
    cases ret with
    | val n =>
      obtain ⟨q', r, he', hi', hs', hcd', _⟩ := recvDone_inv q2 hi2
      exact ⟨q', r, he', hi', by rw [hs', hsl], by rw [hcd']; exact hcd2⟩
    | err e => exact ⟨q2, _, rfl, hi2, hsl, hcd2⟩
    | oob => exact absurd rfl hno
    | clobber => exact absurd rfl hnc
  · rw [qpre_refused q.ring h.wf _ (by have := h.wf.1; omega)]
    exact ⟨q, _, rfl, h, rfl, rfl⟩

/-- **`mpt_queue_recv` on any queue state that satisfies the invariant**: the call is total (no access
    outside the storage, the decoder never writes at or behind its read position), keeps the invariant
    `pos + len ≤ curr ≤ data.len ≤ max` and the capacity -/
theorem queueRecv_inv (v : Variant) (q : DecodeQueue) (hc : q.codec = some v) (h : DInv q) :
    ∃ q' r, queueRecv q = .ok (q', r) ∧ DInv q' ∧ q'.ring.store.length = q.ring.store.length ∧ q'.codec = some v := by
  unfold queueRecv
  by_cases h0 : q.ring.len = 0
  · rw [if_pos h0]
    split
    · refine ⟨_, _, rfl, ⟨h.wf, ⟨h.bnd.le, h.bnd.tot, by intro m hh; cases hh⟩⟩, rfl, hc⟩
    · exact ⟨q, _, rfl, h, rfl, hc⟩
  rw [if_neg h0, hc]
  simp only
  obtain ⟨hi1, hsl1, hl1, _, hno, hnc⟩ := decCall_inv v q h
  have hc1 : (decCall v q).1.codec = some v := hc
  generalize hdc : decCall v q = dc at hi1 hsl1 hl1 hno hnc hc1
  obtain ⟨q1, ret⟩ := dc
  simp only at hsl1 hl1 hc1
  cases ret with
  | val n =>
    obtain ⟨q', r, he', hi', hs', hcd', _⟩ := recvDone_inv q1 hi1
    exact ⟨q', r, he', hi', by rw [hs', hsl1], by rw [hcd']; exact hc1⟩
  | err e =>
    simp only
    by_cases hne : e ≠ .MissingBuffer
    · rw [if_pos hne]; exact ⟨q1, _, rfl, hi1, hsl1, hc1⟩
    rw [if_neg hne]
    by_cases hfull : q1.ring.len ≥ q1.ring.max
    · rw [if_pos hfull]; exact ⟨q1, _, rfl, hi1, hsl1, hc1⟩
    rw [if_neg hfull]
    obtain ⟨q', r, he', hi', hs', hcd'⟩ := recvRetry_inv v q1 hi1
    exact ⟨q', r, he', hi', by rw [hs', hsl1], by rw [hcd']; exact hc1⟩
  | oob => exact absurd rfl hno
  | clobber => exact absurd rfl hnc

end Mpt.CQ
