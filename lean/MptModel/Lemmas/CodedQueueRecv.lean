/-
  Helper lemmas for C02, receive side (core Lean only): the decode queue fed with a valid frame stream in
  arbitrary pieces — every message `mpt_queue_recv` delivers is the reference decoding of the next frame.
-/
import MptModel.Lemmas.DecodeCall
import MptModel.Lemmas.Stream
namespace Mpt.Codec
open Mpt.Cobs

/-- more input arrives behind the storage -/
theorem Hist.append {v : Variant} {c0 : Nat} {U : List Byte} {st : DecState} {store : List Byte} (h : Hist v c0 U st store)
    (hle : st.pos + st.len ≤ st.curr) (piece : List Byte) : Hist v c0 (U ++ piece) st (store ++ piece) := by
  obtain ⟨hmsg, hcurr, c, p, hctx, hc0, hc, hp, hrel⟩ := h
  refine ⟨hmsg, by rw [List.length_append]; omega, c, p, hctx, hc0, hc, hp, ?_⟩
  intro more
  rw [List.append_assoc, hrel, List.drop_append_of_le_length hcurr, List.append_assoc,
    take_drop_append_le _ _ _ _ (by omega)]

/-- consumed bytes in front of the message are dropped -/
theorem Hist.shift {v : Variant} {c0 : Nat} {U : List Byte} {st : DecState} {store : List Byte} (h : Hist v c0 U st store)
    (n : Nat) (hn : n ≤ st.pos) (hle : st.pos + st.len ≤ st.curr) (p' : Nat) (hp' : p' = st.pos - n) :
    Hist v c0 U { st with curr := st.curr - n, pos := p' } (store.drop n) := by
  obtain ⟨hmsg, hcurr, c, p, hctx, hc0, hc, hp, hrel⟩ := h
  subst hp'
  refine ⟨hmsg, by simp only [List.length_drop]; omega, c, p, hctx, hc0, hc, hp, ?_⟩
  intro more
  simp only [List.drop_drop]
  rw [show n + (st.curr - n) = st.curr by omega, show n + (st.pos - n) = st.pos by omega]
  exact hrel more

/-- the storage changes only in front of the message and between message and input position -/
theorem Hist.move {v : Variant} {c0 : Nat} {U : List Byte} {st : DecState} {store store' : List Byte} (h : Hist v c0 U st store)
    (add : Nat) (hl : st.curr + add ≤ store'.length)
    (hun : store'.drop (st.curr + add) = store.drop st.curr)
    (hreg : (store'.drop st.pos).take st.len = (store.drop st.pos).take st.len) :
    Hist v c0 U { st with curr := st.curr + add } store' := by
  obtain ⟨hmsg, hcurr, c, p, hctx, hc0, hc, hp, hrel⟩ := h
  refine ⟨hmsg, hl, c, p, hctx, hc0, hc, hp, ?_⟩
  intro more
  simp only
  rw [hun, hreg]
  exact hrel more

/-- the first zero byte of a list is unique -/
theorem zero_split_unique : ∀ (a b x y : List Byte), (∀ z ∈ a, z ≠ 0) → (∀ z ∈ b, z ≠ 0) →
    a ++ 0 :: x = b ++ 0 :: y → a = b ∧ x = y := by
  intro a
  induction a with
  | nil =>
    intro b x y _ hb h
    cases b with
    | nil => simpa using h
    | cons b0 bs =>
      simp only [List.nil_append, List.cons_append, List.cons.injEq] at h
      exact absurd h.1.symm (hb b0 (by simp))
  | cons a0 as ih =>
    intro b x y ha hb h
    cases b with
    | nil =>
      simp only [List.nil_append, List.cons_append, List.cons.injEq] at h
      exact absurd h.1 (ha a0 (by simp))
    | cons b0 bs =>
      simp only [List.cons_append, List.cons.injEq] at h
      obtain ⟨e1, e2⟩ := ih bs x y (fun z hz => ha z (by simp [hz])) (fun z hz => hb z (by simp [hz])) h.2
      exact ⟨by rw [h.1, e1], e2⟩

/-- what a call consumed, as a decomposition of the unread input it started with -/
theorem Scan.split {s : List Byte} {c : Nat} {o : DecOut} (h : Scan s c o) :
    (o.ret ≠ .val 1 → ∃ mid, s.drop c = mid ++ s.drop o.st.curr ∧ ∀ x ∈ mid, x ≠ 0) ∧
    (o.ret = .val 1 → ∃ pre, s.drop c = pre ++ 0 :: s.drop o.st.curr ∧ ∀ x ∈ pre, x ≠ 0) := by
  have hge := h.ge
  have hle := h.le
  constructor
  · intro hne
    refine ⟨(s.drop c).take (o.st.curr - c), ?_, ?_⟩
    · have := List.take_append_drop (o.st.curr - c) (s.drop c)
      rw [List.drop_drop, show c + (o.st.curr - c) = o.st.curr by omega] at this
      exact this.symm
    · intro x hx
      obtain ⟨j, hj, rfl⟩ := List.getElem_of_mem hx
      rw [List.length_take, List.length_drop] at hj
      have := h.nz (c + j) (by omega) (by simp only [hne, if_false]; omega)
      intro h0
      apply this
      rw [← h0, List.getElem_take, List.getElem_drop]
      exact List.getElem?_eq_getElem _
  · intro h1
    obtain ⟨hlt, hz⟩ := h.last h1
    refine ⟨(s.drop c).take (o.st.curr - 1 - c), ?_, ?_⟩
    · have e1 := List.take_append_drop (o.st.curr - 1 - c) (s.drop c)
      rw [List.drop_drop, show c + (o.st.curr - 1 - c) = o.st.curr - 1 by omega] at e1
      have hl1 : o.st.curr - 1 < s.length := by omega
      have e2 : s.drop (o.st.curr - 1) = 0 :: s.drop o.st.curr := by
        rw [List.drop_eq_getElem_cons hl1, show o.st.curr - 1 + 1 = o.st.curr by omega]
        congr 1
        have := List.getElem?_eq_getElem hl1
        rw [hz] at this
        exact (Option.some.inj this).symm
      rw [e2] at e1
      exact e1.symm
    · intro x hx
      obtain ⟨j, hj, rfl⟩ := List.getElem_of_mem hx
      rw [List.length_take, List.length_drop] at hj
      have := h.nz (c + j) (by omega) (by simp only [h1, if_true]; omega)
      intro h0
      apply this
      rw [← h0, List.getElem_take, List.getElem_drop]
      exact List.getElem?_eq_getElem _

end Mpt.Codec

namespace Mpt.CQ
open Mpt Mpt.Cobs Mpt.Codec Mpt.Ring Mpt.Stream

/-- `mpt_message_get` denotes the bytes of the queue content -/
theorem messageGet_spec (r : Ring) (h : r.WF) (off take : Nat) (hfit : off + take ≤ r.len) :
    ∃ c, messageGet r off take = .ok (c, (r.content.drop off).take take) := by
  obtain ⟨h1, h2⟩ := h
  have hel : ∀ (a b : List Byte), a = b → ∀ c : Int, (Res.ok (c, a) : Res (Int × List Byte)) = .ok (c, b) := by
    intro a b e c; rw [e]
  unfold messageGet low
  simp only [Ring.max]
  by_cases hA : off < min (r.store.length - r.off) r.len
  · simp only [hA, if_true]
    rw [if_neg (by omega)]
    by_cases hB : take ≤ min (r.store.length - r.off) r.len - off
    · rw [if_pos hB, Mem.rd_ok _ _ _ (by omega)]
      refine ⟨0, hel _ _ ?_ 0⟩
      apply List.ext_getElem?; intro i
      rw [List.getElem?_take, List.getElem?_drop, getElem?_content _ _ h1 h2, Mem.getElem?_read]
      ite_idx
    · rw [if_neg hB]
      simp only [Bool.not_true, Bool.false_eq_true, if_false]
      rw [Mem.rd_ok _ _ _ (by omega), Mem.rd_ok _ _ _ (by omega)]
      refine ⟨1, hel _ _ ?_ 1⟩
      apply List.ext_getElem?; intro i
      rw [List.getElem?_take, List.getElem?_drop, getElem?_content _ _ h1 h2, List.getElem?_append,
        Mem.read_length _ _ _ (by omega), Mem.getElem?_read, Mem.getElem?_read]
      ite_idx
  · simp only [hA, if_false]
    by_cases hC : off - min (r.store.length - r.off) r.len > r.len - min (r.store.length - r.off) r.len
    · omega
    try rw [if_neg hC]
    simp only []
    rw [if_neg (by omega), if_pos (by omega), Mem.rd_ok _ _ _ (by omega)]
    refine ⟨0, hel _ _ ?_ 0⟩
    apply List.ext_getElem?; intro i
    rw [List.getElem?_take, List.getElem?_drop, getElem?_content _ _ h1 h2, Mem.getElem?_read]
    ite_idx

/-- the frame at index `k` of a stream that carries `ms` -/
theorem carries_at {v : Variant} : ∀ (k : Nat) (fs : List (List Byte)) (ms : List Msg), Carries v fs ms →
    ∀ f tl, fs.drop k = f :: tl → ∃ m, ms[k]? = some m ∧ IsFrame f ∧ dec v f = some m ∧ fs[k]? = some f := by
  intro k
  induction k with
  | zero =>
    intro fs ms h f tl hd
    cases h with
    | nil => simp at hd
    | cons a _ =>
      simp only [List.drop_zero, List.cons.injEq] at hd
      obtain ⟨rfl, _⟩ := hd
      exact ⟨_, rfl, a.1, a.2, rfl⟩
  | succ k ih =>
    intro fs ms h f tl hd
    cases h with
    | nil => simp at hd
    | cons a b =>
      simp only [List.drop_succ_cons] at hd
      obtain ⟨m, h1, h2, h3, h4⟩ := ih _ _ b f tl hd
      exact ⟨m, by simpa using h1, h2, h3, by simpa using h4⟩

/-- a frame the reference decoder accepts starts with a non-zero byte -/
theorem frame_shape {v : Variant} {f : List Byte} {m : Msg} (hf : IsFrame f) (hd : dec v f = some m) :
    ∃ b0 body, f = b0 :: (body ++ [0]) ∧ b0 ≠ 0 ∧ ∀ x ∈ body, x ≠ 0 := by
  obtain ⟨body', rfl, hnz⟩ := hf.split
  cases body' with
  | nil => simp [dec] at hd
  | cons b0 body => exact ⟨b0, body, rfl, hnz b0 (by simp), fun x hx => hnz x (by simp [hx])⟩

/-- the bytes of a valid stream behind its first `k` frames -/
theorem stream_at {v : Variant} {frames : List (List Byte)} {ms : List Msg} (hc : Carries v frames ms) (k : Nat)
    (X future : List Byte) (hs : (frames.take k).flatten ++ X ++ future = frames.flatten) (hX : X ≠ []) :
    ∃ m b0 body, ms[k]? = some m ∧ b0 ≠ 0 ∧ (∀ x ∈ body, x ≠ 0) ∧ dec v (b0 :: (body ++ [0])) = some m ∧
      frames[k]? = some (b0 :: (body ++ [0])) ∧
      X ++ future = b0 :: (body ++ [0]) ++ (frames.drop (k + 1)).flatten := by
  have hsplit : frames.flatten = (frames.take k).flatten ++ (frames.drop k).flatten := by
    rw [← List.flatten_append, List.take_append_drop]
  rw [hsplit, List.append_assoc] at hs
  have hx := List.append_cancel_left hs
  cases hdk : frames.drop k with
  | nil =>
    rw [hdk] at hx
    simp only [List.flatten_nil, List.append_eq_nil_iff] at hx
    exact absurd hx.1 hX
  | cons f tl =>
    obtain ⟨m, h1, h2, h3, h4⟩ := carries_at k frames ms hc f tl hdk
    obtain ⟨b0, body, rfl, hb0, hnz⟩ := frame_shape h2 h3
    refine ⟨m, b0, body, h1, hb0, hnz, h3, h4, ?_⟩
    rw [hx, hdk]
    have : frames.drop (k + 1) = tl := by
      have := congrArg (List.drop 1) hdk
      simpa [List.drop_drop, Nat.add_comm] using this
    rw [this]; simp

/-- where the receiver stands in a valid stream `frames` after consuming `fed`, having finished `k` frames:
    between two frames, or inside frame `k` with first byte `c0` and consumed bytes `Uc` -/
inductive Phase (v : Variant) (frames : List (List Byte)) (st : DecState) (content fed : List Byte) (k : Nat) : Prop where
  | idle : Fresh st → st.curr ≤ content.length → (frames.take k).flatten ++ content.drop st.curr = fed →
      Phase v frames st content fed k
  | busy (c0 : Byte) (Uc : List Byte) : c0 ≠ 0 → (∀ x ∈ Uc, x ≠ 0) →
      Hist v c0.toNat (Uc ++ content.drop st.curr) st content →
      (frames.take k).flatten ++ c0 :: (Uc ++ content.drop st.curr) = fed → Phase v frames st content fed k

/-- **after a decoder call inside frame `k`**: the receiver is still inside the frame, or it delivered
    exactly the message of frame `k` and stands behind the frame -/
theorem phase_after (v : Variant) (frames : List (List Byte)) (ms : List Msg) (hcar : Carries v frames ms)
    (content fed future : List Byte) (hfut : fed ++ future = frames.flatten) (k c : Nat) (c0 : Byte) (Uc0 : List Byte)
    (o : DecOut) (hc0 : c0 ≠ 0) (hnz0 : ∀ x ∈ Uc0, x ≠ 0)
    (hfed : (frames.take k).flatten ++ c0 :: (Uc0 ++ content.drop c) = fed)
    (hout : CallOut v c0.toNat (Uc0 ++ content.drop c) content c o) :
    (o.ret ≠ .val 1 → Phase v frames o.st o.store fed k ∧ o.st.msg = none) ∧
    (o.ret = .val 1 → Phase v frames o.st o.store fed (k + 1) ∧ ms[k]? = some o.region ∧ o.st.msg = some o.st.len) := by
  have hsc := hout.scan
  constructor
  · intro hne
    obtain ⟨mid, hmid, hmnz⟩ := hsc.split.1 hne
    refine ⟨Phase.busy c0 (Uc0 ++ mid) hc0 ?_ ?_ ?_, (hout.hist hne).msg⟩
    · intro x hx
      rcases List.mem_append.mp hx with h | h
      · exact hnz0 x h
      · exact hmnz x h
    · have := hout.hist hne
      rw [hsc.unread, List.append_assoc, ← hmid]
      exact this
    · rw [hsc.unread, List.append_assoc, ← hmid]
      exact hfed
  · intro h1
    obtain ⟨pre, hpre, hpnz⟩ := hsc.split.2 h1
    obtain ⟨hdel, hctx, hmsg⟩ := hout.one h1
    have hs : (frames.take k).flatten ++ (c0 :: (Uc0 ++ content.drop c)) ++ future = frames.flatten := by
      rw [hfed]; exact hfut
    obtain ⟨m, b0, body, hm, hb0, hbnz, hdec, hfk, hX⟩ := stream_at hcar k _ future hs (by simp)
    rw [hpre] at hX
    simp only [List.cons_append, List.append_assoc, List.cons.injEq] at hX
    obtain ⟨rfl, hX2⟩ := hX
    have hun := zero_split_unique (Uc0 ++ pre) body (content.drop o.st.curr ++ future) ((frames.drop (k + 1)).flatten)
      (by
        intro x hx
        rcases List.mem_append.mp hx with h | h
        · exact hnz0 x h
        · exact hpnz x h) hbnz (by simpa using hX2)
    obtain ⟨hbody, hrest⟩ := hun
    have hreg : dec v (c0 :: body ++ [0]) = some o.region :=
      hdel.dec hc0 (rest := []) (junk := content.drop o.st.curr) (by rw [hpre, ← hbody]; simp) hbnz
    have hm' : m = o.region := by
      have : dec v (c0 :: (body ++ [0])) = some o.region := by simpa using hreg
      rw [hdec] at this; exact Option.some.inj this
    have hfresh : Fresh o.st :=
      ⟨hctx, (fun hn => by rw [hmsg] at hn; cases hn), (fun m' hm'' => by rw [hmsg] at hm''; exact (Option.some.inj hm'').symm)⟩
    refine ⟨Phase.idle hfresh (by rw [hsc.len]; exact hsc.le) ?_, by rw [hm, hm'], hmsg⟩
    have hk : k < frames.length := by
      rcases Nat.lt_or_ge k frames.length with a | a
      · exact a
      · rw [List.getElem?_eq_none a] at hfk; cases hfk
    have htk : frames.take (k + 1) = frames.take k ++ [c0 :: (body ++ [0])] := by
      rw [List.take_add_one, hfk]; rfl
    rw [htk, List.flatten_append, hsc.unread, ← hfed, hpre, ← hbody]
    simp

/-- **one decoder call of a receiver in a valid stream** (data in any segments): it stays where it is in the
    stream, or delivers exactly the message of the next frame -/
theorem phase_call (v : Variant) (frames : List (List Byte)) (ms : List Msg) (hcar : Carries v frames ms)
    (st : DecState) (content fed future : List Byte) (hfut : fed ++ future = frames.flatten) (k : Nat)
    (segs : List Seg) (hflat : flat segs = content) (hb : Bnd content.length st)
    (hph : Phase v frames st content fed k) :
    ((decodeV v st segs false).ret ≠ .val 1 →
      Phase v frames (decodeV v st segs false).st (decodeV v st segs false).store fed k ∧ (decodeV v st segs false).st.msg = none) ∧
    ((decodeV v st segs false).ret = .val 1 →
      Phase v frames (decodeV v st segs false).st (decodeV v st segs false).store fed (k + 1) ∧
      ms[k]? = some (decodeV v st segs false).region ∧
      (decodeV v st segs false).st.msg = some (decodeV v st segs false).st.len) := by
  cases hph with
  | idle hf hcl hfed =>
    cases hun : content.drop st.curr with
    | nil =>
      obtain ⟨e1, e2, e3, e4, e5⟩ := fresh_call_nil v segs st content hflat hb hf hun
      have he := decodeV_eq_of_ret v st segs (by rw [e1]; simp)
      rw [he]
      refine ⟨fun _ => ⟨Phase.idle e2 (by rw [e4, e3]; exact hcl) (by rw [e4, e3]; exact hfed), e5⟩, fun h1 => ?_⟩
      rw [e1] at h1; cases h1
    | cons b U =>
      have hs : (frames.take k).flatten ++ (b :: U) ++ future = frames.flatten := by
        rw [← hun, hfed]; exact hfut
      obtain ⟨m, b0, body, _, hb0, _, _, _, hX⟩ := stream_at hcar k _ future hs (by simp)
      simp only [List.cons_append, List.cons.injEq] at hX
      obtain ⟨rfl, _⟩ := hX
      have hU : U = content.drop (st.curr + 1) := by
        have := congrArg (List.drop 1) hun
        simpa [List.drop_drop, Nat.add_comm] using this.symm
      have hout := lift_out v st segs b.toNat U content (st.curr + 1) hf.wf
        (fresh_call0 v segs st content hflat hb hf b U hun hb0)
      exact phase_after v frames ms hcar content fed future hfut k (st.curr + 1) b [] _ hb0 (by simp)
        (by rw [← hfed, hun, hU]; simp) (by simpa [hU] using hout)
  | busy c0 Uc hc0 hnz hh hfed =>
    have hb' : Bnd (content ++ []).length st := by simpa using hb
    have h0 := mid_call0 v segs st content [] c0.toNat (Uc ++ content.drop st.curr) (by simpa using hflat) hb' hh
    simp only [List.append_nil] at h0
    have hout := lift_out v st segs c0.toNat _ content st.curr (by intro m hm; rw [hh.msg] at hm; cases hm) h0
    exact phase_after v frames ms hcar content fed future hfut k st.curr c0 Uc _ hc0 hnz hfed hout

/-- more input arrives -/
theorem Phase.feed {v : Variant} {frames : List (List Byte)} {st : DecState} {content fed : List Byte} {k : Nat}
    (h : Phase v frames st content fed k) (hle : st.pos + st.len ≤ st.curr) (bytes : List Byte) :
    Phase v frames st (content ++ bytes) (fed ++ bytes) k := by
  cases h with
  | idle hf hcl hfed =>
    refine Phase.idle hf (by rw [List.length_append]; omega) ?_
    rw [List.drop_append_of_le_length hcl, ← List.append_assoc, hfed]
  | busy c0 Uc hc0 hnz hh hfed =>
    have hcl := hh.curr
    refine Phase.busy c0 Uc hc0 hnz ?_ ?_
    · rw [List.drop_append_of_le_length hcl, ← List.append_assoc]
      exact hh.append hle bytes
    · rw [List.drop_append_of_le_length hcl, ← hfed]; simp

/-- consumed bytes are removed from the queue start -/
theorem Phase.shift {v : Variant} {frames : List (List Byte)} {st : DecState} {content fed : List Byte} {k : Nat}
    (h : Phase v frames st content fed k) (hle : st.pos + st.len ≤ st.curr) (n p' : Nat) (hn : n ≤ st.curr)
    (hp : st.ctx ≠ 0 → n ≤ st.pos ∧ p' = st.pos - n) :
    Phase v frames { st with curr := st.curr - n, pos := p' } (content.drop n) fed k := by
  cases h with
  | idle hf hcl hfed =>
    refine Phase.idle ⟨hf.ctx, hf.hnone, hf.hsome⟩ (by simp only [List.length_drop]; omega) ?_
    simp only [List.drop_drop]
    rw [show n + (st.curr - n) = st.curr by omega]; exact hfed
  | busy c0 Uc hc0 hnz hh hfed =>
    have hctx : st.ctx ≠ 0 := by
      obtain ⟨_, _, c, p, e, h0, _⟩ := hh
      rw [e]; omega
    obtain ⟨hnp, hp'⟩ := hp hctx
    have hd : (content.drop n).drop (st.curr - n) = content.drop st.curr := by
      rw [List.drop_drop, show n + (st.curr - n) = st.curr by omega]
    refine Phase.busy c0 Uc hc0 hnz ?_ ?_
    · simp only; rw [hd]; exact hh.shift n hnp hle p' hp'
    · simp only; rw [hd]; exact hfed

/-- the work area in front of the input position is enlarged -/
theorem Phase.move {v : Variant} {frames : List (List Byte)} {st : DecState} {content content' fed : List Byte} {k : Nat}
    (h : Phase v frames st content fed k) (add : Nat) (hl : st.curr + add ≤ content'.length)
    (hun : content'.drop (st.curr + add) = content.drop st.curr)
    (hreg : (content'.drop st.pos).take st.len = (content.drop st.pos).take st.len) :
    Phase v frames { st with curr := st.curr + add } content' fed k := by
  cases h with
  | idle hf hcl hfed =>
    exact Phase.idle ⟨hf.ctx, hf.hnone, hf.hsome⟩ hl (by simp only; rw [hun]; exact hfed)
  | busy c0 Uc hc0 hnz hh hfed =>
    refine Phase.busy c0 Uc hc0 hnz ?_ (by simp only; rw [hun]; exact hfed)
    simp only; rw [hun]
    exact hh.move add hl hun hreg

/-- the decoded data moved back by `shift`: element-wise effect on the content -/
theorem moveBackLoop_content (shift : Nat) : ∀ (fuel left : Nat) (r : Ring) (pos : Nat), left ≤ fuel → r.WF →
    pos + shift + left ≤ r.len →
    ∃ r', moveBackLoop shift fuel r pos left = .ok r' ∧ r'.WF ∧ r'.store.length = r.store.length ∧ r'.len = r.len ∧
      r'.off = r.off ∧
      ∀ i, r'.content[i]? = if pos ≤ i ∧ i < pos + left then r.content[i + shift]? else r.content[i]? := by
  intro fuel
  induction fuel with
  | zero =>
    intro left r pos hl hwf _
    refine ⟨r, rfl, hwf, rfl, rfl, rfl, ?_⟩
    intro i; rw [if_neg (by omega)]
  | succ fuel ih =>
    intro left r pos hf hwf hfit
    unfold moveBackLoop
    by_cases h0 : left = 0
    · rw [if_pos h0]
      refine ⟨r, rfl, hwf, rfl, rfl, rfl, ?_⟩
      intro i; rw [if_neg (by omega)]
    rw [if_neg h0]
    simp only
    have hcl := content_length r hwf.1 hwf.2
    obtain ⟨c, hget⟩ := get_ok r hwf (pos + shift) (min left 256) (by omega) (by omega)
    rw [hget]
    simp only
    obtain ⟨r1, c1, hset, hwf1, hs1, ho1, hl1, hc1⟩ := set_ok r hwf pos (min left 256)
      (some ((r.content.drop (pos + shift)).take (min left 256))) (by omega) (by omega)
    rw [hset]
    simp only
    have hbl : ((r.content.drop (pos + shift)).take (min left 256)).length = min left 256 := by
      rw [List.length_take, List.length_drop]; omega
    have hsrc : setSrc (min left 256) (some ((r.content.drop (pos + shift)).take (min left 256)))
        = (r.content.drop (pos + shift)).take (min left 256) := by
      have := setSrc_some' ((r.content.drop (pos + shift)).take (min left 256))
      rwa [hbl] at this
    rw [hsrc] at hc1
    obtain ⟨r', he, hwf', hs', hl', ho', hel'⟩ := ih (left - min left 256) r1 (pos + min left 256) (by omega) hwf1 (by rw [hl1]; omega)
    refine ⟨r', he, hwf', by rw [hs', hs1], by rw [hl', hl1], by rw [ho', ho1], ?_⟩
    intro i
    have hsp := fun j => getElem?_spliced r.content ((r.content.drop (pos + shift)).take (min left 256)) pos j (by rw [hbl]; omega)
    rw [hbl] at hsp
    rw [hel' i, hc1, hsp, hsp]
    simp only [List.getElem?_take, List.getElem?_drop]
    ite_idx

theorem moveBack_content (shift left : Nat) (r : Ring) (pos : Nat) (hwf : r.WF) (hfit : pos + shift + left ≤ r.len) :
    ∃ r', moveBack r shift pos left = .ok r' ∧ r'.WF ∧ r'.store.length = r.store.length ∧ r'.len = r.len ∧
      r'.off = r.off ∧
      ∀ i, r'.content[i]? = if pos ≤ i ∧ i < pos + left then r.content[i + shift]? else r.content[i]? :=
  moveBackLoop_content shift left left r pos (Nat.le_refl _) hwf hfit

/-- one decoder call on the queue data of a receiver in a valid stream -/
theorem decCall_phase (v : Variant) (frames : List (List Byte)) (ms : List Msg) (hcar : Carries v frames ms)
    (q : DecodeQueue) (fed future : List Byte) (hfut : fed ++ future = frames.flatten) (k : Nat) (h : DInv q)
    (hph : Phase v frames q.st q.ring.content fed k) :
    ((decCall v q).2 ≠ .val 1 →
      Phase v frames (decCall v q).1.st (decCall v q).1.ring.content fed k ∧ (decCall v q).1.st.msg = none) ∧
    ((decCall v q).2 = .val 1 →
      Phase v frames (decCall v q).1.st (decCall v q).1.ring.content fed (k + 1) ∧
      ms[k]? = some (((decCall v q).1.ring.content.drop (decCall v q).1.st.pos).take (decCall v q).1.st.len) ∧
      (decCall v q).1.st.msg = some (decCall v q).1.st.len) := by
  have hflat := flat_segsOf q.ring h.wf q.base
  have hcl := content_length q.ring h.wf.1 h.wf.2
  have hb : Bnd q.ring.content.length q.st := by rw [hcl]; exact h.bnd
  have hs := decodeV_safe v q.st (segsOf q.ring q.base) false h.bnd.msg
  have hsl : (decodeV v q.st (segsOf q.ring q.base) false).store.length = q.ring.len := by
    have := hs.len; simpa [hflat, hcl] using this
  obtain ⟨_, hpc⟩ := putContent_spec q.ring h.wf _ hsl
  have := phase_call v frames ms hcar q.st q.ring.content fed future hfut k (segsOf q.ring q.base) hflat hb hph
  unfold decCall
  simp only [hpc]
  exact this

/-- the effect of `mpt_queue_shift` on content and offsets -/
theorem queueShift_eff (q : DecodeQueue) (h : DInv q) :
    ∃ n p' r', queueShift q = .ok { q with ring := r', st := { q.st with curr := q.st.curr - n, pos := p' } } ∧
      r'.content = q.ring.content.drop n ∧ n ≤ q.st.curr ∧ (q.st.ctx ≠ 0 → n ≤ q.st.pos ∧ p' = q.st.pos - n) ∧
      (r'.content.drop p').take q.st.len = (q.ring.content.drop q.st.pos).take q.st.len := by
  have hle := h.bnd.le
  have htot := h.bnd.tot
  have hq : q = { q with ring := q.ring, st := { q.st with curr := q.st.curr - 0, pos := q.st.pos } } := by
    cases q; rename_i r st c b cm; cases st; rfl
  unfold queueShift
  simp only
  by_cases hc : q.st.curr = 0
  · rw [if_pos hc]
    exact ⟨0, q.st.pos, q.ring, by rw [← hq], by simp, by omega, fun _ => ⟨by omega, by omega⟩, by simp⟩
  rw [if_neg hc]
  generalize hcut : (if q.st.pos ≠ 0 ∨ q.st.len ≠ 0 ∨ q.st.ctx ≠ 0 then
      if q.st.pos < q.st.curr then (q.st.pos, 0) else (q.st.curr, q.st.pos - q.st.curr)
    else (q.st.curr, q.st.pos)) = cut
  have hcut1 : cut.1 ≤ q.st.curr ∧ (q.st.pos ≠ 0 ∨ q.st.len ≠ 0 ∨ q.st.ctx ≠ 0 → cut.1 ≤ q.st.pos ∧ cut.2 = q.st.pos - cut.1) ∧
      (¬ (q.st.pos ≠ 0 ∨ q.st.len ≠ 0 ∨ q.st.ctx ≠ 0) → cut.2 = 0) := by
    rw [← hcut]
    split
    · rename_i hyes
      split
      · exact ⟨by simp only; omega, fun _ => ⟨by simp, by simp⟩, fun hn => absurd hyes hn⟩
      · exact ⟨by simp, fun _ => ⟨by simp only; omega, by simp⟩, fun hn => absurd hyes hn⟩
    · rename_i hno
      exact ⟨by simp, fun hy => absurd hy hno, fun _ => by simp only; omega⟩
  by_cases h0 : cut.1 = 0
  · rw [if_pos h0]
    refine ⟨0, q.st.pos, q.ring, by rw [← hq], by simp, by omega, fun _ => ⟨by omega, by omega⟩, by simp⟩
  rw [if_neg h0]
  obtain ⟨r', c, he, hwf', hs', hl', hc'⟩ := crop_front q.ring h.wf cut.1 (by omega)
  rw [he]
  refine ⟨cut.1, cut.2, r', rfl, hc', hcut1.1, fun hctx => hcut1.2.1 (Or.inr (Or.inr hctx)), ?_⟩
  rw [hc', List.drop_drop]
  by_cases hy : q.st.pos ≠ 0 ∨ q.st.len ≠ 0 ∨ q.st.ctx ≠ 0
  · obtain ⟨a, b⟩ := hcut1.2.1 hy
    rw [b, show cut.1 + (q.st.pos - cut.1) = q.st.pos by omega]
  · have : q.st.len = 0 := by omega
    rw [this]; simp

/-- outcome of `mpt_queue_recv` for a receiver that has finished `k` frames of the valid stream: no delivery
    and the same place in the stream, or the message of frame `k` is delivered — available through
    `mpt_message_get(data.pos, data.msg)` — and the receiver stands behind that frame -/
def RecvOut (v : Variant) (frames : List (List Byte)) (ms : List Msg) (fed : List Byte) (k : Nat) (q' : DecodeQueue) (r : Int) : Prop :=
  DInv q' ∧
  ((r ≠ 1 ∧ Phase v frames q'.st q'.ring.content fed k) ∨
   (r = 1 ∧ Phase v frames q'.st q'.ring.content fed (k + 1) ∧
      ∃ c m, ms[k]? = some m ∧ currentMessage q' = some (.ok (c, m))))

theorem recvDone_phase (v : Variant) (frames : List (List Byte)) (ms : List Msg) (fed : List Byte) (k : Nat)
    (q1 : DecodeQueue) (h : DInv q1)
    (hcase : (q1.st.msg = none ∧ Phase v frames q1.st q1.ring.content fed k) ∨
      (q1.st.msg = some q1.st.len ∧ Phase v frames q1.st q1.ring.content fed (k + 1) ∧
        ms[k]? = some ((q1.ring.content.drop q1.st.pos).take q1.st.len))) :
    ∃ q' r, recvDone q1 = .ok (q', r) ∧ q'.codec = q1.codec ∧ q'.ring.store.length = q1.ring.store.length ∧
      RecvOut v frames ms fed k q' r := by
  obtain ⟨n, p', r', he, hc', hn, hp, hreg⟩ := queueShift_eff q1 h
  obtain ⟨q', he', hi', hs', _, _⟩ := queueShift_inv q1 h
  rw [he] at he'
  cases he'
  unfold recvDone
  rw [he]
  simp only
  have hle := h.bnd.le
  rcases hcase with ⟨hm, hph⟩ | ⟨hm, hph, hmsg⟩
  · refine ⟨_, _, rfl, rfl, hs', hi', Or.inl ⟨?_, ?_⟩⟩
    · simp [hm]
    · simp only; rw [hc']; exact hph.shift hle n p' hn hp
  · refine ⟨_, _, rfl, rfl, hs', hi', Or.inr ⟨by simp [hm], ?_, ?_⟩⟩
    · simp only; rw [hc']; exact hph.shift hle n p' hn hp
    · have hb := hi'.bnd
      obtain ⟨c, hget⟩ := messageGet_spec r' hi'.wf p' q1.st.len (by have := hb.le; have := hb.tot; simp only at *; omega)
      refine ⟨c, _, hmsg, ?_⟩
      simp only [currentMessage, hm, Option.map_some]
      rw [hget, hreg]

theorem Phase.clearMsg {v : Variant} {frames : List (List Byte)} {st : DecState} {content fed : List Byte} {k : Nat}
    (h : Phase v frames st content fed k) (hm : st.msg = some 0) : Phase v frames { st with msg := none } content fed k := by
  cases h with
  | idle hf hcl hfed =>
    exact Phase.idle ⟨hf.ctx, fun _ => (hf.hsome 0 hm).symm, fun m hh => by cases hh⟩ hcl hfed
  | busy c0 Uc hc0 hnz hh hfed => rw [hh.msg] at hm; cases hm

/-- what follows a decoder call in `mpt_queue_recv` when the decoder did not ask for space -/
def afterCall (q1 : DecodeQueue) (ret : DecRet) : Res (DecodeQueue × Int) :=
  match ret with
  | .val _ => recvDone q1
  | .err e => .ok (q1, e.code)
  | .oob => .oob
  | .clobber => .oob

theorem afterCall_phase (v : Variant) (frames : List (List Byte)) (ms : List Msg) (hcar : Carries v frames ms)
    (q : DecodeQueue) (fed future : List Byte) (hfut : fed ++ future = frames.flatten) (k : Nat) (h : DInv q)
    (hph : Phase v frames q.st q.ring.content fed k) :
    ∃ q' r, afterCall (decCall v q).1 (decCall v q).2 = .ok (q', r) ∧ q'.codec = q.codec ∧
      q'.ring.store.length = q.ring.store.length ∧ RecvOut v frames ms fed k q' r ∧
      ((decCall v q).2 = .err .MissingBuffer → q' = (decCall v q).1 ∧ r = Err.MissingBuffer.code) := by
  obtain ⟨hi1, hsl1, _, _, hno, hnc⟩ := decCall_inv v q h
  obtain ⟨hp0, hp1⟩ := decCall_phase v frames ms hcar q fed future hfut k h hph
  have hcd : (decCall v q).1.codec = q.codec := rfl
  generalize decCall v q = dc at hi1 hsl1 hno hnc hp0 hp1 hcd
  obtain ⟨q1, ret⟩ := dc
  simp only at hi1 hsl1 hno hnc hp0 hp1 hcd
  unfold afterCall
  cases ret with
  | val n =>
    simp only
    by_cases hn : n = 1
    · subst hn
      obtain ⟨a, b, c⟩ := hp1 rfl
      obtain ⟨q', r, he, hc', hs', ho⟩ := recvDone_phase v frames ms fed k q1 hi1 (Or.inr ⟨c, a, b⟩)
      exact ⟨q', r, he, by rw [hc', hcd], by rw [hs', hsl1], ho, by intro hh; cases hh⟩
    · obtain ⟨a, b⟩ := hp0 (by intro hh; cases hh; exact hn rfl)
      obtain ⟨q', r, he, hc', hs', ho⟩ := recvDone_phase v frames ms fed k q1 hi1 (Or.inl ⟨b, a⟩)
      exact ⟨q', r, he, by rw [hc', hcd], by rw [hs', hsl1], ho, by intro hh; cases hh⟩
  | err e =>
    obtain ⟨a, _⟩ := hp0 (by simp)
    refine ⟨q1, e.code, rfl, hcd, hsl1, ⟨hi1, Or.inl ⟨?_, a⟩⟩, fun hh => ⟨rfl, by cases hh; rfl⟩⟩
    have := err_code_neg' e; omega
  | oob => exact absurd rfl hno
  | clobber => exact absurd rfl hnc

/-- `MissingBuffer` recovery of a receiver in a valid stream -/
theorem recvRetry_phase (v : Variant) (frames : List (List Byte)) (ms : List Msg) (hcar : Carries v frames ms)
    (q : DecodeQueue) (fed future : List Byte) (hfut : fed ++ future = frames.flatten) (k : Nat) (h : DInv q)
    (hph : Phase v frames q.st q.ring.content fed k) (hfull : q.ring.len < q.ring.store.length) :
    ∃ q' r, recvRetry v q = .ok (q', r) ∧ q'.codec = q.codec ∧ q'.ring.store.length = q.ring.store.length ∧
      RecvOut v frames ms fed k q' r := by
  have hle := h.bnd.le
  have htot := h.bnd.tot
  have hcl := content_length q.ring h.wf.1 h.wf.2
  obtain ⟨r1, kk, he, hwf1, hs1, hl1, hc1⟩ := qpre_ok q.ring h.wf (q.ring.store.length - q.ring.len) hfull (Nat.le_refl _)
  obtain ⟨r2, hmv, hwf2, hs2, hl2, ho2, hel2⟩ := moveBack_content (q.ring.store.length - q.ring.len) q.st.len r1 q.st.pos hwf1
    (by rw [hl1]; omega)
  have hcl2 := content_length r2 hwf2.1 hwf2.2
  have hi2 : DInv { q with ring := r2, st := { q.st with curr := q.st.curr + (q.ring.store.length - q.ring.len) } } :=
    ⟨hwf2, ⟨by simp only; omega, by simp only; rw [hl2, hl1]; omega, h.bnd.msg⟩⟩
  -- the content behind the enlarged work area and the decoded data are the old ones
  have hold : ∀ i, r1.content[i + (q.ring.store.length - q.ring.len)]? = q.ring.content[i]? := by
    intro i
    have := congrArg (fun x => x[i]?) hc1
    simp only [List.getElem?_drop] at this
    rw [← this]; congr 1; omega
  have hph2 : Phase v frames { q.st with curr := q.st.curr + (q.ring.store.length - q.ring.len) } r2.content fed k := by
    apply hph.move (q.ring.store.length - q.ring.len) (by rw [hcl2, hl2, hl1]; omega)
    · apply List.ext_getElem?; intro i
      rw [List.getElem?_drop, List.getElem?_drop, hel2, if_neg (by omega), ← hold]
      congr 1; omega
    · apply List.ext_getElem?; intro i
      rw [List.getElem?_take, List.getElem?_take, List.getElem?_drop, List.getElem?_drop]
      by_cases hi : i < q.st.len
      · rw [if_pos hi, if_pos hi, hel2, if_pos (by omega), hold]
      · rw [if_neg hi, if_neg hi]
  obtain ⟨q', r, hac, hcd, hsl, hout, _⟩ := afterCall_phase v frames ms hcar _ fed future hfut k hi2 hph2
  refine ⟨q', r, ?_, hcd, by rw [hsl]; simp only; rw [hs2, hs1], hout⟩
  unfold recvRetry
  simp only [Ring.max, he, hmv]
  unfold afterCall at hac
  generalize decCall v { q with ring := r2, st := { q.st with curr := q.st.curr + (q.ring.store.length - q.ring.len) } } = dc at hac
  obtain ⟨q3, ret⟩ := dc
  cases ret <;> exact hac

/-- **`mpt_queue_recv` of a receiver in a valid stream** -/
theorem queueRecv_phase (v : Variant) (frames : List (List Byte)) (ms : List Msg) (hcar : Carries v frames ms)
    (q : DecodeQueue) (hc : q.codec = some v) (fed future : List Byte) (hfut : fed ++ future = frames.flatten) (k : Nat)
    (h : DInv q) (hph : Phase v frames q.st q.ring.content fed k) :
    ∃ q' r, queueRecv q = .ok (q', r) ∧ q'.codec = some v ∧ q'.ring.store.length = q.ring.store.length ∧
      RecvOut v frames ms fed k q' r := by
  unfold queueRecv
  by_cases h0 : q.ring.len = 0
  · rw [if_pos h0]
    have hneg : Err.MissingData.code ≠ 1 := by decide
    split
    · rename_i hm
      refine ⟨_, _, rfl, hc, rfl, ⟨h.wf, ⟨h.bnd.le, h.bnd.tot, by intro m hh; cases hh⟩⟩, Or.inl ⟨hneg, ?_⟩⟩
      exact hph.clearMsg hm.2
    · exact ⟨q, _, rfl, hc, rfl, h, Or.inl ⟨hneg, hph⟩⟩
  rw [if_neg h0, hc]
  simp only
  obtain ⟨q', r, hac, hcd, hsl, hout, hmb⟩ := afterCall_phase v frames ms hcar q fed future hfut k h hph
  obtain ⟨hi1, hsl1, _, _, _, _⟩ := decCall_inv v q h
  have hcd1 : (decCall v q).1.codec = q.codec := rfl
  unfold afterCall at hac
  generalize decCall v q = dc at hac hmb hi1 hsl1 hcd1 hout
  obtain ⟨q1, ret⟩ := dc
  simp only at hac hmb hi1 hsl1 hcd1
  cases ret with
  | val n => exact ⟨q', r, hac, by rw [hcd, hc], hsl, hout⟩
  | err e =>
    simp only
    by_cases hne : e ≠ .MissingBuffer
    · rw [if_pos hne]; exact ⟨q', r, hac, by rw [hcd, hc], hsl, hout⟩
    rw [if_neg hne]
    by_cases hfull : q1.ring.len ≥ q1.ring.max
    · rw [if_pos hfull]; exact ⟨q', r, hac, by rw [hcd, hc], hsl, hout⟩
    rw [if_neg hfull]
    have he : e = .MissingBuffer := by simpa using hne
    subst he
    obtain ⟨rfl, _⟩ := hmb rfl
    -- the state after the refused call is the receiver's place in the stream: recover from there
    have hph1 : Phase v frames q'.st q'.ring.content fed k := by
      rcases hout.2 with ⟨_, a⟩ | ⟨hr1, _⟩
      · exact a
      · simp only at hac; cases hac; exact absurd hr1 (by decide)
    obtain ⟨q2, r2, he2, hcd2, hsl2, hout2⟩ := recvRetry_phase v frames ms hcar q' fed future hfut k hi1 hph1
      (by simp only [Ring.max] at hfull; omega)
    exact ⟨q2, r2, he2, by rw [hcd2, hcd1, hc], by rw [hsl2, hsl1], hout2⟩
  | oob => cases hac
  | clobber => cases hac

theorem view_bit_nonneg (r : Ring) (pos len : Nat) (e : Err) (b : Int) (base low high : Nat)
    (h : r.view pos len e = .ok (b, base, low, high)) : 0 ≤ b := by
  unfold Ring.view at h
  simp only at h
  repeat' split at h
  all_goals first
    | (cases h; done)
    | (simp only [Res.ok.injEq, Prod.mk.injEq] at h; obtain ⟨rfl, _⟩ := h; first | decide | (split <;> decide))

/-- the return code of `mpt_queue_set` / `mpt_qpush` on success is a (non-negative) fragmentation flag -/
theorem set_code_nonneg (r : Ring) (pos n : Nat) (b : Option (List Byte)) (r' : Ring) (c : Int)
    (h : r.set pos n b = .ok (r', c)) : 0 ≤ c := by
  unfold Ring.set at h
  split at h
  · cases h; decide
  · split at h
    · rename_i bit1 base low high hv
      have hb := view_bit_nonneg r pos n _ bit1 base low high hv
      split at h
      · simp only [Res.ok.injEq, Prod.mk.injEq] at h
        obtain ⟨_, rfl⟩ := h
        split <;> omega
      · cases h
    all_goals cases h

theorem qpush_code_nonneg (r : Ring) (n : Nat) (b : Option (List Byte)) (r' : Ring) (c : Int)
    (h : r.qpush n b = .ok (r', c)) : 0 ≤ c := by
  unfold Ring.qpush at h
  split at h
  · exact set_code_nonneg _ _ _ _ _ _ h
  all_goals cases h

end Mpt.CQ
