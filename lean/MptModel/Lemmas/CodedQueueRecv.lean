/-
  Helper lemmas for C02, receive side (core Lean only): the decode queue fed with a valid frame stream in
  arbitrary pieces — every message `mpt_queue_recv` delivers is the reference decoding of the next frame.
-/
import MptModel.Lemmas.DecodeCall
import MptModel.Lemmas.Stream
namespace Mpt.Codec
open Mpt.Cobs

/-- more input arrives behind the storage -/
theorem Hist.append {v : Variant} {c0 : Nat} {U : List Byte} {st : DecState} {store : List Byte} (h : Hist v c0 U st store)
    (hle : st.pos + st.len ≤ st.curr) (piece : List Byte) : Hist v c0 (U ++ piece) st (store ++ piece) := by
  obtain ⟨hmsg, hcurr, c, p, hctx, hc0, hc, hp, hrel⟩ := h
  refine ⟨hmsg, by rw [List.length_append]; omega, c, p, hctx, hc0, hc, hp, ?_⟩
  intro more
  rw [List.append_assoc, hrel, List.drop_append_of_le_length hcurr, List.append_assoc,
    take_drop_append_le _ _ _ _ (by omega)]

/-- consumed bytes in front of the message are dropped -/
theorem Hist.shift {v : Variant} {c0 : Nat} {U : List Byte} {st : DecState} {store : List Byte} (h : Hist v c0 U st store)
    (n : Nat) (hn : n ≤ st.pos) (hle : st.pos + st.len ≤ st.curr) (p' : Nat) (hp' : p' = st.pos - n) :
    Hist v c0 U { st with curr := st.curr - n, pos := p' } (store.drop n) := by
  obtain ⟨hmsg, hcurr, c, p, hctx, hc0, hc, hp, hrel⟩ := h
  subst hp'
  refine ⟨hmsg, by simp only [List.length_drop]; omega, c, p, hctx, hc0, hc, hp, ?_⟩
  intro more
  simp only [List.drop_drop]
  rw [show n + (st.curr - n) = st.curr by omega, show n + (st.pos - n) = st.pos by omega]
  exact hrel more

/-- the storage changes only in front of the message and between message and input position -/
theorem Hist.move {v : Variant} {c0 : Nat} {U : List Byte} {st : DecState} {store store' : List Byte} (h : Hist v c0 U st store)
    (add : Nat) (hl : st.curr + add ≤ store'.length)
    (hun : store'.drop (st.curr + add) = store.drop st.curr)
    (hreg : (store'.drop st.pos).take st.len = (store.drop st.pos).take st.len) :
    Hist v c0 U { st with curr := st.curr + add } store' := by
  obtain ⟨hmsg, hcurr, c, p, hctx, hc0, hc, hp, hrel⟩ := h
  refine ⟨hmsg, hl, c, p, hctx, hc0, hc, hp, ?_⟩
  intro more
  simp only
  rw [hun, hreg]
  exact hrel more

/-- the first zero byte of a list is unique -/
theorem zero_split_unique : ∀ (a b x y : List Byte), (∀ z ∈ a, z ≠ 0) → (∀ z ∈ b, z ≠ 0) →
    a ++ 0 :: x = b ++ 0 :: y → a = b ∧ x = y := by
  intro a
  induction a with
  | nil =>
    intro b x y _ hb h
    cases b with
    | nil => simpa using h
    | cons b0 bs =>
      simp only [List.nil_append, List.cons_append, List.cons.injEq] at h
      exact absurd h.1.symm (hb b0 (by simp))
  | cons a0 as ih =>
    intro b x y ha hb h
    cases b with
    | nil =>
      simp only [List.nil_append, List.cons_append, List.cons.injEq] at h
      exact absurd h.1 (ha a0 (by simp))
    | cons b0 bs =>
      simp only [List.cons_append, List.cons.injEq] at h
      obtain ⟨e1, e2⟩ := ih bs x y (fun z hz => ha z (by simp [hz])) (fun z hz => hb z (by simp [hz])) h.2
      exact ⟨by rw [h.1, e1], e2⟩

end Mpt.Codec

namespace Mpt.CQ
open Mpt Mpt.Cobs Mpt.Codec Mpt.Ring Mpt.Stream

/-- `mpt_message_get` denotes the bytes of the queue content -/
theorem messageGet_spec (r : Ring) (h : r.WF) (off take : Nat) (hfit : off + take ≤ r.len) :
    ∃ c, messageGet r off take = .ok (c, (r.content.drop off).take take) := by
  obtain ⟨h1, h2⟩ := h
  have hel : ∀ (a b : List Byte), a = b → ∀ c : Int, (Res.ok (c, a) : Res (Int × List Byte)) = .ok (c, b) := by
    intro a b e c; rw [e]
  unfold messageGet low
  simp only [Ring.max]
  by_cases hA : off < min (r.store.length - r.off) r.len
  · simp only [hA, if_true]
    rw [if_neg (by omega)]
    by_cases hB : take ≤ min (r.store.length - r.off) r.len - off
    · rw [if_pos hB, Mem.rd_ok _ _ _ (by omega)]
      refine ⟨0, hel _ _ ?_ 0⟩
      apply List.ext_getElem?; intro i
      rw [List.getElem?_take, List.getElem?_drop, getElem?_content _ _ h1 h2, Mem.getElem?_read]
      ite_idx
    · rw [if_neg hB]
      simp only [Bool.not_true, Bool.false_eq_true, if_false]
      rw [Mem.rd_ok _ _ _ (by omega), Mem.rd_ok _ _ _ (by omega)]
      refine ⟨1, hel _ _ ?_ 1⟩
      apply List.ext_getElem?; intro i
      rw [List.getElem?_take, List.getElem?_drop, getElem?_content _ _ h1 h2, List.getElem?_append,
        Mem.read_length _ _ _ (by omega), Mem.getElem?_read, Mem.getElem?_read]
      ite_idx
  · simp only [hA, if_false]
    by_cases hC : off - min (r.store.length - r.off) r.len > r.len - min (r.store.length - r.off) r.len
    · omega
    try rw [if_neg hC]
    simp only []
    rw [if_neg (by omega), if_pos (by omega), Mem.rd_ok _ _ _ (by omega)]
    refine ⟨0, hel _ _ ?_ 0⟩
    apply List.ext_getElem?; intro i
    rw [List.getElem?_take, List.getElem?_drop, getElem?_content _ _ h1 h2, Mem.getElem?_read]
    ite_idx

end Mpt.CQ
