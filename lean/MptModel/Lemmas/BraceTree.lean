/-
  The tree `mpt_parse_node` builds from a text in brace style: the element loop with the
  `mpt_node_append` handler, line by line, by induction over the written forest.
-/
import MptModel.Lemmas.ParseBrace

namespace Mpt.Parse
open Mpt.Conf Mpt.Render

/-! ### appending on the rightmost spine -/

/-- append several trees as last children at depth `d` -/
def appendAll (d : Nat) (F : Forest) (ts : Forest) : Forest := ts.foldl (appendAt d) F

/-- the rightmost spine reaches depth `d` -/
def HasSpine : Nat → Forest → Prop
  | 0, _ => True
  | d + 1, F => ∃ n v cs, F.getLast? = some (.node n v cs) ∧ HasSpine d cs

theorem appendAt_succ (d : Nat) (F : Forest) (t : Tree) (n : List UInt8) (v : Option (List UInt8)) (cs : Forest)
    (h : F.getLast? = some (.node n v cs)) :
    appendAt (d + 1) F t = F.dropLast ++ [.node n v (appendAt d cs t)] := by
  simp only [appendAt, h]

theorem appendAt_succ_snoc (d : Nat) (P : Forest) (t : Tree) (n : List UInt8) (v : Option (List UInt8)) (cs : Forest) :
    appendAt (d + 1) (P ++ [.node n v cs]) t = P ++ [.node n v (appendAt d cs t)] := by
  rw [appendAt_succ d _ t n v cs (by simp)]
  simp

theorem appendAll_snoc (k : Nat) (P : Forest) (a : List UInt8) (b : Option (List UInt8)) :
    ∀ (xs c : Forest), appendAll (k + 1) (P ++ [.node a b c]) xs = P ++ [.node a b (appendAll k c xs)] := by
  intro xs
  induction xs with
  | nil => intro c; rfl
  | cons x r ih =>
    intro c
    simp only [appendAll, List.foldl_cons] at ih ⊢
    rw [appendAt_succ_snoc]
    exact ih _

theorem appendAll_zero (F ts : Forest) : appendAll 0 F ts = F ++ ts := by
  induction ts generalizing F with
  | nil => simp [appendAll]
  | cons t r ih =>
    simp only [appendAll, List.foldl_cons, appendAt] at ih ⊢
    rw [ih]; simp

/-- building a node child by child is the same as appending it complete -/
theorem appendAll_child : ∀ (d : Nat) (F : Forest) (n : List UInt8) (v : Option (List UInt8)) (cs : Forest),
    HasSpine d F → appendAll (d + 1) (appendAt d F (.node n v [])) cs = appendAt d F (.node n v cs) := by
  intro d
  induction d with
  | zero =>
    intro F n v cs _
    simp only [appendAt]
    rw [appendAll_snoc, appendAll_zero]; simp
  | succ d ih =>
    intro F n v cs h
    obtain ⟨a, b, c, hl, hs⟩ := h
    rw [appendAt_succ d F _ a b c hl, appendAt_succ d F _ a b c hl, appendAll_snoc, ih c n v cs hs]

theorem hasSpine_appendAt : ∀ (d : Nat) (F : Forest) (t : Tree), HasSpine d F → HasSpine d (appendAt d F t) := by
  intro d
  induction d with
  | zero => intro _ _ _; trivial
  | succ d ih =>
    intro F t h
    obtain ⟨a, b, c, hl, hs⟩ := h
    rw [appendAt_succ d F t a b c hl]
    exact ⟨a, b, appendAt d c t, by simp, ih c t hs⟩

/-- after appending a node at depth `d` the spine reaches it (depth `d + 1`) -/
theorem hasSpine_appendAt_succ : ∀ (d : Nat) (F : Forest) (n : List UInt8) (v : Option (List UInt8)) (cs : Forest),
    HasSpine d F → HasSpine (d + 1) (appendAt d F (.node n v cs)) := by
  intro d
  induction d with
  | zero => intro F n v cs _; exact ⟨n, v, cs, by simp [appendAt], trivial⟩
  | succ d ih =>
    intro F n v cs h
    obtain ⟨a, b, c, hl, hs⟩ := h
    rw [appendAt_succ d F _ a b c hl]
    exact ⟨a, b, _, by simp, ih c n v cs hs⟩

theorem hasSpine_appendAll (d : Nat) (F ts : Forest) (h : HasSpine d F) : HasSpine d (appendAll d F ts) := by
  induction ts generalizing F with
  | nil => exact h
  | cons t r ih =>
    simp only [appendAll, List.foldl_cons] at ih ⊢
    exact ih _ (hasSpine_appendAt d F t h)

/-! ### one step of the element loop with the `mpt_node_append` handler -/

theorem loop_step (k : Kind) (cfg : Cfg) (b b1 : Build) (prev : Nat) (s s1 : St) (src src1 : Src) (code : Int)
    (p : Path) (heq : next k cfg prev s src = (code, s1, src1)) (hpos : 0 < code)
    (hsave : nodeAppend b s1 prev code = some b1) (hafter : afterSave code s1.path = .ok p) :
    loop k cfg nodeAppend b prev s src =
      loop k cfg nodeAppend b1 s1.curr { s1 with path := p, curr := 0, valid := 0 } src1 := by
  rw [loop_pos _ _ _ _ _ _ _ (by rw [heq]; exact hpos)]
  simp only [heq, hsave, hafter]

theorem loop_stop (k : Kind) (cfg : Cfg) (b : Build) (prev : Nat) (s s1 : St) (src src1 : Src)
    (heq : next k cfg prev s src = (0, s1, src1)) :
    (loop k cfg nodeAppend b prev s src).code = 0 ∧ (loop k cfg nodeAppend b prev s src).ctx = b := by
  rw [loop_nonpos _ _ _ _ _ _ _ (by rw [heq]; exact Int.lt_irrefl 0)]
  simp [heq]

/-- removing the last element of a clean path leaves a clean path -/
theorem del_clean (e : List (List UInt8)) (m : List UInt8) (p : Path) (h : Clean (e ++ [m]) p) :
    ∃ p', afterSave 2 p = .ok p' ∧ Clean e p' := by
  obtain ⟨h1, _, _⟩ := h
  have hne : p.elems.isEmpty = false := by rw [h1]; simp
  refine ⟨_, by simp [afterSave, Flag.sectEnd, Path.del, hne]; rfl, ?_, rfl, rfl⟩
  simp [h1]

/-- where the cursor of the tree under construction is, relative to the parent at depth `dep`:
    `first` = the parent was just opened (the next node becomes its first child), otherwise the
    cursor is on the last child -/
def Mode (first : Bool) (dep : Nat) (b : Build) (prev : Nat) : Prop :=
  if first then (prev ≠ 0 ∧ prev &&& 3 = 1 ∧ b.depth = dep)
  else (prev ≠ 0 ∧ prev &&& 3 ≠ 1 ∧ b.depth = dep + 1)

/-- `mpt_node_append` for a section start or an option -/
theorem nodeAppend_new (first : Bool) (dep : Nat) (b : Build) (prev : Nat) (s1 : St) (code : Int)
    (e : List (List UInt8)) (n : List UInt8) (val : Option (List UInt8))
    (hmode : Mode first dep b prev)
    (hcode : (code = 1 ∧ val = none) ∨ (code = 3 ∧ val = none) ∨ (code = 7 ∧ val = some s1.name))
    (helems : s1.path.elems = e ++ [n]) (hlen : n.length < 65535) :
    nodeAppend b s1 prev code = some { forest := appendAt dep b.forest (.node n val []), depth := dep + 1 } := by
  have hname : nodeName s1.path = some n := by
    unfold nodeName
    rw [helems]
    simp only [List.getLast?_append, List.getLast?_singleton, Option.some_or]
    have : ¬ (n.length + 1 > 65535) := by omega
    simp [this]
  unfold Mode at hmode
  unfold nodeAppend
  rcases hcode with ⟨hc, hv⟩ | ⟨hc, hv⟩ | ⟨hc, hv⟩ <;> subst hc <;> subst hv
  all_goals
    cases first with
    | true =>
      simp only [↓reduceIte] at hmode
      obtain ⟨h1, h2, h3⟩ := hmode
      simp [Flag.sectEnd, Flag.section_, Flag.data, hname, metaNew, h1, h2, h3]
    | false =>
      simp only [Bool.false_eq_true, ↓reduceIte] at hmode
      obtain ⟨h1, h2, h3⟩ := hmode
      simp [Flag.sectEnd, Flag.section_, Flag.data, hname, metaNew, h1, h2, h3]

/-- `mpt_node_append` for a section end behind a child -/
theorem nodeAppend_end (dep : Nat) (b : Build) (prev : Nat) (s1 : St) (hmode : Mode false (dep + 1) b prev) :
    nodeAppend b s1 prev 2 = some { b with depth := dep + 1 } := by
  unfold Mode at hmode
  simp only [Bool.false_eq_true, ↓reduceIte] at hmode
  obtain ⟨h1, h2, h3⟩ := hmode
  unfold nodeAppend
  simp [Flag.sectEnd, Flag.section_, h1, h2, h3]


/-! ### the induction over the written forest -/

/-- the element loop stands at the start of a line: clean path with the open sections `e`, nothing
    valid, insignificant left-over `J` of the previous line in front of the text `txt` -/
structure Ready (e : List (List UInt8)) (s : St) (src : Src) (J txt : List UInt8) : Prop where
  clean : Clean e s.path
  valid : s.valid = 0
  junk : visSkip false J = some false
  src : src.rest = J ++ txt

theorem afterSave_del (e : List (List UInt8)) (n l : List UInt8) (k : Bool) (fi : UInt8) (code : Int)
    (hc : code = 2 ∨ code = 3 ∨ code = 7) :
    ∃ fi', afterSave code (Pth (e ++ [n]) l k fi) = .ok (Pth e [] false fi') := by
  have hd := del_pth (e ++ [n]) l k fi (by simp)
  simp only [List.dropLast_concat] at hd
  refine ⟨(if e.isEmpty = true then 0 else fi), ?_⟩
  unfold afterSave
  rcases hc with h | h | h <;> subst h <;> simp [Flag.sectEnd, hd]

theorem afterSave_inv (e : List (List UInt8)) (l : List UInt8) (k : Bool) (fi : UInt8) :
    afterSave 1 (Pth e l k fi) = .ok (Pth e [] false fi) := by
  simp [afterSave, Flag.sectEnd]

/-- an optional value the writer can express -/
abbrev OptValOk (ov : Option (List UInt8)) : Prop :=
  match ov with
  | some x => x.isEmpty = true ∨ valueOk x = true
  | none => True

/-- the value a leaf is read back with -/
theorem normTree_leaf (n : List UInt8) (v : Option (List UInt8)) :
    normTree (.node n v []) = .node n (if (valueOf v).isEmpty then none else some (valueOf v)) [] := by
  cases v with
  | none => simp [normTree, norm, valueOf]
  | some x =>
    by_cases hx : x.isEmpty = true
    · simp [normTree, norm, valueOf, hx]
    · simp [normTree, norm, valueOf, hx]

/-- what the induction needs from a nested section style: the three kinds of lines and the end of the text,
    for the element function `next k cfg` (any previous-operation code) -/
structure NestStyle (k : Kind) (cfg : Cfg) (openL : LineDecor → List UInt8 → List UInt8) : Prop where
  optLine : ∀ (e : List (List UInt8)) (s : St) (src : Src) (prev : Nat) (junk n pre post tr rest : List UInt8)
    (ov : Option (List UInt8)),
    Clean e s.path → s.valid = 0 → visSkip false junk = some false → nameOk n = true → ncheck n cfg.opt = none →
    pre.all isBlank = true → post.all isBlank = true → trailOk tr = true → OptValOk ov →
    src.rest = junk ++ n ++ pre ++ 61 :: (post ++ valueText ov ++ tr ++ 10 :: rest) →
    ∃ s' src', next k cfg prev s src = ((if (valueOf ov).isEmpty then 3 else 7 : Int), s', src')
      ∧ (∃ l kk fi' ln', s' = Stt (e ++ [n]) l kk fi' (valueOf ov).length (Flag.option ||| Flag.name) ln'
          ∧ l.take (valueOf ov).length = valueOf ov)
      ∧ src'.rest = rest
  openLine : ∀ (e : List (List UInt8)) (s : St) (src : Src) (prev : Nat) (J : List UInt8) (dl : LineDecor)
    (n rest : List UInt8),
    Clean e s.path → s.valid = 0 → visSkip false J = some false → dl.ok = true → nameOk n = true →
    ncheck n cfg.sect = none → src.rest = J ++ openL dl n ++ rest →
    ∃ s' src' J', next k cfg prev s src = (1, s', src')
      ∧ (∃ l fi' v' ln', s' = Stt (e ++ [n]) l false fi' v' (Flag.section_ ||| Flag.name) ln')
      ∧ visSkip false J' = some false ∧ src'.rest = J' ++ rest
  closeLine : ∀ (e : List (List UInt8)) (m : List UInt8) (s : St) (src : Src) (prev : Nat) (junk rest : List UInt8),
    Clean (e ++ [m]) s.path → s.valid = 0 → visSkip false junk = some false →
    src.rest = junk ++ 125 :: rest →
    ∃ s1 src1 p', next k cfg prev s src = (2, s1, src1) ∧ s1.curr = Flag.sectEnd
      ∧ afterSave 2 s1.path = .ok p' ∧ Clean e p' ∧ src1.rest = rest
  eof : ∀ (s : St) (src : Src) (prev : Nat) (junk : List UInt8) (b : Bool),
    Clean [] s.path → visSkip false junk = some b → src.rest = junk →
    ∃ s' src', next k cfg prev s src = (0, s', src')

section induction
variable {k : Kind} {cfg : Cfg} {openL : LineDecor → List UInt8 → List UInt8} (hst : NestStyle k cfg openL)
variable (d : Decor) (hd : d.ok)
include hst hd

/-- claim for one written tree -/
def TreeClaim (t : Tree) : Prop :=
  ∀ (kk dep : Nat) (e : List (List UInt8)) (b : Build) (prev : Nat) (s : St) (src : Src) (J rest : List UInt8)
    (first : Bool),
    treeOk t = true → treeFits cfg.sect cfg.opt t = true → Ready e s src J (renderTree openL d kk t ++ rest) →
    Mode first dep b prev →
    HasSpine dep b.forest →
    ∃ (b' : Build) (prev' : Nat) (s' : St) (src' : Src) (J' : List UInt8),
      Ready e s' src' J' rest ∧ Mode false dep b' prev' ∧ b'.forest = appendAt dep b.forest (normTree t)
      ∧ HasSpine dep b'.forest
      ∧ loop k cfg nodeAppend b prev s src = loop k cfg nodeAppend b' prev' s' src'

/-- claim for a written forest -/
def ForestClaim (f : Forest) : Prop :=
  ∀ (kk dep : Nat) (e : List (List UInt8)) (b : Build) (prev : Nat) (s : St) (src : Src) (J rest : List UInt8)
    (first : Bool),
    nodesOk f = true → forestFits cfg.sect cfg.opt f = true → Ready e s src J (renderNest openL d kk f ++ rest) →
    Mode first dep b prev →
    HasSpine dep b.forest →
    ∃ (b' : Build) (prev' : Nat) (s' : St) (src' : Src) (J' : List UInt8),
      Ready e s' src' J' rest ∧ Mode (first && f.isEmpty) dep b' prev'
      ∧ b'.forest = appendAll dep b.forest (norm f) ∧ HasSpine dep b'.forest
      ∧ loop k cfg nodeAppend b prev s src = loop k cfg nodeAppend b' prev' s' src'

omit hst hd in
theorem forestClaim_nil : ForestClaim (k := k) (cfg := cfg) (openL := openL) d [] := by
  intro kk dep e b prev s src J rest first _ _ hr hm hs
  refine ⟨b, prev, s, src, J, ?_, by simpa using hm, ?_, hs, rfl⟩
  · simpa [renderNest] using hr
  · simp [norm, appendAll]

omit hst hd in
theorem forestClaim_cons (t : Tree) (ts : Forest) (ht : TreeClaim (k := k) (cfg := cfg) (openL := openL) d t)
    (hts : ForestClaim (k := k) (cfg := cfg) (openL := openL) d ts) :
    ForestClaim (k := k) (cfg := cfg) (openL := openL) d (t :: ts) := by
  intro kk dep e b prev s src J rest first hok hfit hr hm hs
  have hok' : treeOk t = true ∧ nodesOk ts = true := by simpa [nodesOk] using hok
  have hfit' : treeFits cfg.sect cfg.opt t = true ∧ forestFits cfg.sect cfg.opt ts = true := by
    simpa [forestFits] using hfit
  have hr1 : Ready e s src J (renderTree openL d kk t ++ (renderNest openL d (kk + treeLines t) ts ++ rest)) := by
    have := hr.src
    exact ⟨hr.clean, hr.valid, hr.junk, by rw [this]; simp [renderNest, List.append_assoc]⟩
  obtain ⟨b1, prev1, s1, src1, J1, hr2, hm1, hf1, hs1, heq1⟩ := ht kk dep e b prev s src J _ first hok'.1 hfit'.1 hr1 hm hs
  obtain ⟨b2, prev2, s2, src2, J2, hr3, hm2, hf2, hs2, heq2⟩ :=
    hts (kk + treeLines t) dep e b1 prev1 s1 src1 J1 rest false hok'.2 hfit'.2 hr2 hm1 hs1
  refine ⟨b2, prev2, s2, src2, J2, hr3, by simpa using hm2, ?_, hs2, heq1.trans heq2⟩
  rw [hf2, hf1]; simp [norm, appendAll]

/-- a node without children written as `name=value` -/
theorem treeClaim_option (n : List UInt8) (v : Option (List UInt8)) (kk dep : Nat) (e : List (List UInt8)) (b : Build)
    (prev : Nat) (s : St) (src : Src) (J rest : List UInt8) (first : Bool)
    (hok : treeOk (.node n v []) = true) (hfit : nameFits cfg.opt n = true)
    (hr : Ready e s src J (optionLine (d kk) n v ++ rest))
    (hm : Mode first dep b prev) (hs : HasSpine dep b.forest) :
    ∃ (b' : Build) (prev' : Nat) (s' : St) (src' : Src) (J' : List UInt8),
      Ready e s' src' J' rest ∧ Mode false dep b' prev' ∧ b'.forest = appendAt dep b.forest (normTree (.node n v []))
      ∧ HasSpine dep b'.forest
      ∧ loop k cfg nodeAppend b prev s src = loop k cfg nodeAppend b' prev' s' src' := by
  have hok' : nameOk n = true ∧ OptValOk v := by
    simp only [treeOk, List.isEmpty_nil, ↓reduceIte, Bool.and_eq_true] at hok
    refine ⟨hok.1, ?_⟩
    cases v with
    | none => trivial
    | some x => simpa [OptValOk] using hok.2
  have hdk := hd kk
  obtain ⟨hpre, hpost, htr, hht⟩ := LineDecor.ok_parts _ hdk
  have hjunk := visSkip_lead J (d kk) hr.junk hdk
  have hsrc : src.rest = (J ++ (d kk).before ++ (d kk).indent) ++ n ++ (d kk).pre ++
      61 :: ((d kk).post ++ valueText v ++ (d kk).trail ++ 10 :: rest) := by
    rw [hr.src]
    cases v <;> simp [optionLine, valueText, List.append_assoc]
  obtain ⟨s1, src1, heq, ⟨l, kq, fi', ln', hs1, htake⟩, hrest⟩ :=
    hst.optLine e s src prev _ n (d kk).pre (d kk).post (d kk).trail rest v hr.clean hr.valid hjunk hok'.1
      (nameFits_ncheck _ _ hfit) hpre hpost htr hok'.2 hsrc
  have hlen : n.length < 65535 := by
    have := hok'.1
    simp only [nameOk, Bool.and_eq_true, decide_eq_true_eq] at this
    exact this.2
  have hname : s1.name = valueOf v := by
    rw [hs1]; simp only [St.name, head_pth, htake]
  by_cases hz : (valueOf v).isEmpty = true
  · -- no value
    simp only [hz, ↓reduceIte] at heq
    have hna := nodeAppend_new first dep b prev s1 3 e n none hm (Or.inr (Or.inl ⟨rfl, rfl⟩))
      (by rw [hs1]; rfl) hlen
    obtain ⟨fi2, hafter⟩ := afterSave_del e n l kq fi' 3 (Or.inr (Or.inl rfl))
    have hstep := loop_step k cfg b _ prev s s1 src src1 3 _ heq (by decide) hna (by rw [hs1]; exact hafter)
    refine ⟨_, s1.curr, _, src1, [], ⟨clean_pth e fi2, rfl, rfl, by simpa using hrest⟩, ?_, ?_, ?_, hstep⟩
    · rw [hs1]; simp [Mode, Flag.sectEnd, Flag.option, Flag.name]
    · simp only [normTree_leaf, hz, ↓reduceIte]
    · exact hasSpine_appendAt dep _ _ hs
  · simp only [hz, Bool.false_eq_true, ↓reduceIte] at heq
    have hna := nodeAppend_new first dep b prev s1 7 e n (some s1.name) hm (Or.inr (Or.inr ⟨rfl, rfl⟩))
      (by rw [hs1]; rfl) hlen
    obtain ⟨fi2, hafter⟩ := afterSave_del e n l kq fi' 7 (Or.inr (Or.inr rfl))
    have hstep := loop_step k cfg b _ prev s s1 src src1 7 _ heq (by decide) hna (by rw [hs1]; exact hafter)
    refine ⟨_, s1.curr, _, src1, [], ⟨clean_pth e fi2, rfl, rfl, by simpa using hrest⟩, ?_, ?_, ?_, hstep⟩
    · rw [hs1]; simp [Mode, Flag.sectEnd, Flag.option, Flag.name]
    · simp only [normTree_leaf, hz, Bool.false_eq_true, ↓reduceIte, hname]
    · exact hasSpine_appendAt dep _ _ hs

omit hst hd in
/-- `mpt_node_append` for a section end directly behind the section start -/
theorem nodeAppend_end_first (dep : Nat) (b : Build) (prev : Nat) (s1 : St) (hmode : Mode true dep b prev) :
    nodeAppend b s1 prev 2 = some b := by
  unfold Mode at hmode
  simp only [↓reduceIte] at hmode
  obtain ⟨_, h2, _⟩ := hmode
  unfold nodeAppend
  simp [Flag.sectEnd, Flag.section_, h2]

/-- a node without children and without value written as an empty section: start line, end line -/
theorem treeClaim_empty (n : List UInt8) (v : Option (List UInt8)) (c : CloseDecor) (kk dep : Nat)
    (e : List (List UInt8)) (b : Build)
    (prev : Nat) (s : St) (src : Src) (J rest : List UInt8) (first : Bool)
    (hok : treeOk (.node n v []) = true) (hfit : nameFits cfg.sect n = true) (hv : valueless v = true)
    (hc : (d kk).close = some c)
    (hr : Ready e s src J (openL (d kk) n ++ closeLine c.line ++ rest))
    (hm : Mode first dep b prev) (hs : HasSpine dep b.forest) :
    ∃ (b' : Build) (prev' : Nat) (s' : St) (src' : Src) (J' : List UInt8),
      Ready e s' src' J' rest ∧ Mode false dep b' prev' ∧ b'.forest = appendAt dep b.forest (normTree (.node n v []))
      ∧ HasSpine dep b'.forest
      ∧ loop k cfg nodeAppend b prev s src = loop k cfg nodeAppend b' prev' s' src' := by
  have hn : nameOk n = true := by
    simp only [treeOk, List.isEmpty_nil, ↓reduceIte, Bool.and_eq_true] at hok
    exact hok.1
  have hlen : n.length < 65535 := by
    have := hn
    simp only [nameOk, Bool.and_eq_true, decide_eq_true_eq] at this
    exact this.2
  have hz : (valueOf v).isEmpty = true := by
    cases v with
    | none => rfl
    | some x => simpa [valueless, valueOf] using hv
  have hdk := hd kk
  have hck := LineDecor.ok_close _ c hdk hc
  have hsrc : src.rest = J ++ openL (d kk) n ++ (closeLine c.line ++ rest) := by
    rw [hr.src]; simp [List.append_assoc]
  obtain ⟨s1, src1, J1, heq, ⟨l, fi', v', ln', hs1⟩, hJ1, hrest⟩ :=
    hst.openLine e s src prev J (d kk) n _ hr.clean hr.valid hr.junk hdk hn (nameFits_ncheck _ _ hfit) hsrc
  have hna := nodeAppend_new first dep b prev s1 1 e n none hm (Or.inl ⟨rfl, rfl⟩) (by rw [hs1]; rfl) hlen
  have hstep := loop_step k cfg b _ prev s s1 src src1 1 _ heq (by decide) hna
    (by rw [hs1]; exact afterSave_inv _ _ _ _)
  have hmode1 : Mode true (dep + 1) { forest := appendAt dep b.forest (.node n none []), depth := dep + 1 } s1.curr := by
    rw [hs1]; simp [Mode, Flag.sectEnd, Flag.section_, Flag.name]
  -- the end line
  obtain ⟨_, _, _, hht2⟩ := LineDecor.ok_parts _ hck
  have hjunk2 := visSkip_lead J1 c.line hJ1 hck
  have hsrc2 : src1.rest = (J1 ++ c.line.before ++ c.line.indent) ++ 125 :: ((headTrail c.line ++ [10]) ++ rest) := by
    rw [hrest]; simp [closeLine, List.append_assoc]
  obtain ⟨s3, src3, p3, heq3, hc3, hafter3, hclean3, hrest3⟩ :=
    hst.closeLine e n { s1 with path := Pth (e ++ [n]) [] false fi', curr := 0, valid := 0 } src1 s1.curr _ _
      (clean_pth _ _) rfl hjunk2 hsrc2
  have hna3 := nodeAppend_end_first (dep + 1) _ s1.curr s3 hmode1
  have hstep3 := loop_step k cfg _ _ s1.curr _ s3 src1 src3 2 p3 heq3 (by decide) hna3 hafter3
  refine ⟨{ forest := appendAt dep b.forest (.node n none []), depth := dep + 1 }, s3.curr,
    { s3 with path := p3, curr := 0, valid := 0 }, src3,
    headTrail c.line ++ [10], ⟨hclean3, rfl, visSkip_headTrail _ hht2, hrest3⟩, ?_, ?_, ?_, ?_⟩
  · rw [hc3]; simp [Mode, Flag.sectEnd]
  · simp only [normTree_leaf, hz, ↓reduceIte]
  · exact hasSpine_appendAt dep _ _ hs
  · rw [hstep]
    simp only [hs1] at hstep3 ⊢
    exact hstep3

theorem treeClaim_leaf (n : List UInt8) (v : Option (List UInt8)) :
    TreeClaim (k := k) (cfg := cfg) (openL := openL) d (.node n v []) := by
  intro kk dep e b prev s src J rest first hok hfit hr hm hs
  have hrt : renderTree openL d kk (.node n v []) = leafLines openL (d kk) n v := by simp [renderTree]
  rw [hrt] at hr
  simp only [treeFits, List.isEmpty_nil, ↓reduceIte, Bool.and_eq_true, Bool.or_eq_true, Bool.not_eq_eq_eq_not,
    Bool.not_true] at hfit
  unfold leafLines at hr
  split at hr
  · rename_i c hc hv
    have hfs : nameFits cfg.sect n = true := by
      rcases hfit.2 with h | h
      · rw [hv] at h; cases h
      · exact h
    exact treeClaim_empty hst d hd n v c kk dep e b prev s src J rest first hok hfs hv hc hr hm hs
  · exact treeClaim_option hst d hd n v kk dep e b prev s src J rest first hok hfit.1 hr hm hs

theorem treeClaim_section (n : List UInt8) (v : Option (List UInt8)) (cs : Forest) (hne : cs ≠ [])
    (hcs : ForestClaim (k := k) (cfg := cfg) (openL := openL) d cs) :
    TreeClaim (k := k) (cfg := cfg) (openL := openL) d (.node n v cs) := by
  intro kk dep e b prev s src J rest first hok hfit hr hm hs
  have hce : cs.isEmpty = false := by simpa using hne
  simp only [treeFits, hce, Bool.false_eq_true, ↓reduceIte, Bool.and_eq_true] at hfit
  have hok' : nameOk n = true ∧ v = none ∧ nodesOk cs = true := by
    simp only [treeOk, hce, Bool.false_eq_true, ↓reduceIte, Bool.and_eq_true, Option.isNone_iff_eq_none] at hok
    exact ⟨hok.1, hok.2.1, hok.2.2⟩
  obtain ⟨hn, hv, hcok⟩ := hok'
  subst hv
  have hlen : n.length < 65535 := by
    have := hn
    simp only [nameOk, Bool.and_eq_true, decide_eq_true_eq] at this
    exact this.2
  -- the section start line
  have hdk := hd kk
  let k2 := kk + 1 + braceLines cs
  have hsrc : src.rest = J ++ openL (d kk) n ++ (renderNest openL d (kk + 1) cs ++ (closeLine (d k2) ++ rest)) := by
    rw [hr.src]
    simp [renderTree, hce, List.append_assoc, k2]
  obtain ⟨s1, src1, J1, heq, ⟨l, fi', v', ln', hs1⟩, hJ1, hrest⟩ :=
    hst.openLine e s src prev J (d kk) n _ hr.clean hr.valid hr.junk hdk hn (nameFits_ncheck _ _ hfit.1) hsrc
  have hna := nodeAppend_new first dep b prev s1 1 e n none hm (Or.inl ⟨rfl, rfl⟩) (by rw [hs1]; rfl) hlen
  have hstep := loop_step k cfg b _ prev s s1 src src1 1 _ heq (by decide) hna
    (by rw [hs1]; exact afterSave_inv _ _ _ _)
  -- the children
  have hmode1 : Mode true (dep + 1) { forest := appendAt dep b.forest (.node n none []), depth := dep + 1 } s1.curr := by
    rw [hs1]; simp [Mode, Flag.sectEnd, Flag.section_, Flag.name]
  have hready1 : Ready (e ++ [n]) { s1 with path := Pth (e ++ [n]) [] false fi', curr := 0, valid := 0 } src1
      J1 (renderNest openL d (kk + 1) cs ++ (closeLine (d k2) ++ rest)) :=
    ⟨clean_pth _ _, rfl, hJ1, hrest⟩
  obtain ⟨b2, prev2, s2, src2, J2, hr2, hm2, hf2, hs2, heq2⟩ :=
    hcs (kk + 1) (dep + 1) (e ++ [n]) _ s1.curr _ src1 _ _ true hcok hfit.2 hready1 hmode1
      (hasSpine_appendAt_succ dep b.forest n none [] hs)
  simp only [hce, Bool.and_false] at hm2
  -- the section end line
  have hdk2 := hd k2
  obtain ⟨_, _, htr2, hht2⟩ := LineDecor.ok_parts _ hdk2
  have hjunk2 := visSkip_lead J2 (d k2) hr2.junk hdk2
  have hsrc2 : src2.rest = (J2 ++ (d k2).before ++ (d k2).indent) ++ 125 :: ((headTrail (d k2) ++ [10]) ++ rest) := by
    rw [hr2.src]; simp [closeLine, List.append_assoc]
  obtain ⟨s3, src3, p3, heq3, hc3, hafter3, hclean3, hrest3⟩ :=
    hst.closeLine e n s2 src2 prev2 _ _ hr2.clean hr2.valid hjunk2 hsrc2
  have hna3 := nodeAppend_end dep b2 prev2 s3 hm2
  have hstep3 := loop_step k cfg b2 _ prev2 s2 s3 src2 src3 2 p3 heq3 (by decide) hna3 hafter3
  refine ⟨{ b2 with depth := dep + 1 }, s3.curr, { s3 with path := p3, curr := 0, valid := 0 }, src3,
    headTrail (d k2) ++ [10], ⟨hclean3, rfl, visSkip_headTrail _ hht2, hrest3⟩, ?_, ?_, ?_, ?_⟩
  · rw [hc3]; simp [Mode, Flag.sectEnd]
  · simp only [hf2]
    rw [appendAll_child dep b.forest n none (norm cs) hs]
    simp [normTree]
  · simp only [hf2]
    rw [appendAll_child dep b.forest n none (norm cs) hs]
    exact hasSpine_appendAt dep _ _ hs
  · rw [hstep, heq2, hstep3]

/-- both claims hold for every tree and forest -/
theorem forestClaim_all : ∀ f, ForestClaim (k := k) (cfg := cfg) (openL := openL) d f := by
  intro f
  refine @Tree.rec_1 (TreeClaim (k := k) (cfg := cfg) (openL := openL) d)
    (ForestClaim (k := k) (cfg := cfg) (openL := openL) d) ?_ (forestClaim_nil d) ?_ f
  · intro n v cs ih
    by_cases hne : cs = []
    · subst hne; exact treeClaim_leaf hst d hd n v
    · exact treeClaim_section hst d hd n v cs hne ih
  · intro t ts iht ihts
    exact forestClaim_cons d t ts iht ihts

/-- the element loop on a whole text in a nested style, from any clean parser state -/
theorem loop_nest (f : Forest) (hok : nodesOk f = true) (hfit : forestFits cfg.sect cfg.opt f = true) (s : St) (prev : Nat)
    (hprev : prev ≠ 0 ∧ prev &&& 3 = 1)
    (hclean : Clean [] s.path) (hv : s.valid = 0) (tail : List UInt8) (b : Bool) (htail : visSkip false tail = some b) :
    (loop k cfg nodeAppend ({} : Build) prev s { rest := renderNest openL d 0 f ++ tail }).code = 0
    ∧ (loop k cfg nodeAppend ({} : Build) prev s { rest := renderNest openL d 0 f ++ tail }).ctx.forest = norm f := by
  obtain ⟨b', prev', s', src', J', hr, _, hf, _, heq⟩ :=
    forestClaim_all hst d hd f 0 0 [] ({} : Build) prev s { rest := renderNest openL d 0 f ++ tail } [] tail true hok hfit
      ⟨hclean, hv, rfl, by simp⟩ (by simp [Mode, hprev.1, hprev.2]) trivial
  obtain ⟨s2, src2, heof⟩ := hst.eof s' src' prev' (J' ++ tail) b hr.clean
    (visSkip_append _ _ _ _ _ hr.junk htail) hr.src
  obtain ⟨hcode, hctx⟩ := loop_stop k cfg b' prev' s' s2 src' src2 heof
  rw [heq]
  refine ⟨hcode, ?_⟩
  rw [hctx, hf]
  simp [appendAll_zero]

end induction

/-! ### brace style: `mpt_parse_format_pre`, default format -/

theorem nestStyle_B (fs fo : Nat) : NestStyle .pre (cfgB fs fo) openLine where
  optLine := by
    intro e s src prev junk n pre post tr rest ov h1 h2 h3 h4 hnc h5 h6 h7 h8 h9
    simp only [next]
    exact pre_option_line e s src junk n pre post tr rest ov h1 h2 h3 h4 hnc h5 h6 h7 h8 h9
  openLine := by
    intro e s src prev J dl n rest hclean hv hJ hdl hn hnc hsrc
    obtain ⟨hpre, _, _, hht⟩ := LineDecor.ok_parts _ hdl
    have hjunk := visSkip_lead J dl hJ hdl
    have hsrc' : src.rest = (J ++ dl.before ++ dl.indent) ++ n ++ dl.pre ++ 123 :: ((headTrail dl ++ [10]) ++ rest) := by
      rw [hsrc]; simp [openLine, List.append_assoc]
    obtain ⟨s1, src1, heq, hs1, hrest⟩ := pre_open_line e s src _ n dl.pre _ hclean hv hjunk hn hnc hpre hsrc'
    exact ⟨s1, src1, headTrail dl ++ [10], by simp only [next]; exact heq, hs1, visSkip_headTrail _ hht, hrest⟩
  closeLine := by
    intro e m s src prev junk rest hclean hv hj hsrc
    obtain ⟨ln3, src3, heq3, hrest3⟩ := pre_close_line (e ++ [m]) s src junk rest hclean hv hj hsrc
    obtain ⟨fi3, hafter3⟩ := afterSave_del e m [125] false s.path.first 2 (Or.inl rfl)
    exact ⟨_, src3, _, by simp only [next]; exact heq3, rfl, hafter3, clean_pth e fi3, hrest3⟩
  eof := by
    intro s src prev junk b hclean hj hsrc
    obtain ⟨s2, src2, h⟩ := pre_eof s src junk b hclean hj hsrc
    exact ⟨s2, src2, by simp only [next]; exact h⟩

/-- the element loop on a whole text in brace style (with insignificant text `tail` behind the last
    element), from any clean parser state, under the name restriction words `fs` / `fo` -/
theorem loop_brace (fs fo : Nat) (d : Decor) (hd : d.ok) (f : Forest) (hok : nodesOk f = true)
    (hfit : forestFits fs fo f = true) (s : St)
    (hclean : Clean [] s.path) (hv : s.valid = 0) (tail : List UInt8) (b : Bool) (htail : visSkip false tail = some b) :
    (loop .pre (cfgB fs fo) nodeAppend ({} : Build) Flag.section_ s { rest := renderBrace d 0 f ++ tail }).code = 0
    ∧ (loop .pre (cfgB fs fo) nodeAppend ({} : Build) Flag.section_ s { rest := renderBrace d 0 f ++ tail }).ctx.forest
        = norm f :=
  loop_nest (nestStyle_B fs fo) d hd f hok hfit s Flag.section_ (by decide) hclean hv tail b htail

/-- **brace style is read back**: `mpt_parse_node` on an empty target, default format, name restriction words
    that permit the names of the forest, applied to the text of an admissible forest with any valid decoration,
    succeeds with the normal form of the forest -/
theorem parseNode_brace (fs fo : Nat) (d : Decor) (hd : d.ok) (f : Forest) (hok : nodesOk f = true)
    (hfit : forestFits fs fo f = true)
    (tail : List UInt8) (b : Bool) (htail : visSkip false tail = some b) :
    (parseNode [] none fs fo (-2) (renderBrace d 0 f ++ tail)).code = 0
    ∧ (parseNode [] none fs fo (-2) (renderBrace d 0 f ++ tail)).children = norm f := by
  have hcfg : ({ fmt := (parseFormat none).1, sect := fs, opt := fo, eof := -2 } : Cfg) = cfgB fs fo := rfl
  have hkind : Kind.ofType (parseFormat none).2 = some .pre := by decide
  obtain ⟨hcode, hforest⟩ := loop_brace fs fo d hd f hok hfit ({} : St) clean_init rfl tail b htail
  have hloop : parseConfig .pre (cfgB fs fo) nodeAppend ({} : Build) Flag.section_ (renderBrace d 0 f ++ tail)
      = loop .pre (cfgB fs fo) nodeAppend ({} : Build) Flag.section_ ({} : St) { rest := renderBrace d 0 f ++ tail } := rfl
  unfold parseNode
  simp only [hkind, hcfg, hloop, hcode, hforest]
  simp

end Mpt.Parse
