/-
  The decimal `strtod` model: what it consumes is a decimal numeral (Spec/Scalar `IsDecNumeral`) and its value is the
  correctly rounded value of the number that numeral denotes.
-/
import MptModel.Impl.Convert
import MptModel.Lemmas.ConvText

namespace Mpt.Conv
open Mpt.Scalar Mpt.Flt

theorem takeWhile_all {α} (p : α → Bool) (l : List α) : (l.takeWhile p).all p = true := by
  induction l with
  | nil => rfl
  | cons a r ih =>
    simp only [List.takeWhile]
    cases h : p a <;> simp [h, ih]

theorem splitSign_spec (s : List Nat) :
    s = (splitSign s).1 ++ (splitSign s).2 ∧
    ((splitSign s).1 = [] ∨ (splitSign s).1 = [43] ∨ (splitSign s).1 = [45]) := by
  unfold splitSign
  cases s with
  | nil => simp
  | cons c r =>
    by_cases h : c = 43 ∨ c = 45
    · simp only [h, if_true]
      rcases h with h | h <;> simp [h]
    · simp [h]

theorem splitExp_spec (s : List Nat) :
    s = (splitExp s).1 ++ ((splitExp s).2.1 ++ ((splitExp s).2.2.1 ++ (splitExp s).2.2.2)) ∧
    ((splitExp s).1 = [] ∨ (splitExp s).1 = [101] ∨ (splitExp s).1 = [69]) ∧
    ((splitExp s).2.1 = [] ∨ (splitExp s).2.1 = [43] ∨ (splitExp s).2.1 = [45]) ∧
    (splitExp s).2.2.1.all isDigit = true ∧
    ((splitExp s).1 = [] → (splitExp s).2.1 = [] ∧ (splitExp s).2.2.1 = []) ∧
    ((splitExp s).1 ≠ [] → (splitExp s).2.2.1 ≠ []) := by
  unfold splitExp
  cases s with
  | nil => simp
  | cons c r =>
    by_cases h : c = 101 ∨ c = 69
    · simp only [h, if_true]
      obtain ⟨hs, hsg⟩ := splitSign_spec r
      by_cases hd : (splitSign r).2.takeWhile isDigit = []
      · simp [hd]
      · simp only [hd, if_false]
        refine ⟨?_, ?_, hsg, takeWhile_all _ _, ?_, fun _ => hd⟩
        · simp only [List.cons_append, List.nil_append, List.takeWhile_append_dropWhile]
          rw [← hs]
        · rcases h with h | h <;> simp [h]
        · simp
    · simp [h]

theorem splitFrac_spec (s : List Nat) :
    s = (splitFrac s).1 ++ ((splitFrac s).2.1 ++ (splitFrac s).2.2) ∧
    ((splitFrac s).1 = [] ∨ (splitFrac s).1 = [46]) ∧ (splitFrac s).2.1.all isDigit = true ∧
    ((splitFrac s).1 = [] → (splitFrac s).2.1 = []) := by
  unfold splitFrac
  cases s with
  | nil => simp
  | cons c r =>
    by_cases hc : c = 46
    · simp only [hc, if_true]
      exact ⟨by simp, by simp, takeWhile_all _ _, by simp⟩
    · simp [hc]

theorem scanDec_spec (s : List Nat) (p : DecParts) (rest : List Nat) (h : scanDec s = some (p, rest)) :
    p.valid ∧ s = p.text ++ rest := by
  simp only [scanDec] at h
  split at h
  · cases h
  rename_i hne
  simp only [Option.some.injEq, Prod.mk.injEq] at h
  obtain ⟨hp, hr⟩ := h
  obtain ⟨hs1, hsg⟩ := splitSign_spec (s.dropWhile isSpace)
  obtain ⟨hf1, hdot, hfp, hdot0⟩ := splitFrac_spec ((splitSign (s.dropWhile isSpace)).2.dropWhile isDigit)
  obtain ⟨hex, hem, hes, hed, hem0, hem1⟩ :=
    splitExp_spec (splitFrac ((splitSign (s.dropWhile isSpace)).2.dropWhile isDigit)).2.2
  subst hp hr
  refine ⟨⟨takeWhile_all _ _, hsg, takeWhile_all _ _, hdot, hfp, hdot0, ?_, hem, hes, hed, hem0, hem1⟩, ?_⟩
  · by_cases hip : (splitSign (s.dropWhile isSpace)).2.takeWhile isDigit = []
    · right; intro hf; exact hne ⟨hip, hf⟩
    · left; exact hip
  · simp only [DecParts.text, List.append_assoc]
    rw [← hex, ← hf1, List.takeWhile_append_dropWhile, ← hs1, List.takeWhile_append_dropWhile]

/-- what the decimal `strtod` model consumes is a decimal numeral, and its value is that numeral's correctly rounded
    value -/
theorem strtoDec_spec (fmt : Fmt) (s : List Nat) (hk : (strtoDec fmt s).consumed ≠ 0) :
    ∃ neg m e, IsDecNumeral (s.take (strtoDec fmt s).consumed) neg m e ∧
      (strtoDec fmt s).value = roundDec fmt neg m e ∧ (strtoDec fmt s).consumed ≤ s.length := by
  unfold strtoDec at hk ⊢
  cases hsc : scanDec s with
  | none => simp [hsc] at hk
  | some pr =>
    obtain ⟨p, rest⟩ := pr
    obtain ⟨hv, hs⟩ := scanDec_spec s p rest hsc
    simp only
    refine ⟨p.neg, p.mant, p.exp10, ⟨p, hv, ?_, rfl, rfl, rfl⟩, rfl, ?_⟩
    · conv => rhs; rw [hs]
      simp
    · conv => rhs; rw [hs]
      simp

theorem strtoDec_contract (fmt : Fmt) (s : List Nat) : (strtoDec fmt s).contract := by
  unfold StrToF.contract
  cases hsc : scanDec s with
  | none => simp [strtoDec, hsc]
  | some pr =>
    obtain ⟨p, rest⟩ := pr
    simp only [strtoDec, hsc]
    cases hv : roundDec fmt p.neg p.mant p.exp10 with
    | inf sg => intro _; exact ⟨by simp, sg, rfl⟩
    | nan => simp
    | fin a b c => simp

/-- the model flags overflow exactly when the rounded value is an infinity -/
theorem strtoDec_overflow (fmt : Fmt) (s : List Nat) (h : (strtoDec fmt s).overflow = false) :
    ∀ sg, (strtoDec fmt s).value ≠ .inf sg := by
  cases hsc : scanDec s with
  | none => intro sg; simp [strtoDec, hsc]
  | some pr =>
    obtain ⟨p, rest⟩ := pr
    simp only [strtoDec, hsc] at h ⊢
    cases hv : roundDec fmt p.neg p.mant p.exp10 with
    | inf sg => rw [hv] at h; simp at h
    | nan => intro sg; simp
    | fin a b c => intro sg; simp

/-! ### the float parsers never fault and query = perform -/

def floatAtomSafe (ty : CTy) : TextAtom → Bool
  | .val (.cmp _ cty _) => cty.isFloat && decide (ty.size ≤ cty.size)
  | .val _ => false
  | _ => true

/-- every test of the parser is one that a floating-point temporary can be put to, and the single width case stores
    only under `if (val)` -/
def checkFloatSafe (p : TextParser) : Bool :=
  (p.guards.all fun g => g.conds.all fun c => c.all (floatAtomSafe p.tmpTy)) &&
  (match p.widths with | [w] => w.guarded | _ => false)

def Res.plain {α} : Res α → Bool
  | .ok _ => true
  | .err _ => true
  | _ => false

theorem atom_plain (c : TextCtx) (x : FVal) (hx : c.tmp = .flt x) (a : TextAtom) (h : floatAtomSafe c.ty a = true) :
    ∃ b, a.eval c = .ok b := by
  cases a with
  | erange => exact ⟨_, rfl⟩
  | minus => exact ⟨_, rfl⟩
  | rangeArg => exact ⟨_, rfl⟩
  | val a =>
    cases a with
    | cmp op cty k =>
      simp only [floatAtomSafe, Bool.and_eq_true, decide_eq_true_eq] at h
      exact ⟨cmpF op x k, by simp [TextAtom.eval, Atom.eval, hx, Atom.evalF, h.1, h.2]⟩
    | notIsgraph i => simp [floatAtomSafe] at h

theorem conj_plain (c : TextCtx) (x : FVal) (hx : c.tmp = .flt x) (as : List TextAtom)
    (h : as.all (floatAtomSafe c.ty) = true) : ∃ b, evalTConj c as = .ok b := by
  induction as with
  | nil => exact ⟨true, rfl⟩
  | cons a r ih =>
    simp only [List.all_cons, Bool.and_eq_true] at h
    obtain ⟨b, hb⟩ := atom_plain c x hx a h.1
    simp only [evalTConj, hb]
    cases b with
    | true => exact ih h.2
    | false => exact ⟨false, rfl⟩

theorem disj_plain (c : TextCtx) (x : FVal) (hx : c.tmp = .flt x) (cs : List (List TextAtom))
    (h : cs.all (fun a => a.all (floatAtomSafe c.ty)) = true) : ∃ b, evalTDisj c cs = .ok b := by
  induction cs with
  | nil => exact ⟨false, rfl⟩
  | cons a r ih =>
    simp only [List.all_cons, Bool.and_eq_true] at h
    obtain ⟨b, hb⟩ := conj_plain c x hx a h.1
    simp only [evalTDisj, hb]
    cases b with
    | false => exact ih h.2
    | true => exact ⟨true, rfl⟩

theorem guards_plain (c : TextCtx) (x : FVal) (hx : c.tmp = .flt x) (gs : List TextGuard)
    (h : gs.all (fun g => g.conds.all fun a => a.all (floatAtomSafe c.ty)) = true) :
    evalTGuards c gs = .ok () ∨ ∃ e, evalTGuards c gs = .err e := by
  induction gs with
  | nil => exact Or.inl rfl
  | cons g r ih =>
    simp only [List.all_cons, Bool.and_eq_true] at h
    obtain ⟨b, hb⟩ := disj_plain c x hx g.conds h.1
    simp only [evalTGuards, hb]
    cases b with
    | false => exact ih h.2
    | true => exact Or.inr ⟨_, rfl⟩

def dropF : Res (Option FVal × Nat) → Res (Option FVal × Nat)
  | .ok (_, n) => .ok (none, n)
  | r => r

/-- a checked float parser: never faults, and the query gives the verdict and count of the storing call -/
theorem runFloatParser_safe (p : TextParser) (hc : checkFloatSafe p = true) (r : StrToF) (s : List Nat) :
    (∀ d, verdict (runFloatParser p r s d) ≠ .broken) ∧
    runFloatParser p r s false = dropF (runFloatParser p r s true) := by
  simp only [checkFloatSafe, Bool.and_eq_true] at hc
  obtain ⟨hg, hw⟩ := hc
  have hgp := guards_plain (floatCtx p r.value r.erange) r.value rfl p.guards hg
  cases hws : p.widths with
  | nil => rw [hws] at hw; cases hw
  | cons w ws =>
    cases ws with
    | cons w2 ws2 => rw [hws] at hw; cases hw
    | nil =>
      rw [hws] at hw
      simp only at hw
      unfold runFloatParser
      refine ⟨?_, ?_⟩
      · intro d
        split
        · simp [verdict]
        split
        · split <;> simp [verdict]
        rcases hgp with h | ⟨e, h⟩
        · simp only [h, hws, hw]; cases d <;> simp [verdict]
        · simp [h, verdict]
      · split
        · rfl
        split
        · split <;> rfl
        rcases hgp with h | ⟨e, h⟩
        · simp [h, hws, hw, dropF]
        · simp [h, dropF]

theorem convertStringF_safe (tgt : Ty) (strto : List Nat → StrToF) (s : List Nat)
    (hc : ∀ p, numberFloatTarget tgt = some p → checkFloatSafe p = true) :
    (∀ d, verdict (convertStringF tgt strto s d) ≠ .broken) ∧
    convertStringF tgt strto s false = dropF (convertStringF tgt strto s true) := by
  cases hp : numberFloatTarget tgt with
  | none =>
    simp only [convertStringF, convertNumberF, hp]
    refine ⟨fun d => ?_, ?_⟩
    · split <;> simp [verdict]
    · split <;> simp [dropF]
  | some p =>
    obtain ⟨hv, hq⟩ := runFloatParser_safe p (hc p hp) (strto (s.dropWhile isSpace)) (s.dropWhile isSpace)
    simp only [convertStringF, convertNumberF, hp]
    refine ⟨fun d => ?_, ?_⟩
    · split
      · simp [verdict]
      · have := hv d
        generalize runFloatParser p (strto (s.dropWhile isSpace)) (s.dropWhile isSpace) d = res at this ⊢
        cases res with
        | ok v => obtain ⟨o, n⟩ := v; simp only; split <;> simp [verdict]
        | err e => simp [verdict]
        | null => simp [verdict] at this
        | oob => simp [verdict] at this
        | fault => simp [verdict] at this
    · split
      · rfl
      · simp only [hq]
        generalize runFloatParser p (strto (s.dropWhile isSpace)) (s.dropWhile isSpace) true = res
        cases res with
        | ok v => obtain ⟨o, n⟩ := v; simp only [dropF]; split <;> rfl
        | err e => rfl
        | null => rfl
        | oob => rfl
        | fault => rfl

theorem runFloatParser_query_none (p : TextParser) (r : StrToF) (s : List Nat) (o : Option FVal) (n : Nat)
    (h : runFloatParser p r s false = .ok (o, n)) : o = none := by
  unfold runFloatParser at h
  split at h
  · simp at h; exact h.1.symm
  split at h
  · split at h <;> simp at h; exact h.1.symm
  simp only at h
  cases hg : evalTGuards (floatCtx p r.value r.erange) p.guards with
  | ok u =>
    rw [hg] at h
    cases hw : p.widths with
    | nil => simp [hw] at h
    | cons w ws =>
      cases ws with
      | cons w2 ws2 => simp [hw] at h
      | nil =>
        simp only [hw, Bool.false_eq_true, if_false] at h
        split at h
        · simp at h; exact h.1.symm
        · cases h
  | err e => rw [hg] at h; cases h
  | null => rw [hg] at h; cases h
  | oob => rw [hg] at h; cases h
  | fault => rw [hg] at h; cases h

theorem isDecNumeral_prepend (ws t : List Nat) (hws : ws.all isSpace = true) (neg : Bool) (m : Nat) (e : Int)
    (h : IsDecNumeral t neg m e) : IsDecNumeral (ws ++ t) neg m e := by
  obtain ⟨p, hv, ht, hn, hm, he⟩ := h
  refine ⟨{ p with ws := ws ++ p.ws }, ?_, ?_, hn, hm, he⟩
  · obtain ⟨h1, h2⟩ := hv
    exact ⟨by simp [List.all_append, hws, h1], h2⟩
  · simp only [DecParts.text, List.append_assoc] at ht ⊢
    rw [ht]

/-- `mpt_convert_string` for a float target over the decimal `strtod` model: what an accepted conversion consumed is
    white space followed by a decimal numeral, its correctly rounded value is finite and is what is stored -/
theorem convertStringF_decimal (tgt : Ty) (p : TextParser) (hp : numberFloatTarget tgt = some p)
    (hc : checkFloatParser p = true) (fmt : Fmt)
    (s : List Nat) (d : Bool) (o : Option FVal) (n : Nat)
    (h : convertStringF tgt (strtoDec fmt) s d = .ok (o, n)) (hn : n ≠ 0) :
    n ≤ s.length ∧ ∃ neg m e, IsDecNumeral (s.take n) neg m e ∧ (∀ sg, roundDec fmt neg m e ≠ .inf sg) ∧
      (d = true → o = some (roundDec fmt neg m e)) ∧ (d = false → o = none) := by
  simp only [convertStringF, convertNumberF, hp] at h
  split at h
  · simp at h; exact absurd h.2.symm hn
  generalize hres : runFloatParser p (strtoDec fmt (s.dropWhile isSpace)) (s.dropWhile isSpace) d = res at h
  cases res with
  | ok v =>
    obtain ⟨o', n'⟩ := v
    simp only at h
    split at h
    · simp at h; exact absurd h.2.symm hn
    rename_i hn'
    simp only [Res.ok.injEq, Prod.mk.injEq] at h
    obtain ⟨ho, hnn⟩ := h
    subst ho
    obtain ⟨hov, hcons, hst⟩ := runFloatParser_no_overflow p hc _ (strtoDec_contract fmt _) _ d o' n' hres hn'
    have hk : (strtoDec fmt (s.dropWhile isSpace)).consumed ≠ 0 := by rw [← hcons]; exact hn'
    obtain ⟨neg, m, e, hnum, hval, hle⟩ := strtoDec_spec fmt (s.dropWhile isSpace) hk
    rw [← hcons] at hnum hle
    have hs : s = s.takeWhile isSpace ++ s.dropWhile isSpace := (List.takeWhile_append_dropWhile).symm
    have htake : s.take n = s.takeWhile isSpace ++ (s.dropWhile isSpace).take n' := by
      rw [← hnn]
      have := List.take_length_add_append (l₁ := s.takeWhile isSpace) (l₂ := s.dropWhile isSpace) (i := n')
      rwa [List.takeWhile_append_dropWhile] at this
    refine ⟨?_, neg, m, e, ?_, ?_, ?_, ?_⟩
    · rw [← hnn]
      have : s.length = (s.takeWhile isSpace).length + (s.dropWhile isSpace).length := by
        rw [← List.length_append, List.takeWhile_append_dropWhile]
      omega
    · rw [htake]; exact isDecNumeral_prepend _ _ (takeWhile_all _ _) neg m e hnum
    · rw [← hval]; exact strtoDec_overflow fmt _ hov
    · intro hd; rw [hst hd, hval]
    · intro hd; subst hd; exact runFloatParser_query_none p _ _ o' n' hres
  | err e => cases h
  | null => cases h
  | oob => cases h
  | fault => cases h

end Mpt.Conv