/-
  What one call of a format function does to the committed path elements (for C08.well_nested):
  a returned element is one of the five codes, and
    section (1), option (3), option with data (7): exactly one element was appended,
    section end (2), data (4): the elements are unchanged.
-/
import MptModel.Impl.ParseConfig

namespace Mpt.Parse

/-! ### generic loop invariant -/
theorem scanAux_inv {σ ρ : Type} (step : σ → UInt8 → Step σ ρ) (atEnd : σ → ρ) (P : σ → Prop) (Q : ρ → Prop)
    (hmore : ∀ s c s', P s → step s c = .more s' → P s')
    (hdone : ∀ s c r, P s → step s c = .done r → Q r)
    (hend : ∀ s, P s → Q (atEnd s)) :
    ∀ (rest : List UInt8) (n : Nat) (t : List UInt8) (s : σ), P s → Q (scanAux step atEnd rest n t s).1 := by
  intro rest
  induction rest with
  | nil => intro n t s h; simp only [scanAux]; exact hend s h
  | cons c r ih =>
    intro n t s h
    unfold scanAux
    split
    · rename_i s' hs; exact ih _ _ _ (hmore s c s' h hs)
    · rename_i out hs; exact hdone s c out h hs

theorem scan_inv {σ ρ : Type} (step : σ → UInt8 → Step σ ρ) (atEnd : σ → ρ) (P : σ → Prop) (Q : ρ → Prop)
    (hmore : ∀ s c s', P s → step s c = .more s' → P s')
    (hdone : ∀ s c r, P s → step s c = .done r → Q r)
    (hend : ∀ s, P s → Q (atEnd s)) (src : Src) (s : σ) (h : P s) : Q (scan step atEnd src s).1 :=
  scanAux_inv step atEnd P Q hmore hdone hend src.rest src.reads src.trace s h

/-! ### path operations and the committed elements -/
@[simp] theorem Path.addchar_elems (p : Path) (c : UInt8) : (p.addchar c).elems = p.elems := by
  cases p; simp only [Path.addchar]; repeat' split
  all_goals rfl
@[simp] theorem Path.delchar_elems (p : Path) : p.delchar.elems = p.elems := by
  cases p; simp only [Path.delchar]; repeat' split
  all_goals rfl
@[simp] theorem Path.valid_elems (p : Path) : p.valid.2.elems = p.elems := by
  cases p; simp only [Path.valid]; repeat' split
  all_goals rfl
@[simp] theorem Path.invalidate_elems (p : Path) : p.invalidate.elems = p.elems := by
  unfold Path.invalidate; split <;> rfl
theorem Path.add_elems (p p' : Path) (n : Nat) (h : p.add n = .ok p') : p'.elems = p.elems ++ [p.head n] := by
  unfold Path.add at h
  split at h
  · split at h
    · cases h
    · rename_i hc
      simp only [Bool.or_eq_true, bne_iff_ne, ne_eq, Bool.not_eq_eq_eq_not, Bool.not_true, not_or,
        Decidable.not_not, Bool.not_eq_false] at hc
      simp only [Except.ok.injEq] at h; rw [← h]
      have he : p.elems = [] := by simpa using hc.2
      rw [he, hc.1]
      simp [Path.head]
  · split at h
    · cases h
    · split at h
      · cases h
      · simp only [Except.ok.injEq] at h; rw [← h]

@[simp] theorem St.markValid_elems (s : St) : s.markValid.path.elems = s.path.elems := by
  cases s; simp [St.markValid]
@[simp] theorem St.save_elems (s : St) (c : UInt8) : (s.save c).path.elems = s.path.elems := by
  cases s; simp only [St.save]; split <;> simp
theorem St.commit_elems (s s' : St) (f : Nat) (e1 e2 : Err) (h : s.commit f e1 e2 = .ok s') :
    s'.path.elems = s.path.elems ++ [s.name] := by
  unfold St.commit at h
  split at h
  · cases h
  · split at h
    · cases h
    · rename_i p hp
      simp only [Except.ok.injEq] at h; rw [← h]
      exact Path.add_elems _ _ _ hp

/-- the committed elements of the state a result carries -/
abbrev Out.elems (o : Out) : List (List UInt8) := o.2.1.path.elems

/-- effect of one element function on the committed elements `e` -/
def Good (e : List (List UInt8)) (o : Out) : Prop :=
  o.1 ≤ 0 ∨ ((o.1 = 1 ∨ o.1 = 3 ∨ o.1 = 7) ∧ ∃ n, o.elems = e ++ [n]) ∨ ((o.1 = 2 ∨ o.1 = 4) ∧ o.elems = e)

theorem good_err (e : List (List UInt8)) (x : Err) (s : St) (src : Src) : Good e (err x s src) :=
  Or.inl (by have := Err.code_neg x; simp only [err]; omega)

theorem endline_elems (s : St) (src : Src) : (endline s src).1.path.elems = s.path.elems := by
  unfold endline; rfl

theorem nextvis_elems (f : Format) (s : St) (src : Src) : (nextvis f s src).2.1.path.elems = s.path.elems := by
  unfold nextvis; rfl

theorem nextvis_eq_elems {f : Format} {s : St} {src : Src} {x : Option UInt8} {s1 : St} {src1 : Src}
    (h : nextvis f s src = (x, s1, src1)) : s1.path.elems = s.path.elems := by
  have := nextvis_elems f s src; rw [h] at this; exact this

/-! ### `mpt_parse_data` keeps the elements -/
theorem optFirst_eq_elems {f : Format} {s : St} {src : Src} {x : Option UInt8} {s1 : St} {src1 : Src}
    (h : optFirst f s src = (x, s1, src1)) : s1.path.elems = s.path.elems := by
  unfold optFirst at h
  split at h
  · split at h
    · simp only [Prod.mk.injEq] at h; rw [← h.2.1]
    · simp only [Prod.mk.injEq] at h; rw [← h.2.1]
  · exact nextvis_eq_elems h

def DataExit.st : DataExit → St
  | .oend s => s | .newline s => s | .comment s => s | .eof s => s

theorem dataStep_more (f : Format) (d d' : DataSt) (c : UInt8) (h : dataStep f d c = .more d') :
    d'.st.path.elems = d.st.path.elems := by
  unfold dataStep at h
  simp only [] at h
  (repeat' split at h) <;> cases h <;> simp

theorem dataStep_done (f : Format) (d : DataSt) (c : UInt8) (r : DataExit) (h : dataStep f d c = .done r) :
    r.st.path.elems = d.st.path.elems := by
  unfold dataStep at h
  simp only [] at h
  (repeat' split at h) <;> cases h <;> simp [DataExit.st]

theorem dataFinish_elems (cfg : Cfg) (s : St) (b : Bool) (src : Src) :
    (dataFinish cfg s b src).2.1.path.elems = s.path.elems := by
  unfold dataFinish; split <;> rfl

theorem parseData_elems (cfg : Cfg) (s : St) (src : Src) :
    (parseData cfg s src).2.1.path.elems = s.path.elems := by
  unfold parseData
  have h := scan_inv (dataStep cfg.fmt) (fun d => DataExit.eof d.st)
    (fun d => d.st.path.elems = s.path.elems) (fun r => r.st.path.elems = s.path.elems)
    (by intro d c d' hp hs; rw [dataStep_more _ _ _ _ hs]; exact hp)
    (by intro d c r hp hs; rw [dataStep_done _ _ _ _ hs]; exact hp)
    (by intro d hp; exact hp) src { st := s } rfl
  simp only []
  split <;> rename_i hx <;> rw [hx] at h <;> simp only [DataExit.st] at h
  · rw [dataFinish_elems]; exact h
  · rw [dataFinish_elems]; exact h
  · rw [dataFinish_elems]; exact h
  · rw [dataFinish_elems, endline_elems]; exact h

/-- name complete, value follows: an option element with exactly one more path element -/
theorem nameThenData_good (cfg : Cfg) (s : St) (src : Src) (e : Err) :
    Good s.path.elems (nameThenData cfg s src e) := by
  unfold nameThenData
  split
  · exact good_err _ _ _ _
  · rename_i s1 hc
    have he := St.commit_elems _ _ _ _ _ hc
    simp only []
    have hd := parseData_elems cfg { s1 with path := s1.path.invalidate, valid := 0 } src
    simp only [Path.invalidate_elems] at hd
    split
    · rename_i hneg; exact Or.inl (Int.le_of_lt hneg)
    · split
      · refine Or.inr (Or.inl ⟨Or.inr (Or.inl rfl), s.name, ?_⟩)
        simp only [Out.elems]; rw [hd, he]
      · refine Or.inr (Or.inl ⟨Or.inr (Or.inr rfl), s.name, ?_⟩)
        simp only [Out.elems]; rw [hd, he]

/-! ### `mpt_parse_option` -/
def OptExit.st : OptExit → St
  | .ret _ s => s | .data s => s | .brk s => s | .comment s => s

theorem optBody_more (cfg : Cfg) (s s' : St) (c : UInt8) (h : optBody cfg s c = .more s') :
    s'.path.elems = s.path.elems := by
  unfold optBody at h
  simp only [] at h
  (repeat' split at h) <;> cases h <;> simp

/-- exits of the option loop: an error code, or a state with the elements unchanged -/
def OptExit.ok (e : List (List UInt8)) : OptExit → Prop
  | .ret code s => code < 0 ∧ s.path.elems = e
  | .data s => s.path.elems = e
  | .brk s => s.path.elems = e
  | .comment s => s.path.elems = e

theorem optBody_done (cfg : Cfg) (s : St) (c : UInt8) (r : OptExit) (h : optBody cfg s c = .done r) :
    r.ok s.path.elems := by
  unfold optBody at h
  simp only [] at h
  (repeat' split at h) <;> cases h <;> simp [OptExit.ok, Err.code]

theorem optFinish_good (cfg : Cfg) (s : St) (src : Src) : Good s.path.elems (optFinish cfg s src) := by
  unfold optFinish
  simp only []
  split
  · exact good_err _ _ _ _
  · exact Or.inr (Or.inr ⟨Or.inr rfl, rfl⟩)

theorem optExit_good (cfg : Cfg) (e : List (List UInt8)) (x : OptExit) (src : Src) (h : x.ok e) :
    Good e (optExit cfg x src) := by
  unfold optExit
  split
  · simp only [OptExit.ok] at h; exact Or.inl (Int.le_of_lt h.1)
  · simp only [OptExit.ok] at h; rw [← h]; exact nameThenData_good _ _ _ _
  · simp only [OptExit.ok] at h; rw [← h]; exact optFinish_good _ _ _
  · rename_i s0
    simp only [OptExit.ok] at h; simp only []
    have := optFinish_good cfg (endline s0 src).1 (endline s0 src).2
    rw [endline_elems, h] at this; exact this

theorem parseOption_good (cfg : Cfg) (s : St) (src : Src) : Good s.path.elems (parseOption cfg s src) := by
  unfold parseOption
  simp only []
  split
  · rename_i s1 src1 h
    split
    · exact good_err _ _ _ _
    · split
      · exact good_err _ _ _ _
      · exact Or.inl (by simp)
  · rename_i c s1 src1 h
    have he := optFirst_eq_elems h
    split
    · exact good_err _ _ _ _
    · split
      · rename_i x hx
        have := optBody_done _ _ _ _ hx
        simp only [Path.addchar_elems, he] at this
        exact optExit_good _ _ _ _ this
      · rename_i s3 hx
        have h3 := optBody_more _ _ _ _ hx
        simp only [Path.addchar_elems, he] at h3
        refine optExit_good _ _ _ _ ?_
        refine scan_inv _ _ (fun s' => s'.path.elems = s.path.elems) (fun r : OptExit => r.ok s.path.elems)
          ?_ ?_ ?_ src1 s3 h3
        · intro s' c' s'' hp hs
          rw [optBody_more _ _ _ _ hs]; simp [hp]
        · intro s' c' r hp hs
          have := optBody_done _ _ _ _ hs
          simp only [St.save_elems, hp] at this; exact this
        · intro s' hp
          simp only [OptExit.ok]
          exact ⟨by split <;> simp [Err.code], hp⟩

/-! ### `mpt_parse_format_pre` -/
/-- exits of the loop of `mpt_parse_format_pre` that keep the elements -/
def PreExit.ok (e : List (List UInt8)) : PreExit → Prop
  | .ret code s => (code < 0 ∨ code = 2) ∧ s.path.elems = e
  | .option s => s.path.elems = e
  | .data s => s.path.elems = e
  | .brk s _ => s.path.elems = e
  | .comment s _ => s.path.elems = e
  | .newline s => s.path.elems = e

theorem preBody_more (cfg : Cfg) (s s' : St) (c : UInt8) (h : preBody cfg s c = .more s') :
    s'.path.elems = s.path.elems := by
  unfold preBody at h
  simp only [] at h
  (repeat' split at h) <;> cases h <;> simp

theorem preBody_done (cfg : Cfg) (s : St) (c : UInt8) (r : PreExit) (h : preBody cfg s c = .done r) :
    r.ok s.path.elems := by
  unfold preBody at h
  simp only [] at h
  (repeat' split at h) <;> cases h <;> simp [PreExit.ok, Flag.sectEnd]

theorem preFinish_good (cfg : Cfg) (s : St) (c : Option UInt8) (src : Src) :
    Good s.path.elems (preFinish cfg s c src) := by
  unfold preFinish
  simp only []
  split
  · split
    · exact good_err _ _ _ _
    · rename_i s2 hc
      have := St.commit_elems _ _ _ _ _ hc
      exact Or.inr (Or.inl ⟨Or.inl rfl, _, this⟩)
  · split
    · split
      · exact good_err _ _ _ _
      · exact Or.inr (Or.inr ⟨Or.inr rfl, rfl⟩)
    · exact good_err _ _ _ _

theorem preExit_good (cfg : Cfg) (e : List (List UInt8)) (x : PreExit) (src : Src) (h : x.ok e) :
    Good e (preExit cfg x src) := by
  unfold preExit
  split
  · simp only [PreExit.ok] at h
    rcases h.1 with hc | hc
    · exact Or.inl (Int.le_of_lt hc)
    · exact Or.inr (Or.inr ⟨Or.inl hc, h.2⟩)
  · simp only [PreExit.ok] at h; rw [← h]; exact parseOption_good _ _ _
  · simp only [PreExit.ok] at h; rw [← h]; exact nameThenData_good _ _ _ _
  · simp only [PreExit.ok] at h; rw [← h]; exact preFinish_good _ _ _ _
  · rename_i s0 c0
    simp only [PreExit.ok] at h; simp only []
    have := preFinish_good cfg (endline s0 src).1 (some c0) (endline s0 src).2
    rw [endline_elems, h] at this; exact this
  · simp only [PreExit.ok] at h
    split
    · rename_i c s1 src1 hv
      have he := nextvis_eq_elems hv
      have := preFinish_good cfg { s1 with path := s1.path.addchar c } (some c) src1
      simp only [Path.addchar_elems, he, h] at this; exact this
    · rename_i s1 src1 hv
      have he := nextvis_eq_elems hv
      have := preFinish_good cfg { s1 with path := s1.path.addchar (if cfg.eof == -2 then 254 else 255) } none src1
      simp only [Path.addchar_elems, he, h] at this; exact this

theorem parseFormatPre_good (cfg : Cfg) (s : St) (src : Src) :
    Good s.path.elems (parseFormatPre cfg s src) := by
  unfold parseFormatPre
  simp only []
  split
  · split
    · exact good_err _ _ _ _
    · split
      · exact Or.inl (by simp)
      · exact good_err _ _ _ _
  · rename_i c s1 src1 h
    have he := nextvis_eq_elems h
    split
    · split
      · exact good_err _ _ _ _
      · rename_i s3 hc
        have := St.commit_elems _ _ _ _ _ hc
        simp only [he] at this
        exact Or.inr (Or.inl ⟨Or.inl rfl, _, this⟩)
    · split
      · rename_i x hx
        have := preBody_done _ _ _ _ hx
        simp only [Path.addchar_elems, he] at this
        exact preExit_good _ _ _ _ this
      · rename_i s3 hx
        have h3 := preBody_more _ _ _ _ hx
        simp only [Path.addchar_elems, he] at h3
        refine preExit_good _ _ _ _ ?_
        refine scan_inv _ _ (fun s' => s'.path.elems = s.path.elems) (fun r : PreExit => r.ok s.path.elems)
          ?_ ?_ ?_ src1 s3 h3
        · intro s' c' s'' hp hs
          rw [preBody_more _ _ _ _ hs]; simp [hp]
        · intro s' c' r hp hs
          have := preBody_done _ _ _ _ hs
          simp only [St.save_elems, hp] at this; exact this
        · intro s' hp; exact hp

/-! ### `mpt_parse_format_enc` -/
def EncExit.ok (e : List (List UInt8)) : EncExit → Prop
  | .ret code s => code < 0 ∧ s.path.elems = e
  | .brk s => s.path.elems = e
  | .comment s => s.path.elems = e

theorem encStep_more (f : Format) (s s' : St) (c : UInt8) (h : encStep f s c = .more s') :
    s'.path.elems = s.path.elems := by
  unfold encStep at h
  simp only [] at h
  (repeat' split at h) <;> cases h <;> simp

theorem encStep_done (f : Format) (s : St) (c : UInt8) (r : EncExit) (h : encStep f s c = .done r) :
    r.ok s.path.elems := by
  unfold encStep at h
  simp only [] at h
  (repeat' split at h) <;> cases h <;> simp [EncExit.ok, Err.code]

theorem encFinish_good (cfg : Cfg) (s : St) (src : Src) : Good s.path.elems (encFinish cfg s src) := by
  unfold encFinish
  split
  · exact good_err _ _ _ _
  · rename_i s1 hc
    have := St.commit_elems _ _ _ _ _ hc
    exact Or.inr (Or.inl ⟨Or.inl rfl, _, this⟩)

theorem encSection_good (cfg : Cfg) (s : St) (src : Src) : Good s.path.elems (encSection cfg s src) := by
  unfold encSection
  simp only []
  split
  · exact good_err _ _ _ _
  · rename_i c s1 src1 h
    have he := nextvis_eq_elems h
    split
    · exact good_err _ _ _ _
    · have hscan := scan_inv (encStep cfg.fmt) (fun s => EncExit.ret Err.MissingData.code s)
        (fun s' => s'.path.elems = s.path.elems) (fun r : EncExit => r.ok s.path.elems)
        (by intro s' c' s'' hp hs; rw [encStep_more _ _ _ _ hs]; exact hp)
        (by intro s' c' r hp hs; have := encStep_done _ _ _ _ hs; rw [hp] at this; exact this)
        (by intro s' hp; exact ⟨by decide, hp⟩) src1
        ({ s1 with curr := Flag.section_ ||| Flag.name, path := s1.path.addchar c }).markValid
        (by simp [he])
      split
      · rename_i code s3 hx
        rw [hx] at hscan
        exact Or.inl (Int.le_of_lt hscan.1)
      · rename_i s3 hx
        rw [hx] at hscan
        simp only [EncExit.ok] at hscan
        rw [← hscan]; exact encFinish_good _ _ _
      · rename_i s3 hx
        rw [hx] at hscan
        simp only [EncExit.ok] at hscan
        have := encFinish_good cfg (endline s3 (scan (encStep cfg.fmt)
          (fun s => EncExit.ret Err.MissingData.code s) src1
          ({ s1 with curr := Flag.section_ ||| Flag.name, path := s1.path.addchar c }).markValid).2).1
          (endline s3 (scan (encStep cfg.fmt)
          (fun s => EncExit.ret Err.MissingData.code s) src1
          ({ s1 with curr := Flag.section_ ||| Flag.name, path := s1.path.addchar c }).markValid).2).2
        rw [endline_elems, hscan] at this; exact this

theorem encOption_good (cfg : Cfg) (s : St) (c : UInt8) (src : Src) :
    Good s.path.elems (encOption cfg s c src) := by
  unfold encOption
  simp only []
  split
  · split
    · exact good_err _ _ _ _
    · have := parseOption_good cfg { s with path := s.path.addchar c } src
      simp only [Path.addchar_elems] at this; exact this
  · have := parseOption_good cfg ({ s with path := s.path.addchar c }).markValid src
    simp only [St.markValid_elems, Path.addchar_elems] at this; exact this

theorem parseFormatEnc_good (cfg : Cfg) (prev : Nat) (s : St) (src : Src) :
    Good s.path.elems (parseFormatEnc cfg prev s src) := by
  unfold parseFormatEnc
  simp only []
  split
  · split
    · exact encSection_good _ _ _
    · split
      · split
        · exact good_err _ _ _ _
        · exact Or.inl (by simp)
      · rename_i c s1 src1 h
        have he := nextvis_eq_elems h
        split
        · exact Or.inr (Or.inr ⟨Or.inl rfl, he⟩)
        · split
          · rw [← he]; exact encOption_good _ _ _ _
          · rw [← he]; exact encSection_good _ _ _
  · split
    · split
      · exact Or.inl (by simp)
      · exact good_err _ _ _ _
    · rename_i c s1 src1 h
      have he := nextvis_eq_elems h
      split
      · exact Or.inr (Or.inr ⟨Or.inl rfl, he⟩)
      · split
        · rw [← he]; exact encOption_good _ _ _ _
        · rw [← he]; exact encSection_good _ _ _

/-! ### `mpt_parse_format_sep` -/
def SepExit.st : SepExit → St
  | .sect s => s | .brk s => s

theorem sepBody_more (f : Format) (s s' : St) (c : UInt8) (h : sepBody f s c = .more s') :
    s'.path.elems = s.path.elems := by
  unfold sepBody at h
  (repeat' split at h) <;> cases h <;> simp

theorem sepBody_done (f : Format) (s : St) (c : UInt8) (r : SepExit) (h : sepBody f s c = .done r) :
    r.st.path.elems = s.path.elems := by
  unfold sepBody at h
  (repeat' split at h) <;> cases h <;> simp [SepExit.st]

theorem sepExit_good (cfg : Cfg) (x : SepExit) (src : Src) : Good x.st.path.elems (sepExit cfg x src) := by
  unfold sepExit
  split
  · simp only []
    split
    · exact good_err _ _ _ _
    · rename_i s2 hc
      have := St.commit_elems _ _ _ _ _ hc
      exact Or.inr (Or.inl ⟨Or.inl rfl, _, this⟩)
  · exact good_err _ _ _ _

theorem sepName_good (cfg : Cfg) (s : St) (c : UInt8) (src : Src) :
    Good s.path.elems (sepName cfg s c src) := by
  unfold sepName
  split
  · rename_i x hx
    rw [← sepBody_done _ _ _ _ hx]; exact sepExit_good _ _ _
  · rename_i s1 hx
    have h1 := sepBody_more _ _ _ _ hx
    simp only []
    have := scan_inv (fun s c => sepBody cfg.fmt (s.save c) c) (fun s => SepExit.brk s)
      (fun s' => s'.path.elems = s.path.elems) (fun r : SepExit => r.st.path.elems = s.path.elems)
      (by intro s' c' s'' hp hs; rw [sepBody_more _ _ _ _ hs]; simp [hp])
      (by intro s' c' r hp hs; rw [sepBody_done _ _ _ _ hs]; simp [hp])
      (by intro s' hp; exact hp) src s1 h1
    rw [← this]; exact sepExit_good _ _ _

theorem sepFirst_good (cfg : Cfg) (s : St) (src : Src) : Good s.path.elems (sepFirst cfg s src) := by
  unfold sepFirst
  simp only []
  split
  · split
    · exact good_err _ _ _ _
    · rename_i c src1 _
      have := sepName_good cfg (s.save c) c src1
      simp only [St.save_elems] at this; exact this
  · exact sepName_good _ _ _ _

theorem parseFormatSep_good (cfg : Cfg) (prev : Nat) (s : St) (src : Src) :
    Good s.path.elems (parseFormatSep cfg prev s src) := by
  unfold parseFormatSep
  simp only []
  split
  · exact sepFirst_good cfg { s with curr := Flag.section_ } src
  · split
    · split
      · exact Or.inl (by simp)
      · exact good_err _ _ _ _
    · rename_i c s1 src1 h
      have he := nextvis_eq_elems h
      split
      · split
        · have := parseOption_good cfg ({ s1 with curr := Flag.name, path := s1.path.addchar c }).markValid src1
          simp only [St.markValid_elems, Path.addchar_elems, he] at this; exact this
        · rw [← he]; exact parseOption_good _ _ _
      · split
        · exact Or.inr (Or.inr ⟨Or.inl rfl, he⟩)
        · have := sepFirst_good cfg { s1 with curr := Flag.section_ } src1
          simp only [he] at this; exact this

/-- **one element**: what any of the four element functions does to the committed path -/
theorem next_good (k : Kind) (cfg : Cfg) (prev : Nat) (s : St) (src : Src) :
    Good s.path.elems (next k cfg prev s src) := by
  cases k <;> simp only [next]
  · exact parseFormatPre_good _ _ _
  · exact parseFormatEnc_good _ _ _ _
  · exact parseFormatSep_good _ _ _ _
  · exact parseOption_good _ _ _

end Mpt.Parse
