/-
  `mpt_parse_format_pre` with the default format on the lines of the brace style:
  `name = value`, `name {`, `}`, end of text.
-/
import MptModel.Lemmas.ParseValue

namespace Mpt.Parse
open Mpt.Render

/-- default format `{*} = ` with `#` comments, name restriction words `fs` (sections) and `fo` (options) -/
abbrev cfgB (fs fo : Nat) : Cfg := { sect := fs, opt := fo }

variable {fs fo : Nat}

theorem hashOnly_B : HashOnly (cfgB fs fo).fmt := rfl
theorem dataFmt_B : DataFmt (cfgB fs fo).fmt := ⟨rfl, rfl, rfl⟩

/-! ### loop body of `mpt_parse_format_pre` on the characters of a line -/

theorem preBody_name (e : List (List UInt8)) (l : List UInt8) (k : Bool) (fi : UInt8) (v cur ln : Nat) (c : UInt8)
    (hc : nameChar c = true) :
    preBody (cfgB fs fo) (Stt e l k fi v cur ln) c = .more (Stt e l (k || !l.isEmpty) fi l.length Flag.name ln) := by
  obtain ⟨h0, h10, h35, _, h61, h123, h125, _, _, _, _, _, hsp⟩ := nameChar_facts c hc
  have hcom : (cfgB fs fo).fmt.isComment c = false := by rw [(hashOnly_B (fs := fs) (fo := fo)).isComment]; simp [h35]
  unfold preBody
  simp [h0, h61, h123, h125, hsp, hcom]

theorem preBody_blank (e : List (List UInt8)) (l : List UInt8) (k : Bool) (fi : UInt8) (v cur ln : Nat) (b : UInt8)
    (hb : isBlank b = true) :
    preBody (cfgB fs fo) (Stt e l k fi v cur ln) b = .more (Stt e l k fi v Flag.name ln) := by
  have hb' : b = 32 ∨ b = 9 ∨ b = 11 ∨ b = 12 ∨ b = 13 := by simpa [isBlank, or_assoc] using hb
  have h0 : b ≠ 0 := by rcases hb' with h | h | h | h | h <;> subst h <;> decide
  have h10 : b ≠ 10 := by rcases hb' with h | h | h | h | h <;> subst h <;> decide
  have h61 : b ≠ 61 := by rcases hb' with h | h | h | h | h <;> subst h <;> decide
  have h123 : b ≠ 123 := by rcases hb' with h | h | h | h | h <;> subst h <;> decide
  have h125 : b ≠ 125 := by rcases hb' with h | h | h | h | h <;> subst h <;> decide
  have hsp : isspace b = true := by rcases hb' with h | h | h | h | h <;> subst h <;> decide
  have hcom : (cfgB fs fo).fmt.isComment b = false := by
    rw [(hashOnly_B (fs := fs) (fo := fo)).isComment]; rcases hb' with h | h | h | h | h <;> subst h <;> decide
  unfold preBody
  simp [h0, h10, h61, h123, h125, hsp, hcom]

theorem preBody_assign (e : List (List UInt8)) (l : List UInt8) (k : Bool) (fi : UInt8) (v cur ln : Nat) :
    preBody (cfgB fs fo) (Stt e l k fi v cur ln) 61 = .done (.data (Stt e l k fi v (Flag.option ||| Flag.name) ln)) := by
  simp [preBody]

theorem preBody_open (e : List (List UInt8)) (l : List UInt8) (k : Bool) (fi : UInt8) (v cur ln : Nat) :
    preBody (cfgB fs fo) (Stt e l k fi v cur ln) 123 = .done (.brk (Stt e l k fi v cur ln) (some 123)) := by
  simp [preBody]

theorem preBody_close (e : List (List UInt8)) (l : List UInt8) (k : Bool) (fi : UInt8) (v cur ln : Nat) :
    preBody (cfgB fs fo) (Stt e l k fi v cur ln) 125 = .done (.ret 2 (Stt e l k fi v Flag.sectEnd ln)) := by
  simp [preBody, Flag.sectEnd]

/-- the loop of `mpt_parse_format_pre`: read a character, save it, look at it -/
abbrev preStep (fs fo : Nat) : St → UInt8 → Step St PreExit := fun s c => preBody (cfgB fs fo) (s.save c) c

theorem run_name (e : List (List UInt8)) (fi : UInt8) (ln : Nat) :
    ∀ (w l : List UInt8), w.all nameChar = true →
      runSteps (preStep fs fo) (Stt e l true fi l.length Flag.name ln) w
        = some (Stt e (l ++ w) true fi (l ++ w).length Flag.name ln) := by
  intro w
  induction w with
  | nil => intro l _; simp [runSteps]
  | cons c r ih =>
    intro l h
    simp only [List.all_cons, Bool.and_eq_true] at h
    obtain ⟨h0, h10, _⟩ := nameChar_facts c h.1
    have h10' : (c == 10) = false := by simp [h10]
    simp only [runSteps, preStep, save_stt _ _ _ _ _ _ _ _ h0, addchar_keep, h10']
    rw [preBody_name _ _ _ _ _ _ _ _ h.1]
    simp only [Bool.true_or, Bool.false_eq_true, ↓reduceIte]
    have := ih (l ++ [c]) h.2
    simpa using this

theorem run_blanks (e : List (List UInt8)) (fi : UInt8) (v ln : Nat) :
    ∀ (bs l : List UInt8), bs.all isBlank = true →
      runSteps (preStep fs fo) (Stt e l true fi v Flag.name ln) bs = some (Stt e (l ++ bs) true fi v Flag.name ln) := by
  intro bs
  induction bs with
  | nil => intro l _; simp [runSteps]
  | cons b r ih =>
    intro l h
    simp only [List.all_cons, Bool.and_eq_true] at h
    have hb' : b = 32 ∨ b = 9 ∨ b = 11 ∨ b = 12 ∨ b = 13 := by simpa [isBlank, or_assoc] using h.1
    have h0 : b ≠ 0 := by rcases hb' with h | h | h | h | h <;> subst h <;> decide
    have h10' : (b == 10) = false := by rcases hb' with h | h | h | h | h <;> subst h <;> decide
    simp only [runSteps, preStep, save_stt _ _ _ _ _ _ _ _ h0, addchar_keep, h10']
    rw [preBody_blank _ _ _ _ _ _ _ _ h.1]
    simp only [Bool.false_eq_true, ↓reduceIte]
    have := ih (l ++ [b]) h.2
    simpa using this

/-- a name followed by blanks, read from the first character on -/
theorem run_name_blanks (e : List (List UInt8)) (fi : UInt8) (ln : Nat) (c0 : UInt8) (n' pre : List UInt8)
    (hn : n'.all nameChar = true) (hpre : pre.all isBlank = true) :
    runSteps (preStep fs fo) (Stt e [c0] true fi 1 Flag.name ln) (n' ++ pre)
      = some (Stt e (c0 :: n' ++ pre) true fi (n'.length + 1) Flag.name ln) := by
  have h1 := run_name (fs := fs) (fo := fo) e fi ln n' [c0] hn
  have h2 := run_blanks (fs := fs) (fo := fo) e fi ([c0] ++ n').length ln pre ([c0] ++ n') hpre
  have := runSteps_append (preStep fs fo) _ _ _ n' pre h1 h2
  simpa [Nat.add_comm] using this

/-! ### the start of every line: insignificant text, then the first character of a name -/

/-- what `mpt_parse_format_pre` does up to the first character of a name -/
theorem pre_first (e : List (List UInt8)) (s : St) (src : Src) (junk : List UInt8) (c0 : UInt8) (rest : List UInt8)
    (hclean : Clean e s.path) (hv : s.valid = 0)
    (hj : visSkip false junk = some false) (hc : nameChar c0 = true)
    (hsrc : src.rest = junk ++ c0 :: rest) :
    ∃ ln src1, src1.rest = rest ∧
      parseFormatPre (cfgB fs fo) s src =
        (match preBody (cfgB fs fo) (Stt e [c0] false s.path.first 0 Flag.name ln) c0 with
         | .done x => preExit (cfgB fs fo) x src1
         | .more s3 => preExit (cfgB fs fo) (scan (preStep fs fo) (fun s => PreExit.brk s none) src1 s3).1
                          (scan (preStep fs fo) (fun s => PreExit.brk s none) src1 s3).2) := by
  obtain ⟨h0, _, h35, _, _, h123, _, _, _, _, _, _, hsp⟩ := nameChar_facts c0 hc
  have hvis : visible c0 = true := by simp [visible, h0, hsp, h35]
  obtain ⟨ln, src1, hnv, hr⟩ := nextvis_skip (hashOnly_B (fs := fs) (fo := fo)) junk c0 rest s src hj hvis hsrc
  refine ⟨ln, src1, hr, ?_⟩
  unfold parseFormatPre
  simp only [hnv]
  have hss : (c0 == (cfgB fs fo).fmt.sstart) = false := by simp [h123]
  simp only [hss, Bool.false_eq_true, ↓reduceIte]
  rw [addchar_clean hclean c0]
  simp only [hv]
  rfl

/-! ### `name = value` -/

/-- the name is complete (`=` read): commit it and read the value -/
theorem nameThenData_line (cfg : Cfg) (hdf : DataFmt cfg.fmt)
    (e : List (List UInt8)) (n pre : List UInt8) (fi : UInt8) (ln : Nat) (eAdd : Err)
    (post tr rest : List UInt8) (ov : Option (List UInt8)) (src : Src)
    (hn : nameOk n = true) (hnc : ncheck n cfg.opt = none)
    (hpost : post.all isBlank = true) (htr : trailOk tr = true)
    (hval : match ov with | some x => x.isEmpty = true ∨ valueOk x = true | none => True)
    (hsrc : src.rest = post ++ valueText ov ++ tr ++ 10 :: rest) :
    ∃ s' src', nameThenData cfg (Stt e (n ++ pre ++ [61]) true fi n.length (Flag.option ||| Flag.name) ln) src eAdd
        = ((if (valueOf ov).isEmpty then 3 else 7 : Int), s', src')
      ∧ (∃ l k fi' ln', s' = Stt (e ++ [n]) l k fi' (valueOf ov).length (Flag.option ||| Flag.name) ln'
          ∧ l.take (valueOf ov).length = valueOf ov)
      ∧ src'.rest = rest := by
  unfold nameOk at hn
  simp only [Bool.and_eq_true] at hn
  have htake : (n ++ pre ++ [61]).take n.length = n := by
    rw [List.append_assoc]; exact List.take_left' rfl
  have hname : (Stt e (n ++ pre ++ [61]) true fi n.length (Flag.option ||| Flag.name) ln).name = n := by
    simp only [St.name, head_pth, htake]
  have hadd := add_pth e (n ++ pre ++ [61]) true fi n.length (by simp only [List.length_append]; omega)
    (by rw [htake]; exact nameOk_nosep n hn.1.2)
  rw [htake] at hadd
  have hcommit : (Stt e (n ++ pre ++ [61]) true fi n.length (Flag.option ||| Flag.name) ln).commit cfg.opt .BadType eAdd
      = .ok (Stt (e ++ [n]) ((n ++ pre ++ [61]).drop (n.length + 1)) false
          (if e.isEmpty then UInt8.ofNat n.length else fi) n.length (Flag.option ||| Flag.name) ln) := by
    unfold St.commit
    rw [hname]
    simp only [hnc, hadd]
  obtain ⟨s', src', hpd, hgood, hrest⟩ := parseData_value hdf cfg rfl (e ++ [n])
    (if e.isEmpty then UInt8.ofNat n.length else fi) (Flag.option ||| Flag.name) ln post tr rest ov src hpost htr
    hval hsrc
  obtain ⟨l, k, ln', hs', htk⟩ := hgood
  refine ⟨s', src', ?_, ⟨l, k, _, ln', hs', htk⟩, hrest⟩
  unfold nameThenData
  simp only [hcommit, invalidate_pth, hpd]
  have hnn : ¬ (((valueOf ov).length : Int) < 0) := by omega
  simp only [hnn, ↓reduceIte]
  by_cases hz : (valueOf ov).isEmpty = true
  · have : valueOf ov = [] := by simpa using hz
    simp [this, Flag.option]
  · have hne : valueOf ov ≠ [] := by simpa using hz
    have hl : (valueOf ov).length ≠ 0 := by
      intro h; exact hne (List.length_eq_zero_iff.mp h)
    simp only [hz, Bool.false_eq_true, ↓reduceIte]
    have : (((valueOf ov).length : Int) == 0) = false := by
      simp only [beq_eq_false_iff_ne, ne_eq]; omega
    simp only [this, Bool.false_eq_true, ↓reduceIte]
    rfl

/-- **an option line**: `junk name pre = post value trail \n` -/
theorem pre_option_line (e : List (List UInt8)) (s : St) (src : Src) (junk n pre post tr rest : List UInt8)
    (ov : Option (List UInt8))
    (hclean : Clean e s.path) (hv : s.valid = 0)
    (hj : visSkip false junk = some false) (hn : nameOk n = true) (hnc : ncheck n fo = none)
    (hpre : pre.all isBlank = true) (hpost : post.all isBlank = true) (htr : trailOk tr = true)
    (hval : match ov with | some x => x.isEmpty = true ∨ valueOk x = true | none => True)
    (hsrc : src.rest = junk ++ n ++ pre ++ 61 :: (post ++ valueText ov ++ tr ++ 10 :: rest)) :
    ∃ s' src', parseFormatPre (cfgB fs fo) s src = ((if (valueOf ov).isEmpty then 3 else 7 : Int), s', src')
      ∧ (∃ l k fi' ln', s' = Stt (e ++ [n]) l k fi' (valueOf ov).length (Flag.option ||| Flag.name) ln'
          ∧ l.take (valueOf ov).length = valueOf ov)
      ∧ src'.rest = rest := by
  have hn' := hn
  unfold nameOk at hn'
  simp only [Bool.and_eq_true] at hn'
  cases n with
  | nil => simp at hn'
  | cons c0 n' =>
    simp only [List.all_cons, Bool.and_eq_true] at hn'
    obtain ⟨ln, src1, hr1, hpf⟩ := pre_first e s src junk c0 (n' ++ pre ++ 61 :: (post ++ valueText ov ++ tr ++ 10 :: rest))
      hclean hv hj hn'.1.2.1 (by simp [hsrc, List.append_assoc])
    rw [hpf, preBody_name _ _ _ _ _ _ _ _ hn'.1.2.1]
    simp only [List.isEmpty_cons, Bool.not_false, Bool.or_true, List.length_cons, List.length_nil, Nat.zero_add]
    have hrun := run_name_blanks (fs := fs) (fo := fo) e s.path.first ln c0 n' pre hn'.1.2.2 hpre
    -- the `=` ends the name
    have hsave : (Stt e (c0 :: n' ++ pre) true s.path.first (n'.length + 1) Flag.name ln).save 61
        = Stt e (c0 :: n' ++ pre ++ [61]) true s.path.first (n'.length + 1) Flag.name ln := by
      rw [save_stt _ _ _ _ _ _ _ _ (by decide)]; simp
    obtain ⟨src2, hscan, hr2⟩ := scan_prefix_done (preStep fs fo) (fun s => PreExit.brk s none) (n' ++ pre) 61
      (post ++ valueText ov ++ tr ++ 10 :: rest) src1 _ _ _ (by simp [hr1, List.append_assoc]) hrun
      (by simp only [preStep, hsave]; exact preBody_assign _ _ _ _ _ _ _)
    simp only [hscan, preExit]
    have := nameThenData_line (cfgB fs fo) (dataFmt_B (fs := fs) (fo := fo)) e (c0 :: n') pre s.path.first ln .BadOperation post tr rest ov src2 hn hnc hpost htr hval hr2
    simpa using this


/-! ### `name {` -/

/-- **a section start line**: `junk name pre {` (the rest of the line is left in the source) -/
theorem pre_open_line (e : List (List UInt8)) (s : St) (src : Src) (junk n pre rest : List UInt8)
    (hclean : Clean e s.path) (hv : s.valid = 0)
    (hj : visSkip false junk = some false) (hn : nameOk n = true) (hnc : ncheck n fs = none)
    (hpre : pre.all isBlank = true)
    (hsrc : src.rest = junk ++ n ++ pre ++ 123 :: rest) :
    ∃ s' src', parseFormatPre (cfgB fs fo) s src = (1, s', src')
      ∧ (∃ l fi' v' ln', s' = Stt (e ++ [n]) l false fi' v' (Flag.section_ ||| Flag.name) ln')
      ∧ src'.rest = rest := by
  have hn' := hn
  unfold nameOk at hn'
  simp only [Bool.and_eq_true] at hn'
  cases n with
  | nil => simp at hn'
  | cons c0 n' =>
    simp only [List.all_cons, Bool.and_eq_true] at hn'
    obtain ⟨ln, src1, hr1, hpf⟩ := pre_first e s src junk c0 (n' ++ pre ++ 123 :: rest)
      hclean hv hj hn'.1.2.1 (by simp [hsrc, List.append_assoc])
    rw [hpf, preBody_name _ _ _ _ _ _ _ _ hn'.1.2.1]
    simp only [List.isEmpty_cons, Bool.not_false, Bool.or_true, List.length_cons, List.length_nil, Nat.zero_add]
    have hrun := run_name_blanks (fs := fs) (fo := fo) e s.path.first ln c0 n' pre hn'.1.2.2 hpre
    have hsave : (Stt e (c0 :: n' ++ pre) true s.path.first (n'.length + 1) Flag.name ln).save 123
        = Stt e (c0 :: n' ++ pre ++ [123]) true s.path.first (n'.length + 1) Flag.name ln := by
      rw [save_stt _ _ _ _ _ _ _ _ (by decide)]; simp
    obtain ⟨src2, hscan, hr2⟩ := scan_prefix_done (preStep fs fo) (fun s => PreExit.brk s none) (n' ++ pre) 123
      rest src1 _ _ _ (by simp [hr1, List.append_assoc]) hrun
      (by simp only [preStep, hsave]; exact preBody_open _ _ _ _ _ _ _)
    simp only [hscan, preExit]
    -- the code behind the loop: section start character, commit the name
    have htake : (c0 :: n' ++ pre ++ [123]).take (n'.length + 1) = c0 :: n' := by
      have : c0 :: n' ++ pre ++ [123] = (c0 :: n') ++ (pre ++ [123]) := by simp
      rw [this]; exact List.take_left' rfl
    have hadd := add_pth e (c0 :: n' ++ pre ++ [123]) true s.path.first (n'.length + 1)
      (by simp only [List.length_append, List.length_cons]; omega)
      (by rw [htake]; exact nameOk_nosep (c0 :: n') (by simp [hn'.1.2.1, hn'.1.2.2]))
    rw [htake] at hadd
    refine ⟨Stt (e ++ [c0 :: n']) (List.drop (n'.length + 1 + 1) (c0 :: n' ++ pre ++ [123])) false
      (if e.isEmpty = true then UInt8.ofNat (n'.length + 1) else s.path.first) (n'.length + 1)
      (Flag.section_ ||| Flag.name) ln, src2, ?_, ⟨_, _, _, _, rfl⟩, hr2⟩
    unfold preFinish
    have h1 : ((cfgB fs fo).fmt.sstart != 0 && (some (123 : UInt8) == some (cfgB fs fo).fmt.sstart)) = true := rfl
    simp only [h1, ↓reduceIte]
    unfold St.commit
    have hname : (Stt e (c0 :: n' ++ pre ++ [123]) true s.path.first (n'.length + 1)
        (Flag.section_ ||| Flag.name) ln).name = c0 :: n' := by
      simp only [St.name, head_pth, htake]
    simp only [hname]
    have : ncheck (c0 :: n') (cfgB fs fo).sect = none := hnc
    simp only [this, hadd]
    rfl

/-! ### `}` and the end of the text -/

/-- **a section end line**: `junk }` -/
theorem pre_close_line (e : List (List UInt8)) (s : St) (src : Src) (junk rest : List UInt8)
    (hclean : Clean e s.path) (hv : s.valid = 0)
    (hj : visSkip false junk = some false) (hsrc : src.rest = junk ++ 125 :: rest) :
    ∃ ln src', parseFormatPre (cfgB fs fo) s src = (2, Stt e [125] false s.path.first 0 Flag.sectEnd ln, src')
      ∧ src'.rest = rest := by
  obtain ⟨ln, src1, hnv, hr⟩ := nextvis_skip (hashOnly_B (fs := fs) (fo := fo)) junk 125 rest s src hj (by decide) hsrc
  refine ⟨ln, src1, ?_, hr⟩
  unfold parseFormatPre
  simp only [hnv]
  have hss : ((125 : UInt8) == (cfgB fs fo).fmt.sstart) = false := rfl
  simp only [hss, Bool.false_eq_true, ↓reduceIte]
  rw [addchar_clean hclean 125]
  simp only [hv]
  have := preBody_close (fs := fs) (fo := fo) e [125] false s.path.first 0 Flag.name ln
  simp only [this, preExit]

/-- **end of the text** outside of sections -/
theorem pre_eof (s : St) (src : Src) (junk : List UInt8) (b : Bool)
    (hclean : Clean [] s.path) (hj : visSkip false junk = some b) (hsrc : src.rest = junk) :
    ∃ s' src', parseFormatPre (cfgB fs fo) s src = (0, s', src') := by
  obtain ⟨ln, src1, hnv, _⟩ := nextvis_end (hashOnly_B (fs := fs) (fo := fo)) junk b s src hj hsrc
  refine ⟨{ s with line := ln }, src1, ?_⟩
  unfold parseFormatPre
  simp only [hnv]
  have : s.path.elems.isEmpty = true := by rw [hclean.1]; rfl
  simp [this]

/-! ### decoration is insignificant text -/

theorem visSkip_blanks (bs : List UInt8) (h : bs.all isBlank = true) : visSkip false bs = some false := by
  induction bs with
  | nil => rfl
  | cons b r ih =>
    simp only [List.all_cons, Bool.and_eq_true] at h
    have hb' : b = 32 ∨ b = 9 ∨ b = 11 ∨ b = 12 ∨ b = 13 := by simpa [isBlank, or_assoc] using h.1
    have h0 : (b == 0) = false := by rcases hb' with h | h | h | h | h <;> subst h <;> decide
    have hsp : isspace b = true := by rcases hb' with h | h | h | h | h <;> subst h <;> decide
    simp only [visSkip, h0, hsp, Bool.false_eq_true, ↓reduceIte]
    exact ih h.2

/-- blank and comment lines -/
theorem visSkip_insig : ∀ (l : List UInt8) (st : Nat), insigFrom st l = true → st ≤ 2 →
    visSkip (st == 2) l = some false := by
  intro l
  induction l with
  | nil =>
    intro st h _
    simp only [insigFrom, beq_iff_eq] at h
    subst h; rfl
  | cons c r ih =>
    intro st h hst
    simp only [insigFrom] at h
    by_cases h10 : c = 10
    · subst h10
      simp only [beq_self_eq_true, ↓reduceIte] at h
      have := ih 0 h (by omega)
      by_cases h2 : st = 2
      · subst h2; simpa [visSkip] using this
      · have : (st == 2) = false := by simp [h2]
        rw [this]
        have h0 : ((10 : UInt8) == 0) = false := by decide
        have hsp : isspace 10 = true := by decide
        simp only [visSkip, h0, hsp, Bool.false_eq_true, ↓reduceIte]
        exact ih 0 h (by omega)
    · have h10' : (c == 10) = false := by simp [h10]
      simp only [h10', Bool.false_eq_true, ↓reduceIte] at h
      by_cases h2 : st = 2
      · subst h2
        simp only [beq_self_eq_true, ↓reduceIte] at h
        have := ih 2 h (by omega)
        simpa [visSkip, h10'] using this
      · have hs2 : (st == 2) = false := by simp [h2]
        simp only [hs2, Bool.false_eq_true, ↓reduceIte] at h
        rw [hs2]
        by_cases h35 : c = 35
        · subst h35
          simp only [beq_self_eq_true, ↓reduceIte] at h
          have := ih 2 h (by omega)
          have h0 : ((35 : UInt8) == 0) = false := by decide
          have hsp : isspace 35 = false := by decide
          simpa [visSkip, h0, hsp] using this
        · have h35' : (c == 35) = false := by simp [h35]
          simp only [h35', Bool.false_eq_true, ↓reduceIte, Bool.and_eq_true] at h
          have hsp : isspace c = true := by rw [← isSpace_eq]; exact h.1
          have h0 : (c == 0) = false := by
            cases hh : c == 0
            · rfl
            · have : c = 0 := by simpa using hh
              subst this; revert hsp; decide
          have := ih 1 h.2 (by omega)
          simpa [visSkip, h0, hsp] using this

/-- the rest of a line behind an element: trailing decoration and the line feed -/
theorem visSkip_trail (tr : List UInt8) (h : trailOk tr = true) : visSkip false (tr ++ [10]) = some false := by
  obtain ⟨bs, hbs, hsplit⟩ := trail_split tr h
  have hnl : visSkip false [10] = some false := by decide
  rcases hsplit with hs | ⟨txt, hs, _, htxt⟩
  · rw [hs]
    exact visSkip_append _ _ _ _ _ (visSkip_blanks bs hbs) hnl
  · rw [hs]
    have hcom : ∀ (t : List UInt8), t.contains 10 = false → visSkip true (t ++ [10]) = some false := by
      intro t
      induction t with
      | nil => intro _; decide
      | cons c r ih =>
        intro hc
        simp only [List.contains_cons, Bool.or_eq_false_iff] at hc
        have : (c == 10) = false := by
          cases hh : c == 10
          · rfl
          · have : c = 10 := by simpa using hh
            subst this; simp at hc
        simp only [List.cons_append, visSkip, this, Bool.false_eq_true, ↓reduceIte]
        exact ih hc.2
    have h35 : visSkip false (35 :: (txt ++ [10])) = some false := by
      have h0 : ((35 : UInt8) == 0) = false := by decide
      have hsp : isspace 35 = false := by decide
      simp only [visSkip, h0, hsp, Bool.false_eq_true, ↓reduceIte, beq_self_eq_true]
      exact hcom txt htxt
    have := visSkip_append bs (35 :: (txt ++ [10])) false false false (visSkip_blanks bs hbs) h35
    simpa [List.append_assoc] using this

/-- everything in front of the first character of a line: left-over of the previous line, blank and
    comment lines, indentation -/
theorem LineDecor.ok_base (d : LineDecor) (h : d.ok = true) : d.okBase = true := by
  unfold LineDecor.ok at h
  simp only [Bool.and_eq_true] at h
  exact h.1

/-- the decoration of the end line of an empty section is a valid line decoration -/
theorem LineDecor.ok_close (d : LineDecor) (c : CloseDecor) (h : d.ok = true) (hc : d.close = some c) :
    c.line.ok = true := by
  unfold LineDecor.ok at h
  simp only [Bool.and_eq_true, hc] at h
  unfold LineDecor.ok
  simp only [Bool.and_eq_true]
  exact ⟨h.2, rfl⟩

theorem visSkip_lead (J : List UInt8) (dl : LineDecor) (hJ : visSkip false J = some false) (hd : dl.ok = true) :
    visSkip false (J ++ dl.before ++ dl.indent) = some false := by
  have hd := LineDecor.ok_base dl hd
  unfold LineDecor.okBase at hd
  simp only [Bool.and_eq_true] at hd
  obtain ⟨⟨⟨⟨⟨hb, hi⟩, _⟩, _⟩, _⟩, _⟩ := hd
  have h1 : visSkip false dl.before = some false := by
    have := visSkip_insig dl.before 0 hb (by omega)
    simpa using this
  exact visSkip_append _ _ _ _ _ (visSkip_append _ _ _ _ _ hJ h1) (visSkip_blanks _ hi)

/-- the rest of a line behind a section start or end -/
theorem visSkip_headTrail (tr : List UInt8) (h : headTrailOk tr = true) : visSkip false (tr ++ [10]) = some false := by
  unfold headTrailOk at h
  simp only [Bool.or_eq_true] at h
  rcases h with h | h
  · exact visSkip_trail tr h
  · cases tr with
    | nil => cases h
    | cons c txt =>
      simp only [Bool.and_eq_true, beq_iff_eq, Bool.not_eq_eq_eq_not, Bool.not_true] at h
      obtain ⟨hc, htxt⟩ := h
      subst hc
      have hcom : ∀ (t : List UInt8), t.contains 10 = false → visSkip true (t ++ [10]) = some false := by
        intro t
        induction t with
        | nil => intro _; decide
        | cons c r ih =>
          intro hc
          simp only [List.contains_cons, Bool.or_eq_false_iff] at hc
          have : (c == 10) = false := by
            cases hh : c == 10
            · rfl
            · have : c = 10 := by simpa using hh
              subst this; simp at hc
          simp only [List.cons_append, visSkip, this, Bool.false_eq_true, ↓reduceIte]
          exact ih hc.2
      have h0 : ((35 : UInt8) == 0) = false := by decide
      have hsp : isspace 35 = false := by decide
      simp only [List.cons_append, visSkip, h0, hsp, Bool.false_eq_true, ↓reduceIte, beq_self_eq_true]
      exact hcom txt htxt

/-- the parts of a valid line decoration -/
theorem LineDecor.ok_parts (d : LineDecor) (h : d.ok = true) :
    d.pre.all isBlank = true ∧ d.post.all isBlank = true ∧ trailOk d.trail = true
      ∧ headTrailOk (headTrail d) = true := by
  have h := LineDecor.ok_base d h
  unfold LineDecor.okBase at h
  simp only [Bool.and_eq_true] at h
  obtain ⟨⟨⟨⟨⟨_, _⟩, h3⟩, h4⟩, h5⟩, h6⟩ := h
  exact ⟨h3, h4, h5, h6⟩

/-- skipping a text skips every prefix of it -/
theorem visSkip_prefix : ∀ (a b : List UInt8) (x z : Bool), visSkip x (a ++ b) = some z → ∃ y, visSkip x a = some y := by
  intro a
  induction a with
  | nil => intro b x z _; exact ⟨x, rfl⟩
  | cons c r ih =>
    intro b x z h
    cases x with
    | true =>
      simp only [List.cons_append, visSkip] at h ⊢
      split at h
      · rename_i hc; simp only [hc, ↓reduceIte]; exact ih b _ z h
      · rename_i hc; simp only [hc, ↓reduceIte]; exact ih b _ z h
    | false =>
      simp only [List.cons_append, visSkip] at h ⊢
      split at h
      · cases h
      · rename_i h0
        simp only [h0, ↓reduceIte]
        split at h
        · rename_i hs; simp only [hs, ↓reduceIte]; exact ih b _ z h
        · rename_i hs
          simp only [hs, ↓reduceIte]
          split at h
          · rename_i h35; simp only [h35, ↓reduceIte]; exact ih b _ z h
          · cases h

/-- the text behind the last element is skipped up to the end of the input -/
theorem visSkip_endText (J : List UInt8) (dl : LineDecor) (hJ : visSkip false J = some false) (hd : dl.ok = true) :
    ∃ b, visSkip false (J ++ endText dl) = some b := by
  obtain ⟨_, _, _, hht⟩ := LineDecor.ok_parts dl hd
  obtain ⟨b, hb⟩ := visSkip_prefix (headTrail dl) [10] false false (visSkip_headTrail _ hht)
  refine ⟨b, ?_⟩
  have := visSkip_append _ _ _ _ _ (visSkip_lead J dl hJ hd) hb
  simpa [endText, List.append_assoc] using this

end Mpt.Parse
