/-
  Shared vocabulary of the mpt-base models: bytes, error codes, raw memory primitives.
  Core Lean only (this file is imported by the compiled driver).
-/
namespace Mpt

abbrev Byte := UInt8

/-- `enum MPT_ENUM(Errors)` of mptcore/core.h -/
inductive Err where
  | BadArgument | BadValue | BadType | BadOperation | BadEncoding | MissingData | MissingBuffer
  deriving Repr, DecidableEq, Inhabited

def Err.code : Err → Int
  | .BadArgument => -1 | .BadValue => -2 | .BadType => -3 | .BadOperation => -4
  | .BadEncoding => -8 | .MissingData => -16 | .MissingBuffer => -17

def Err.name : Err → String
  | .BadArgument => "BadArgument" | .BadValue => "BadValue" | .BadType => "BadType"
  | .BadOperation => "BadOperation" | .BadEncoding => "BadEncoding"
  | .MissingData => "MissingData" | .MissingBuffer => "MissingBuffer"

/-- `memcpy/memmove(store+dst, bytes, bytes.length)`; the caller guarantees `dst + bytes.length ≤ store.length`
    (the models carry that as a checked side condition, see `Mem.inBounds`). -/
def Mem.write (store : List Byte) (dst : Nat) (bytes : List Byte) : List Byte :=
  store.take dst ++ bytes ++ store.drop (dst + bytes.length)

/-- `n` bytes starting at `src`. -/
def Mem.read (store : List Byte) (src n : Nat) : List Byte :=
  (store.drop src).take n

/-- `memmove(store+dst, store+src, n)` -/
def Mem.move (store : List Byte) (dst src n : Nat) : List Byte :=
  Mem.write store dst (Mem.read store src n)

/-- an access `[at, at+n)` stays inside the storage -/
def Mem.inBounds (store : List Byte) (pos n : Nat) : Bool := pos + n ≤ store.length

/- hex helpers for the line protocol -/
def hexDigit (n : Nat) : Char :=
  if n < 10 then Char.ofNat (48 + n) else Char.ofNat (87 + n)

def toHex (bs : List Byte) : String :=
  if bs.isEmpty then "-" else
  String.ofList (bs.flatMap fun b => [hexDigit (b.toNat / 16), hexDigit (b.toNat % 16)])

def hexVal (c : Char) : Option Nat :=
  if '0' ≤ c ∧ c ≤ '9' then some (c.toNat - 48)
  else if 'a' ≤ c ∧ c ≤ 'f' then some (c.toNat - 87)
  else none

def parseHexAux : List Char → Option (List Byte)
  | [] => some []
  | [_] => none
  | a :: b :: rest => do
    let x ← hexVal a
    let y ← hexVal b
    let r ← parseHexAux rest
    pure (UInt8.ofNat (x * 16 + y) :: r)

/-- `-` is the empty string, `zero:n` is n zero bytes, otherwise lower-case hex -/
def parseHex (s : String) : Option (List Byte) :=
  if s = "-" then some []
  else parseHexAux s.toList

end Mpt
