#!/usr/bin/env python3
"""cextract -- translate small, closed fragments of the C sources of becm/mpt-base into Lean data.

Front end: `clang-14 -fsyntax-only -Xclang -ast-dump=json -Xclang -ast-dump-filter=<substr>`
(typed AST: macros expanded, implicit conversions explicit).  The dump is a concatenation of JSON
documents, one per matching declaration.

Everything that is not in the closed grammar handled here raises `TranslateError`; the translator
never guesses.  The property modules turn a TranslateError into build.BuildError (= broken tie).

Generated modules (data only, no theorems):
  lean/MptModel/Generated/ConvInt.lean     (C07)  from convert/data_convert_int.c, data_convert_float.c,
                                                   data_converter.c, types/type_int.c
  lean/MptModel/Generated/TypeIds.lean     (C06)  from types.h
  lean/MptModel/Generated/TypeTables.lean  (C06)  from types/type_traits.c
"""
import json
import os
import re
import subprocess
import sys


class TranslateError(Exception):
    pass


def fail(msg, node=None):
    where = ""
    if node is not None:
        where = " at " + _where(node)
    raise TranslateError(msg + where)


def _where(node):
    rng = node.get("range", {}).get("begin", {}) if isinstance(node, dict) else {}
    if "expansionLoc" in rng:
        rng = rng["expansionLoc"]
    kind = node.get("kind") if isinstance(node, dict) else "?"
    return "%s (line %s col %s)" % (kind, rng.get("line", "?"), rng.get("col", "?"))


# --------------------------------------------------------------------------------------- front end

def includes(repo):
    return ["-I" + os.path.join(repo, d) for d in ("mptcore", "mptio", "mptplot", "mpt++", ".")]


_AST_CACHE = {}


def clang_ast(repo, relpath, flt):
    """all declarations of `relpath` (and its includes) whose qualified name contains `flt`"""
    path = os.path.join(repo, relpath)
    if not os.path.exists(path):
        fail("source file missing: " + relpath)
    key = (path, flt, os.path.getmtime(path), os.path.getsize(path))
    if key in _AST_CACHE:
        return _AST_CACHE[key]
    argv = ["clang-14", "-fsyntax-only", "-w", "-std=gnu99", "-DMPT_BASE_VERIF",
            "-Xclang", "-ast-dump=json", "-Xclang", "-ast-dump-filter=" + flt] + includes(repo) + \
           ["-I" + os.path.dirname(path), path]
    r = subprocess.run(argv, stdout=subprocess.PIPE, stderr=subprocess.PIPE)
    if r.returncode != 0:
        fail("clang-14 failed on %s:\n%s" % (relpath, r.stderr.decode(errors="replace")[:2000]))
    text = r.stdout.decode()
    dec = json.JSONDecoder()
    docs, i, n = [], 0, len(text)
    while i < n:
        while i < n and text[i].isspace():
            i += 1
        if i >= n:
            break
        obj, i = dec.raw_decode(text, i)
        docs.append(obj)
    _AST_CACHE[key] = docs
    return docs


def function_def(repo, relpath, name):
    """the FunctionDecl with a body whose name is exactly `name`"""
    found = [d for d in clang_ast(repo, relpath, name)
             if d.get("kind") == "FunctionDecl" and d.get("name") == name
             and any(c.get("kind") == "CompoundStmt" for c in d.get("inner", []))]
    if len(found) != 1:
        fail("expected exactly one definition of %s in %s, found %d" % (name, relpath, len(found)))
    return found[0]


def enum_constants(repo, relpath, flt="MPT_"):
    """name -> value of every enumerator of the enums whose name contains `flt` (C rule: an enumerator
    without initialiser is the previous one plus 1, the first is 0)"""
    env = {}

    def one(d, prev):
        inner = d.get("inner", [])
        if len(inner) == 1 and inner[0].get("kind") == "ConstantExpr" and "value" in inner[0]:
            v = int(inner[0]["value"])
        elif not inner:
            v = prev + 1
        else:
            fail("enumerator with an initialiser clang did not evaluate", d)
        if d["name"] in env and env[d["name"]] != v:
            fail("enumerator %s seen with two values" % d["name"], d)
        env[d["name"]] = v
        return v
    for d in clang_ast(repo, relpath, flt):
        if d.get("kind") == "EnumConstantDecl":
            if not d.get("inner"):
                continue      # value depends on its predecessor: only available through the EnumDecl
            one(d, -1)
        elif d.get("kind") == "EnumDecl":
            prev = -1
            for c in d.get("inner", []):
                if c.get("kind") == "EnumConstantDecl":
                    prev = one(c, prev)
    return env


# --------------------------------------------------------------------------------------- C types (LP64, x86-64)

# canonical C type -> (model name, bits, signed, float?)   -- plain `char` is signed on the x86-64 target
CTYPES = {
    "char": ("i8", 8, True, False), "signed char": ("i8", 8, True, False), "unsigned char": ("u8", 8, False, False),
    "short": ("i16", 16, True, False), "unsigned short": ("u16", 16, False, False),
    "int": ("i32", 32, True, False), "unsigned int": ("u32", 32, False, False),
    "long": ("i64", 64, True, False), "unsigned long": ("u64", 64, False, False),
    "long long": ("i64", 64, True, False), "unsigned long long": ("u64", 64, False, False),
    "float": ("f32", 32, True, True), "double": ("f64", 64, True, True), "long double": ("f80", 128, True, True),
}
TYPEDEFS = {
    "int8_t": "signed char", "uint8_t": "unsigned char", "int16_t": "short", "uint16_t": "unsigned short",
    "int32_t": "int", "uint32_t": "unsigned int", "int64_t": "long", "uint64_t": "unsigned long",
    "intmax_t": "long", "uintmax_t": "unsigned long", "size_t": "unsigned long", "ssize_t": "long",
    "mpt_type_t": "unsigned long", "uintptr_t": "unsigned long", "intptr_t": "long",
    "__int8_t": "signed char", "__uint8_t": "unsigned char", "__int16_t": "short", "__uint16_t": "unsigned short",
    "__int32_t": "int", "__uint32_t": "unsigned int", "__int64_t": "long", "__uint64_t": "unsigned long",
}
SIZEOF_EXTRA = {"struct iovec": 16}


def canon(tnode, node=None):
    """canonical C arithmetic type name of a clang `type` object"""
    if tnode is None:
        fail("missing type", node)
    t = tnode.get("desugaredQualType") or tnode.get("qualType")
    t = t.replace("const ", "").replace("volatile ", "").strip()
    seen = 0
    while t in TYPEDEFS and seen < 8:
        t = TYPEDEFS[t]
        seen += 1
    if t not in CTYPES:
        q = tnode.get("qualType", "").replace("const ", "").strip()
        while q in TYPEDEFS and seen < 16:
            q = TYPEDEFS[q]
            seen += 1
        if q in CTYPES:
            return q
        fail("unsupported C type %r" % (tnode,), node)
    return t


def cty(tnode, node=None):
    return CTYPES[canon(tnode, node)][0]


def wrap(value, tname):
    """C conversion of an integer to the integer type `tname` (two's complement wrap)"""
    _, bits, signed, isf = CTYPES[tname]
    if isf:
        fail("integer wrap to floating type")
    value &= (1 << bits) - 1
    if signed and value >= 1 << (bits - 1):
        value -= 1 << bits
    return value


def sizeof(tnode, node=None):
    q = (tnode.get("desugaredQualType") or tnode.get("qualType")).replace("const ", "").strip()
    if q in SIZEOF_EXTRA:
        return SIZEOF_EXTRA[q]
    return CTYPES[canon(tnode, node)][1] // 8


# --------------------------------------------------------------------------------------- expressions

def kids(n):
    return [c for c in n.get("inner", []) if c.get("kind") not in ("FullComment",)]


def strip_parens(n):
    while n.get("kind") == "ParenExpr":
        (n,) = kids(n)
    return n


# the few float constants the converters may compare against, as exact integers
FLOAT_CONSTS = {
    ("f32", "3.40282347E+38"): ("FLT_MAX", (2 ** 24 - 1) * 2 ** 104),
    ("f64", "1.7976931348623157E+308"): ("DBL_MAX", (2 ** 53 - 1) * 2 ** 971),
    ("f80", "1.18973149535723176502E+4932"): ("LDBL_MAX", (2 ** 64 - 1) * 2 ** 16320),
}


def const_eval(n, env):
    """value of an integer (or whitelisted floating) constant expression -> (python int, canonical type name).
    Floating constants are returned as exact integers (only FLT_MAX/DBL_MAX are accepted)."""
    k = n.get("kind")
    if k == "ParenExpr" or k == "ConstantExpr":
        (c,) = kids(n)
        return const_eval(c, env)
    if k == "IntegerLiteral":
        t = canon(n["type"], n)
        return wrap(int(n["value"]), t), t
    if k == "CharacterLiteral":
        return int(n["value"]), "int"
    if k == "FloatingLiteral":
        t = cty(n["type"], n)
        key = (t, n.get("value"))
        if key not in FLOAT_CONSTS:
            fail("floating constant %r is not one of FLT_MAX/DBL_MAX/LDBL_MAX" % (n.get("value"),), n)
        return FLOAT_CONSTS[key][1], canon(n["type"], n)
    if k == "DeclRefExpr":
        ref = n.get("referencedDecl", {})
        if ref.get("kind") != "EnumConstantDecl" or ref.get("name") not in env:
            fail("reference to %r is not a known enum constant" % ref.get("name"), n)
        return env[ref["name"]], "int"
    if k in ("ImplicitCastExpr", "CStyleCastExpr"):
        (c,) = kids(n)
        v, t = const_eval(c, env)
        ck = n.get("castKind")
        to = canon(n["type"], n)
        if ck == "NoOp":
            return v, t
        if ck == "IntegralCast":
            return wrap(v, to), to
        if ck in ("IntegralToFloating", "FloatingCast"):
            # exact for the whitelisted constants and for small integers
            if CTYPES[t][3] or abs(v) <= 2 ** 24:
                if CTYPES[t][3] and CTYPES[to][1] < CTYPES[t][1]:
                    fail("narrowing floating cast of a constant", n)
                return v, to
            fail("integer constant too large for an exact floating conversion", n)
        fail("cast kind %r in constant expression" % ck, n)
    if k == "UnaryOperator":
        (c,) = kids(n)
        v, t = const_eval(c, env)
        op = n.get("opcode")
        rt = canon(n["type"], n)
        if op == "-":
            return (-v if CTYPES[rt][3] else wrap(-v, rt)), rt
        if op == "+":
            return v, rt
        if op == "!":
            return int(v == 0), "int"
        if op == "~" and not CTYPES[rt][3]:
            return wrap(~v, rt), rt
        fail("unary operator %r in constant expression" % op, n)
    if k == "BinaryOperator":
        a, b = kids(n)
        op = n.get("opcode")
        if op == "&&":
            va, _ = const_eval(a, env)
            if not va:
                return 0, "int"
            vb, _ = const_eval(b, env)
            return int(vb != 0), "int"
        if op == "||":
            va, _ = const_eval(a, env)
            if va:
                return 1, "int"
            vb, _ = const_eval(b, env)
            return int(vb != 0), "int"
        va, ta = const_eval(a, env)
        vb, tb = const_eval(b, env)
        rt = canon(n["type"], n)
        if CTYPES[ta][3] or CTYPES[tb][3]:
            fail("floating arithmetic in constant expression", n)
        if op in ("<", ">", "<=", ">=", "==", "!="):
            if ta != tb:
                fail("comparison of differently typed constants", n)
            return int({"<": va < vb, ">": va > vb, "<=": va <= vb, ">=": va >= vb, "==": va == vb, "!=": va != vb}[op]), "int"
        if ta != tb or ta != rt:
            fail("operands of %r not converted to a common type" % op, n)
        if op == "+":
            return wrap(va + vb, rt), rt
        if op == "-":
            return wrap(va - vb, rt), rt
        if op == "*":
            return wrap(va * vb, rt), rt
        if op == "<<" and 0 <= vb < CTYPES[rt][1]:
            return wrap(va << vb, rt), rt
        if op == "|":
            return wrap(va | vb, rt), rt
        if op == "&":
            return wrap(va & vb, rt), rt
        fail("binary operator %r in constant expression" % op, n)
    if k == "ConditionalOperator":
        c, a, b = kids(n)
        vc, _ = const_eval(c, env)
        return const_eval(a if vc else b, env)
    if k == "UnaryExprOrTypeTraitExpr" and n.get("name") == "sizeof":
        if "argType" in n:
            return sizeof(n["argType"], n), "unsigned long"
        (c,) = kids(n)
        return sizeof(strip_parens(c)["type"], n), "unsigned long"
    fail("unsupported constant expression", n)


def is_ref(n, name):
    """n is (an lvalue-to-rvalue load of) the variable `name`, possibly parenthesised"""
    n = strip_parens(n)
    if n.get("kind") == "ImplicitCastExpr" and n.get("castKind") == "LValueToRValue":
        (n,) = kids(n)
        n = strip_parens(n)
    return n.get("kind") == "DeclRefExpr" and n.get("referencedDecl", {}).get("name") == name


def mentions(n, name):
    if n.get("kind") == "DeclRefExpr" and n.get("referencedDecl", {}).get("name") == name:
        return True
    return any(mentions(c, name) for c in n.get("inner", []))


VALNAME = ["val"]      # the variable the guards talk about (`val` in the converters, `tmp` in the text parsers)


def val_conversion(n, src):
    """n = `val` converted to some arithmetic type by at most one implicit/explicit conversion.
    Returns the model name of the resulting type."""
    n = strip_parens(n)
    if is_ref(n, VALNAME[0]):
        return src
    if n.get("kind") in ("ImplicitCastExpr", "CStyleCastExpr") and \
            n.get("castKind") in ("IntegralCast", "IntegralToFloating", "FloatingCast", "NoOp"):
        (c,) = kids(n)
        if is_ref(c, VALNAME[0]):
            return cty(n["type"], n)
    fail("expected `%s` with at most one conversion" % VALNAME[0], n)


CMP_NAMES = {"<": "lt", "<=": "le", ">": "gt", ">=": "ge", "==": "eq", "!=": "ne"}
CMP_FLIP = {"<": ">", "<=": ">=", ">": "<", ">=": "<=", "==": "==", "!=": "!="}


def parse_isgraph(n, src):
    """`!isgraph(val)` after glibc's macro expansion:
       !((*__ctype_b_loc())[(int)(val)] & (unsigned short) _ISgraph)"""
    if n.get("kind") != "UnaryOperator" or n.get("opcode") != "!":
        return None
    (e,) = kids(n)
    e = strip_parens(e)
    if e.get("kind") != "BinaryOperator" or e.get("opcode") != "&":
        return None
    lhs, rhs = kids(e)

    def unwrap_casts(x):
        x = strip_parens(x)
        while x.get("kind") in ("ImplicitCastExpr", "CStyleCastExpr"):
            (x,) = kids(x)
            x = strip_parens(x)
        return x
    r = unwrap_casts(rhs)
    if not (r.get("kind") == "DeclRefExpr" and r.get("referencedDecl", {}).get("name") == "_ISgraph"):
        return None
    l = unwrap_casts(lhs)
    if l.get("kind") != "ArraySubscriptExpr":
        fail("ctype test that is not a table lookup", n)
    base, idx = kids(l)
    b = unwrap_casts(base)
    if not (b.get("kind") == "UnaryOperator" and b.get("opcode") == "*"):
        fail("unexpected ctype table expression", n)
    (call,) = kids(b)
    call = unwrap_casts(call)
    if call.get("kind") != "CallExpr" or not mentions(call, "__ctype_b_loc") or len(kids(call)) != 1:
        fail("unexpected ctype table expression", n)
    idx = strip_parens(idx)
    if idx.get("kind") != "CStyleCastExpr" or idx.get("castKind") not in ("IntegralCast", "NoOp") or cty(idx["type"], idx) != "i32":
        fail("ctype index is not `(int) val`", n)
    (iv,) = kids(idx)
    if not is_ref(iv, "val"):
        fail("ctype index is not `(int) val`", n)
    return {"kind": "notIsgraph", "idx": "i32"}


CMP_NEG = {"lt": "ge", "le": "gt", "gt": "le", "ge": "lt", "eq": "ne", "ne": "eq"}


def parse_atom(n, src, env):
    n = strip_parens(n)
    g = parse_isgraph(n, src)
    if g:
        return g
    if n.get("kind") == "UnaryOperator" and n.get("opcode") == "!":
        # !(val <op> k)  ==  val <negated op> k   (integer comparison types only: no NaN)
        (inner,) = kids(n)
        inner = strip_parens(inner)
        if inner.get("kind") == "BinaryOperator" and inner.get("opcode") in CMP_NAMES:
            a = parse_atom(inner, src, env)
            if a["kind"] == "cmp" and not a["cty"].startswith("f"):
                return {"kind": "cmp", "op": CMP_NEG[a["op"]], "cty": a["cty"], "k": a["k"]}
        fail("unsupported negated guard condition", n)
    if n.get("kind") == "BinaryOperator" and n.get("opcode") in CMP_NAMES:
        a, b = kids(n)
        op = n["opcode"]
        if mentions(b, VALNAME[0]) and not mentions(a, VALNAME[0]):
            a, b = b, a
            op = CMP_FLIP[op]
        if mentions(b, VALNAME[0]) or not mentions(a, VALNAME[0]):
            fail("comparison is not `%s <op> constant`" % VALNAME[0], n)
        ct = val_conversion(a, src)
        kv, kt = const_eval(b, env)
        if CTYPES[kt][0] != ct:
            fail("constant not converted to the comparison type (%s vs %s)" % (kt, ct), n)
        return {"kind": "cmp", "op": CMP_NAMES[op], "cty": ct, "k": kv}
    fail("unsupported guard condition", n)


def parse_conj(n, src, env):
    n = strip_parens(n)
    if n.get("kind") == "BinaryOperator" and n.get("opcode") == "&&":
        a, b = kids(n)
        return parse_conj(a, src, env) + parse_conj(b, src, env)
    return [parse_atom(n, src, env)]


def parse_disj(n, src, env):
    n = strip_parens(n)
    if n.get("kind") == "BinaryOperator" and n.get("opcode") == "||":
        a, b = kids(n)
        return parse_disj(a, src, env) + parse_disj(b, src, env)
    return [parse_conj(n, src, env)]


ERRNAMES = {"MPT_ERROR_BadArgument": "BadArgument", "MPT_ERROR_BadValue": "BadValue", "MPT_ERROR_BadType": "BadType",
            "MPT_ERROR_BadOperation": "BadOperation", "MPT_ERROR_BadEncoding": "BadEncoding",
            "MPT_ERROR_MissingData": "MissingData", "MPT_ERROR_MissingBuffer": "MissingBuffer"}


def parse_error_return(n):
    """`return MPT_ERROR(X);` -> X or None"""
    if n.get("kind") != "ReturnStmt":
        return None
    ks = kids(n)
    if len(ks) != 1:
        return None
    e = strip_parens(ks[0])
    if e.get("kind") == "DeclRefExpr" and e.get("referencedDecl", {}).get("name") in ERRNAMES:
        return ERRNAMES[e["referencedDecl"]["name"]]
    return None


def parse_sizeof_return(n):
    """`return sizeof(T);` -> size or None"""
    if n.get("kind") != "ReturnStmt":
        return None
    ks = kids(n)
    if len(ks) != 1:
        return None
    e = ks[0]
    if e.get("kind") == "ImplicitCastExpr" and e.get("castKind") == "IntegralCast" and cty(e["type"], e) == "i32":
        (e,) = kids(e)
    e = strip_parens(e)
    if e.get("kind") == "UnaryExprOrTypeTraitExpr" and e.get("name") == "sizeof":
        if "argType" in e:
            return sizeof(e["argType"], e)
        (c,) = kids(e)
        return sizeof(strip_parens(c)["type"], e)
    return None


def parse_store(n, src):
    """`*((T *) dest) = val;` -> model name of T, or None"""
    if n.get("kind") != "BinaryOperator" or n.get("opcode") != "=":
        return None
    lhs, rhs = kids(n)
    lhs = strip_parens(lhs)
    if lhs.get("kind") != "UnaryOperator" or lhs.get("opcode") != "*":
        return None
    (p,) = kids(lhs)
    p = strip_parens(p)
    if p.get("kind") != "CStyleCastExpr" or p.get("castKind") != "BitCast":
        fail("store through something that is not `(T *) dest`", n)
    (d,) = kids(p)
    if not is_ref(d, "dest"):
        fail("store through something that is not `(T *) dest`", n)
    st = cty(lhs["type"], lhs)
    got = val_conversion(rhs, src)
    if got != st:
        fail("stored expression is not `val` converted to the pointee type", n)
    return st


# --------------------------------------------------------------------------------------- converter functions

def flatten_switch(body):
    """CompoundStmt of a switch -> list of ('case', expr) | ('default',) | ('stmt', node)"""
    out = []

    def label(n):
        if n.get("kind") == "CaseStmt":
            ks = kids(n)
            if len(ks) != 2:
                fail("case range or empty case", n)
            out.append(("case", ks[0]))
            label(ks[1])
        elif n.get("kind") == "DefaultStmt":
            (s,) = kids(n)
            out.append(("default",))
            label(s)
        elif n.get("kind") == "NullStmt":
            pass
        else:
            out.append(("stmt", n))
    for n in kids(body):
        label(n)
    return out


def parse_converter(repo, relpath, name, env, type_int):
    fn = function_def(repo, relpath, name)
    params = [c for c in kids(fn) if c.get("kind") == "ParmVarDecl"]
    if [p.get("name") for p in params] != ["from", "type", "dest"]:
        fail("%s: unexpected parameter list" % name, fn)
    (body,) = [c for c in kids(fn) if c.get("kind") == "CompoundStmt"]
    st = kids(body)
    # 1. `T val = 0;`
    if not st or st[0].get("kind") != "DeclStmt":
        fail("%s: expected declaration of val" % name, body)
    (vd,) = kids(st[0])
    if vd.get("kind") != "VarDecl" or vd.get("name") != "val":
        fail("%s: expected declaration of val" % name, vd)
    src = cty(vd["type"], vd)
    frm = params[0]["type"]["qualType"]
    # 2. `if (from) { val = *from; }`
    if len(st) < 3 or st[1].get("kind") != "IfStmt":
        fail("%s: expected `if (from) val = *from;`" % name, body)
    ifk = kids(st[1])
    if len(ifk) != 2 or not is_ref(ifk[0], "from"):
        fail("%s: expected `if (from) val = *from;`" % name, st[1])
    asg = ifk[1]
    if asg.get("kind") == "CompoundStmt":
        (asg,) = kids(asg)
    ak = kids(asg) if asg.get("kind") == "BinaryOperator" and asg.get("opcode") == "=" else []
    ok = False
    if len(ak) == 2 and strip_parens(ak[0]).get("referencedDecl", {}).get("name") == "val":
        r = ak[1]
        if r.get("kind") == "ImplicitCastExpr" and r.get("castKind") == "LValueToRValue":
            (r,) = kids(r)
            if r.get("kind") == "UnaryOperator" and r.get("opcode") == "*" and is_ref(kids(r)[0], "from") and cty(r["type"], r) == src:
                ok = True
    if not ok:
        fail("%s: expected `if (from) val = *from;`" % name, st[1])
    pos = 2
    # 3. optional `if (type == 'l') type = mpt_type_int(sizeof(long));`
    alias = None
    if st[pos].get("kind") == "IfStmt":
        c, body_l = kids(st[pos])[0], kids(st[pos])[1:]
        c = strip_parens(c)
        if len(body_l) != 1 or c.get("kind") != "BinaryOperator" or c.get("opcode") != "==":
            fail("%s: unexpected statement before the switch" % name, st[pos])
        a, b = kids(c)
        if not is_ref(a, "type"):
            fail("%s: unexpected statement before the switch" % name, st[pos])
        code, _ = const_eval(b, env)
        asg = body_l[0]
        if asg.get("kind") == "CompoundStmt":
            (asg,) = kids(asg)
        if asg.get("kind") != "BinaryOperator" or asg.get("opcode") != "=":
            fail("%s: unexpected statement before the switch" % name, asg)
        l, r = kids(asg)
        if strip_parens(l).get("referencedDecl", {}).get("name") != "type":
            fail("%s: unexpected statement before the switch" % name, asg)
        while r.get("kind") in ("ImplicitCastExpr", "ParenExpr"):
            (r,) = kids(r)
        if r.get("kind") != "CallExpr":
            fail("%s: type alias is not a call" % name, r)
        callee, arg = kids(r)
        if not mentions(callee, "mpt_type_int"):
            fail("%s: type alias is not mpt_type_int(...)" % name, r)
        argv, _ = const_eval(arg, env)
        if argv not in type_int:
            fail("%s: mpt_type_int(%d) is not in the extracted table" % (name, argv), r)
        alias = (code, type_int[argv])
        pos += 1
    # 4. `switch (type) { ... }`
    if st[pos].get("kind") != "SwitchStmt":
        fail("%s: expected switch (type)" % name, st[pos])
    sk = kids(st[pos])
    if len(sk) != 2 or not is_ref(sk[0], "type") or sk[1].get("kind") != "CompoundStmt":
        fail("%s: expected switch (type) { ... }" % name, st[pos])
    items = flatten_switch(sk[1])
    # 5. optional dead `return sizeof(*from);`
    for extra in st[pos + 1:]:
        if parse_sizeof_return(extra) is None:
            fail("%s: unexpected statement after the switch" % name, extra)
    cases, vectors, dflt = [], [], None
    seen = set()
    for i, it in enumerate(items):
        if it[0] == "default":
            body_items = [x for x in items[i + 1:]]
            stmts = []
            for x in body_items:
                if x[0] == "stmt":
                    stmts.append(x[1])
                    break
            if not stmts or parse_error_return(stmts[0]) is None:
                fail("%s: default is not `return MPT_ERROR(X);`" % name, sk[1])
            dflt = parse_error_return(stmts[0])
            continue
        if it[0] != "case":
            continue
        code, _ = const_eval(it[1], env)
        if code in seen:
            fail("%s: duplicate case %d" % (name, code), it[1])
        seen.add(code)
        # statements reached from this label (fall through later labels) up to the first top-level return
        stmts = []
        for x in items[i + 1:]:
            if x[0] == "stmt":
                stmts.append(x[1])
                if x[1].get("kind") == "ReturnStmt":
                    break
        if not stmts or stmts[-1].get("kind") != "ReturnStmt":
            fail("%s: case %d does not end in a return" % (name, code), it[1])
        if env["MPT__TypeVectorBase"] <= code < env["MPT__TypeVectorMax"] or code == 0:
            vectors.append(code)          # recorded opaquely
            continue
        if not (env["MPT__TypeScalarBase"] <= code <= env["MPT__TypeScalarMax"]):
            fail("%s: case label %d is neither a scalar nor a vector code" % (name, code), it[1])
        guards, dest_guards, store = [], [], None
        for s in stmts[:-1]:
            if s.get("kind") == "IfStmt":
                ks = kids(s)
                if len(ks) != 2:
                    fail("%s: if with else in case %d" % (name, code), s)
                cond, then = ks
                if then.get("kind") == "CompoundStmt" and len(kids(then)) == 1:
                    (then,) = kids(then)
                if is_ref(cond, "dest"):
                    # `if (dest) store;`  or  `if (dest) { guard* store; }`  (guards that only run with a destination)
                    inner = kids(then) if then.get("kind") == "CompoundStmt" else [then]
                    if not inner or store is not None:
                        fail("%s: unexpected `if (dest)` body in case %d" % (name, code), s)
                    for g in inner[:-1]:
                        gk = kids(g) if g.get("kind") == "IfStmt" else []
                        if len(gk) != 2:
                            fail("%s: unsupported statement under `if (dest)` in case %d" % (name, code), g)
                        gthen = gk[1]
                        if gthen.get("kind") == "CompoundStmt" and len(kids(gthen)) == 1:
                            (gthen,) = kids(gthen)
                        gerr = parse_error_return(gthen)
                        if gerr is None or is_ref(gk[0], "dest"):
                            fail("%s: unsupported statement under `if (dest)` in case %d" % (name, code), g)
                        dest_guards.append({"conds": parse_disj(gk[0], src, env), "err": gerr})
                    stt = parse_store(inner[-1], src)
                    if stt is None:
                        fail("%s: `if (dest)` block does not end in the store in case %d" % (name, code), s)
                    store = (stt, True)
                    continue
                err = parse_error_return(then)
                if err is None:
                    fail("%s: guard without `return MPT_ERROR(X)` in case %d" % (name, code), s)
                if store is not None:
                    fail("%s: guard after the store in case %d" % (name, code), s)
                guards.append({"conds": parse_disj(cond, src, env), "err": err})
                continue
            stt = parse_store(s, src)
            if stt is None or store is not None:
                fail("%s: unsupported statement in case %d" % (name, code), s)
            store = (stt, False)
        ret = parse_sizeof_return(stmts[-1])
        if ret is None:
            fail("%s: case %d does not return sizeof(T)" % (name, code), stmts[-1])
        if store is None:
            fail("%s: case %d has no store" % (name, code), stmts[-1])
        cases.append({"code": code, "guards": guards, "dest_guards": dest_guards, "store": store[0], "guarded": store[1], "ret": ret})
    if dflt is None:
        fail("%s: switch without default" % name, sk[1])
    return {"name": name, "src": src, "alias": alias, "cases": cases, "vectors": sorted(vectors), "dflt": dflt}


def parse_type_int(repo, name):
    """types/type_int.c: `switch (len) { case sizeof(T): return 'c'; ... default: return 0; }` -> {size: code}"""
    return parse_return_switch(repo, "mptcore/types/type_int.c", name, "len", {}, 0)


def parse_return_switch(repo, relpath, name, var, env, want_default):
    """a function that is one `switch (var)` of `case K: return V;` and `default: return D;` -> {K: V}"""
    fn = function_def(repo, relpath, name)
    (body,) = [c for c in kids(fn) if c.get("kind") == "CompoundStmt"]
    st = kids(body)
    if len(st) != 1 or st[0].get("kind") != "SwitchStmt":
        fail("%s: expected a single switch" % name, body)
    sk = kids(st[0])
    if not is_ref(sk[0], var):
        fail("%s: expected switch (%s)" % (name, var), st[0])
    items = flatten_switch(sk[1])
    table = {}
    i = 0
    while i < len(items):
        it = items[i]
        if it[0] in ("case", "default"):
            if i + 1 >= len(items) or items[i + 1][0] != "stmt" or items[i + 1][1].get("kind") != "ReturnStmt":
                fail("%s: label without an immediate return" % name, sk[1])
            (rv,) = kids(items[i + 1][1])
            v, _ = const_eval(rv, env)
            if it[0] == "case":
                size, _ = const_eval(it[1], env)
                if size in table:
                    fail("%s: duplicate case" % name, it[1])
                table[size] = v
            elif v != want_default:
                fail("%s: default does not return %d" % (name, want_default), rv)
            i += 2
        else:
            fail("%s: statement outside the grammar" % name, it[1])
    return table


def parse_dispatch(repo, env):
    """data_converter.c:mpt_data_converter: the `switch (type)` mapping scalar codes to converter functions"""
    fn = function_def(repo, "mptcore/convert/data_converter.c", "mpt_data_converter")
    (body,) = [c for c in kids(fn) if c.get("kind") == "CompoundStmt"]
    sw = [c for c in kids(body) if c.get("kind") == "SwitchStmt"]
    if len(sw) != 1:
        fail("mpt_data_converter: expected exactly one switch", body)
    sk = kids(sw[0])
    if not is_ref(sk[0], "type"):
        fail("mpt_data_converter: expected switch (type)", sw[0])
    items = flatten_switch(sk[1])
    out = []
    i = 0
    while i < len(items):
        it = items[i]
        if it[0] == "case":
            code, _ = const_eval(it[1], env)
            if i + 1 >= len(items) or items[i + 1][0] != "stmt" or items[i + 1][1].get("kind") != "ReturnStmt":
                fail("mpt_data_converter: case %d without an immediate return" % code, it[1])
            e = kids(items[i + 1][1])[0]
            while e.get("kind") in ("ImplicitCastExpr", "CStyleCastExpr", "ParenExpr"):
                (e,) = kids(e)
            if e.get("kind") != "DeclRefExpr" or e.get("referencedDecl", {}).get("kind") != "FunctionDecl":
                fail("mpt_data_converter: case %d does not return a function" % code, e)
            out.append((code, e["referencedDecl"]["name"]))
            i += 2
        elif it[0] == "default":
            i += 1
        else:
            fail("mpt_data_converter: statement outside the grammar", it[1])
    # every earlier `if (type == X) return f;` must test a non-scalar id
    for c in kids(body):
        if c.get("kind") == "IfStmt":
            cond = strip_parens(kids(c)[0])
            if cond.get("kind") == "BinaryOperator" and cond.get("opcode") == "==":
                a, b = kids(cond)
                if is_ref(a, "type"):
                    v, _ = const_eval(b, env)
                    if env["MPT__TypeScalarBase"] <= v <= env["MPT__TypeScalarMax"]:
                        fail("mpt_data_converter: scalar id %d handled outside the switch" % v, c)
    return out


INT_FUNCS = ["mpt_data_convert_int8", "mpt_data_convert_uint8", "mpt_data_convert_int16", "mpt_data_convert_uint16",
             "mpt_data_convert_int32", "mpt_data_convert_uint32", "mpt_data_convert_int64", "mpt_data_convert_uint64"]
FLT_FUNCS = ["mpt_data_convert_float32", "mpt_data_convert_float64", "mpt_data_convert_exflt"]


def parse_value_argv(repo, env):
    """types/value_argv.c: per case of the switch: `if ((len = sizeof(T)) > max) return ..; if (dest) *((S *) dest) = va_arg(va, A);
    return len;` -> [(code, S, A, sizeof T)]; cases whose stored type is not arithmetic (strings) are skipped"""
    fn = function_def(repo, "mptcore/types/value_argv.c", "mpt_value_argv")
    (body,) = [c for c in kids(fn) if c.get("kind") == "CompoundStmt"]
    sw = [c for c in kids(body) if c.get("kind") == "SwitchStmt"]
    if len(sw) != 1 or not is_ref(kids(sw[0])[0], "fmt"):
        fail("mpt_value_argv: expected one switch (fmt)", body)
    items = flatten_switch(kids(sw[0])[1])
    rows = []
    j = 0
    while j < len(items):
        it = items[j]
        if it[0] == "default":
            j += 2
            continue
        if it[0] != "case":
            fail("mpt_value_argv: statement outside a case", it[1])
        code, _ = const_eval(it[1], env)
        stmts = []
        j += 1
        while j < len(items) and items[j][0] == "stmt":
            stmts.append(items[j][1])
            j += 1
            if stmts[-1].get("kind") == "ReturnStmt":
                break
        if len(stmts) != 3 or stmts[0].get("kind") != "IfStmt" or stmts[1].get("kind") != "IfStmt" or stmts[2].get("kind") != "ReturnStmt":
            fail("mpt_value_argv: case %d is not `size test; if (dest) store; return len;`" % code, it[1])
        sizes = [n for n in walk(stmts[0]) if n.get("kind") == "UnaryExprOrTypeTraitExpr" and n.get("name") == "sizeof"]
        if len(sizes) != 1 or not is_ref(kids(stmts[1])[0], "dest") or not refs_var(kids(stmts[2])[0], "len"):
            fail("mpt_value_argv: case %d: unexpected shape" % code, stmts[0])
        asg = single_stmt(kids(stmts[1])[1])
        vas = [n for n in walk(asg) if n.get("kind") == "VAArgExpr"]
        if asg.get("kind") != "BinaryOperator" or asg.get("opcode") != "=" or len(vas) != 1:
            fail("mpt_value_argv: case %d: store is not `*((S *) dest) = va_arg(va, A)`" % code, asg)
        lhs = strip_parens(kids(asg)[0])
        try:
            st, at = cty(lhs["type"], lhs), cty(vas[0]["type"], vas[0])
        except TranslateError:
            continue          # pointer valued ('s')
        rows.append((code, st, at, sizeof(sizes[0]["argType"], sizes[0])))
    return rows


def parse_fpoint_consume(repo, env):
    """mptplot/values/fpoint_set.c: the target type codes of the mpt_iterator_consume calls of mpt_fpoint_set and whether
    each stores directly into a float member (`&tmp.x`)"""
    fn = function_def(repo, "mptplot/values/fpoint_set.c", "mpt_fpoint_set")
    out = []
    for n in walk(fn):
        if n.get("kind") == "CallExpr" and mentions(kids(n)[0], "mpt_iterator_consume"):
            ks = kids(n)
            code, _ = const_eval(ks[2], env)
            direct = any(x.get("kind") == "MemberExpr" and x.get("name") in ("x", "y") for x in walk(ks[3]))
            out.append((code, direct))
    if len(out) != 2:
        fail("mpt_fpoint_set: expected two calls of mpt_iterator_consume, found %d" % len(out), fn)
    return out


def extract_convint(repo):
    env = enum_constants(repo, "mptcore/convert/data_convert_int.c")
    for need in ("MPT__TypeVectorBase", "MPT__TypeVectorMax", "MPT__TypeScalarBase", "MPT__TypeScalarMax"):
        if need not in env:
            fail("enum constant %s not found" % need)
    type_int = parse_type_int(repo, "mpt_type_int")
    type_uint = parse_type_int(repo, "mpt_type_uint")
    fns = [parse_converter(repo, "mptcore/convert/data_convert_int.c", n, env, type_int) for n in INT_FUNCS]
    fns += [parse_converter(repo, "mptcore/convert/data_convert_float.c", n, env, type_int) for n in FLT_FUNCS]
    disp = parse_dispatch(repo, env)
    names = {f["name"] for f in fns}
    for code, fname in disp:
        if fname not in names:
            fail("dispatch target %s of type %d is not a translated converter" % (fname, code))
    return {"functions": fns, "dispatch": disp, "type_int": type_int, "type_uint": type_uint, "argv": parse_value_argv(repo, env),
            "fpoint": parse_fpoint_consume(repo, env)}


# --------------------------------------------------------------------------------------- text parsers (C07)

def is_errno(n):
    n = unwrap(n)
    if n.get("kind") == "UnaryOperator" and n.get("opcode") == "*":
        c = unwrap(kids(n)[0])
        return c.get("kind") == "CallExpr" and mentions(c, "__errno_location")
    return False


ERANGE = 34


def parse_text_cond(n, tmp_ty, env):
    """boolean condition over `errno == ERANGE`, comparisons of tmp, `range`  ->  DNF: list of conjunctions of atoms.
    (None of these atoms can fault, so distributing && over || preserves the meaning.)"""
    n = strip_parens(n)
    if n.get("kind") == "ImplicitCastExpr" and n.get("castKind") in ("PointerToBoolean", "LValueToRValue", "IntegralToBoolean"):
        inner = strip_parens(kids(n)[0])
        if is_ref(inner, "range") or is_ref(n, "range"):
            return [[{"kind": "range"}]]
    if is_ref(n, "range"):
        return [[{"kind": "range"}]]
    if n.get("kind") == "BinaryOperator" and n.get("opcode") == "||":
        a, b = kids(n)
        return parse_text_cond(a, tmp_ty, env) + parse_text_cond(b, tmp_ty, env)
    if n.get("kind") == "BinaryOperator" and n.get("opcode") == "&&":
        a, b = kids(n)
        return [x + y for x in parse_text_cond(a, tmp_ty, env) for y in parse_text_cond(b, tmp_ty, env)]
    if n.get("kind") == "BinaryOperator" and n.get("opcode") in ("==", "!="):
        a, b = kids(n)
        if is_errno(b):
            a, b = b, a
        if is_errno(a):
            v, _ = const_eval(b, env)
            if v != ERANGE or n["opcode"] != "==":
                fail("errno test is not `errno == ERANGE`", n)
            return [[{"kind": "erange"}]]
    if mentions(n, "range"):
        # `tmp < range[0] || tmp > range[1]`, only reachable with a range argument: kept opaque
        return [[{"kind": "rangecmp"}]]
    return [[parse_atom(n, tmp_ty, env)]]


def emit_text_atoms(conds):
    disj = []
    for conj in conds:
        atoms = []
        for a in conj:
            if a["kind"] == "erange":
                atoms.append(".erange")
            elif a["kind"] == "minus":
                atoms.append(".minus")
            elif a["kind"] in ("range", "rangecmp"):
                atoms.append(".rangeArg")
            elif a["kind"] == "cmp":
                atoms.append(".val (.cmp .%s .%s %s)" % (a["op"], a["cty"], lean_int(a["k"])))
            else:
                fail("atom %r cannot occur in a text parser" % a["kind"])
        disj.append("[" + ", ".join(atoms) + "]")
    return "[" + ", ".join(disj) + "]"


def single_stmt(n):
    if n.get("kind") == "CompoundStmt" and len(kids(n)) == 1:
        return kids(n)[0]
    return n


def is_minus_scan(a, b, c):
    """`sign = src; while (isspace(*sign)) ++sign; if (*sign == '-') return ERR;` -> ERR or None"""
    if not (a.get("kind") == "BinaryOperator" and a.get("opcode") == "=" and refs_var(kids(a)[0], "sign") and is_ref(kids(a)[1], "src")):
        return None
    if not (b.get("kind") == "WhileStmt" and mentions(kids(b)[0], "_ISspace") and mentions(kids(b)[0], "sign")):
        return None
    body = single_stmt(kids(b)[1])
    if not (body.get("kind") == "UnaryOperator" and body.get("opcode") == "++" and mentions(body, "sign")):
        return None
    if c.get("kind") != "IfStmt" or len(kids(c)) != 2:
        return None
    cond = strip_parens(kids(c)[0])
    if not (cond.get("kind") == "BinaryOperator" and cond.get("opcode") == "==" and mentions(kids(cond)[0], "sign")):
        return None
    try:
        v, _ = const_eval(kids(cond)[1], {})
    except TranslateError:
        return None
    if v != 45:
        return None
    return parse_error_return(single_stmt(kids(c)[1]))


def parse_store_tmp(n, tmp_ty):
    """`if (val) *((T *) val) = tmp;` / `if (val) *val = tmp;` / unguarded -> (store type, guarded) or None"""
    guarded = False
    if n.get("kind") == "IfStmt" and len(kids(n)) == 2 and is_ref(kids(n)[0], "val"):
        guarded = True
        n = single_stmt(kids(n)[1])
    if n.get("kind") != "BinaryOperator" or n.get("opcode") != "=":
        return None
    lhs, rhs = kids(n)
    lhs = strip_parens(lhs)
    if lhs.get("kind") != "UnaryOperator" or lhs.get("opcode") != "*" or not mentions(lhs, "val"):
        return None
    st = cty(lhs["type"], lhs)
    old = VALNAME[0]
    VALNAME[0] = "tmp"
    try:
        got = val_conversion(rhs, tmp_ty)
    finally:
        VALNAME[0] = old
    if got != st:
        fail("stored expression is not `tmp` converted to the pointee type", n)
    return st, guarded


def parse_text_parser(repo, relpath, name, env):
    fn = function_def(repo, relpath, name)
    (body,) = [c for c in kids(fn) if c.get("kind") == "CompoundStmt"]
    st = [x for x in kids(body)]
    tmp_ty = None
    i = 0
    while i < len(st) and st[i].get("kind") == "DeclStmt":
        for vd in kids(st[i]):
            if vd.get("name") == "tmp":
                tmp_ty = cty(vd["type"], vd)
        i += 1
    if tmp_ty is None:
        fail("%s: no variable tmp" % name, body)
    st = st[i:]
    # null test, empty test
    def is_null_test(n):
        return n.get("kind") == "IfStmt" and parse_error_return(single_stmt(kids(n)[1])) == "BadArgument" and mentions(kids(n)[0], "src")
    def is_empty_test(n):
        if n.get("kind") != "IfStmt" or len(kids(n)) != 2:
            return False
        c = strip_parens(kids(n)[0])
        r = single_stmt(kids(n)[1])
        if not (c.get("kind") == "UnaryOperator" and c.get("opcode") == "!" and mentions(c, "src")):
            return False
        if r.get("kind") != "ReturnStmt":
            return False
        try:
            v, _ = const_eval(kids(r)[0], {})
        except TranslateError:
            return False
        return v == 0
    if len(st) < 4 or not is_null_test(st[0]) or not is_empty_test(st[1]):
        fail("%s: expected the null and the empty-string tests" % name, body)
    st = st[2:]
    errno_reset = False
    if st[0].get("kind") == "BinaryOperator" and st[0].get("opcode") == "=" and is_errno(kids(st[0])[0]):
        v, _ = const_eval(kids(st[0])[1], {})
        if v != 0:
            fail("%s: errno assigned something other than 0" % name, st[0])
        errno_reset = True
        st = st[1:]
    call = st[0]
    if not (call.get("kind") == "BinaryOperator" and call.get("opcode") == "=" and refs_var(kids(call)[0], "tmp")):
        fail("%s: expected tmp = strto*(...)" % name, call)
    ce = unwrap(kids(call)[1])
    if ce.get("kind") != "CallExpr":
        fail("%s: expected tmp = strto*(...)" % name, call)
    callee = unwrap(kids(ce)[0]).get("referencedDecl", {}).get("name")
    if callee not in ("strtoimax", "strtoumax", "strtof", "strtod", "strtold"):
        fail("%s: unexpected conversion function %r" % (name, callee), call)
    args = kids(ce)[1:]
    if not is_ref(args[0], "src") or not mentions(args[1], "end") or (len(args) == 3 and not is_ref(args[2], "base")):
        fail("%s: unexpected arguments of %s" % (name, callee), call)
    st = st[1:]
    # no-conversion block
    nc = st[0]
    ok = False
    if nc.get("kind") == "IfStmt" and len(kids(nc)) == 2:
        c = strip_parens(kids(nc)[0])
        if c.get("kind") == "BinaryOperator" and c.get("opcode") == "==" and mentions(c, "end") and mentions(c, "src"):
            blk = kids(kids(nc)[1])
            if len(blk) == 2 and blk[0].get("kind") == "WhileStmt" and mentions(blk[0], "_ISspace") and blk[1].get("kind") == "ReturnStmt":
                rets = [parse_error_return(x) for x in walk(blk[0]) if x.get("kind") == "ReturnStmt"]
                v, _ = const_eval(kids(blk[1])[0], {})
                if rets == ["BadType"] and v == 0:
                    ok = True
    if not ok:
        fail("%s: expected the `end == src` block (blank text -> 0, else BadType)" % name, nc)
    st = st[1:]
    # guards up to the switch / the store
    guards = []
    old = VALNAME[0]
    VALNAME[0] = "tmp"
    try:
        k = 0
        widths, dflt = [], None
        while k < len(st):
            n = st[k]
            if n.get("kind") == "SwitchStmt":
                sk = kids(n)
                if not is_ref(sk[0], "vlen"):
                    fail("%s: switch on something other than vlen" % name, n)
                items = flatten_switch(sk[1])
                j = 0
                while j < len(items):
                    it = items[j]
                    if it[0] == "default":
                        dflt = parse_error_return(items[j + 1][1]) if j + 1 < len(items) and items[j + 1][0] == "stmt" else None
                        if dflt is None:
                            fail("%s: default is not `return MPT_ERROR(X)`" % name, sk[1])
                        j += 2
                        continue
                    if it[0] != "case":
                        fail("%s: statement outside a case" % name, it[1])
                    size, _ = const_eval(it[1], env)
                    j += 1
                    wg, store = [], None
                    while j < len(items) and items[j][0] == "stmt" and items[j][1].get("kind") != "BreakStmt":
                        s2 = items[j][1]
                        stt = parse_store_tmp(s2, tmp_ty)
                        if stt is not None:
                            if store is not None:
                                fail("%s: two stores in case %d" % (name, size), s2)
                            store = stt
                        elif s2.get("kind") == "IfStmt" and len(kids(s2)) == 2 and parse_error_return(single_stmt(kids(s2)[1])):
                            if store is not None:
                                fail("%s: guard after the store in case %d" % (name, size), s2)
                            wg.append({"conds": parse_text_cond(kids(s2)[0], tmp_ty, env), "err": parse_error_return(single_stmt(kids(s2)[1]))})
                        else:
                            fail("%s: unsupported statement in case %d" % (name, size), s2)
                        j += 1
                    if j >= len(items) or items[j][0] != "stmt" or items[j][1].get("kind") != "BreakStmt" or store is None:
                        fail("%s: case %d does not end in store; break" % (name, size), sk[1])
                    j += 1
                    widths.append({"size": size, "guards": wg, "store": store[0], "guarded": store[1]})
                k += 1
                break
            stt = parse_store_tmp(n, tmp_ty)
            if stt is not None:
                widths.append({"size": CTYPES[[c for c in CTYPES if CTYPES[c][0] == tmp_ty][0]][1] // 8, "guards": [], "store": stt[0], "guarded": stt[1]})
                k += 1
                break
            if k + 2 < len(st):
                err = is_minus_scan(st[k], st[k + 1], st[k + 2])
                if err:
                    guards.append({"conds": [[{"kind": "minus"}]], "err": err})
                    k += 3
                    continue
            if n.get("kind") == "IfStmt" and len(kids(n)) == 2 and parse_error_return(single_stmt(kids(n)[1])):
                guards.append({"conds": parse_text_cond(kids(n)[0], tmp_ty, env), "err": parse_error_return(single_stmt(kids(n)[1]))})
                k += 1
                continue
            fail("%s: statement outside the grammar" % name, n)
        rest = st[k:]
    finally:
        VALNAME[0] = old
    if not widths:
        fail("%s: no store found" % name, body)
    # `return end - src;`
    if len(rest) != 1 or rest[0].get("kind") != "ReturnStmt":
        fail("%s: expected `return end - src;` at the end" % name, body)
    e = unwrap(kids(rest[0])[0])
    if not (e.get("kind") == "BinaryOperator" and e.get("opcode") == "-" and mentions(kids(e)[0], "end") and mentions(kids(e)[1], "src")):
        fail("%s: expected `return end - src;` at the end" % name, rest[0])
    return {"name": name, "strto": callee, "tmp": tmp_ty, "errno_reset": errno_reset, "guards": guards, "widths": widths,
            "dflt": dflt or "BadType"}


INT_WRAPPERS = ["mpt_cint8", "mpt_cint16", "mpt_cint32", "mpt_cint64", "mpt_cchar", "mpt_cint", "mpt_clong",
                "mpt_cuint8", "mpt_cuint16", "mpt_cuint32", "mpt_cuint64", "mpt_cuchar", "mpt_cuint", "mpt_culong"]


def parse_wrapper(repo, name, env):
    """GET_STRING_FCN instance: `if ((ret = get(&tmp, sizeof(type), src, base)) <= 0) return ret; [range test]
    if (val) *val = tmp; return ret;` -> (parser function, size)"""
    fn = function_def(repo, "mptcore/convert/convert_int.c", name)
    (body,) = [c for c in kids(fn) if c.get("kind") == "CompoundStmt"]
    st = [x for x in kids(body) if x.get("kind") != "DeclStmt"]
    if len(st) != 4 or [x.get("kind") for x in st] != ["IfStmt", "IfStmt", "IfStmt", "ReturnStmt"]:
        fail("%s: unexpected wrapper body" % name, body)
    calls = [n for n in walk(st[0]) if n.get("kind") == "CallExpr"]
    if len(calls) != 1:
        fail("%s: expected one call" % name, st[0])
    ck = kids(calls[0])
    callee = unwrap(ck[0]).get("referencedDecl", {}).get("name")
    size, _ = const_eval(ck[2], env)
    if callee not in ("_mpt_convert_int", "_mpt_convert_uint") or not mentions(ck[1], "tmp") or not is_ref(ck[3], "src") or not is_ref(ck[4], "base"):
        fail("%s: unexpected call" % name, calls[0])
    cond0 = strip_parens(kids(st[0])[0])
    if not (cond0.get("kind") == "BinaryOperator" and cond0.get("opcode") == "<=" and is_ref(single_stmt(kids(st[0])[1]).get("inner", [{}])[0], "ret")):
        fail("%s: expected `if ((ret = ...) <= 0) return ret;`" % name, st[0])
    if not mentions(kids(st[1])[0], "range") or parse_error_return(single_stmt(kids(st[1])[1])) is None:
        fail("%s: expected the range test" % name, st[1])
    vd = [v for d in kids(body) if d.get("kind") == "DeclStmt" for v in kids(d) if v.get("name") == "tmp"]
    if len(vd) != 1 or sizeof(vd[0]["type"], vd[0]) != size:
        fail("%s: sizeof argument does not match the type of tmp" % name, body)
    stt = parse_store_tmp(st[2], cty(vd[0]["type"], vd[0]))
    if stt is None or not stt[1]:
        fail("%s: expected `if (val) *val = tmp;`" % name, st[2])
    if not is_ref(kids(st[3])[0], "ret"):
        fail("%s: expected `return ret;`" % name, st[3])
    return {"name": name, "parser": callee, "size": size}


def parse_number_dispatch(repo, env):
    """mpt_convert_number: the switch (fmt) -> [(code, callee, base)]; also checks the 'c' block and the 'l' alias"""
    fn = function_def(repo, "mptcore/convert/convert_number.c", "mpt_convert_number")
    (body,) = [c for c in kids(fn) if c.get("kind") == "CompoundStmt"]
    sw = [c for c in kids(body) if c.get("kind") == "SwitchStmt"]
    if len(sw) != 1 or not is_ref(kids(sw[0])[0], "fmt"):
        fail("mpt_convert_number: expected one switch (fmt)", body)
    out = []
    items = flatten_switch(kids(sw[0])[1])
    j = 0
    while j < len(items):
        it = items[j]
        if it[0] == "default":
            j += 2
            continue
        if it[0] != "case" or j + 1 >= len(items) or items[j + 1][0] != "stmt" or items[j + 1][1].get("kind") != "ReturnStmt":
            fail("mpt_convert_number: case without an immediate return", sw[0])
        code, _ = const_eval(it[1], env)
        ce = unwrap(kids(items[j + 1][1])[0])
        if ce.get("kind") != "CallExpr":
            fail("mpt_convert_number: case %d does not return a call" % code, ce)
        ck = kids(ce)
        callee = unwrap(ck[0]).get("referencedDecl", {}).get("name")
        if not refs_var(unwrap(ck[1]) if unwrap(ck[1]).get("kind") == "DeclRefExpr" else kids(unwrap(ck[1]))[0] if kids(unwrap(ck[1])) else ck[1], "dest") \
                or not is_ref(ck[2], "src"):
            fail("mpt_convert_number: case %d: unexpected arguments" % code, ce)
        rest = [const_eval(unwrap(a), env)[0] for a in ck[3:]]
        if len(rest) == 2:
            base, rng = rest
        elif len(rest) == 1:
            base, rng = 0, rest[0]
        else:
            fail("mpt_convert_number: case %d: unexpected arguments" % code, ce)
        if rng != 0:
            fail("mpt_convert_number: case %d passes a range" % code, ce)
        out.append((code, callee, base))
        j += 2
    # the alias `if (fmt == 'l') fmt = mpt_type_int(sizeof(long));` in front of the switch
    alias = None
    for c in kids(body):
        if c.get("kind") == "IfStmt":
            cond = strip_parens(kids(c)[0])
            if cond.get("kind") == "BinaryOperator" and cond.get("opcode") == "==" and is_ref(kids(cond)[0], "fmt"):
                v, _ = const_eval(kids(cond)[1], env)
                if v == ord("l"):
                    calls = [n for n in walk(c) if n.get("kind") == "CallExpr" and mentions(n, "mpt_type_int")]
                    if len(calls) != 1:
                        fail("mpt_convert_number: 'l' alias is not mpt_type_int(sizeof(long))", c)
                    a, _ = const_eval(kids(calls[0])[1], env)
                    alias = (v, a)
    return out, alias


def extract_convtext(repo):
    env = enum_constants(repo, "mptcore/convert/convert_int.c")
    data = {"parsers": [parse_text_parser(repo, "mptcore/convert/convert_int.c", n, env) for n in ("_mpt_convert_int", "_mpt_convert_uint")]}
    for rel, n in (("mptcore/convert/cfloat.c", "mpt_cfloat"), ("mptcore/convert/cdouble.c", "mpt_cdouble"), ("mptcore/convert/cldouble.c", "mpt_cldouble")):
        data["parsers"].append(parse_text_parser(repo, rel, n, env))
    data["wrappers"] = [parse_wrapper(repo, n, env) for n in INT_WRAPPERS]
    env2 = enum_constants(repo, "mptcore/convert/convert_number.c")
    data["dispatch"], alias = parse_number_dispatch(repo, env2)
    ti = parse_type_int(repo, "mpt_type_int")
    data["alias"] = None if alias is None else (alias[0], ti.get(alias[1], 0))
    known = {w["name"] for w in data["wrappers"]} | {p["name"] for p in data["parsers"]}
    for code, callee, base in data["dispatch"]:
        if callee not in known:
            fail("mpt_convert_number: case %d calls %s, which is not translated" % (code, callee))
    return data


def emit_convtext(data):
    L = ["/- GENERATED by translate/cextract.py from mptcore/convert/convert_int.c, convert_number.c, cfloat.c, cdouble.c,",
         "   cldouble.c -- rewritten on every run, do not edit. Data only. -/",
         "import MptModel.Impl.ConvTable", "namespace Mpt.Generated.Text", "open Mpt Mpt.Conv", ""]
    def guards(gl):
        return "[" + ", ".join("{ conds := %s, err := .%s }" % (emit_text_atoms(g["conds"]), g["err"]) for g in gl) + "]"
    for p in data["parsers"]:
        L.append("def %s : TextParser :=" % p["name"].lstrip("_"))
        L.append('  { name := "%s", strto := "%s", tmpTy := .%s, errnoReset := %s, dflt := .%s,' % (
            p["name"], p["strto"], p["tmp"], "true" if p["errno_reset"] else "false", p["dflt"]))
        L.append("    guards := %s," % guards(p["guards"]))
        L.append("    widths := [")
        L.append(",\n".join("      { size := %d, guards := %s, store := .%s, guarded := %s }" % (
            w["size"], guards(w["guards"]), w["store"], "true" if w["guarded"] else "false") for w in p["widths"]))
        L.append("    ] }")
        L.append("")
    L.append("def parsers : List TextParser := [%s]" % ", ".join(p["name"].lstrip("_") for p in data["parsers"]))
    L.append("/-- the `mpt_c[u]intN` wrappers: (name, parser, sizeof of the value type) -/")
    L.append("def wrappers : List (String × String × Nat) := [%s]" % ", ".join('("%s", "%s", %d)' % (w["name"], w["parser"], w["size"]) for w in data["wrappers"]))
    L.append("/-- `mpt_convert_number`: target code -> (function called, base argument) -/")
    L.append("def numberDispatch : List (Nat × String × Nat) := [%s]" % ", ".join('(%d, "%s", %d)' % d for d in data["dispatch"]))
    L.append("def numberAlias : Option (Nat × Nat) := %s" % ("none" if data["alias"] is None else "some (%d, %d)" % data["alias"]))
    L += ["", "end Mpt.Generated.Text", ""]
    return "\n".join(L)


def generate_convtext(repo, lean_dir):
    text = emit_convtext(extract_convtext(repo))
    path = os.path.join(lean_dir, "MptModel", "Generated", "ConvText.lean")
    return path, write_if_changed(path, text)


# --------------------------------------------------------------------------------------- type registry (C06)

TYPES_C = "mptcore/types/type_traits.c"


def walk(n):
    yield n
    for c in n.get("inner", []):
        if isinstance(c, dict):
            yield from walk(c)


def var_decl(repo, relpath, name):
    found = [d for d in clang_ast(repo, relpath, name) if d.get("kind") == "VarDecl" and d.get("name") == name]
    if len(found) != 1:
        fail("expected exactly one variable %s in %s, found %d" % (name, relpath, len(found)))
    return found[0]


def unwrap(n):
    while n.get("kind") in ("ImplicitCastExpr", "CStyleCastExpr", "ParenExpr", "ConstantExpr"):
        (n,) = kids(n)
    return n


def ctype_name(tnode):
    toks = [t for t in tnode.get("qualType").replace("*", " * ").split() if t not in ("const", "volatile", "restrict")]
    return " ".join(toks).replace(" * *", " **").replace("* *", "**")


_SIZEOF_CACHE = {}
_SIZEOF_REPO = [None]
PROBE_HEADERS = ["core.h", "types.h", "array.h", "event.h", "object.h", "convert.h", "meta.h", "message.h"]


def clang_sizeof(repo, names):
    """sizeof of C type names as clang-14 computes it for the target: a probe unit that includes the library headers and
    defines one constant per type is compiled to LLVM IR and the constants are read back (nothing is run)"""
    names = list(dict.fromkeys(names))
    todo = [n for n in names if (repo, n) not in _SIZEOF_CACHE]
    if todo:
        src = ["#include <stdint.h>", "#include <stddef.h>", "#include <sys/uio.h>"]
        src += ['#include "%s"' % h for h in PROBE_HEADERS]
        for k, n in enumerate(todo):
            src.append("const unsigned long mptprobe_%d = sizeof(%s);" % (k, n))
        argv = ["clang-14", "-S", "-emit-llvm", "-w", "-std=gnu99", "-DMPT_BASE_VERIF", "-x", "c", "-", "-o", "-"] + includes(repo)
        r = subprocess.run(argv, input="\n".join(src).encode(), stdout=subprocess.PIPE, stderr=subprocess.PIPE)
        if r.returncode != 0:
            fail("clang-14 failed on the sizeof probe:\n%s" % r.stderr.decode(errors="replace")[:2000])
        found = dict((int(k), int(v)) for k, v in re.findall(r"@mptprobe_(\d+) = [^\n]*constant i64 (\d+)", r.stdout.decode()))
        for k, n in enumerate(todo):
            if k not in found:
                fail("sizeof probe: no constant for " + n)
            _SIZEOF_CACHE[(repo, n)] = found[k]
    return {n: _SIZEOF_CACHE[(repo, n)] for n in names}


def sizeof_any(tnode, node=None):
    """sizeof of the type of a sizeof expression in type_traits.c, from clang (see clang_sizeof)"""
    q = ctype_name(tnode)
    return clang_sizeof(_SIZEOF_REPO[0], [q])[q]


def parse_size_table(repo, name, env):
    """`{ sizeof(T), id }` initialisers -> [(id, C type name, width of the size field in bits)]"""
    vd = var_decl(repo, TYPES_C, name)
    (init,) = [c for c in kids(vd) if c.get("kind") == "InitListExpr"]
    rows = []
    for row in kids(init):
        if row.get("kind") != "InitListExpr" or len(kids(row)) != 2:
            fail("%s: row is not { size, type }" % name, row)
        sz, ty = kids(row)
        if sz.get("kind") != "ImplicitCastExpr" or sz.get("castKind") != "IntegralCast":
            fail("%s: size field without integral conversion" % name, sz)
        width = CTYPES[canon(sz["type"], sz)][1]
        e = unwrap(sz)
        if e.get("kind") != "UnaryExprOrTypeTraitExpr" or e.get("name") != "sizeof" or "argType" not in e:
            fail("%s: size is not sizeof(type)" % name, e)
        idv, _ = const_eval(ty, env)
        rows.append((idv, ctype_name(e["argType"]), width))
    ids = [r[0] for r in rows]
    if len(set(ids)) != len(ids):
        fail("%s: duplicate id" % name, vd)
    return rows


def parse_name_table(repo, name, env):
    vd = var_decl(repo, TYPES_C, name)
    (init,) = [c for c in kids(vd) if c.get("kind") == "InitListExpr"]
    rows = []
    for row in kids(init):
        if row.get("kind") != "InitListExpr" or len(kids(row)) != 2:
            fail("%s: row is not { name, type }" % name, row)
        nm, ty = kids(row)
        lit = unwrap(nm)
        if lit.get("kind") != "StringLiteral":
            fail("%s: name is not a string literal" % name, nm)
        text = json.loads(lit["value"])
        if not all(32 < ord(ch) < 127 for ch in text) or '"' in text or "\\" in text:
            fail("%s: unexpected characters in name %r" % (name, text), nm)
        idv, _ = const_eval(ty, env)
        rows.append((text, idv))
    return rows


def const_var(repo, name, env):
    vd = var_decl(repo, TYPES_C, name)
    inits = [c for c in kids(vd)]
    if len(inits) != 1:
        fail("%s: no initialiser" % name, vd)
    v, _ = const_eval(inits[0], env)
    return v


def chunk_size(repo, name):
    rec = [d for d in clang_ast(repo, TYPES_C, name) if d.get("kind") == "RecordDecl" and d.get("name") == name and d.get("completeDefinition")]
    if len(rec) != 1:
        fail("expected one definition of struct %s" % name)
    for f in kids(rec[0]):
        if f.get("kind") == "FieldDecl" and f.get("name") == "traits":
            q = f["type"]["qualType"]
            if q.endswith("]") and "[" in q:
                return int(q[q.rindex("[") + 1:-1])
    fail("struct %s has no array member `traits`" % name)


def refs_var(n, name):
    n = unwrap(n)
    return n.get("kind") == "DeclRefExpr" and n.get("referencedDecl", {}).get("name") == name


def memcpy_sizes(fn, src_name):
    """size arguments of `memcpy(.., &src_name, size)` calls in fn"""
    out = []
    for n in walk(fn):
        if n.get("kind") == "CallExpr":
            ks = kids(n)
            if ks and mentions(ks[0], "memcpy") and len(ks) == 4 and mentions(ks[2], src_name):
                e = unwrap(ks[3])
                if e.get("kind") != "UnaryExprOrTypeTraitExpr" or e.get("name") != "sizeof":
                    fail("memcpy size is not a sizeof expression", n)
                if "argType" in e:
                    out.append(sizeof_any(e["argType"], e))
                else:
                    (c,) = kids(e)
                    out.append(sizeof_any(strip_parens(c)["type"], e))
    return out


def comparisons(fn, var, env, consts):
    """[(op, value)] of every comparison `var <op> constant` in fn"""
    out = []
    for n in walk(fn):
        if n.get("kind") == "BinaryOperator" and n.get("opcode") in CMP_NAMES:
            a, b = kids(n)
            op = n["opcode"]
            if refs_var(b, var) and not mentions(a, var):
                a, b, op = b, a, CMP_FLIP[op]        # `K <op> var`
            if refs_var(a, var) and not mentions(b, var):
                try:
                    v = eval_with_consts(b, env, consts)
                except TranslateError:
                    continue
                out.append((op, v))
    return out


def eval_with_consts(n, env, consts):
    """const_eval that also knows the file's `static const int` variables"""
    u = unwrap(n)
    if u.get("kind") == "DeclRefExpr" and u.get("referencedDecl", {}).get("name") in consts:
        return consts[u["referencedDecl"]["name"]]
    if u.get("kind") == "BinaryOperator" and u.get("opcode") in ("+", "-"):
        a, b = kids(u)
        va, vb = eval_with_consts(a, env, consts), eval_with_consts(b, env, consts)
        return va + vb if u["opcode"] == "+" else va - vb
    v, _ = const_eval(n, env)
    return v


def assigned_consts(fn, var, env, consts):
    """values of `var = constant` assignments and initialisers in fn"""
    out = []
    for n in walk(fn):
        if n.get("kind") == "BinaryOperator" and n.get("opcode") == "=":
            a, b = kids(n)
            if refs_var(a, var):
                try:
                    out.append(eval_with_consts(b, env, consts))
                except TranslateError:
                    pass
        if n.get("kind") == "VarDecl" and n.get("name") == var and kids(n):
            try:
                out.append(eval_with_consts(kids(n)[0], env, consts))
            except TranslateError:
                pass
    return out


def limit_of(cmps, strict_op, loose_op, delta, what):
    """a limit test written either as `x <strict_op> K` or `x <loose_op> K`: the K of the strict form
    (delta = what to add to the K of the loose form)"""
    vals = [v for op, v in cmps if op == strict_op] + [v + delta for op, v in cmps if op == loose_op]
    return one(vals, what)


def one(values, what):
    vs = sorted(set(values))
    if len(vs) != 1:
        fail("%s: expected exactly one value, found %r" % (what, vs))
    return vs[0]


def range_of_cond(cond, env):
    """`!type`, `type < K`, `type >= A && type <[=] B` -> inclusive (lo, hi)"""
    c = strip_parens(cond)
    if c.get("kind") == "UnaryOperator" and c.get("opcode") == "!" and is_ref(kids(c)[0], "type"):
        return (0, 0)
    if c.get("kind") == "BinaryOperator" and c.get("opcode") in ("<", "<=") and refs_var(kids(c)[0], "type"):
        v, _ = const_eval(kids(c)[1], env)
        return (0, v - 1 if c["opcode"] == "<" else v)
    if c.get("kind") == "BinaryOperator" and c.get("opcode") == "&&":
        a, b = [strip_parens(x) for x in kids(c)]
        if a.get("kind") == "BinaryOperator" and a.get("opcode") == ">=" and refs_var(kids(a)[0], "type") and \
                b.get("kind") == "BinaryOperator" and b.get("opcode") in ("<", "<=") and refs_var(kids(b)[0], "type"):
            lo, _ = const_eval(kids(a)[1], env)
            hi, _ = const_eval(kids(b)[1], env)
            return (lo, hi - 1 if b["opcode"] == "<" else hi)
    fail("unsupported range test in mpt_type_traits", cond)


KIND_BY_REF = [("core_types", "core"), ("scalar_types", "scalar"), ("iovec_types", "vector"),
               ("mpt_interface_traits", "interface"), ("dynamic_types", "dynamic"), ("mpt_metatype_traits", "meta")]


STATIC_CALLS = {}


def parse_traits_dispatch(repo, env):
    """mpt_type_traits: the ordered range tests and what each selects"""
    fn = function_def(repo, TYPES_C, "mpt_type_traits")
    (body,) = [c for c in kids(fn) if c.get("kind") == "CompoundStmt"]
    out, statics, generic_base = [], [], None
    for st in kids(body):
        k = st.get("kind")
        if k == "DeclStmt":
            continue
        if k == "IfStmt":
            cond, then = kids(st)[0], kids(st)[1]
            if len(kids(st)) != 2:
                fail("mpt_type_traits: if with else", st)
            lo, hi = range_of_cond(cond, env)
            if (lo, hi) == (0, 0):
                out.append(("null", 0, 0))
                continue
            kinds = [kind for ref, kind in KIND_BY_REF if mentions(then, ref)]
            if len(kinds) != 1:
                fail("mpt_type_traits: cannot tell what the range [%d,%d] selects" % (lo, hi), st)
            out.append((kinds[0], lo, hi))
        elif k == "SwitchStmt":
            sk = kids(st)
            if not is_ref(sk[0], "type"):
                fail("mpt_type_traits: switch on something else", st)
            pending = []
            for it in flatten_switch(sk[1]):
                if it[0] == "case":
                    v, _ = const_eval(it[1], env)
                    statics.append(v)
                    pending.append(v)
                elif it[0] == "stmt" and pending:
                    calls = [unwrap(kids(n)[0]).get("referencedDecl", {}).get("name") for n in walk(it[1]) if n.get("kind") == "CallExpr"]
                    if it[1].get("kind") != "ReturnStmt" or len(calls) != 1:
                        fail("mpt_type_traits: static case does not return one traits call", it[1])
                    for v in pending:
                        STATIC_CALLS[v] = calls[0]
                    pending = []
            out.append(("static", min(statics), max(statics)))
        elif k == "CompoundAssignOperator" and st.get("opcode") == "-=" and refs_var(kids(st)[0], "type"):
            generic_base, _ = const_eval(kids(st)[1], env)
        elif k in ("BinaryOperator", "WhileStmt", "ReturnStmt"):
            continue      # the generic chunk walk after `type -= _TypeValueAdd`
        else:
            fail("mpt_type_traits: statement outside the grammar", st)
    if generic_base is None:
        fail("mpt_type_traits: generic base not found")
    return out, sorted(statics), generic_base


STATIC_TRAITS_FILES = {"mpt_identifier_traits": "mptcore/misc/identifier.c", "mpt_array_traits": "mptcore/array/array_traits.c",
                       "mpt_meta_reference_traits": "mptcore/meta/meta_reference_traits.c",
                       "mpt_command_traits": "mptcore/event/command_traits.c"}


def parse_static_traits(repo, fname):
    """`static const struct type_traits traits = { init, fini, sizeof(T) }; return &traits;` ->
    (C type name, init set, fini set)"""
    if fname not in STATIC_TRAITS_FILES:
        fail("mpt_type_traits: unknown traits function " + fname)
    fn = function_def(repo, STATIC_TRAITS_FILES[fname], fname)
    vds = [n for n in walk(fn) if n.get("kind") == "VarDecl" and "type_traits" in n.get("type", {}).get("qualType", "")]
    if len(vds) != 1 or vds[0].get("storageClass") != "static":
        fail("%s: expected one static traits record" % fname, fn)
    inits = [c for c in kids(vds[0]) if c.get("kind") == "InitListExpr"]
    if len(inits) != 1 or len(kids(inits[0])) != 3:
        fail("%s: traits record is not { init, fini, size }" % fname, vds[0])
    a, b, c = kids(inits[0])
    rets = [n for n in walk(fn) if n.get("kind") == "ReturnStmt"]
    if len(rets) != 1 or not mentions(rets[0], vds[0].get("name")):
        fail("%s: does not return its traits record" % fname, fn)

    def is_set(e):
        e = unwrap(e)
        if e.get("kind") == "DeclRefExpr" and e.get("referencedDecl", {}).get("kind") == "FunctionDecl":
            return True
        if e.get("kind") == "IntegerLiteral" and e.get("value") == "0":
            return False
        fail("%s: init/fini is neither a function nor 0" % fname, e)
    e = unwrap(c)
    if e.get("kind") != "UnaryExprOrTypeTraitExpr" or e.get("name") != "sizeof" or "argType" not in e:
        fail("%s: size is not sizeof(type)" % fname, e)
    return ctype_name(e["argType"]), is_set(a), is_set(b)


def extract_types(repo):
    _SIZEOF_REPO[0] = repo
    env = enum_constants(repo, TYPES_C)
    consts = {"TypeInterfaceSize": const_var(repo, "TypeInterfaceSize", env),
              "TypeDynamicSize": const_var(repo, "TypeDynamicSize", env)}
    data = {"env": {k: v for k, v in env.items() if k.startswith("MPT_Type") or k.startswith("MPT__Type")}}
    data["core_sizes"] = parse_size_table(repo, "core_sizes", env)
    data["scalar_sizes"] = parse_size_table(repo, "scalar_sizes", env)
    data["core_interfaces"] = parse_name_table(repo, "core_interfaces", env)
    data["consts"] = consts
    data["meta_chunk"] = chunk_size(repo, "named_traits_chunk")
    data["generic_chunk"] = chunk_size(repo, "generic_traits_chunk")
    # pointer_traits = { 0, 0, sizeof(void *) }
    pt = var_decl(repo, TYPES_C, "pointer_traits")
    (init,) = [c for c in kids(pt) if c.get("kind") == "InitListExpr"]
    vals = []
    for c in kids(init):
        e = unwrap(c)
        if e.get("kind") == "UnaryExprOrTypeTraitExpr":
            vals.append(sizeof_any(e["argType"], e))
        else:
            v, _ = const_eval(e, env)
            vals.append(v)
    if len(vals) != 3 or vals[0] != 0 or vals[1] != 0:
        fail("pointer_traits is not { 0, 0, size }", pt)
    data["pointer_size"] = vals[2]
    data["traits_record"] = sizeof_any({"qualType": "struct mpt_type_traits"})
    # how much of pointer_traits each constructor copies into a new named entry
    copies = {}
    for fname in ("_interfaces_init", "_meta_init", "mpt_type_metatype_add", "mpt_type_interface_add"):
        fn = function_def(repo, TYPES_C, fname)
        copies[fname] = one(memcpy_sizes(fn, "pointer_traits"), fname + ": memcpy of pointer_traits")
    data["copies"] = copies
    fn = function_def(repo, TYPES_C, "_interfaces_init")
    data["interface_start"] = one(assigned_consts(fn, "interface_pos", env, consts), "_interfaces_init: interface_pos")
    fn = function_def(repo, TYPES_C, "_meta_init")
    types = [eval_with_consts(kids(n)[1], env, consts) for n in walk(fn)
             if n.get("kind") == "BinaryOperator" and n.get("opcode") == "=" and
             any(x.get("kind") == "MemberExpr" and x.get("name") == "type" for x in walk(kids(n)[0]))]
    data["meta_builtin_id"] = one(types, "_meta_init: type of the built-in entry")
    names = [json.loads(unwrap(kids(n)[1])["value"]) for n in walk(fn)
             if n.get("kind") == "BinaryOperator" and n.get("opcode") == "=" and
             any(x.get("kind") == "MemberExpr" and x.get("name") == "name" for x in walk(kids(n)[0])) and
             unwrap(kids(n)[1]).get("kind") == "StringLiteral"]
    data["meta_builtin_name"] = one(names, "_meta_init: name of the built-in entry")
    # add functions
    def loop_and_final(fname):
        """the `pos > max` tests of a chunk walk: (inside the while loop, after it), each a limit or None"""
        f = function_def(repo, TYPES_C, fname)
        (b,) = [c for c in kids(f) if c.get("kind") == "CompoundStmt"]
        sts = kids(b)
        wh = [i for i, x in enumerate(sts) if x.get("kind") == "WhileStmt" and
              any(m.get("kind") == "MemberExpr" and m.get("name") == "used" for m in walk(kids(x)[0]))]
        if len(wh) != 1:
            fail("%s: expected exactly one chunk walk `while (..->used == ..)`" % fname, b)
        inside = comparisons(sts[wh[0]], "pos", env, consts)
        after = []
        for x in sts[wh[0] + 1:]:
            after += comparisons(x, "pos", env, consts)
        def lim(cmps, what):
            vals = [v for op, v in cmps if op == ">"] + [v - 1 for op, v in cmps if op == ">="]
            if not vals:
                return None
            return one(vals, what)
        return lim(inside, fname + ": limit inside the chunk walk"), lim(after, fname + ": limit after the chunk walk")
    data["generic_loop_max"], data["generic_final_max"] = loop_and_final("mpt_type_add")
    data["meta_loop_max"], data["meta_final_max"] = loop_and_final("mpt_type_metatype_add")
    # the cross-table duplicate test of the named add functions: mpt_named_traits(name, <len>)
    dup = {}
    for fname in ("mpt_type_metatype_add", "mpt_type_interface_add"):
        f = function_def(repo, TYPES_C, fname)
        calls = [n for n in walk(f) if n.get("kind") == "CallExpr" and mentions(kids(n)[0], "mpt_named_traits")]
        if len(calls) > 1:
            fail("%s: more than one call of mpt_named_traits" % fname, f)
        if not calls:
            dup[fname] = "none"
            continue
        a1, a2 = kids(calls[0])[1], kids(calls[0])[2]
        if not is_ref(a1, "name"):
            fail("%s: mpt_named_traits is not called with `name`" % fname, calls[0])
        if mentions(a2, "nlen") and refs_var(a2, "nlen"):
            dup[fname] = "nlen"        # strlen(name) + 1 at that point (`nlen++ < K` precedes)
        else:
            v, _ = const_eval(a2, env)
            if v != -1:
                fail("%s: unexpected length argument %d of mpt_named_traits" % (fname, v), calls[0])
            dup[fname] = "full"
    data["dup_lookup"] = dup
    # mpt_named_traits: the match tests of the length-limited and of the whole-string branch
    f = function_def(repo, TYPES_C, "mpt_named_traits")
    (b,) = [c for c in kids(f) if c.get("kind") == "CompoundStmt"]
    lenbr = [x for x in kids(b) if x.get("kind") == "IfStmt" and strip_parens(kids(x)[0]).get("kind") == "BinaryOperator"
             and strip_parens(kids(x)[0]).get("opcode") == ">=" and refs_var(kids(strip_parens(kids(x)[0]))[0], "len")]
    if len(lenbr) != 1:
        fail("mpt_named_traits: `if (len >= 0)` branch not found", b)
    def match_tests(region):
        out = []
        for n in walk(region):
            if n.get("kind") == "IfStmt" and len(kids(n)) == 2:
                then = single_stmt(kids(n)[1])
                if then.get("kind") == "ReturnStmt" and kids(then) and mentions(then, "elem"):
                    out.append(kids(n)[0])
        return out
    lt = match_tests(kids(lenbr[0])[1])
    if len(lt) != 2 or not all(mentions(c, "strncmp") for c in lt):
        fail("mpt_named_traits: expected two strncmp matches in the length-limited branch", lenbr[0])
    data["len_exact"] = [mentions(c, "strlen") for c in lt]
    rest = [x for x in kids(b)[kids(b).index(lenbr[0]) + 1:]]
    ft = []
    for x in rest:
        ft += match_tests(x)
    if len(ft) != 2 or not all(mentions(c, "strcmp") for c in ft):
        fail("mpt_named_traits: expected two strcmp matches in the whole-string branch", b)
    fn = function_def(repo, TYPES_C, "mpt_type_add")
    data["generic_base"] = one(assigned_consts(fn, "pos", env, consts), "mpt_type_add: pos")
    data["generic_max"] = limit_of(comparisons(fn, "pos", env, consts), ">", ">=", -1, "mpt_type_add: pos > max")
    fn = function_def(repo, TYPES_C, "mpt_type_metatype_add")
    data["meta_base"] = one(assigned_consts(fn, "pos", env, consts), "mpt_type_metatype_add: pos")
    data["meta_max"] = limit_of(comparisons(fn, "pos", env, consts), ">", ">=", -1, "mpt_type_metatype_add: pos > max")
    minlen = []
    for fname in ("mpt_type_metatype_add", "mpt_type_interface_add"):
        f2 = function_def(repo, TYPES_C, fname)
        for n in walk(f2):
            if n.get("kind") == "BinaryOperator" and n.get("opcode") == "<":
                a, b = kids(n)
                ua = unwrap(a)
                if ua.get("kind") == "UnaryOperator" and ua.get("opcode") == "++" and ua.get("isPostfix") and mentions(ua, "nlen"):
                    v, _ = const_eval(b, env)
                    minlen.append((fname, v))
    if sorted(f for f, _ in minlen) != ["mpt_type_interface_add", "mpt_type_metatype_add"]:
        fail("name length test `nlen++ < K` not found in both add functions")
    data["min_name"] = dict(minlen)
    fn = function_def(repo, TYPES_C, "mpt_type_interface_add")
    data["interface_cap"] = limit_of(comparisons(fn, "interface_pos", env, consts), ">=", ">", 1, "mpt_type_interface_add: capacity")
    adds = [eval_with_consts(kids(unwrap_plus)[0], env, consts) for unwrap_plus in
            [unwrap(n) for n in walk(fn) if n.get("kind") == "BinaryOperator" and n.get("opcode") == "+" and mentions(n, "interface_pos")]
            if refs_var(kids(unwrap_plus)[1], "interface_pos")]
    data["interface_base"] = one(adds, "mpt_type_interface_add: base + interface_pos")
    fn = function_def(repo, TYPES_C, "mpt_type_basic_add")
    data["dynamic_cap"] = limit_of(comparisons(fn, "dynamic_pos", env, consts), "<", "<=", 1, "mpt_type_basic_add: capacity")
    adds = []
    for n in walk(fn):
        if n.get("kind") == "BinaryOperator" and n.get("opcode") == "+" and mentions(n, "dynamic_pos"):
            a, b = kids(n)
            if mentions(b, "dynamic_pos") and not mentions(a, "dynamic_pos"):
                adds.append(eval_with_consts(a, env, consts))
    data["dynamic_base"] = one(adds, "mpt_type_basic_add: base + dynamic_pos")
    data["dispatch"], data["statics"], data["dispatch_generic_base"] = parse_traits_dispatch(repo, env)
    # named lookups: range tests of mpt_interface_traits / mpt_metatype_traits
    for fname, key in (("mpt_interface_traits", "interface_lookup"), ("mpt_metatype_traits", "meta_lookup")):
        fn = function_def(repo, TYPES_C, fname)
        cmps = comparisons(fn, "type", env, consts)
        hi = one([v for op, v in cmps if op == ">"], fname + ": upper limit")
        lo = one([v for op, v in cmps if op == "<"], fname + ": lower limit")
        data[key] = (lo, hi)
    data["type_int"] = parse_type_int(repo, "mpt_type_int")
    data["type_uint"] = parse_type_int(repo, "mpt_type_uint")
    # _iovec_init: `for (..scalar_sizes..) iovec_types[scalar_sizes[i].type - base].size = sizeof(T);` plus single entries
    fn = function_def(repo, TYPES_C, "_iovec_init")
    (body,) = [c for c in kids(fn) if c.get("kind") == "CompoundStmt"]
    loop_ct, extra = None, []

    def size_assign(n):
        """`*((size_t *) &iovec_types[IDX].size) = sizeof(T)` -> (IDX expression, C type name) or None"""
        if n.get("kind") != "BinaryOperator" or n.get("opcode") != "=" or not mentions(kids(n)[0], "iovec_types"):
            return None
        subs = [x for x in walk(kids(n)[0]) if x.get("kind") == "ArraySubscriptExpr"]
        mem = [x for x in walk(kids(n)[0]) if x.get("kind") == "MemberExpr" and x.get("name") == "size"]
        e = unwrap(kids(n)[1])
        if len(subs) != 1 or len(mem) != 1 or e.get("kind") != "UnaryExprOrTypeTraitExpr" or "argType" not in e:
            fail("_iovec_init: unsupported assignment", n)
        return kids(subs[0])[1], ctype_name(e["argType"])
    for st in kids(body):
        k = st.get("kind")
        if k == "ForStmt":
            if not mentions(st, "scalar_sizes") or loop_ct is not None:
                fail("_iovec_init: unexpected loop", st)
            assigns = [size_assign(x) for x in walk(st) if x.get("kind") == "BinaryOperator" and x.get("opcode") == "=" and mentions(kids(x)[0], "iovec_types")]
            if len(assigns) != 1 or not mentions(st, "MPT__TypeScalarBase"):
                fail("_iovec_init: unexpected loop body", st)
            loop_ct = assigns[0][1]
        elif k == "BinaryOperator" and st.get("opcode") == "=" and refs_var(kids(st)[0], "iovec_types"):
            continue          # the calloc
        elif k == "BinaryOperator":
            sa = size_assign(st)
            if sa is None:
                fail("_iovec_init: statement outside the grammar", st)
            idx, _ = const_eval(sa[0], env)
            extra.append((idx, sa[1]))
        elif k in ("DeclStmt", "CallExpr"):
            continue
        else:
            fail("_iovec_init: statement outside the grammar", st)
    if loop_ct is None:
        fail("_iovec_init: loop over scalar_sizes not found")
    # message/msgvalfmt.c: the wire format codes of the scalar types
    menv = enum_constants(repo, "mptcore/message/msgvalfmt.c", "MPT_MesgVal")
    data["msg_env"] = {k: v for k, v in menv.items() if k.startswith("MPT_MesgVal")}
    data["msg_codes"] = parse_return_switch(repo, "mptcore/message/msgvalfmt.c", "mpt_msgvalfmt_code", "type", menv, -1)
    data["vector_ctype"] = loop_ct
    data["vector_extra"] = extra
    # the static managed types: the traits record of the function each case returns
    data["static_traits"] = []
    for v in data["statics"]:
        if v not in STATIC_CALLS:
            fail("mpt_type_traits: no traits function for static id %d" % v)
        ct, i, f = parse_static_traits(repo, STATIC_CALLS[v])
        data["static_traits"].append((v, STATIC_CALLS[v], ct, i, f))
    # sizeof of every C type the tables name, from clang
    names = [r[1] for r in data["core_sizes"]] + [r[1] for r in data["scalar_sizes"]] + [loop_ct] + [x[1] for x in extra]
    names += [x[2] for x in data["static_traits"]] + ["void *", "struct mpt_type_traits", "struct iovec"]
    data["sizeof"] = sorted(clang_sizeof(repo, names).items())
    # consistency of the interface table with its slot index (slot i holds id base + i)
    for i, (nm, idv) in enumerate(data["core_interfaces"]):
        if idv != data["interface_base"] + i:
            fail("core_interfaces[%d] (%s) has id %d, its slot is %d" % (i, nm, idv, data["interface_base"] + i))
    return data


def byte_list(s):
    """a C string literal as a Lean list of byte values"""
    return "[" + ", ".join(str(b) for b in s.encode("latin-1")) + "]"


def emit_typeids(data):
    L = ["/- GENERATED by translate/cextract.py from mptcore/types.h (enum MPT_Types) -- rewritten on every run. Data only. -/",
         "namespace Mpt.Generated.TypeId", ""]
    for k in sorted(data["env"], key=lambda k: (data["env"][k], k)):
        nm = k[len("MPT_"):]            # `MPT__TypeScalarBase` -> `_TypeScalarBase`, `MPT_TypeValue` -> `TypeValue`
        L.append("def %s : Nat := %d" % (nm, data["env"][k]))
    L.append("")
    L.append("/-- every enumerator of `enum MPT_Types` -/")
    L.append("def all : List (String × Nat) := [%s]" % ", ".join(
        '("%s", %d)' % (k[len("MPT_"):], data["env"][k]) for k in sorted(data["env"], key=lambda k: (data["env"][k], k))))
    L += ["", "end Mpt.Generated.TypeId", ""]
    return "\n".join(L)


def emit_typetables(data):
    L = ["/- GENERATED by translate/cextract.py from mptcore/types/type_traits.c -- rewritten on every run. Data only. -/",
         "namespace Mpt.Generated.TypeTab", ""]
    L.append("/-- `core_sizes`, `scalar_sizes`: (type id, C type whose sizeof is stored, width in bits of the size field) -/")
    for key in ("core_sizes", "scalar_sizes"):
        L.append("def %s : List (Nat × String × Nat) := [%s]" % (
            key.replace("_s", "S"), ", ".join('(%d, "%s", %d)' % r for r in data[key])))
    L.append("/-- `_iovec_init`: every scalar of `scalar_sizes` gets a vector entry of sizeof(vectorCType); further single entries (index, C type) -/")
    L.append('def vectorCType : String := "%s"' % data["vector_ctype"])
    L.append("def vectorExtra : List (Nat × String) := [%s]" % ", ".join('(%d, "%s")' % x for x in data["vector_extra"]))
    L.append("/-- `core_interfaces`: (name as bytes, id); slot i holds id `interfaceBase + i` (checked by the translator) -/")
    L.append("def coreInterfaces : List (List Nat × Nat) := [%s]" % ", ".join(
        "(%s, %d) /- %s -/" % (byte_list(r[0]), r[1], r[0]) for r in data["core_interfaces"]))
    L.append("def interfaceCap : Nat := %d      -- `interface_pos >= TypeInterfaceSize`" % data["interface_cap"])
    L.append("def interfaceBase : Nat := %d     -- id = base + interface_pos" % data["interface_base"])
    L.append("def interfaceStart : Nat := %d    -- interface_pos after `_interfaces_init`" % data["interface_start"])
    L.append("def dynamicCap : Nat := %d" % data["dynamic_cap"])
    L.append("def dynamicBase : Nat := %d" % data["dynamic_base"])
    L.append("def metaBase : Nat := %d" % data["meta_base"])
    L.append("def metaMax : Nat := %d" % data["meta_max"])
    L.append("def metaChunk : Nat := %d" % data["meta_chunk"])
    L.append("def metaBuiltin : List Nat × Nat := (%s, %d) /- %s -/" % (byte_list(data["meta_builtin_name"]), data["meta_builtin_id"], data["meta_builtin_name"]))
    L.append("def genericBase : Nat := %d" % data["generic_base"])
    L.append("def genericMax : Nat := %d" % data["generic_max"])
    L.append("def genericChunk : Nat := %d" % data["generic_chunk"])
    def opt(v):
        return "none" if v is None else "some %d" % v
    L.append("/-- the `pos > limit` tests of the chunk walks: inside the `while` loop, after it -/")
    L.append("def genericLoopMax : Option Nat := %s" % opt(data["generic_loop_max"]))
    L.append("def genericFinalMax : Option Nat := %s" % opt(data["generic_final_max"]))
    L.append("def metaLoopMax : Option Nat := %s" % opt(data["meta_loop_max"]))
    L.append("def metaFinalMax : Option Nat := %s" % opt(data["meta_final_max"]))
    L.append("/-- length argument of the `mpt_named_traits(name, len)` duplicate test of the add functions:")
    L.append("    \"full\" = -1 (whole string, short names resolved), \"nlen\" = strlen(name) + 1, \"none\" = no such test -/")
    L.append('def dupLookupIface : String := "%s"' % data["dup_lookup"]["mpt_type_interface_add"])
    L.append('def dupLookupMeta : String := "%s"' % data["dup_lookup"]["mpt_type_metatype_add"])
    L.append("/-- length-limited branch of `mpt_named_traits`: does the match test compare `len` with strlen of the entry name?")
    L.append("    (metatype loop, interface loop) -/")
    L.append("def lenExactMeta : Bool := %s" % ("true" if data["len_exact"][0] else "false"))
    L.append("def lenExactIface : Bool := %s" % ("true" if data["len_exact"][1] else "false"))
    L.append("def minNameLenIface : Nat := %d   -- `nlen++ < K` of mpt_type_interface_add" % data["min_name"]["mpt_type_interface_add"])
    L.append("def minNameLenMeta : Nat := %d    -- `nlen++ < K` of mpt_type_metatype_add" % data["min_name"]["mpt_type_metatype_add"])
    L.append("def pointerSize : Nat := %d       -- pointer_traits.size" % data["pointer_size"])
    L.append("def traitsRecord : Nat := %d      -- sizeof(struct type_traits)" % data["traits_record"])
    L.append("/-- bytes of `pointer_traits` copied into a new named entry, per constructor -/")
    L.append("def copies : List (String × Nat) := [%s]" % ", ".join('("%s", %d)' % kv for kv in sorted(data["copies"].items())))
    L.append("/-- `mpt_type_traits`: range tests in program order (kind, lo, hi inclusive) -/")
    L.append("def dispatch : List (String × Nat × Nat) := [%s]" % ", ".join('("%s", %d, %d)' % r for r in data["dispatch"]))
    L.append("def statics : List Nat := [%s]" % ", ".join(str(v) for v in data["statics"]))
    L.append("/-- the traits record of the function `mpt_type_traits` returns for a static id: (id, function, C type of the size, init set, fini set) -/")
    L.append("def staticTraits : List (Nat × String × String × Bool × Bool) := [%s]" % ", ".join(
        '(%d, "%s", "%s", %s, %s)' % (v, fnm, ct, "true" if i else "false", "true" if f else "false") for v, fnm, ct, i, f in data["static_traits"]))
    L.append("/-- `sizeof` of the C types named in this file, as clang-14 computes it for the target (probe unit compiled to LLVM IR) -/")
    L.append("def sizeofC : List (String × Nat) := [%s]" % ", ".join('("%s", %d)' % kv for kv in data["sizeof"]))
    L.append("def dispatchGenericBase : Nat := %d" % data["dispatch_generic_base"])
    L.append("def interfaceLookup : Nat × Nat := (%d, %d)" % data["interface_lookup"])
    L.append("def metaLookup : Nat × Nat := (%d, %d)" % data["meta_lookup"])
    L.append("def typeInt : List (Nat × Nat) := [%s]" % ", ".join("(%d, %d)" % kv for kv in sorted(data["type_int"].items())))
    L.append("def typeUint : List (Nat × Nat) := [%s]" % ", ".join("(%d, %d)" % kv for kv in sorted(data["type_uint"].items())))
    L.append("/-- `mpt_msgvalfmt_code`: scalar type id -> wire format code; `enum MPT_MesgVal*` of message.h -/")
    L.append("def msgCodes : List (Nat × Nat) := [%s]" % ", ".join("(%d, %d)" % kv for kv in sorted(data["msg_codes"].items())))
    for k in sorted(data["msg_env"], key=lambda k: (data["msg_env"][k], k)):
        L.append("def %s : Nat := %d" % (k[len("MPT_"):], data["msg_env"][k]))
    L += ["", "end Mpt.Generated.TypeTab", ""]
    return "\n".join(L)


def generate_types(repo, lean_dir):
    data = extract_types(repo)
    p1 = os.path.join(lean_dir, "MptModel", "Generated", "TypeIds.lean")
    p2 = os.path.join(lean_dir, "MptModel", "Generated", "TypeTables.lean")
    c1 = write_if_changed(p1, emit_typeids(data))
    c2 = write_if_changed(p2, emit_typetables(data))
    return (p1, p2), c1 or c2


# --------------------------------------------------------------------------------------- Lean emission

def lean_int(v):
    a = abs(v)
    if a >= 1 << 70:
        k = (a & -a).bit_length() - 1          # large constants (FLT_MAX ..) as m * 2^k
        txt = "%d * 2 ^ %d" % (a >> k, k)
        return "(%s)" % txt if v >= 0 else "(-(%s))" % txt
    return str(v) if v >= 0 else "(%d)" % v


def emit_convint(data):
    L = []
    L.append("/- GENERATED by translate/cextract.py from mptcore/convert/data_convert_int.c, data_convert_float.c,")
    L.append("   data_converter.c and types/type_int.c -- rewritten on every run, do not edit. Data only. -/")
    L.append("import MptModel.Impl.ConvTable")
    L.append("namespace Mpt.Generated")
    L.append("open Mpt Mpt.Conv")
    L.append("")
    for f in data["functions"]:
        L.append("def %s : Fn :=" % f["name"])
        L.append("  { name := \"%s\", src := .%s," % (f["name"], f["src"]))
        L.append("    alias := %s," % ("none" if f["alias"] is None else "some (%d, %d)" % f["alias"]))
        L.append("    dflt := .%s," % f["dflt"])
        L.append("    vectors := [%s]," % ", ".join(str(v) for v in f["vectors"]))
        L.append("    cases := [")
        rows = []
        def fmt_guards(gl):
            gs = []
            for g in gl:
                disj = []
                for conj in g["conds"]:
                    atoms = []
                    for a in conj:
                        if a["kind"] == "cmp":
                            atoms.append(".cmp .%s .%s %s" % (a["op"], a["cty"], lean_int(a["k"])))
                        else:
                            atoms.append(".notIsgraph .%s" % a["idx"])
                    disj.append("[" + ", ".join(atoms) + "]")
                gs.append("{ conds := [%s], err := .%s }" % (", ".join(disj), g["err"]))
            return ", ".join(gs)
        for c in f["cases"]:
            rows.append("      { code := %d, guards := [%s], destGuards := [%s], store := .%s, guarded := %s, ret := %d }" % (
                c["code"], fmt_guards(c["guards"]), fmt_guards(c["dest_guards"]), c["store"], "true" if c["guarded"] else "false", c["ret"]))
        L.append(",\n".join(rows))
        L.append("    ] }")
        L.append("")
    L.append("/-- every translated converter -/")
    L.append("def converters : List Fn := [%s]" % ", ".join(f["name"] for f in data["functions"]))
    L.append("")
    L.append("/-- `mpt_data_converter`: scalar source type code -> converter -/")
    L.append("def dispatch : List (Nat × Fn) := [%s]" % ", ".join("(%d, %s)" % d for d in data["dispatch"]))
    L.append("")
    L.append("/-- `mpt_type_int` / `mpt_type_uint`: byte size -> type code -/")
    L.append("def typeInt : List (Nat × Nat) := [%s]" % ", ".join("(%d, %d)" % kv for kv in sorted(data["type_int"].items())))
    L.append("def typeUint : List (Nat × Nat) := [%s]" % ", ".join("(%d, %d)" % kv for kv in sorted(data["type_uint"].items())))
    L.append("")
    L.append("/-- `mpt_value_argv`: type code -> (type stored, type fetched with va_arg, size reported) -/")
    L.append("def argvTable : List (Nat × CTy × CTy × Nat) := [%s]" % ", ".join("(%d, .%s, .%s, %d)" % r for r in data["argv"]))
    L.append("/-- `mpt_fpoint_set`: target code of each `mpt_iterator_consume` call, and whether it stores straight into the float member -/")
    L.append("def fpointConsume : List (Nat × Bool) := [%s]" % ", ".join("(%d, %s)" % (c, "true" if d else "false") for c, d in data["fpoint"]))
    L.append("")
    L.append("end Mpt.Generated")
    return "\n".join(L) + "\n"


def write_if_changed(path, text):
    os.makedirs(os.path.dirname(path), exist_ok=True)
    old = open(path).read() if os.path.exists(path) else None
    if old != text:
        tmp = path + ".tmp%d" % os.getpid()
        with open(tmp, "w") as f:
            f.write(text)
        os.replace(tmp, path)
        return True
    return False


def generate_convint(repo, lean_dir):
    """regenerate Generated/ConvInt.lean; returns (path, changed)"""
    text = emit_convint(extract_convint(repo))
    path = os.path.join(lean_dir, "MptModel", "Generated", "ConvInt.lean")
    return path, write_if_changed(path, text)


def main(argv):
    repo = os.environ.get("VERIF_REPO", "/repo")
    here = os.path.dirname(os.path.dirname(os.path.abspath(__file__)))
    what = argv[1] if len(argv) > 1 else "convint"
    try:
        if what == "convint":
            data = extract_convint(repo)
            if "--json" in argv:
                print(json.dumps(data, indent=1))
            elif "--write" in argv:
                print(generate_convint(repo, os.path.join(here, "lean")))
            else:
                sys.stdout.write(emit_convint(data))
        elif what == "convtext":
            data = extract_convtext(repo)
            if "--json" in argv:
                print(json.dumps(data, indent=1))
            elif "--write" in argv:
                print(generate_convtext(repo, os.path.join(here, "lean")))
            else:
                sys.stdout.write(emit_convtext(data))
        elif what == "types":
            data = extract_types(repo)
            if "--json" in argv:
                print(json.dumps(data, indent=1))
            elif "--write" in argv:
                print(generate_types(repo, os.path.join(here, "lean")))
            else:
                sys.stdout.write(emit_typeids(data))
                sys.stdout.write(emit_typetables(data))
        else:
            print("usage: cextract.py convint|types [--json|--write]")
            return 2
    except TranslateError as e:
        print("TRANSLATE-ERROR: %s" % e, file=sys.stderr)
        return 1
    return 0


if __name__ == "__main__":
    sys.exit(main(sys.argv))
