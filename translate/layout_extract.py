#!/usr/bin/env python3
"""layout_extract -- regenerate lean/MptModel/Generated/LayoutTables.lean (C20) from the C sources

  mptplot/layout.h                      struct members of axis/line/text/graph/world/color/lineattr,
                                        MPT_COLOR_INIT, MPT_LINEATTR_INIT, TransformLg
  mptplot/values.h                      struct fpoint
  mptplot/layout/<kind>_property.c      def_<kind> initialiser, elem[] table and mpt_property_match length of
                                        mpt_<kind>_get, its text-alias special cases, the strcmp chain of
                                        mpt_<kind>_set with the shape of every handler, the sibling copy block,
                                        the strdup list of mpt_<kind>_init
  mptplot/layout/color_parse.c          colour name table
  mptplot/layout/lattr_set.c            {default, min, max} of the four line attributes

The translator works on the comment-stripped source text with a brace matcher and a CLOSED set of statement
templates.  Anything else raises TranslateError (the property module turns it into build.BuildError = broken
tie); it never guesses.
"""
import os
import re
import struct
from fractions import Fraction


class TranslateError(Exception):
    pass


def fail(msg):
    raise TranslateError(msg)


KINDS = ["axis", "line", "text", "graph", "world"]
VAR = {"axis": "ax", "line": "li", "text": "tx", "graph": "gr", "world": "wld"}


# ------------------------------------------------------------------------------------------ lexical helpers

def strip_comments(src):
    out, i, n = [], 0, len(src)
    while i < n:
        if src.startswith("/*", i):
            j = src.find("*/", i + 2)
            if j < 0:
                fail("unterminated comment")
            out.append(" ")
            i = j + 2
        elif src.startswith("//", i):
            while i < n and src[i] != "\n":
                i += 1
        elif src[i] == '"':
            j = i + 1
            while src[j] != '"':
                j += 2 if src[j] == "\\" else 1
            out.append(src[i:j + 1])
            i = j + 1
        elif src[i] == "'":
            j = i + 1
            while src[j] != "'":
                j += 2 if src[j] == "\\" else 1
            out.append(src[i:j + 1])
            i = j + 1
        else:
            out.append(src[i])
            i += 1
    return "".join(out)


def read(repo, rel):
    p = os.path.join(repo, rel)
    if not os.path.exists(p):
        fail("source file missing: " + rel)
    return strip_comments(open(p).read())


def norm(s):
    """single blanks, none around punctuation"""
    s = re.sub(r"\s+", " ", s.strip())
    s = re.sub(r"\s*([(){}\[\];,=<>!&|?:+\-*/~])\s*", r"\1", s)
    return s


def match_brace(s, i, op="{", cl="}"):
    """s[i] == op; index of the matching close"""
    if s[i] != op:
        fail("internal: expected %r at %d" % (op, i))
    d, n = 0, len(s)
    while i < n:
        c = s[i]
        if c == '"' or c == "'":
            j = i + 1
            while s[j] != c:
                j += 2 if s[j] == "\\" else 1
            i = j
        elif c == op:
            d += 1
        elif c == cl:
            d -= 1
            if d == 0:
                return i
        i += 1
    fail("unbalanced " + op)


def function_body(src, name):
    for m in re.finditer(r"\b%s\s*\(" % re.escape(name), src):
        close = match_brace(src, m.end() - 1, "(", ")")
        j = close + 1
        while j < len(src) and src[j].isspace():
            j += 1
        if j < len(src) and src[j] == "{":
            return src[j + 1:match_brace(src, j)]
    fail("function %s not found" % name)


def split_top(s, sep=","):
    """split at top-level separators (outside braces/parentheses/quotes)"""
    out, d, cur, i = [], 0, [], 0
    while i < len(s):
        c = s[i]
        if c in "\"'":
            j = i + 1
            while s[j] != c:
                j += 2 if s[j] == "\\" else 1
            cur.append(s[i:j + 1])
            i = j + 1
            continue
        if c in "{(":
            d += 1
        elif c in "})":
            d -= 1
        if c == sep and d == 0:
            out.append("".join(cur).strip())
            cur = []
        else:
            cur.append(c)
        i += 1
    last = "".join(cur).strip()
    if last:
        out.append(last)
    return out


def statements(body):
    """top-level statements of a block: list of ('if', cond, block_text) | ('stmt', text)"""
    out, i, n = [], 0, len(body)
    while i < n:
        while i < n and body[i].isspace():
            i += 1
        if i >= n:
            break
        m = re.compile(r"(else\s+)?if\s*\(").match(body, i)
        if m:
            pc = match_brace(body, m.end() - 1, "(", ")")
            cond = body[m.end():pc]
            j = pc + 1
            while body[j].isspace():
                j += 1
            if body[j] == "{":
                e = match_brace(body, j)
                out.append(("elif" if m.group(1) else "if", cond, body[j + 1:e]))
                i = e + 1
            else:
                e = body.index(";", j)
                out.append(("elif" if m.group(1) else "if", cond, body[j:e + 1]))
                i = e + 1
            continue
        m = re.compile(r"else\s*\{").match(body, i)
        if m:
            e = match_brace(body, m.end() - 1)
            out.append(("else", "", body[m.end():e]))
            i = e + 1
            continue
        m = re.compile(r"(else\s+)?while\s*\(").match(body, i)
        if m:
            pc = match_brace(body, m.end() - 1, "(", ")")
            j = pc + 1
            while body[j].isspace():
                j += 1
            if body[j] == "{":
                e = match_brace(body, j)
            else:
                e = body.index(";", j)
            out.append(("stmt", body[i:e + 1]))
            i = e + 1
            continue
        # plain statement up to ';' at depth 0
        d, j = 0, i
        while j < n:
            c = body[j]
            if c in "\"'":
                k = j + 1
                while body[k] != c:
                    k += 2 if body[k] == "\\" else 1
                j = k
            elif c in "{(":
                d += 1
            elif c in "})":
                d -= 1
            elif c == ";" and d == 0:
                break
            j += 1
        out.append(("stmt", body[i:j + 1]))
        i = j + 1
    return out


# ------------------------------------------------------------------------------------------ numbers

def c_number(tok, macros):
    """value of a C constant expression made of literals/macros: int, float or char code"""
    t = tok.strip()
    if t in macros:
        return c_number(macros[t], macros)
    m = re.fullmatch(r"'(\\?.)'", t)
    if m:
        ch = m.group(1)
        if ch.startswith("\\"):
            esc = {"\\0": 0, "\\n": 10, "\\t": 9, "\\\\": 92, "\\'": 39}
            if ch not in esc:
                fail("unsupported character literal " + t)
            return ("int", esc[ch])
        return ("int", ord(ch))
    if re.fullmatch(r"0[xX][0-9a-fA-F]+", t):
        return ("int", int(t, 16))
    if re.fullmatch(r"-?\d+", t):
        if len(t) > 1 and t.startswith("0"):
            return ("int", int(t, 8))
        return ("int", int(t))
    if re.fullmatch(r"-?(\d+\.\d*|\.\d+)([eE][+-]?\d+)?[fF]?", t):
        return ("float", float(t.rstrip("fF")))
    if t == "FLT_MAX":
        return ("float", float((2 ** 24 - 1) * 2 ** 104))
    fail("unsupported constant: %r" % tok)


def dyadic(v, single):
    """exact (m, e) of the float/double nearest to v, m odd or (0,0)"""
    if single:
        v = struct.unpack("f", struct.pack("f", v))[0]
    fr = Fraction(v)
    if fr == 0:
        return (0, 0)
    m, d = fr.numerator, fr.denominator
    e = 0
    while d > 1:
        if d % 2:
            fail("internal: non-dyadic float")
        d //= 2
        e -= 1
    while m % 2 == 0:
        m //= 2
        e += 1
    return (m, e)


# ------------------------------------------------------------------------------------------ layout.h

def c_part(src, defines=None):
    """drop the C++ branches of `#ifdef __cplusplus` (keep the #else part) and all other directives"""
    out, stack = [], []
    for ln in src.split("\n"):
        t = ln.strip()
        if t.startswith("#"):
            d = t[1:].strip()
            if d.startswith("ifdef __cplusplus"):
                stack.append(False)
            elif d.startswith("ifndef __cplusplus"):
                stack.append(True)
            elif d.startswith("if"):
                stack.append(all(stack) if stack else True)
            elif d.startswith("else"):
                if not stack:
                    fail("#else without #if")
                stack[-1] = not stack[-1]
            elif d.startswith("endif"):
                if not stack:
                    fail("#endif without #if")
                stack.pop()
            elif d.startswith("define") and all(stack) and defines is not None:
                defines.append(ln)
            continue
        if all(stack):
            out.append(ln)
    return "\n".join(out)


SCALARS = {"char *": "str", "double": "f64", "float": "f32", "int16_t": "i16", "uint8_t": "u8",
           "uint32_t": "u32", "char": "chr"}


def struct_members(src, name):
    m = re.search(r"MPT_STRUCT\(%s\)\s*\{" % name, src)
    if not m:
        fail("struct %s not found" % name)
    body = src[m.end():match_brace(src, m.end() - 1)]
    mem = []
    for decl in body.split(";"):
        d = " ".join(decl.split())
        if not d:
            continue
        mm = re.fullmatch(r"(MPT_STRUCT\((\w+)\)|char \*|[a-z0-9_]+)\s*(.*)", d)
        if not mm:
            fail("unsupported member declaration in struct %s: %r" % (name, d))
        ty = ("struct", mm.group(2)) if mm.group(2) else mm.group(1)
        names = [x.strip() for x in mm.group(3).split(",")]
        if ty == "char" and names and names[0].startswith("*"):
            ty = "char *"
            names[0] = names[0][1:].strip()
        for nm in names:
            if not re.fullmatch(r"\w+", nm):
                fail("unsupported declarator in struct %s: %r" % (name, nm))
            mem.append((ty, nm))
    return mem


class Layout:
    def __init__(self, repo):
        defs = []
        h = c_part(read(repo, "mptplot/layout.h"), defs)
        v = c_part(read(repo, "mptplot/values.h"))
        self.macros = {}
        for m in re.finditer(r"#\s*define\s+(MPT_\w+)\s+(\{[^}\n]*\})", "\n".join(defs)):
            self.macros[m.group(1)] = m.group(2)
        self.enums = {}
        for m in re.finditer(r"MPT_ENUM\((\w+)\)\s*=\s*(0x[0-9a-fA-F]+|\d+)", h):
            self.enums[m.group(1)] = int(m.group(2), 0)
        self.structs = {}
        for nm in KINDS + ["color", "lineattr"]:
            self.structs[nm] = struct_members(h, nm)
        m = re.search(r"MPT_STRUCT\(fpoint\)\s*\{([^}]*)\}", v)
        if not m or " ".join(m.group(1).split()) != "float x, y;":
            fail("struct fpoint is not { float x, y; }")
        self.structs["fpoint"] = [("float", "x"), ("float", "y")]
        if [t for t, _ in self.structs["color"]] != ["uint8_t"] * 4 or \
           [n for _, n in self.structs["color"]] != ["alpha", "red", "green", "blue"]:
            fail("struct color is not { uint8_t alpha, red, green, blue; }")

    def flat(self, kind):
        """flattened members: (path, ctype); colour kept whole"""
        out = []
        for ty, nm in self.structs[kind]:
            if isinstance(ty, tuple):
                sub = ty[1]
                if sub == "color":
                    out.append((nm, "col"))
                elif sub in ("lineattr", "fpoint"):
                    for t2, n2 in self.structs[sub]:
                        if t2 not in SCALARS:
                            fail("unsupported nested member %s.%s" % (sub, n2))
                        out.append((nm + "." + n2, SCALARS[t2]))
                else:
                    fail("unsupported member type struct %s" % sub)
            else:
                if ty not in SCALARS:
                    fail("unsupported member type %r of %s.%s" % (ty, kind, nm))
                out.append((nm, SCALARS[ty]))
        return out

    def init_values(self, kind, text):
        """positional initialiser of struct `kind` -> list of Lean `Val` terms aligned with flat()"""
        items = split_top(text)
        mem = self.structs[kind]
        if len(items) != len(mem):
            fail("def_%s: %d initialisers for %d members" % (kind, len(items), len(mem)))
        out = []
        for (ty, nm), it in zip(mem, items):
            it = self.macros.get(it, it)
            if isinstance(ty, tuple):
                if not (it.startswith("{") and it.endswith("}")):
                    fail("def_%s.%s: struct member without braces" % (kind, nm))
                sub = split_top(it[1:-1])
                sm = self.structs[ty[1]]
                if len(sub) != len(sm):
                    fail("def_%s.%s: wrong number of initialisers" % (kind, nm))
                vals = [c_number(x, self.macros) for x in sub]
                if ty[1] == "color":
                    d = dict(zip([n for _, n in sm], vals))
                    for k in d.values():
                        if k[0] != "int" or not 0 <= k[1] <= 255:
                            fail("def_%s.%s: colour component out of range" % (kind, nm))
                    out.append(".col ⟨%d, %d, %d, %d⟩" % (d["red"][1], d["green"][1], d["blue"][1], d["alpha"][1]))
                else:
                    for (t2, _n2), val in zip(sm, vals):
                        out.append(lean_val(SCALARS[t2], val))
            else:
                out.append(lean_val(SCALARS[ty], c_number(it, self.macros)))
        return out


def lean_int(n):
    return str(n) if n >= 0 else "(%d)" % n


def lean_fl(m, e):
    return "⟨%s, %s⟩" % (lean_int(m), lean_int(e))


def lean_val(cty, val):
    kind, v = val
    if cty == "str":
        if kind != "int" or v != 0:
            fail("string member initialised with something else than 0")
        return ".str none"
    if cty in ("f64", "f32"):
        m, e = dyadic(float(v), cty == "f32")
        return ".flt " + lean_fl(m, e)
    if kind != "int":
        fail("integer member initialised with a floating point constant")
    if cty == "chr":
        return ".chr %d" % (v % 256)
    return ".int " + lean_int(v)


def lean_str(s):
    return "[" + ", ".join(str(b) for b in s.encode()) + "]"


# ------------------------------------------------------------------------------------------ one kind

class KindX:
    pass


def extract_kind(repo, lay, kind):
    src = read(repo, "mptplot/layout/%s_property.c" % kind)
    v = VAR[kind]
    k = KindX()
    k.name = kind
    flat = lay.flat(kind)
    k.fields = flat
    index = {p: i for i, (p, _t) in enumerate(flat)}

    def field(path, what):
        if path in index:
            return index[path]
        if path + ".x" in index:
            return index[path + ".x"]
        fail("%s: unknown member %r in %s" % (kind, path, what))

    # defaults
    m = re.search(r"static\s+const\s+MPT_STRUCT\(%s\)\s+def_%s\s*=\s*\{" % (kind, kind), src)
    if not m:
        fail("def_%s not found" % kind)
    k.defaults = lay.init_values(kind, src[m.end():match_brace(src, m.end() - 1)])

    # ---------------------------------------------------------------- getter
    get = function_body(src, "mpt_%s_get" % kind)
    tabs = {}
    for m in re.finditer(r"(\w+)\[\]\s*=\s*\{", get):
        nm = m.group(1)
        if nm == "format":
            continue
        body = get[m.end():match_brace(get, m.end() - 1)]
        rows = []
        for row in split_top(body):
            r = re.fullmatch(r"\{\s*\"([^\"]*)\"\s*,\s*\"[^\"]*\"\s*,\s*('[^']'|-?\d+)\s*,\s*MPT_offset\(\s*(\w+)\s*,\s*([\w.]+)\s*\)\s*\}", row)
            if not r:
                fail("%s: unsupported row in %s[]: %r" % (kind, nm, row))
            if r.group(3) != kind:
                fail("%s: offset into another struct in %s[]" % (kind, nm))
            ty = r.group(2)
            code = ord(ty[1]) if ty.startswith("'") else int(ty)
            if code < 0 and code not in (-1, -2):
                fail("%s: unknown negative type code %d" % (kind, code))
            rows.append((r.group(1), code, field(r.group(4), nm + "[]")))
        tabs[nm] = rows
    if "elem" not in tabs:
        fail("%s: elem[] table not found" % kind)
    k.gets = tabs["elem"]
    for nm, code, fi in k.gets:
        check_type(kind, nm, code, flat, fi)
    m = re.search(r"mpt_property_match\(\s*(pr->name|name)\s*,\s*(-?\d+)\s*,\s*elem_name\s*,\s*pos\s*\)", get)
    if not m:
        fail("%s: mpt_property_match call not found in the getter" % kind)
    ml = int(m.group(2))
    # names replaced by a listed name before the lookup (full comparison, case ignored)
    k.get_alias = []
    if m.group(1) == "name":
        if not re.search(r"const\s+char\s*\*name\s*=\s*pr->name\s*;", get):
            fail("%s: the looked-up name is not pr->name" % kind)
        tab = re.search(r"static\s+const\s+char\s*\*\s*const\s+alias\[\]\[2\]\s*=\s*\{", get)
        loop = re.search(r"for\s*\(i\s*=\s*0;\s*i\s*<\s*MPT_arrsize\(alias\);\s*i\+\+\)\s*\{\s*if\s*\(!strcasecmp\(name,\s*alias\[i\]\[0\]\)\)\s*\{\s*name\s*=\s*alias\[i\]\[1\];\s*break;\s*\}\s*\}", get)
        if not tab or not loop or len(re.findall(r"(?<![>.\w])name\s*=[^=]", get)) != 2:
            fail("%s: unsupported name replacement in the getter" % kind)
        body = get[tab.end():match_brace(get, tab.end() - 1)]
        for row in split_top(body):
            r = re.fullmatch(r"\{\s*\"([^\"]*)\"\s*,\s*\"([^\"]*)\"\s*\}", row.strip())
            if not r:
                fail("%s: unsupported alias[] row %r" % (kind, row))
            k.get_alias.append((r.group(1), r.group(2)))
    k.match_len = None if ml < 0 else ml
    # the name table handed to mpt_property_match must be elem[].name in order
    if not re.search(r"for\s*\(pos\s*=\s*0;\s*pos\s*<\s*\(int\)\s*MPT_arrsize\(elem\);\s*pos\+\+\)\s*\{\s*elem_name\[pos\]\s*=\s*elem\[pos\]\.name;\s*\}", get):
        fail("%s: the name table of the getter is not elem[].name in order" % kind)
    # text aliases
    k.log_at = None
    k.clip_alias = None
    k.single = []
    n_alias = len(re.findall(r"MPT_property_set_string", get))
    m = re.search(r"if\s*\(\(pos\s*==\s*(\d+)\)\s*&&\s*\(%s->(\w+)\s*&\s*MPT_ENUM\((\w+)\)\)\)\s*\{\s*static const char desc\[\]\s*=\s*\"log\\0\";\s*MPT_property_set_string\(pr,\s*desc\);\s*\}" % v, get)
    if m:
        if m.group(3) not in lay.enums:
            fail("%s: enum %s not found in layout.h" % (kind, m.group(3)))
        k.log_at = (int(m.group(1)), field(m.group(2), "log alias"), lay.enums[m.group(3)])
        n_alias -= 1
    m = re.search(r"if\s*\(!strcmp\(pr->name,\s*\"(\w+)\"\)\s*&&\s*%s->(\w+)\s*<\s*(\d+)\)\s*\{\s*MPT_property_set_string\(pr,\s*(\w+)\[%s->(\w+)\]\);\s*\}" % (v, v), get)
    if m:
        tab = re.search(r"static\s+const\s+char\s+%s\[\]\[\d+\]\s*=\s*\{([^}]*)\}" % m.group(4), src)
        if not tab:
            fail("%s: alias table %s not found" % (kind, m.group(4)))
        names = [x.strip() for x in tab.group(1).split(",") if x.strip()]
        if not all(re.fullmatch(r'"\w*"', x) for x in names):
            fail("%s: unsupported alias table entry" % kind)
        names = [x[1:-1] for x in names]
        if int(m.group(3)) != len(names) or m.group(2) != m.group(5):
            fail("%s: alias bound %s does not match the table %s" % (kind, m.group(3), m.group(4)))
        ent = [g for g in k.gets if g[0] == m.group(1)]
        if len(ent) != 1 or ent[0][2] != field(m.group(2), "alias"):
            fail("%s: alias of %s does not name its own member" % (kind, m.group(1)))
        k.clip_alias = (m.group(1), names)
        n_alias -= 1
    if n_alias != 0:
        fail("%s: unsupported MPT_property_set_string use in the getter" % kind)
    if "elem_xy" in tabs:
        xy = tabs["elem_xy"]
        blk = re.search(r"else if\s*\(!pr->name\[1\]\)\s*\{", get)
        if not blk:
            fail("%s: elem_xy[] without the single-character branch" % kind)
        body = get[blk.end():match_brace(get, blk.end() - 1)]
        sel = re.findall(r"pr->name\[0\]\s*==\s*'(\w)'\)\s*\{\s*from\s*=\s*&elem_xy\[(\d+)\];", body)
        if len(sel) != len(xy):
            fail("%s: single-character branch does not cover elem_xy[]" % kind)
        for ch, idx in sel:
            if xy[int(idx)][0] != ch:
                fail("%s: single-character name %r selects elem_xy[%s] = %r" % (kind, ch, idx, xy[int(idx)][0]))
        if not re.search(r"MPT_value_set\(&pr->val,\s*from->type,\s*\(\(uint8_t \*\)\s*%s\)\s*\+\s*from->off\);" % v, body):
            fail("%s: single-character branch does not read from->off" % kind)
        for nm, code, fi in xy:
            check_type(kind, nm, code, flat, fi)
        k.single = xy
    elif len(tabs) != 1:
        fail("%s: unsupported extra table in the getter: %s" % (kind, sorted(tabs)))
    # value address of the main path
    if not re.search(r"MPT_value_set\(&pr->val,\s*(type|elem\[pos\]\.type),\s*\(\(uint8_t \*\)\s*%s\)\s*\+\s*elem\[pos\]\.off\);" % v, get):
        fail("%s: the getter does not read elem[pos].off" % kind)
    if any(c < 0 for _n, c, _f in k.gets):
        if not re.search(r"if\s*\(\(type\s*=\s*elem\[pos\]\.type\)\s*<\s*0\)\s*\{\s*if\s*\(type\s*==\s*-1\)\s*\{\s*if\s*\(\(type\s*=\s*mpt_color_typeid\(\)\)", get):
            fail("%s: negative type codes are not resolved into `type` (-1 = colour)" % kind)
        if any(c == -2 for _n, c, _f in k.gets) and \
           not re.search(r"else if\s*\(type\s*==\s*-2\)\s*\{\s*if\s*\(\(type\s*=\s*mpt_fpoint_typeid\(\)\)", get):
            fail("%s: type code -2 is not resolved to the point type" % kind)

    # ---------------------------------------------------------------- init: strdup list
    k.dups = []
    if kind != "line":
        init = function_body(src, "mpt_%s_init" % kind)
        if not re.search(r"\*%s\s*=\s*\*from;" % v, init):
            fail("%s: init does not copy the template" % kind)
        for m in re.finditer(r"%s->(\w+)\s*=\s*strdup\(\s*(?:from|%s)->(\w+)\s*\)" % (v, v), init):
            if m.group(1) != m.group(2):
                fail("%s: init duplicates %s into %s" % (kind, m.group(2), m.group(1)))
            k.dups.append(field(m.group(1), "init"))
        fini = function_body(src, "mpt_%s_fini" % kind)
        freed = sorted(field(x, "fini") for x in re.findall(r"free\(%s->(\w+)\);" % v, fini))
        strs = sorted(i for i, (_p, t) in enumerate(flat) if t == "str")
        if freed != strs:
            fail("%s: fini does not free exactly the string members" % kind)
        if not re.search(r"\*%s\s*=\s*def_%s;" % (v, kind), fini):
            fail("%s: fini does not restore def_%s" % (kind, kind))
        # <kind>Assign(): the copy is built in a temporary, refused (target untouched) when a strdup failed
        asg = norm(function_body(src, "%sAssign" % kind))
        mem = [flat[i][0] for i in k.dups]
        conds = ["from->%s&&!tmp.%s" % (m_, m_) for m_ in mem]
        cond = "from&&" + (conds[0] if len(conds) == 1 else "(" + "||".join("(%s)" % c for c in conds) + ")")
        want = ("MPT_STRUCT(%s)tmp;mpt_%s_init(&tmp,from);if(%s){mpt_%s_fini(&tmp);return MPT_ERROR(BadOperation);}"
                "mpt_%s_fini(%s);*%s=tmp;return 0;" % (kind, kind, cond, kind, kind, v, v))
        if asg != want:
            fail("%s: unsupported %sAssign(): %r" % (kind, kind, asg[:120]))

    # ---------------------------------------------------------------- setter
    setb = function_body(src, "mpt_%s_set" % kind)
    st = statements(setb)
    # helper setPosition templates
    k.sets = []
    seen_null = seen_empty = False
    done = False
    for s in st:
        if done:
            fail("%s: statement after the final return of the setter" % kind)
        if s[0] == "stmt":
            t = norm(s[1])
            if t == "int len;":
                continue
            if t == "return MPT_ERROR(BadArgument);":
                done = True
                continue
            fail("%s: unsupported statement in the setter: %r" % (kind, t[:80]))
        if s[0] != "if":
            fail("%s: unsupported else-branch at the top level of the setter" % kind)
        cond = norm(s[1])
        if cond == "!name":
            seen_null = True
            k.auto = auto_block(kind, v, s[2], field)
            continue
        if cond == "!*name":
            seen_empty = True
            k.copy_own, k.self_guard = copy_block(kind, v, s[2])
            continue
        names = []
        for part in cond.split("||"):
            m = re.fullmatch(r"!(strcmp|strcasecmp)\(name,\"([^\"]+)\"\)", part)
            if not m:
                fail("%s: unsupported condition in the setter chain: %r" % (kind, cond))
            names.append((m.group(2), m.group(1) == "strcasecmp"))
        k.sets.append((names, handler(kind, v, lay, field, flat, src, s[2])))
    if not (seen_null and seen_empty and done):
        fail("%s: setter lacks the !name / !*name / final BadArgument parts" % kind)
    return k


def check_type(kind, nm, code, flat, fi):
    want = {"str": ord("s"), "f64": ord("d"), "f32": ord("f"), "i16": ord("n"), "u8": ord("y"),
            "u32": ord("u"), "chr": ord("c"), "col": -1}[flat[fi][1]]
    if code == -2:
        if flat[fi][1] != "f32" or not flat[fi][0].endswith(".x") or flat[fi + 1][1] != "f32":
            fail("%s: property %s has the point type but member %s is no point" % (kind, nm, flat[fi][0]))
        return
    if code != want:
        fail("%s: property %s has type code %d but member %s needs %d" % (kind, nm, code, flat[fi][0], want))


def auto_block(kind, v, body, field):
    """the `!name` block (type-directed assignment): the conversions tried in order, as Lean `AutoStep` terms"""
    t = norm(body)
    head = ("int type;" if kind == "line" else "const MPT_STRUCT(%s)*from;int type;" % kind) + "if(!src){return MPT_ERROR(BadOperation);}"
    tail = "return MPT_ERROR(BadType);"
    if not t.startswith(head) or not t.endswith(tail):
        fail("%s: unsupported frame of the name == NULL block" % kind)
    t = t[len(head):-len(tail)]
    steps = []
    pats = [
        (r"if\(\(type=mpt_%s_pointer_typeid\(\)\)>0&&\(len=src->_vptr->convert\(src,type,&from\)\)>=0\)\{if\(len&&from==%s\)\{return 0;\}return %sAssign\(%s,len\?from:0\);\}" % (kind, v, kind, v),
         lambda m: ".sibling"),
        (r"if\(\(type=mpt_line_typeid\(\)\)>0&&\(len=src->_vptr->convert\(src,type,li\)\)>=0\)\{if\(!len\)\*li=def_line;return 0;\}",
         lambda m: ".own"),
        (r"if\(\(len=mpt_string_pset\(&%s->(\w+),src\)\)>=0\)\{return len;\}" % v,
         lambda m: ".string %d" % field(m.group(1), "name == NULL block")),
        (r"if\(\(type=mpt_color_typeid\(\)\)>0&&\(len=src->_vptr->convert\(src,type,&%s->(\w+)\)\)>=0\)\{if\(!len\)%s->(\w+)=def_%s\.(\w+);return 0;\}" % (v, v, kind),
         lambda m: (".colour %d" % field(m.group(1), "name == NULL block")) if m.group(1) == m.group(2) == m.group(3) else None),
        (r"if\(\(type=mpt_lattr_typeid\(\)\)>0&&\(len=src->_vptr->convert\(src,type,&%s->attr\)\)>=0\)\{if\(!len\)%s->attr=def_%s\.attr;return 0;\}" % (v, v, kind),
         lambda m: ".lattr"),
    ]
    while t:
        for pat, mk in pats:
            m = re.match(pat, t)
            if m:
                term = mk(m)
                if term is None:
                    fail("%s: a step of the name == NULL block restores another member" % kind)
                steps.append(term)
                t = t[m.end():]
                break
        else:
            fail("%s: unsupported step in the name == NULL block: %r" % (kind, t[:100]))
    if not steps or steps[0] not in (".sibling", ".own"):
        fail("%s: the name == NULL block does not start with the kind's own type" % kind)
    return steps


def copy_block(kind, v, body):
    """the `!*name` block: (asks for the kind's own type, has the self-assignment guard)"""
    t = norm(body)
    own = "mpt_line_typeid()" if kind == "line" else "mpt_%s_pointer_typeid()" % kind
    m = re.search(r"if\(\(type=(mpt_\w+\(\))\)>0&&\(len=src->_vptr->convert\(src,type,(&from|%s)\)\)>=0\)\{(.*?)\}return MPT_ERROR\(BadType\);$" % v, t)
    if not m:
        fail("%s: unsupported sibling copy block" % kind)
    inner = m.group(3)
    if kind == "line":
        if m.group(2) != v:
            fail("line: sibling copy does not store into the line")
        if not re.fullmatch(r"if\(!len\)\*li=def_line;return 0;", inner):
            fail("line: unsupported sibling copy body")
        guard = True
        head = t[:m.start()]
        if head != "int type;if(!src){*li=def_line;return 0;}":
            fail("line: unsupported reset part of the sibling copy block")
    else:
        g = re.match(r"if\(len&&from==%s\)\{return 0;\}" % v, inner)
        guard = bool(g)
        rest = inner[g.end():] if g else inner
        # the content is replaced through <kind>Assign(): copy built aside, stored only when every string was duplicated
        if not re.fullmatch(r"(return %sAssign\(%s,len\?from:0\);|if\(%sAssign\(%s,len\?from:0\)<0\)\{return MPT_ERROR\(BadOperation\);\}return len<=0\?len:1;)" % (kind, v, kind, v), rest):
            fail("%s: unsupported sibling copy body: %r" % (kind, rest[:80]))
        head = t[:m.start()]
        if head != "const MPT_STRUCT(%s)*from;int type;if(!src){mpt_%s_fini(%s);return 0;}" % (kind, kind, v):
            fail("%s: unsupported reset part of the sibling copy block" % kind)
    return (m.group(1) == own, guard)


def handler(kind, v, lay, field, flat, src, body):
    t = norm(body)
    o = re.escape(v)
    d = "def_%s" % kind
    # plain conversion
    m = re.fullmatch(r"if\(!src\|\|!\(len=src->_vptr->convert\(src,'(\w)',&%s->([\w.]+)\)\)\)\{%s->([\w.]+)=%s\.([\w.]+);return 0;\}return len<0\?len:0;" % (o, o, d), t)
    if m:
        if not (m.group(2) == m.group(3) == m.group(4)):
            fail("%s: conversion handler mixes members %s/%s/%s" % (kind, m.group(2), m.group(3), m.group(4)))
        fi = field(m.group(2), "conv")
        want = {"f64": "d", "f32": "f", "i16": "n", "u8": "y", "u32": "u", "chr": "c"}.get(flat[fi][1])
        if want != m.group(1):
            fail("%s: member %s (%s) is converted with type code '%s'" % (kind, m.group(2), flat[fi][1], m.group(1)))
        return ".conv '%s' %d" % (m.group(1), fi)
    # string
    m = re.fullmatch(r"if\(!src\)\{mpt_string_set\(&%s->(\w+),0,0\);return 0;\}return mpt_string_pset\(&%s->(\w+),src\);" % (o, o), t)
    if m:
        if m.group(1) != m.group(2):
            fail("%s: string handler mixes members" % kind)
        fi = field(m.group(1), "string")
        if flat[fi][1] != "str":
            fail("%s: string handler on non-string member %s" % (kind, m.group(1)))
        return ".string %d" % fi
    # colour
    m = re.fullmatch(r"(?:if\(!src\)\{%s->([\w.]+)=%s\.([\w.]+);return 0;\})?return mpt_color_pset\(&%s->(\w+),src\);" % (o, d, o), t)
    if m:
        fi = field(m.group(3), "colour")
        if flat[fi][1] != "col":
            fail("%s: colour handler on member %s" % (kind, m.group(3)))
        rs = "none"
        if m.group(1) is not None:
            if m.group(1) != m.group(2):
                fail("%s: colour handler resets %s from the default of %s" % (kind, m.group(1), m.group(2)))
            rs = "(some %d)" % field(m.group(1), "colour reset")
        return ".colour %d %s" % (fi, rs)
    # line attributes
    m = re.fullmatch(r"(?:if\(!src\)\{%s->([\w.]+)=%s\.([\w.]+);return 0;\})?return mpt_lattr_(\w+)\(&%s->attr,src\);" % (o, d, o), t)
    if m:
        which = m.group(3)
        rs = "none"
        if m.group(1) is not None:
            if m.group(1) != m.group(2):
                fail("%s: attribute handler resets %s from the default of %s" % (kind, m.group(1), m.group(2)))
            rs = "(some %d)" % field(m.group(1), "attribute reset")
        la = lattr_info(lay.repo)
        if which not in la:
            fail("%s: unknown line attribute setter mpt_lattr_%s" % (kind, which))
        fi = field("attr." + which, "lattr")
        df, lo, hi = la[which]
        return ".lattr %d %d %d %d %s" % (fi, df, lo, hi, rs)
    # axis / line position helpers
    m = re.fullmatch(r"return setPosition\(&%s->([\w.]+),src,%s\.([\w.]+)\);" % (o, d), t)
    if m and kind == "axis":
        if m.group(1) != m.group(2):
            fail("axis: setPosition default of another member")
        check_helper(src, "setPosition", AXIS_SETPOS, "axis_property.c:")
        fi = field(m.group(1), "setPosition")
        if flat[fi][1] != "chr":
            fail("axis: setPosition on non-character member")
        return ".axisPos %d" % fi
    m = re.fullmatch(r"return setPosition\(&%s->([\w.]+),src\);" % o, t)
    if m and kind == "line":
        check_helper(src, "setPosition", LINE_SETPOS, "line_property.c:")
        fi = field(m.group(1), "setPosition")
        if flat[fi][1] != "f32":
            fail("line: setPosition on non-float member")
        return ".linePos %d" % fi
    # point
    m = re.fullmatch(r"static const MPT_STRUCT\(range\)r=\{([^}]*)\};if\(!src\|\|!\(len=mpt_fpoint_set\(&%s->(\w+),src,&r\)\)\)\{%s->(\w+)=%s\.(\w+);return 0;\}return (len<0\?len:0|len);" % (o, o, d), t)
    if m:
        if not (m.group(2) == m.group(3) == m.group(4)):
            fail("%s: point handler mixes members" % kind)
        fi = field(m.group(2), "fpoint")
        if not flat[fi][0].endswith(".x"):
            fail("%s: point handler on non-point member" % kind)
        lim = [c_number(x, {}) for x in split_top(m.group(1))]
        if len(lim) != 2:
            fail("%s: range initialiser" % kind)
        lo, hi = [dyadic(float(x[1]), False) for x in lim]
        return ".fpoint %d %s %s %s" % (fi, lean_fl(*lo), lean_fl(*hi), "true" if m.group(5) == "len" else "false")
    if kind == "axis" and t in (AXIS_INTERVALS, AXIS_INTERVALS_KEEP):
        return ".intervals %d %d %d %s" % (field("intv", "intervals"), field("format", "intervals"), lay.enums["TransformLg"],
                                          "true" if t == AXIS_INTERVALS else "false")
    if kind == "graph" and t == GRAPH_ALIGN:
        if lay.enums.get("AlignBegin") != 1 or lay.enums.get("AlignEnd") != 2 or lay.enums.get("AlignZero") != 3:
            fail("graph: alignment flag values changed")
        return ".align %d" % field("align", "align")
    if kind == "graph" and t == GRAPH_CLIP:
        return ".clip %d" % field("clip", "clip")
    fail("%s: unsupported handler in the setter chain: %r" % (kind, t[:160]))


STALE = []


def check_helper(src, name, template, where=""):
    """helper functions that are modelled by hand: a changed text does not stop the translation (the tables are
    still valid) but is recorded; Props/C20.lean proves `staleHelpers = []`, so the proof obligation breaks and
    the correspondence run decides whether the change matters"""
    if norm(function_body(src, name)) != template:
        tag = where + name
        if tag not in STALE:
            STALE.append(tag)


AXIS_SETPOS = norm("""
	const char *s; int len;
	if (!src) { *val = def; return 0; }
	if (!(len = src->_vptr->convert(src, 'c', val))) { *val = def; return 0; }
	if (len > 0) { return 0; }
	if ((len = src->_vptr->convert(src, 'k', &s)) < 0) { return len; }
	if (len && s) { *val = *s; } else { *val = def; }
	return 0;
""")
LINE_SETPOS = norm("""
	double tmp; int len;
	if (!src) { *val = 0; return 0; }
	if ((len = src->_vptr->convert(src, 'f', val)) >= 0) { if (!len) *val = 0.0f; return 0; }
	if ((len = src->_vptr->convert(src, 'd', &tmp)) >= 0) { if (!len) { *val = 0.0f; } else if (tmp > FLT_MAX || tmp < -FLT_MAX) { return MPT_ERROR(BadValue); } else { *val = tmp; } return 0; }
	return MPT_ERROR(BadType);
""")
AXIS_INTERVALS = norm("""
		const char *l;
		if (!src) { ax->intv = def_axis.intv; ax->format &= ~MPT_ENUM(TransformLg); return 0; }
		if ((len = src->_vptr->convert(src, 'y', &ax->intv)) >= 0) {
			ax->format &= ~MPT_ENUM(TransformLg);
			if (!len) { ax->intv = def_axis.intv; }
			return 0;
		}
		if (src->_vptr->convert(src, 's', &l) < 0 || !l || strncasecmp(l, "log", 3)) { return len; }
		ax->format |= MPT_ENUM(TransformLg);
		ax->intv = 0;
		return 0;
""")
# variant: the "no value" result of the count conversion returns before the log flag is cleared
AXIS_INTERVALS_KEEP = norm("""
		const char *l;
		if (!src) { ax->intv = def_axis.intv; ax->format &= ~MPT_ENUM(TransformLg); return 0; }
		if ((len = src->_vptr->convert(src, 'y', &ax->intv)) >= 0) {
			if (!len) { ax->intv = def_axis.intv; return 0; }
			ax->format &= ~MPT_ENUM(TransformLg);
			return 0;
		}
		if (src->_vptr->convert(src, 's', &l) < 0 || !l || strncasecmp(l, "log", 3)) { return len; }
		ax->format |= MPT_ENUM(TransformLg);
		ax->intv = 0;
		return 0;
""")
GRAPH_ALIGN = norm("""
		const char *v; uint8_t n = 0; int i = 0;
		if (!src || !(len = src->_vptr->convert(src, 'y', &gr->align))) { gr->align = def_graph.align; return 0; }
		if (len > 0) { return 0; }
		if (len == MPT_ERROR(BadValue)) { return len; }
		if ((len = src->_vptr->convert(src, 's', &v)) < 0) { return len; }
		if (!len || !v) { n = 0; }
		else while (v[i]) {
			if (i >= 4) { break; }
			switch (v[i++]) {
			  case 0: len = i - 1; break;
			  case 'B': case 'b': n |= MPT_ENUM(AlignBegin) << (i-1)*2; break;
			  case 'E': case 'e': n |= MPT_ENUM(AlignEnd)   << (i-1)*2; break;
			  case 'Z': case 'z': n |= MPT_ENUM(AlignZero)  << (i-1)*2; break;
			  default:;
			}
		}
		gr->align = n;
		return 0;
""")
GRAPH_CLIP = norm("""
		const char *v; uint8_t n = 0;
		if (!src || !(len = src->_vptr->convert(src, 'y', &gr->clip))) { gr->clip = def_graph.clip; return 0; }
		if (len > 0) { return 0; }
		if (len == MPT_ERROR(BadValue)) { return len; }
		if ((len = src->_vptr->convert(src, 's', &v)) < 0) { return len; }
		if (!len || !v) { gr->clip = def_graph.clip; return 0; }
		while (*v) {
			switch (*v++) {
			  case 'x': n |= 1; break;
			  case 'y': n |= 2; break;
			  case 'z': n |= 4; break;
			  default:  n |= 8;
			}
		}
		gr->clip = n;
		return 0;
""")

_LATTR = {}


def lattr_info(repo):
    if repo in _LATTR:
        return _LATTR[repo]
    src = read(repo, "mptplot/layout/lattr_set.c")
    macros = {}
    for m in re.finditer(r"#\s*define\s+MPT_(\w+)\s+(\d+)", src):
        macros["MPT_ENUM(%s)" % m.group(1)] = m.group(2)
    out = {}
    for m in re.finditer(r"mpt_lattr_(\w+)\s*\(MPT_STRUCT\(lineattr\)\s*\*attr,\s*MPT_INTERFACE\(convertable\)\s*\*src\)\s*\{", src):
        body = norm(src[m.end():match_brace(src, m.end() - 1)])
        b = re.fullmatch(r"int def\[3\]=\{([^}]*)\};return lattr_pset\(&attr->(\w+),src,def\);", body)
        if not b:
            fail("lattr_set.c: unsupported body of mpt_lattr_%s" % m.group(1))
        if b.group(2) != m.group(1):
            fail("lattr_set.c: mpt_lattr_%s sets member %s" % (m.group(1), b.group(2)))
        vals = [c_number(x, macros) for x in split_top(b.group(1))]
        if len(vals) != 3 or any(x[0] != "int" or not 0 <= x[1] <= 255 for x in vals):
            fail("lattr_set.c: unsupported limits of mpt_lattr_%s" % m.group(1))
        out[m.group(1)] = tuple(x[1] for x in vals)
    check_helper(src, "lattr_pset", LATTR_PSET, "lattr_set.c:")
    _LATTR[repo] = out
    return out


LATTR_PSET = norm("""
	int len; uint8_t sym;
	if (!src) { *val = def[0]; return 0; }
	if ((len = src->_vptr->convert(src, 'y', &sym)) < 0) {
		int32_t tmp = *val;
		if ((len = src->_vptr->convert(src, 'i', &tmp)) < 0) { return len; }
		if (tmp < 0 || tmp > UINT8_MAX) { return MPT_ERROR(BadValue); }
		sym = tmp;
	}
	if (!len) { *val = def[0]; return 0; }
	if (sym < def[1] || sym > def[2]) { return MPT_ERROR(BadValue); }
	*val = sym;
	return 0;
""")


def colour_table(repo):
    src = read(repo, "mptplot/layout/color_parse.c")
    m = re.search(r"\}\s*col\[\]\s*=\s*\{", src)
    if not m:
        fail("color_parse.c: colour table not found")
    rows = []
    for row in split_top(src[m.end():match_brace(src, m.end() - 1)]):
        r = re.fullmatch(r"\{\s*\"(\w+)\"\s*,\s*\{([^}]*)\}\s*\}", row)
        if not r:
            fail("color_parse.c: unsupported table row %r" % row)
        comp = [c_number(x, {}) for x in split_top(r.group(2))]
        if len(comp) != 4 or any(c[0] != "int" or not 0 <= c[1] <= 255 for c in comp):
            fail("color_parse.c: unsupported colour value in row %r" % row)
        a, rd, g, b = [c[1] for c in comp]
        rows.append((r.group(1), (rd, g, b, a)))
    return rows


# ------------------------------------------------------------------------------------------ output

def generate(repo):
    del STALE[:]
    _LATTR.clear()
    lay = Layout(repo)
    lay.repo = repo
    kinds = [extract_kind(repo, lay, k) for k in KINDS]
    cols = colour_table(repo)
    L = []
    L.append("/- GENERATED by translate/layout_extract.py from mptplot/layout.h, mptplot/values.h,")
    L.append("   mptplot/layout/{axis,line,text,graph,world}_property.c, color_parse.c, lattr_set.c.")
    L.append("   Regenerated on every run of ./check C20; do not edit. -/")
    L.append("import MptModel.Impl.Layout")
    L.append("namespace Mpt.Layout.Gen")
    L.append("open Mpt.Layout")
    L.append("")
    L.append("/-- name table of `mpt_color_parse` -/")
    L.append("def colors : List NamedColor := [")
    L.append(",\n".join("  ⟨%s, ⟨%d, %d, %d, %d⟩⟩  -- %s" % (lean_str(n), c[0], c[1], c[2], c[3], n) for n, c in cols[:-1])
             + ("\n" if len(cols) > 1 else "")
             + "  ⟨%s, ⟨%d, %d, %d, %d⟩⟩]  -- %s" % (lean_str(cols[-1][0]), *cols[-1][1], cols[-1][0]))
    # comments after commas break the list: rebuild without trailing comments on continued lines
    L.pop()
    L.append("  " + ",\n  ".join("⟨%s /- %s -/, ⟨%d, %d, %d, %d⟩⟩" % (lean_str(n), n, *c) for n, c in cols) + "]")
    for k in kinds:
        L.append("")
        L.append("def %s : Kind where" % k.name)
        L.append('  name := "%s"' % k.name)
        L.append("  fields := [")
        L.append("    " + ",\n    ".join('⟨"%s", .%s, %s⟩' % (p, t, d) for (p, t), d in zip(k.fields, k.defaults)) + "]")
        L.append("  gets := [")
        L.append("    " + ",\n    ".join("⟨%s /- %s -/, %s, %d⟩" % (lean_str(n), n, lean_int(c), f) for n, c, f in k.gets) + "]")
        L.append("  matchLen := %s" % ("none" if k.match_len is None else "some %d" % k.match_len))
        L.append("  getAlias := [%s]" % ", ".join("(%s /- %s -/, %s /- %s -/)" % (lean_str(a), a, lean_str(b), b) for a, b in k.get_alias))
        L.append("  auto := [%s]" % ", ".join(k.auto))
        L.append("  sets := [")
        L.append("    " + ",\n    ".join("⟨[%s], %s⟩" % (", ".join("(%s /- %s -/, %s)" % (lean_str(n), n, "true" if ci else "false") for n, ci in names), act) for names, act in k.sets) + "]")
        L.append("  logAt := %s" % ("none" if not k.log_at else "some (%d, %d, %d)" % k.log_at))
        L.append("  clipAlias := %s" % ("none" if not k.clip_alias else "some (%s, [%s])" % (lean_str(k.clip_alias[0]), ", ".join(lean_str(x) for x in k.clip_alias[1]))))
        L.append("  single := [%s]" % ", ".join("⟨%s /- %s -/, %s, %d⟩" % (lean_str(n), n, lean_int(c), f) for n, c, f in k.single))
        L.append("  copyOwnType := %s" % ("true" if k.copy_own else "false"))
        L.append("  selfGuard := %s" % ("true" if k.self_guard else "false"))
        L.append("  dups := [%s]" % ", ".join(str(x) for x in k.dups))
    L.append("")
    L.append("def kinds : List Kind := [%s]" % ", ".join(k.name for k in kinds))
    L.append("")
    L.append("/-- hand-modelled helper functions whose source text differs from the modelled form -/")
    L.append("def staleHelpers : List String := [%s]" % ", ".join('"%s"' % x for x in STALE))
    L.append("")
    L.append("end Mpt.Layout.Gen")
    return "\n".join(L) + "\n"


def write(repo, path):
    text = generate(repo)
    old = open(path).read() if os.path.exists(path) else None
    if old != text:
        os.makedirs(os.path.dirname(path), exist_ok=True)
        tmp = path + ".tmp%d" % os.getpid()
        with open(tmp, "w") as f:
            f.write(text)
        os.replace(tmp, path)
    return text


if __name__ == "__main__":
    import sys
    sys.stdout.write(generate(sys.argv[1] if len(sys.argv) > 1 else "/repo"))
