"""Orchestration shared by all property checks: build, proof audit, correspondence, classification,
known findings, evidence, exit code."""
import hashlib
import importlib
import json
import os
import random
import re
import subprocess
import sys
import time

from . import build, run

VERIF = build.VERIF
ALLOWED_AXIOMS = {"propext", "Classical.choice", "Quot.sound"}
FORBIDDEN = re.compile(r"\bsorry\b|\badmit\b|^\s*axiom\s|native_decide|bv_decide|implemented_by|\bunsafe\s|@\[extern|maxHeartbeats\s+0")
LOCK = os.path.join(build.LEAN, "MptModel", "Props", "STATEMENTS.lock")


def strip_comments(src):
    out, i, depth = [], 0, 0
    n = len(src)
    while i < n:
        if src.startswith("/-", i):
            depth += 1
            i += 2
        elif depth and src.startswith("-/", i):
            depth -= 1
            i += 2
        elif depth:
            if src[i] == "\n":
                out.append("\n")
            i += 1
        elif src.startswith("--", i):
            while i < n and src[i] != "\n":
                i += 1
        else:
            out.append(src[i])
            i += 1
    return "".join(out)


def lean_files_of(prop):
    """every .lean file reachable from the property's Props file inside the project (import closure)"""
    seen, todo = [], ["MptModel.Props." + prop.id]
    for extra in getattr(prop, "lean_modules", []):
        todo.append(extra)
    while todo:
        mod = todo.pop()
        path = os.path.join(build.LEAN, *mod.split(".")) + ".lean"
        if path in seen or not os.path.exists(path):
            continue
        seen.append(path)
        for m in re.finditer(r"^import\s+(\S+)", open(path).read(), re.M):
            if m.group(1).startswith(("MptModel", "Driver")):
                todo.append(m.group(1))
    return sorted(seen)


def theorems_in(path):
    src = strip_comments(open(path).read())
    ns = []
    names = []
    for m in re.finditer(r"^(namespace|end|theorem)\s+(\S+)", src, re.M):
        kw, name = m.group(1), m.group(2)
        if kw == "namespace":
            ns.append(name)
        elif kw == "end" and ns and ns[-1] == name:
            ns.pop()
        elif kw == "theorem":
            names.append(".".join(ns + [name]))
    return names


def audit(prop):
    """returns dict(theorems=[..], bad=[(name, reason)], output=str)"""
    props_file = os.path.join(build.LEAN, "MptModel", "Props", prop.id + ".lean")
    res = {"theorems": [], "bad": [], "axioms": {}, "statements": {}}
    if not os.path.exists(props_file):
        res["bad"].append((prop.id, "no Props file"))
        return res
    names = theorems_in(props_file)
    res["theorems"] = names
    # source scan of the import closure
    for path in lean_files_of(prop):
        src = strip_comments(open(path).read())
        for ln_no, ln in enumerate(src.split("\n"), 1):
            if FORBIDDEN.search(ln):
                res["bad"].append((os.path.relpath(path, build.LEAN) + ":" + str(ln_no), "forbidden construct: " + ln.strip()[:80]))
    if not names:
        res["bad"].append((prop.id, "no theorems"))
        return res
    auditf = os.path.join(build.BUILD, "Audit_%s_%d.lean" % (prop.id, os.getpid()))
    with open(auditf, "w") as f:
        f.write("import MptModel.Props.%s\nset_option format.width 100000\n" % prop.id)
        for n in names:
            f.write('#print axioms %s\n' % n)
        for n in names:
            f.write('#check @%s\n' % n)
    r = subprocess.run(["lake", "env", "lean", auditf], cwd=build.LEAN, stdout=subprocess.PIPE, stderr=subprocess.STDOUT)
    out = r.stdout.decode(errors="replace")
    os.unlink(auditf)
    res["output"] = out[-4000:]
    if r.returncode != 0:
        res["bad"].append((prop.id, "audit file failed: " + out[-500:]))
    flat = re.sub(r"\n\s+", " ", out)
    for n in names:
        m = re.search(r"'%s' depends on axioms: \[([^\]]*)\]" % re.escape(n), flat)
        if m:
            ax = [a.strip() for a in m.group(1).split(",") if a.strip()]
        elif re.search(r"'%s' does not depend on any axioms" % re.escape(n), flat):
            ax = []
        else:
            res["bad"].append((n, "no axiom report"))
            continue
        res["axioms"][n] = ax
        extra = [a for a in ax if a not in ALLOWED_AXIOMS]
        if extra:
            res["bad"].append((n, "axioms beyond the trusted base: " + ", ".join(extra)))
    for m in re.finditer(r"^@?(\S+) : (.*)$", flat, re.M):
        if m.group(1) in names:
            res["statements"][m.group(1)] = hashlib.sha256(m.group(2).strip().encode()).hexdigest()[:16]
    # lock file: every locked theorem must still exist with the recorded statement
    lock = json.load(open(LOCK)) if os.path.exists(LOCK) else {}
    for n, h in lock.get(prop.id, {}).items():
        if n not in res["statements"]:
            res["bad"].append((n, "theorem in STATEMENTS.lock is missing"))
        elif res["statements"][n] != h:
            res["bad"].append((n, "statement differs from STATEMENTS.lock (weakened or changed)"))
    res["locked"] = sorted(lock.get(prop.id, {}).keys())
    return res


def relock(prop):
    a = audit(prop)
    lock = json.load(open(LOCK)) if os.path.exists(LOCK) else {}
    lock[prop.id] = a["statements"]
    json.dump(lock, open(LOCK, "w"), indent=1, sort_keys=True)
    return a


def load_findings():
    path = os.path.join(VERIF, "known-findings.txt")
    fs = []
    if os.path.exists(path):
        for ln in open(path):
            ln = ln.strip()
            m = re.match(r"finding: property=(\S+) key=(\S+) (.*)", ln)
            if m:
                fs.append({"property": m.group(1), "key": m.group(2), "text": m.group(3)})
    return fs


def shrink(prop, script, kind, runner, fixed=1, budget=120):
    """delta debugging on op lines (first `fixed` lines stay): halves first, then single lines;
    at most `budget` re-executions"""
    cur = list(script)
    runs = [0]

    def still(cand):
        if runs[0] >= budget or len(cand) < fixed:
            return False
        runs[0] += 1
        return runner(cand)["kind"] == kind

    # drop the tail behind the failing op, then chunks of decreasing size
    chunk = max(1, (len(cur) - fixed) // 2)
    while chunk >= 1 and runs[0] < budget:
        i = len(cur) - chunk
        progressed = False
        while i >= fixed and runs[0] < budget:
            cand = cur[:i] + cur[i + chunk:]
            if still(cand):
                cur = cand
                progressed = True
            i -= chunk
        if chunk == 1 and not progressed:
            break
        chunk = chunk // 2 if chunk > 1 else (1 if progressed else 0)
    return cur


class Check:
    def __init__(self, prop, tier, seed):
        self.prop, self.tier, self.seed = prop, tier, seed
        self.t0 = time.time()
        self.violations = []      # (replay path, note)
        self.known_hits = []
        self.stats = {"ok": 0, "drift": 0, "fault": 0, "c_ne_s": 0, "c_ne_m": 0, "m_ne_s": 0, "skipped": 0}
        self.samples = []
        self.notes = []

    # ---------------------------------------------------------------- building
    def parts(self):
        """a property may exercise several drivers (e.g. the C API and the C++ wrappers): the module itself
        plus the objects listed in its `extra_parts` (same attributes: area driver cxx corpus scripts nontrivial)"""
        return [self.prop] + list(getattr(self.prop, "extra_parts", []))

    def prepare(self):
        p = self.prop
        need_cxx = any(getattr(q, "cxx", False) for q in self.parts())
        self.objdir, self.binfo = build.build_objects(need_cxx=need_cxx)
        self.drvs = {}
        for q in self.parts():
            self.drvs[q.driver] = build.build_driver(q.driver, self.objdir, cxx=getattr(q, "cxx", False),
                                                     extra=getattr(q, "link_extra", ()))
        self.drv = self.drvs[p.driver]
        self.gen_error = None
        if hasattr(p, "generate"):
            try:
                p.generate(self)
            except Exception as e:  # BuildError or any translator-specific error class
                # the translator no longer understands the source: the tie is broken, but the model built from
                # the last good translation still runs, so the search for a failing input goes on
                self.gen_error = "%s: %s" % (type(e).__name__, e)
        exes = sorted({"mm_" + q.area for q in self.parts()})
        ok, out = build.lake_build(["MptModel.Props." + p.id] + exes)
        self.lake_ok, self.lake_out = ok, out
        if not ok:
            # is the model executable still available?  try the driver alone
            ok2, _ = build.lake_build(exes)
            self.model_ok = ok2
        else:
            self.model_ok = True

    def run_pair(self, scripts, part=None):
        q = part or self.prop
        c = run.run_batch([self.drvs[q.driver]], scripts, per_process=getattr(q, "per_process", None))
        m = run.run_batch([build.model_exe(q.area)], scripts, timeout=900)
        # the model is our own code: if IT died or timed out the script says nothing about the repository
        for i, mr in enumerate(m):
            if mr is None or mr[1] is not None:
                c[i] = ([], "skipped")
                self.model_trouble = getattr(self, "model_trouble", 0) + 1
        return c, m

    def classify(self, script, part=None):
        c, m = self.run_pair([script], part)
        return run.compare_script(script, c[0], m[0])

    # ---------------------------------------------------------------- reporting
    def write_replay(self, name, lines, note, part=None):
        os.makedirs(os.path.join(VERIF, "replays"), exist_ok=True)
        path = os.path.join(VERIF, "replays", "%s-%s.ops" % (self.prop.id, name))
        with open(path, "w") as f:
            f.write("# property=%s seed=%d tier=%s part=%s\n# %s\n" % (
                self.prop.id, self.seed, self.tier, (part or self.prop).driver, note.replace("\n", "\n# ")))
            for ln in lines:
                f.write(ln + "\n")
        return path

    def report(self, kind, script, res, name, part=None):
        """one failing script -> known finding or violation"""
        q = part or self.prop
        key = q.finding_key(script, res) if hasattr(q, "finding_key") else None
        for f in self.findings:
            if f["property"] == self.prop.id and key is not None and f["key"] == key:
                if f not in self.known_hits:
                    self.known_hits.append(f)
                return
        note = "%s at op %d (%s): %s" % (kind, res.get("line", -1), res.get("op"), res.get("detail"))
        path = self.write_replay(name, script, note, part)
        self.violations.append((path, note, kind))

    def finish(self, proof):
        p = self.prop
        wall = round(time.time() - self.t0, 2)
        for f in self.known_hits:
            print("KNOWN-FINDING: property=%s %s" % (p.id, f["text"]))
        nf = [v for v in self.violations if v[2] in ("fault", "c_ne_s", "m_ne_s")]
        rest = [v for v in self.violations if v not in nf]
        lines = []
        if nf:
            for path, note, kind in nf[:5]:
                lines.append("VIOLATION property=%s replay=%s" % (p.id, path))
        elif rest:
            path, note, kind = rest[0]
            lines.append("VIOLATION property=%s replay=%s no-failing-input-found" % (p.id, path))
        for ln in lines:
            print(ln)
        ev = {
            "property_id": p.id, "tier": self.tier, "seed": self.seed, "level": "proof",
            "coverage": {
                "obligations": proof["obligations"], "discharged": proof["discharged"],
                "checker_cmd": proof["checker_cmd"],
                "trusted_base": proof["trusted_base"],
                "theorems": proof["theorems"],
                "axioms": proof["axioms"],
                "evaluations": self.evaluations, "distinct_nontrivial": self.nontrivial,
                "rule": p.rule, "samples": self.samples[:6],
                "exhaustive": bool(getattr(self, "exhaustive", False)),
                "outcomes": self.stats,
                "distribution": getattr(self, "distribution", {}),
                "build": self.binfo,
                "known_findings_hit": [f["key"] for f in self.known_hits],
                "notes": self.notes + (["model driver died or timed out on %d scripts (counted as skipped)" % self.model_trouble]
                                       if getattr(self, "model_trouble", 0) else []),
            },
            "assumptions": p.assumptions,
            "wall_s": wall,
            "violations": len(self.violations),
        }
        # a run pointed at a scratch tree (VERIF_REPO, used by tools/mut.sh and tools/seedcheck.sh) must not
        # replace the evidence of /repo itself
        evdir = os.path.join(VERIF, "evidence") if os.path.realpath(build.REPO) == "/repo" and not os.environ.get("VERIF_COVER") \
            else os.path.join(VERIF, ".build", "evidence-scratch")
        os.makedirs(evdir, exist_ok=True)
        with open(os.path.join(evdir, p.id + ".json"), "w") as f:
            json.dump(ev, f, indent=1)
        print("%s %s tier=%s seed=%d: theorems %d/%d, scripts %d (non-trivial %d), outcomes %s, %.1fs" % (
            p.id, "FAIL" if lines else "ok", self.tier, self.seed, proof["discharged"], proof["obligations"],
            self.evaluations, self.nontrivial, self.stats, wall))
        return 1 if lines else 0

    def run_streams(self, part, streams, seen_nt):
        p = part
        CH = 4000
        for s in range(0, len(streams), CH):
            chunk = streams[s:s + CH]
            scripts = [x[1] for x in chunk]
            c, m = self.run_pair(scripts, part)
            for (name, script), cr, mr in zip(chunk, c, m):
                res = run.compare_script(script, cr, mr)
                self.evaluations += 1
                self.stats[res["kind"]] += 1
                if p.nontrivial(script, cr[0]):
                    key = hashlib.sha1("\n".join(script).encode()).digest()
                    if key not in seen_nt:
                        seen_nt.add(key)
                        self.nontrivial += 1
                        if len(self.samples) < 6 and (len(self.samples) < 3 or random.Random(len(seen_nt)).random() < 0.01):
                            self.samples.append({"script": [x[:300] for x in script[:12]], "code_output": [x[:300] for x in cr[0][:min(len(script), 12)]]})
                if hasattr(p, "tally"):
                    p.tally(self, script, cr[0])
                if res["kind"] in ("fault", "c_ne_s", "c_ne_m", "m_ne_s"):
                    # a listed known finding is matched on the unshrunk failure and costs nothing more
                    key0 = p.finding_key(script, res) if hasattr(p, "finding_key") else None
                    hit = [f for f in self.findings if f["property"] == self.prop.id and key0 is not None and f["key"] == key0]
                    if hit:
                        self.known_scripts = getattr(self, "known_scripts", 0) + 1
                        if hit[0] not in self.known_hits:
                            self.known_hits.append(hit[0])
                        continue
                    nkind = len([v for v in self.violations if v[2] == res["kind"]])
                    if nkind < 8:
                        small = script
                        if nkind < 2:
                            small = shrink(p, script, res["kind"], lambda sc: self.classify(sc, part), fixed=getattr(p, "fixed_lines", 1))
                            res2 = self.classify(small, part)
                            if res2["kind"] == res["kind"]:
                                res = res2
                            else:
                                small = script
                        self.report(res["kind"], small, res, "%s-%d-%s" % (res["kind"], self.seed, re.sub(r"\W+", "_", name)[:40]), part)

    # ---------------------------------------------------------------- main flow
    def execute(self):
        # one check of a property at a time: generated model files and the model executable are shared state
        import fcntl
        os.makedirs(build.BUILD, exist_ok=True)
        lockf = open(os.path.join(build.BUILD, "check-%s.lock" % self.prop.id), "w")
        fcntl.flock(lockf, fcntl.LOCK_EX)
        # watchdog: a check that does not finish is itself a result (a changed tree once sent a run into a loop
        # that could not be reproduced afterwards); the limits are far above the normal run times
        import signal
        limit = int(os.environ.get("VERIF_TIMEOUT", "2400" if self.tier == "quick" else "14400"))

        def _expired(_sig, _frm):
            import traceback
            where = "".join(traceback.format_stack(_frm)[-6:])
            path = self.write_replay("timeout", [], "the check did not finish within %d s; it was here:\n%s" % (limit, where))
            print("VIOLATION property=%s replay=%s no-failing-input-found" % (self.prop.id, path), flush=True)
            os._exit(1)
        signal.signal(signal.SIGALRM, _expired)
        signal.alarm(limit)
        try:
            return self._execute()
        finally:
            signal.alarm(0)
            lockf.close()

    def _execute(self):
        p = self.prop
        self.findings = load_findings()
        try:
            self.prepare()
        except build.BuildError as e:
            path = self.write_replay("build", [], "the code under test or the driver no longer builds:\n" + str(e)[:3000])
            print("VIOLATION property=%s replay=%s no-failing-input-found" % (p.id, path))
            self.evaluations = self.nontrivial = 0
            return 1
        # proof side
        proof = {"obligations": 0, "discharged": 0, "theorems": [], "axioms": {},
                 "checker_cmd": "lake build MptModel.Props.%s && lake env lean <#print axioms of every theorem>%s" % (
                     p.id, " && lake env leanchecker MptModel.Props.%s" % p.id if self.tier == "thorough" else ""),
                 "trusted_base": ["Lean 4.33.0 kernel", "axioms: propext, Classical.choice, Quot.sound (per theorem, see axioms)",
                                  "correspondence harness (differential execution of model and code)"] + list(getattr(p, "trusted", []))}
        proof_broken = None
        if self.gen_error:
            proof_broken = "translator error (model no longer regenerated from the source):\n" + self.gen_error[:3000]
        if not self.lake_ok:
            proof_broken = "lake build failed:\n" + self.lake_out[-3000:]
            a = {"theorems": [], "bad": [], "axioms": {}, "locked": []}
        else:
            a = audit(p)
            if a["bad"] and not proof_broken:
                proof_broken = "proof audit failed:\n" + "\n".join("%s: %s" % b for b in a["bad"])
            if self.tier == "thorough" and not proof_broken:
                r = subprocess.run(["lake", "env", "leanchecker", "MptModel.Props." + p.id], cwd=build.LEAN,
                                   stdout=subprocess.PIPE, stderr=subprocess.STDOUT)
                if r.returncode != 0:
                    proof_broken = "leanchecker rejected MptModel.Props.%s:\n%s" % (p.id, r.stdout.decode(errors="replace")[-2000:])
                else:
                    self.notes.append("leanchecker: accepted MptModel.Props." + p.id)
        names = sorted(set(a["theorems"]) | set(a.get("locked", [])))
        badnames = {b[0] for b in a["bad"]}
        proof["theorems"] = a["theorems"]
        proof["axioms"] = a["axioms"]
        proof["obligations"] = max(1, len(names))
        proof["discharged"] = 0 if not self.lake_ok else len([n for n in names if n in a["axioms"] and n not in badnames])
        if any(b[0] not in names for b in a["bad"]):
            proof["discharged"] = min(proof["discharged"], proof["obligations"] - 1)
        # correspondence
        self.evaluations = 0
        self.nontrivial = 0
        seen_nt = set()
        if self.model_ok:
            budget_scale = 4 if proof_broken else 1
            if proof_broken:
                self.notes.append("escalated: proof obligation broken, generator budgets x%d" % budget_scale)
            for part in self.parts():
                try:
                    streams = list(part.corpus(self)) + list(part.scripts(self.tier, self.seed, budget_scale))
                except Exception as e:  # a generator that reads the sources may fail on an edited tree
                    msg = "generator of part %s failed (%s: %s); only the corpus was run" % (part.driver, type(e).__name__, str(e)[:500])
                    self.notes.append(msg)
                    proof_broken = proof_broken or ("correspondence incomplete: " + msg)
                    streams = list(part.corpus(self))
                self.run_streams(part, streams, seen_nt)
        else:
            self.notes.append("model driver does not build; correspondence not run")
        if proof_broken and not [v for v in self.violations if v[2] in ("fault", "c_ne_s", "m_ne_s")]:
            path = self.write_replay("proof", [], proof_broken)
            self.violations.append((path, proof_broken, "proof"))
        if not self.samples:
            self.samples.append({"note": "no non-trivial script sampled"})
        return self.finish(proof)


def main(argv):
    if len(argv) >= 2 and argv[1] == "--setup":
        d, info = build.build_objects(need_cxx=True)
        print(info)
        ok, out = build.lake_build(["MptModel"])
        if not ok:
            print(out[-4000:])
            return 1
        man = json.load(open(os.path.join(VERIF, "MANIFEST.json")))
        for c in man.get("checks", []):
            prop = importlib.import_module("vlib.props." + c["property_id"].lower())
            ok, out = build.lake_build(["MptModel.Props." + prop.id, "mm_" + prop.area])
            print("setup", prop.id, "ok" if ok else "FAILED\n" + out[-1500:])
            try:
                build.build_driver(prop.driver, d, cxx=getattr(prop, "cxx", False), extra=getattr(prop, "link_extra", ()))
            except build.BuildError as e:
                print("setup", prop.id, "driver FAILED", str(e)[:1500])
        return 0
    if len(argv) < 2:
        print("usage: check <Cxx> [--tier quick|thorough] [--replay file] | --setup | --relock Cxx")
        return 2
    if argv[1] == "--relock":
        prop = importlib.import_module("vlib.props." + argv[2].lower())
        ok, out = build.lake_build(["MptModel.Props." + prop.id])
        if not ok:
            print(out[-3000:])
            return 1
        a = relock(prop)
        print(json.dumps(a["statements"], indent=1))
        print("bad:", a["bad"])
        return 0
    pid = argv[1]
    tier = os.environ.get("VERIF_TIER", "quick")
    replay = None
    i = 2
    while i < len(argv):
        if argv[i] == "--tier":
            tier = argv[i + 1]
            i += 2
        elif argv[i] == "--replay":
            replay = argv[i + 1]
            i += 2
        else:
            i += 1
    seed = int(os.environ.get("VERIF_SEED", "1"))
    prop = importlib.import_module("vlib.props." + pid.lower())
    chk = Check(prop, tier, seed)
    if replay:
        chk.findings = []
        chk.prepare()
        raw = open(replay).read()
        script = [ln for ln in raw.split("\n") if ln.strip() and not ln.startswith("#")]
        # several driver parts: the replay header names the part; otherwise take the first part whose model
        # driver understands the first op
        hint = re.search(r"part=(\S+)", raw.split("\n")[0] if raw else "")
        part = None
        for q in chk.parts():
            if hint and q.driver == hint.group(1):
                part = q
        if part is None:
            for q in chk.parts():
                c0, m0 = chk.run_pair([script[:1]], q)
                if m0[0][0] and m0[0][0][0] != "bad-op" and c0[0][0] and c0[0][0][0] != "bad-op":
                    part = q
                    break
        c, m = chk.run_pair([script], part)
        res = run.compare_script(script, c[0], m[0])
        for k, ln in enumerate(script):
            print("op   :", ln)
            print(" code:", c[0][0][k] if k < len(c[0][0]) else "(no output) " + str(c[0][1]))
            print(" modl:", m[0][0][k] if k < len(m[0][0]) else "(no output)")
        print("classification:", res)
        return 0 if res["kind"] in ("ok", "drift") else 1
    return chk.execute()
