"""Build the code under test from the repo's *current working tree* (sanitised objects,
cached by a hash of the sources), link the line-protocol drivers, build the Lean project."""
import fcntl
import hashlib
import json
import os
import re
import shutil
import subprocess
import sys
import time

VERIF = os.path.dirname(os.path.dirname(os.path.abspath(__file__)))
REPO = os.environ.get("VERIF_REPO", "/repo")
BUILD = os.path.join(VERIF, ".build")
LEAN = os.path.join(VERIF, "lean")
GUARD = "MPT_BASE_VERIF"

LIBS = ["mptcore", "mptio", "mptplot"]
CFLAGS = ["-O1", "-g", "-fsanitize=address,undefined", "-fno-sanitize=nonnull-attribute", "-fno-sanitize-recover=undefined",
          "-fno-omit-frame-pointer", "-D" + GUARD, "-w", "-fPIC"]
if os.environ.get("VERIF_COVER"):
    # measurement mode of tools/cover.py (never set by a registered command): line coverage of the library
    # under the generated scripts; the flag enters the tree hash, so these objects live in their own directory
    CFLAGS = CFLAGS + ["--coverage"]
INCS = ["-I" + os.path.join(REPO, d) for d in ("mptcore", "mptio", "mptplot", "mpt++", ".")]


class BuildError(Exception):
    pass


def _lock(name):
    os.makedirs(BUILD, exist_ok=True)
    f = open(os.path.join(BUILD, name + ".lock"), "w")
    fcntl.flock(f, fcntl.LOCK_EX)
    return f


def source_files():
    c, cxx, hdr = [], [], []
    for lib in LIBS + ["mpt++"]:
        for root, _dirs, files in os.walk(os.path.join(REPO, lib)):
            for fn in sorted(files):
                p = os.path.join(root, fn)
                if fn.endswith(".c"):
                    c.append(p)
                elif fn.endswith(".cpp"):
                    cxx.append(p)
                elif fn.endswith(".h"):
                    hdr.append(p)
    for fn in ("version.h", "libinfo.h"):
        p = os.path.join(REPO, fn)
        if os.path.exists(p):
            hdr.append(p)
    return sorted(c), sorted(cxx), sorted(hdr)


def tree_hash(files):
    h = hashlib.sha256()
    h.update(b"objcache-v2 ")      # bumped when the reuse rule changed (included .c files count as headers)
    h.update(" ".join(CFLAGS).encode())
    for p in files:
        h.update(p.encode())
        with open(p, "rb") as f:
            h.update(hashlib.sha256(f.read()).digest())
    return h.hexdigest()[:16]


def _compile_many(jobs, njobs=16):
    """jobs: list of argv; run in parallel; raise BuildError with stderr of the first failure"""
    procs = []
    errs = []
    pending = list(jobs)
    while pending or procs:
        while pending and len(procs) < njobs:
            argv = pending.pop()
            procs.append((argv, subprocess.Popen(argv, stdout=subprocess.PIPE, stderr=subprocess.STDOUT)))
        still = []
        for argv, p in procs:
            if p.poll() is None:
                still.append((argv, p))
            elif p.returncode != 0:
                errs.append((argv, p.stdout.read().decode(errors="replace")))
            else:
                p.stdout.close()
        procs = still
        if procs:
            time.sleep(0.01)
    if errs:
        raise BuildError("compile failed: %s\n%s" % (" ".join(errs[0][0]), errs[0][1][:4000]))


def build_objects(need_cxx=False):
    """compile every .c (and optionally .cpp) of the repo in place; returns (objdir, info)"""
    lock = _lock("objects")
    try:
        c, cxx, hdr = source_files()
        key = tree_hash(c + cxx + hdr)
        objdir = os.path.join(BUILD, "obj-" + key)
        # stale tree states are dropped (kept for two hours: concurrent checks of another tree state may use them)
        for d in os.listdir(BUILD):
            dp = os.path.join(BUILD, d)
            if d.startswith("obj-") and d != "obj-" + key and time.time() - os.path.getmtime(dp) > 7200:
                shutil.rmtree(dp, ignore_errors=True)
        fresh = not os.path.isdir(objdir)
        os.makedirs(objdir, exist_ok=True)
        os.utime(objdir)
        t0 = time.time()
        # per-file reuse: an object compiled for another tree state is taken over (hard link) when the source file,
        # every header of the tree and the flags are byte-identical; the key of each object is recorded in srchash.json
        hh = hashlib.sha256(" ".join(CFLAGS).encode())
        # source files that other source files #include ("decode_cobs_zpe.c" includes "decode_cobs.c") count as headers
        inc_names = set()
        for p in c + cxx:
            with open(p, "rb") as f:
                for mm in re.finditer(rb'#\s*include\s*"([^"]+\.(?:c|cc|cpp|cxx))"', f.read()):
                    inc_names.add(os.path.basename(mm.group(1).decode(errors="replace")))
        for p in hdr + [q for q in c + cxx if os.path.basename(q) in inc_names]:
            hh.update(os.path.relpath(p, REPO).encode())
            with open(p, "rb") as f:
                hh.update(hashlib.sha256(f.read()).digest())
        hdr_key = hh.hexdigest()

        def src_key(src):
            with open(src, "rb") as f:
                return hashlib.sha256(hdr_key.encode() + os.path.relpath(src, REPO).encode() + f.read()).hexdigest()
        keys = {os.path.relpath(src, REPO): src_key(src) for src in c + (cxx if need_cxx else [])}
        reused = 0
        if fresh and not os.environ.get("VERIF_COVER"):   # coverage objects carry their .gcda path: never shared
            donors = []
            for d in os.listdir(BUILD):
                jp = os.path.join(BUILD, d, "srchash.json")
                if d.startswith("obj-") and d != "obj-" + key and os.path.exists(jp):
                    try:
                        with open(jp) as f:
                            donors.append((os.path.getmtime(jp), os.path.join(BUILD, d), json.load(f)))
                    except (OSError, ValueError):
                        pass
            donors.sort(reverse=True)
            for rel, k in keys.items():
                oname = rel.replace("/", "__") + ".o"
                for _mt, ddir, dk in donors:
                    if dk.get(rel) == k and os.path.exists(os.path.join(ddir, oname)):
                        try:
                            os.link(os.path.join(ddir, oname), os.path.join(objdir, oname))
                        except OSError:
                            shutil.copy2(os.path.join(ddir, oname), os.path.join(objdir, oname))
                        reused += 1
                        break
        jobs = []
        for src in c:
            obj = os.path.join(objdir, os.path.relpath(src, REPO).replace("/", "__") + ".o")
            if not os.path.exists(obj):
                jobs.append(["gcc", "-std=gnu99"] + CFLAGS + INCS + ["-I" + os.path.dirname(src), "-c", src, "-o", obj])
        if need_cxx:
            for src in cxx:
                obj = os.path.join(objdir, os.path.relpath(src, REPO).replace("/", "__") + ".o")
                if not os.path.exists(obj):
                    jobs.append(["g++", "-std=gnu++11"] + CFLAGS + INCS + ["-I" + os.path.dirname(src), "-c", src, "-o", obj])
        if jobs:
            _compile_many(jobs)
        try:
            with open(os.path.join(objdir, "srchash.json")) as f:
                known = json.load(f)
        except (OSError, ValueError):
            known = {}
        if jobs or reused or not known:
            known.update(keys)
            with open(os.path.join(objdir, "srchash.json"), "w") as f:
                json.dump(known, f)
        # archives
        libc_a = os.path.join(objdir, "libmptc.a")
        objs_c = sorted(os.path.join(objdir, f) for f in os.listdir(objdir) if f.endswith(".c.o"))
        if jobs or reused or not os.path.exists(libc_a):
            if os.path.exists(libc_a):
                os.unlink(libc_a)
            subprocess.check_call(["ar", "rcs", libc_a] + objs_c)
        if need_cxx:
            libxx_a = os.path.join(objdir, "libmptxx.a")
            objs_x = sorted(os.path.join(objdir, f) for f in os.listdir(objdir) if f.endswith(".cpp.o"))
            if jobs or reused or not os.path.exists(libxx_a):
                if os.path.exists(libxx_a):
                    os.unlink(libxx_a)
                subprocess.check_call(["ar", "rcs", libxx_a] + objs_x)
        return objdir, {"tree_hash": key, "compiled": len(jobs), "reused": reused, "compile_s": round(time.time() - t0, 2)}
    finally:
        lock.close()


def build_driver(name, objdir, cxx=False, extra=()):
    """link harness/<name>.c|.cpp against the sanitised objects; returns the executable path"""
    lock = _lock("drv-" + name)
    try:
        src = os.path.join(VERIF, "harness", name + (".cpp" if cxx else ".c"))
        exe = os.path.join(objdir, name)
        hdir = os.path.join(VERIF, "harness")
        # any harness source may be #included by a driver: all of them are dependencies
        deps = [os.path.join(hdir, f) for f in os.listdir(hdir) if f.endswith((".c", ".cpp", ".h"))]
        deps += [os.path.join(objdir, "libmptc.a")] + ([os.path.join(objdir, "libmptxx.a")] if cxx else [])
        if os.path.exists(exe) and all(os.path.getmtime(exe) >= os.path.getmtime(d) for d in deps if os.path.exists(d)):
            return exe
        cc = ["g++", "-std=gnu++11"] if cxx else ["gcc", "-std=gnu99"]
        argv = cc + CFLAGS + INCS + ["-I" + os.path.join(VERIF, "harness"), src, "-o", exe]
        argv += list(extra)
        if cxx:
            argv += [os.path.join(objdir, "libmptxx.a")]
        argv += ["-Wl,--start-group", os.path.join(objdir, "libmptc.a"), "-Wl,--end-group", "-lm", "-ldl", "-lpthread"]
        r = subprocess.run(argv, stdout=subprocess.PIPE, stderr=subprocess.STDOUT)
        if r.returncode != 0:
            raise BuildError("link of %s failed:\n%s" % (name, r.stdout.decode(errors="replace")[:6000]))
        return exe
    finally:
        lock.close()


def lake_build(targets=("MptModel",)):
    """returns (ok, output)"""
    lock = _lock("lake")
    try:
        r = subprocess.run(["lake", "build"] + list(targets), cwd=LEAN, stdout=subprocess.PIPE, stderr=subprocess.STDOUT)
        return r.returncode == 0, r.stdout.decode(errors="replace")
    finally:
        lock.close()


def model_exe(area):
    return os.path.join(LEAN, ".lake", "build", "bin", "mm_" + area)


if __name__ == "__main__":
    d, info = build_objects(need_cxx="--cxx" in sys.argv)
    print(d, info)
