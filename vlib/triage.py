"""developer tool: run a property's streams and group failures (no shrinking, no evidence)"""
import collections, importlib, sys
from . import build, run, core

def main(pid, tier="quick", seed=1, show=3):
    prop = importlib.import_module("vlib.props." + pid.lower())
    chk = core.Check(prop, tier, seed)
    chk.prepare()
    if not chk.lake_ok:
        print(chk.lake_out[-2000:])
    streams, c, m = [], [], []
    for part in chk.parts():
        st = list(part.corpus(chk)) + list(part.scripts(tier, seed, 1))
        c1, m1 = chk.run_pair([s for _, s in st], part)
        streams += st
        c += c1
        m += m1
    groups = collections.defaultdict(list)
    findings = core.load_findings()
    known = {}
    for (name, script), cr, mr in zip(streams, c, m):
        res = run.compare_script(script, cr, mr)
        if res["kind"] not in ("ok", "drift") and hasattr(prop, "finding_key"):
            k0 = prop.finding_key(script, res)
            if any(f["property"] == prop.id and f["key"] == k0 for f in findings):
                known[k0] = known.get(k0, 0) + 1
                continue
        if res["kind"] != "ok":
            op = (res.get("op") or "").split()
            d = res.get("detail", "")
            key = (res["kind"], " ".join(op[:2]), d.split("\n")[0][:60] if res["kind"] == "fault" else "")
            groups[key].append((name, script, res, cr, mr))
    for key, items in sorted(groups.items(), key=lambda kv: -len(kv[1])):
        print("==== %s  x%d" % (key, len(items)))
        for name, script, res, cr, mr in items[:show]:
            print("  script:", script)
            print("   ", res)
            ln = res.get("line", 0)
            if ln < len(mr[0]):
                print("    model:", mr[0][ln])
            if ln < len(cr[0]):
                print("    code :", cr[0][ln])
    print("known findings hit:", known)
    print("total", len(streams), {k: len(v) for k, v in groups.items()})

if __name__ == "__main__":
    main(sys.argv[1], *(sys.argv[2:3] or ["quick"]), seed=int(sys.argv[3]) if len(sys.argv) > 3 else 1)
