"""Generator helpers shared by the property modules."""
import glob
import hashlib
import os
import random

from . import build


def rng(prop_id, tier, seed, stream):
    h = hashlib.sha256(("%s/%s/%d/%s" % (prop_id, tier, seed, stream)).encode()).digest()
    return random.Random(int.from_bytes(h[:8], "big"))


def hexs(bs):
    return bytes(bs).hex() if len(bs) else "-"


def corpus(prop_id):
    out = []
    for path in sorted(glob.glob(os.path.join(build.VERIF, "corpus", prop_id, "*.ops"))):
        lines = [ln.rstrip("\n") for ln in open(path) if ln.strip() and not ln.startswith("#")]
        out.append(("corpus:" + os.path.basename(path), lines))
    return out
