"""Run op scripts through a line-protocol driver (real code or Lean model) in batches,
survive sanitizer aborts, and compare the two output streams."""
import os
import re
import subprocess

ENV = dict(os.environ)
ENV.update({
    "LC_ALL": "C",
    "ASAN_OPTIONS": "detect_leaks=1:abort_on_error=0:exitcode=97:allocator_may_return_null=1:max_malloc_fill_size=1048576:malloc_fill_byte=190",
    "UBSAN_OPTIONS": "print_stacktrace=0:halt_on_error=1:exitcode=98",
    "LSAN_OPTIONS": "exitcode=96",
})
for k in list(ENV):
    if k.startswith("MPT_"):
        del ENV[k]

MARK = "# ---- "


def _fault_summary(stderr, rc):
    m = re.search(r"ERROR: AddressSanitizer: ([\w-]+)", stderr)
    if m:
        fn = re.search(r"#\d+ 0x[0-9a-f]+ in (\w+) (/\S+)", stderr)
        where = ""
        for mm in re.finditer(r"#\d+ 0x[0-9a-f]+ in (\w+) (\S+)", stderr):
            if "/repo/" in mm.group(2) or "harness" in mm.group(2):
                where = "@%s(%s)" % (mm.group(1), os.path.basename(mm.group(2)))
                break
        return "asan:%s%s" % (m.group(1), where)
    m = re.search(r"(\S+?):(\d+):\d+: runtime error: (.*)", stderr)
    if m:
        return "ubsan:%s:%s:%s" % (os.path.basename(m.group(1)), m.group(2), m.group(3)[:80])
    if "LeakSanitizer" in stderr:
        return "lsan:leak"
    return "exit:%d" % rc


MAX_FAULTS = 400


def run_batch(cmd, scripts, timeout=120, per_process=None, env_extra=None, max_faults=MAX_FAULTS):
    """scripts: list of list-of-lines.  Returns list of (lines, fault) per script where fault is
    None or a summary string (the process died inside that script; lines are what was printed)."""
    results = [None] * len(scripts)
    start = 0
    env = dict(ENV)
    if env_extra:
        env.update(env_extra)
    nfaults = 0
    while start < len(scripts):
        if nfaults >= max_faults:
            # the code under test dies on (almost) every script: enough evidence, do not restart forever
            for i in range(start, len(scripts)):
                results[i] = ([], "skipped")
            break
        end = len(scripts) if per_process is None else min(len(scripts), start + per_process)
        inp = []
        for i in range(start, end):
            inp.append(MARK + str(i))
            inp.extend(scripts[i])
        data = ("\n".join(inp) + "\n").encode()
        try:
            p = subprocess.run(cmd, input=data, stdout=subprocess.PIPE, stderr=subprocess.PIPE, env=env, timeout=timeout)
            out, err, rc = p.stdout.decode(errors="replace"), p.stderr.decode(errors="replace"), p.returncode
        except subprocess.TimeoutExpired as e:
            out = (e.stdout or b"").decode(errors="replace")
            err, rc = "timeout", -9
        cur = None
        seen = []
        for ln in out.split("\n"):
            if ln.startswith(MARK):
                cur = int(ln[len(MARK):])
                results[cur] = ([], None)
                seen.append(cur)
            elif cur is not None and ln != "":
                results[cur][0].append(ln)
        last = seen[-1] if seen else start
        died = rc != 0
        if died and rc == 96 and seen and seen[-1] == end - 1 and len(results[last][0]) >= len(scripts[last]):
            # leak report at exit: attribute to the batch's last script conservatively
            results[last] = (results[last][0], _fault_summary(err, rc))
            start = end
            continue
        if died:
            # a hang costs the whole timeout: a handful of them is enough evidence
            nfaults += 100 if rc == -9 else 1
            if results[last] is None:
                results[last] = ([], None)
            summary = "timeout" if rc == -9 else _fault_summary(err, rc)
            results[last] = (results[last][0], summary)
            start = last + 1
        else:
            for i in range(start, end):
                if results[i] is None:
                    results[i] = ([], "no-output")
            start = end
    return results


def sections(line):
    """'R a | C b | I c | S x ; y || z ; w' -> dict tag -> text"""
    d = {}
    for part in line.split(" | "):
        part = part.strip()
        if len(part) >= 1:
            tag, _, rest = part.partition(" ")
            d[tag] = rest
    return d


def spec_allows(ssec, r, c):
    """S section: alternatives 'R-text ; C-text' separated by ' || '; '*' matches anything"""
    for alt in ssec.split(" || "):
        ar, _, ac = alt.partition(" ; ")
        ar, ac = ar.strip(), ac.strip()
        if (ar == "*" or ar == r) and (ac == "*" or ac == c):
            return True
    return False


def compare_script(script, c_res, m_res, observable=("R", "C"), internal=("I",)):
    """Classify one script.  Returns dict(kind=..., line=idx, detail=...), kind in
    ok | fault | c_ne_s | c_ne_m | m_ne_s | drift"""
    c_lines, c_fault = c_res
    m_lines, _ = m_res
    if c_fault == "skipped":
        return {"kind": "skipped"}
    drift = None
    pending = None     # an observable code/model difference after which the scan went on
    for i in range(len(script)):
        if i >= len(c_lines):
            return {"kind": "fault", "line": i, "detail": c_fault or "truncated", "op": script[i],
                    "model": m_lines[i] if i < len(m_lines) else None}
        cl = c_lines[i]
        ml = m_lines[i] if i < len(m_lines) else "missing"
        if cl.startswith("FAULT"):
            return {"kind": "fault", "line": i, "detail": cl, "op": script[i], "model": ml}
        if cl == "bad-op" or ml == "bad-op" or cl.startswith("#"):
            if (cl == "bad-op") != (ml == "bad-op"):
                return pending or {"kind": "c_ne_m", "line": i, "detail": "bad-op mismatch: C=%r M=%r" % (cl, ml), "op": script[i]}
            continue
        cs, ms = sections(cl), sections(ml)
        if "S" in ms:
            r, c = cs.get("R", ""), cs.get("C", "")
            if not spec_allows(ms["S"], r, c):
                return {"kind": "c_ne_s", "line": i, "op": script[i],
                        "detail": "code: R %s | C %s   spec allows: %s" % (r, c, ms["S"]), "model": ml,
                        "after_drift": pending["line"] if pending else None}
            if not pending and not spec_allows(ms["S"], ms.get("R", ""), ms.get("C", "")):
                return {"kind": "m_ne_s", "line": i, "op": script[i], "detail": "model: %s" % ml}
        if pending:
            continue
        for t in observable:
            if cs.get(t) != ms.get(t):
                pending = {"kind": "c_ne_m", "line": i, "op": script[i],
                           "detail": "section %s: code=%r model=%r" % (t, cs.get(t), ms.get(t))}
                break
        if pending:
            # code and model part ways here.  When the spec allowed exactly one outcome for this op its
            # state does not depend on who was right, so later ops can still be judged against the spec
            # (a real violation further down is a better replay than "model drift").
            if "S" in ms and " || " not in ms["S"]:
                continue
            return pending
        for t in internal:
            if cs.get(t) != ms.get(t) and drift is None:
                drift = {"kind": "drift", "line": i, "op": script[i],
                         "detail": "section %s: code=%r model=%r" % (t, cs.get(t), ms.get(t))}
    if c_fault:
        return {"kind": "fault", "line": len(script), "detail": c_fault, "op": "(exit)"}
    return pending or drift or {"kind": "ok"}
