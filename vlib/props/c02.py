"""C02 — message stream integrity under arbitrary segmentation (framed encode queue -> wire -> framed decode queue)."""
from .. import gen
from . import c01

id = "C02"
area = "cqueue"
driver = "drv_cqueue"
cxx = False
fixed_lines = 2
lean_modules = ["Driver.Cqueue"]
CODECS = ["cobs", "cobs/r", "cobs/zpe", "cobs/zpe+r"]
CAPS = [8, 16, 64, 256, 300]
rule = ("framings: the four COBS variants everywhere, zero terminated command text and no codec (raw) in streams 3 and 4; "
        "scripts = 'eq new <codec> max= off=' + 'dq new <codec> max= off= align=' followed by a schedule of "
        "eq push/more/term/grow/align/take (write, flush: finished bytes move to the driver's wire), "
        "dq wire <n|code|frame|all> (deliver the next wire bytes: a count, up to the next block code byte, up to "
        "the next delimiter), dq recv/drain/shift/msg/peek/grow (receive) and a final 'sync'.  Stream 1 (exhaustive) = "
        "every message over {00,01,ff} up to length 3 followed by a fixed second message x 4 framings x capacity 8 x "
        "every wrap offset 0..7 of both queues, single-byte delivery; stream 2 (boundary) = message lists of 1..6 "
        "messages with run lengths from the C01 boundary set x cut sets {single byte, after every code byte, after "
        "every delimiter, random} x capacities {8,16,64,256,300} x wrap offsets {0,1,max-1,random} x alignments 0..15; "
        "stream 3 = random interleavings of write/flush/deliver/receive with small rings and no growth on the "
        "sender side (refusals, partial pushes); stream 4 = several small frames in one sender ring with partial "
        "flushes and 'eq align' (encoding in the upper part, out-of-band scratch wrap, second push); stream 5 = the real "
        "mpt_stream_push/flush/poll/dispatch over socket pairs ('st ...' ops, the driver forwards the bytes in the scripted "
        "sizes; compared with the spec only; the receiver is in turn mpt_stream_dispatch on a plain stream, the input object "
        "of mpt_stream_input ('st new <codec> input': streamDispatch of stream_input.c, 'st skip' = dispatch without handler) and "
        "mpt_stream_sync with a table of nine waiting commands ('st new <codec> wait': messages carry a reply id byte); "
        "'st abort' = mpt_stream_push(srm, 1, 0); the sender's socket is small and non-blocking: 'st flush' repeats mpt_stream_flush "
        "while the driver's transport takes the bytes over, 'st flush1' is one call into a socket nobody reads (partial "
        "writes, EAGAIN, write queue with offset), 'st eof' closes the receiver's connection after the delivery); stream 6 = message removal 'eq del k' (mpt_queue_push(qu, k, NULL)) on "
        "wrapped sender rings between pushes, terminations, partial flushes and 'eq align', COBS variants and raw.  A second "
        "driver part (harness/drvxx_cqueue.cpp) runs the queue scripts through the C++ wrappers encode_queue::push/trim and "
        "decode_queue::advance/current_message of mpt++/queue.cpp, and the plain glue scripts with the C++ input object "
        "io::stream::input (mpt++/io_stream.cpp, io_stream_input.cpp) as receiver.  Non-trivial = a script in "
        "which at least one frame was split across deliveries (a 'dq wire' ended inside a frame) AND the stored data "
        "of a ring wrapped (off+len>max in the code's output), counted per distinct script")
assumptions = [
    "libc memcpy/memmove/memset/realloc behave as specified; allocation never fails in the harness runs",
    "the transport between the queues is the driver's byte FIFO (no loss, no reordering): the property's 'carried as a byte stream'",
    "the address of the receive storage enters only through addr & 15 (pinned by the driver, passed to the model); growing "
    "the receive storage is done by the driver the way mpt_queue_resize does it, at the same address offset",
    "real OS behaviour of the stream glue (short reads, EAGAIN, POLLHUP) is exercised over a socketpair, not proved",
]
trusted = ["hand-written model MptModel/Impl/CodedQueue.lean (on top of the C13 ring model and the C01/C03 codec models) tied to "
           "mptcore/queue/queue_push.c, queue_recv.c, queue_shift.c, queue_peek.c, mptcore/message/message_get.c by "
           "harness/drv_cqueue.c and to mpt++/queue.cpp by harness/drvxx_cqueue.cpp (differential execution, all state fields "
           "and the storage compared); the glue (mptio/stream/stream_push.c, stream_flush.c, stream_poll.c, stream_dispatch.c, "
           "stream_input.c, stream_sync.c) is compared with the spec only"]


def corpus(chk):
    return gen.corpus(id)


def new_lines(codec, emax, eoff, dmax, doff, align):
    return ["eq new %s max=%d off=%d" % (codec, emax, eoff), "dq new %s max=%d off=%d align=%d" % (codec, dmax, doff, align)]


def off_choice(r, mx):
    return r.choice([0, 1, max(0, mx - 1), r.randrange(mx + 1)])


def write_msg(r, lines, m, grow=True, chunk="one"):
    """ops that write message m completely (with growth) or as far as the ring allows (without)"""
    for c in (c01.chunkings(r, m, chunk) if m else []):
        lines.append("eq push " + gen.hexs(c))
        if grow:
            if r.random() < 0.5:
                lines.append("eq more")
            lines.append("eq grow %d" % (2 * len(c) + 16))
            lines.append("eq more")
        else:
            lines.append("eq more")
    if grow:
        lines.append("eq grow %d" % r.choice([3, 300]))
    lines.append("eq term")


def deliver(r, lines, how, bound):
    """deliver what is on the wire in the cut style `how`; `bound` = upper bound of the wire length"""
    if how == "bytes":
        for _ in range(bound):
            lines.append("dq wire 1")
            lines.append(r.choice(["dq drain", "dq drain", "dq recv"]))
    elif how in ("code", "frame"):
        for _ in range(bound):
            lines.append("dq wire " + how)
            lines.append("dq drain")
    else:
        left = bound
        while left > 0:
            n = r.choice([1, 2, 3, 5, 8, 13, 40, 100, 300])
            lines.append("dq wire %d" % n)
            lines.append(r.choice(["dq drain", "dq drain", "dq recv", "dq shift"]))
            left -= n


def finish(lines):
    lines += ["eq take 100000000", "dq wire all", "dq drain", "sync"]


def small_messages(r, codec, n):
    out = []
    for _ in range(n):
        k = r.choice([0, 1, 2, 3, 5, 9, 17])
        p0 = r.choice([0.0, 0.2, 0.5, 0.8])
        out.append([0 if r.random() < p0 else r.choice([1, 2, 7, 0x1f, 0x20, 0xdf, 0xe0, 0xe1, 0xff, r.randrange(1, 256)]) for _ in range(k)])
    return out


def scripts(tier, seed, scale=1):
    out = []
    # ---- stream 1: exhaustive small scope
    msgs = [[]]
    fr = [[]]
    for _ in range(3):
        fr = [m + [a] for m in fr for a in (0, 1, 0xff)]
        msgs.extend(fr)
    r0 = gen.rng(id, tier, seed, "exhaustive")
    for codec in CODECS:
        for off in range(8):
            for k, m in enumerate(msgs):
                lines = new_lines(codec, 8, off, 8, (off * 3 + k) % 8, (off * 5 + k) % 16)
                for mm in (m, [0x41, 0, 0, 0x42]):
                    write_msg(r0, lines, mm, grow=True)
                    lines.append("eq take 100")
                deliver(r0, lines, "bytes", len(m) + 4 + 8)
                finish(lines)
                out.append(("ex:%s:%d:%s" % (codec, off, gen.hexs(m)), lines))
    # ---- stream 2: boundary-directed message lists x cut sets x capacities x offsets
    r = gen.rng(id, tier, seed, "boundary")
    nb = (75 if tier == "quick" else 1250) * scale
    for k in range(nb):
        for codec in CODECS:
            how = r.choice(["bytes", "code", "frame", "rand", "rand"])
            nm = r.choice([1, 2, 3, 4, 6])
            if how == "bytes":
                ms = small_messages(r, codec, nm)
                if r.random() < 0.3:
                    ms[r.randrange(len(ms))] = [7] * r.choice([30, 31, 32, 60])
            else:
                ms = [c01.structured(r, codec) for _ in range(nm)]
                if how == "code" or r.random() < 0.5:
                    ms = [m[:r.choice([5, 40, 260, 600])] for m in ms]
            emax, dmax = r.choice(CAPS), r.choice(CAPS)
            lines = new_lines(codec, emax, off_choice(r, emax), dmax, off_choice(r, dmax), r.randrange(16))
            bound = 0
            pend = 0
            for m in ms:
                write_msg(r, lines, m, grow=True, chunk=r.choice(["one", "one", "rand"]))
                pend += c01.enc_len(codec, len(m)) + 1
                if r.random() < 0.7:
                    # flush (possibly only part of the finished data) and deliver
                    lines.append("eq take %d" % r.choice([100000000, 100000000, 1, 3, max(1, pend // 2)]))
                    if r.random() < 0.6:
                        deliver(r, lines, how, pend if how in ("bytes", "rand") else min(pend, 2 + len(m) // 20 + m.count(0)))
                        pend = 0
            lines.append("eq take 100000000")
            deliver(r, lines, how, pend if how in ("bytes", "rand") else min(pend, 40))
            finish(lines)
            out.append(("bd:%s:%s:%d" % (codec, how, k), lines))
    # ---- stream 3: random interleavings on small rings, sender without growth
    r = gen.rng(id, tier, seed, "random")
    nr = (150 if tier == "quick" else 2500) * scale
    for k in range(nr):
        codec = r.choice(CODECS + CODECS + ["raw", "command", "command"])
        emax, dmax = r.choice([8, 16, 16, 64]), r.choice([8, 16, 64])
        lines = new_lines(codec, emax, off_choice(r, emax), dmax, off_choice(r, dmax), r.randrange(16))
        for _ in range(r.choice([3, 6, 12])):
            m = small_messages(r, codec, 1)[0]
            if r.random() < 0.3:
                m = m + [r.randrange(256) for _ in range(r.choice([10, 40]))]
            if codec == "command" and r.random() < 0.85:
                m = [b if b else 0x2e for b in m]
            if m:
                lines.append("eq push " + gen.hexs(m))
            for _ in range(r.choice([0, 1, 3])):
                ev = r.choice(["take", "take", "more", "wire", "drain", "align", "grow", "recv", "peek", "msg", "shift", "dgrow"])
                if ev == "take":
                    lines.append("eq take %d" % r.choice([1, 2, 5, 100]))
                elif ev == "more":
                    lines.append("eq more")
                elif ev == "wire":
                    lines.append("dq wire " + r.choice(["1", "2", "3", "7", "code", "frame", "100"]))
                elif ev == "drain":
                    lines.append("dq drain")
                elif ev == "recv":
                    lines.append("dq recv")
                    lines.append("dq msg")
                elif ev == "peek":
                    if codec != "command" or r.random() < 0.6:
                        lines.append("dq peek %d" % r.choice([0, 1, 4, 100]) + (" nodst" if r.random() < 0.4 else ""))
                    else:
                        lines.append("dq get %d %d %s" % (r.choice([0, 1, 3, 7, 20]), r.choice([0, 1, 2, 5, 9, 70]), r.choice(["vec", "vec", "novec"])))
                elif ev == "msg":
                    lines.append("dq msg")
                    if r.random() < 0.5:
                        lines.append("dq get %d %d %s" % (r.choice([0, 1, 3, 7, 20]), r.choice([0, 1, 2, 5, 9, 70]), r.choice(["vec", "vec", "novec"])))
                elif ev == "shift":
                    lines.append("dq shift")
                elif ev == "align":
                    lines.append("eq align %d" % r.randrange(emax + 1))
                elif ev == "dgrow":
                    lines.append("dq grow %d" % (dmax + r.choice([1, 8, 64])))
                else:
                    lines.append("eq grow %d" % r.choice([1, 8, 40]))
            # finish the message: make room until the rest and the terminator fit
            lines += ["eq more", "eq take 100", "eq more", "eq grow %d" % (2 * len(m) + 8), "eq more", "eq term"]
            if r.random() < 0.5:
                lines += ["eq take %d" % r.choice([1, 3, 100]), "dq wire " + r.choice(["1", "code", "frame", "5", "100"]), r.choice(["dq drain", "dq recv"])]
        finish(lines)
        out.append(("rnd:%s:%d" % (codec, k), lines))
    # ---- stream 4: sender side wrap-around: several small frames in one ring, partial flushes, no growth
    r = gen.rng(id, tier, seed, "wrap")
    nw = (400 if tier == "quick" else 6000) * scale
    for k in range(nw):
        codec = r.choice(CODECS + ["command"])
        emax = r.choice([12, 16, 16, 24, 40, 64, 300])
        lines = new_lines(codec, emax, off_choice(r, emax), 64, r.randrange(64), r.randrange(16))
        for _ in range(r.choice([4, 8, 16])):
            n = r.choice([1, 1, 2, 3, 5, 8]) if emax < 300 else r.choice([1, 3, 40, 120, 250, 270, 300])
            p0 = r.choice([0.0, 0.3, 0.6])
            m = [0 if r.random() < p0 else r.choice([1, 7, 0xe0, 0xff, r.randrange(1, 256)]) for _ in range(n)]
            if codec == "command" and r.random() < 0.85:
                m = [b if b else 0x2e for b in m]
            if r.random() < 0.25:
                lines.append("eq align %d" % r.randrange(emax + 1))
            lines.append("eq push " + gen.hexs(m))
            if r.random() < 0.3:
                lines.append("eq align %d" % r.randrange(emax + 1))
                lines.append("eq push " + gen.hexs([r.choice([0, 0, 1, 9]) for _ in range(r.choice([1, 2, 6, 300 if emax == 300 else 9]))]))
            lines.append("eq more")
            lines.append("eq term")
            lines.append("eq take %d" % r.choice([1, 2, 3, 4, 7, emax // 2, 100000]))
            lines.append("eq more")
            lines.append("eq term")
            if r.random() < 0.3:
                lines += ["dq wire " + r.choice(["1", "3", "code", "frame"]), "dq drain"]
        lines += ["eq take 100000", "eq more", "eq term"]
        finish(lines)
        out.append(("wrap:%s:%d" % (codec, k), lines))
    # ---- stream 7: preview with a non-zero data position: the first message is delivered, the decoder consumes it on the next
    # receive and then lacks work area for the zero pairs of the second frame in a full queue (MissingBuffer, no shift)
    r = gen.rng(id, tier, seed, "peekpos")
    for codec in ("cobs/zpe", "cobs/zpe+r"):
        for n in ((4, 6) if tier == "quick" else (3, 4, 5, 6, 8)):
            for dmax in ((8, 12) if tier == "quick" else (8, 10, 12, 16)):
                lines = new_lines(codec, 64, 0, dmax, r.randrange(dmax + 1), r.randrange(16))
                write_msg(r, lines, [7], grow=True)
                write_msg(r, lines, [1, 0, 0] * n, grow=True)
                lines += ["eq take 100000", "dq wire all", "dq recv", "dq msg", "dq recv", "dq peek 10", "dq peek 3 nodst", "dq peek 0",
                          "dq grow %d" % (dmax + 16), "dq peek 10", "dq wire all", "dq drain"]
                finish(lines)
                out.append(("peekpos:%s:%d:%d" % (codec, n, dmax), lines))
    # ---- stream 6: message removal (mpt_queue_push(qu, k, NULL)) on wrapped sender rings
    r = gen.rng(id, tier, seed, "del")
    nd = (150 if tier == "quick" else 2500) * scale
    for k in range(nd):
        codec = r.choice(CODECS + ["raw"])
        emax = r.choice([12, 16, 24, 40, 64])
        lines = new_lines(codec, emax, off_choice(r, emax), 64, r.randrange(64), r.randrange(16))
        for _ in range(r.choice([3, 6, 10])):
            n = r.choice([0, 0, 1, 1, 2, 3, 5])
            p0 = r.choice([0.0, 0.3, 0.6])
            m = [0 if r.random() < p0 else r.choice([1, 7, 0xe0, 0xff, r.randrange(1, 256)]) for _ in range(n)]
            if m:
                lines.append("eq push " + gen.hexs(m))
            ev = r.random()
            if ev < 0.35:
                # give up the message in progress, sometimes finished ones with it
                lines.append("eq del %d" % r.choice([1, 1, 1, 2, 3, 4]))
            elif ev < 0.8:
                lines += ["eq more", "eq term"]
                if r.random() < 0.3:
                    lines.append("eq del %d" % r.choice([1, 1, 2, 3, 5]))
            if r.random() < 0.4:
                lines.append("eq take %d" % r.choice([1, 2, 3, 4, 7, 100000]))
            if r.random() < 0.15:
                lines.append("eq align %d" % r.randrange(emax + 1))
        lines += ["eq del 1", "eq take 100000"]
        finish(lines)
        out.append(("del:%s:%d" % (codec, k), lines))
    # ---- stream 5: the stream glue (mpt_stream_push/flush/poll/dispatch) over socket pairs, spec comparison only
    r = gen.rng(id, tier, seed, "glue")
    ng = (90 if tier == "quick" else 1200) * scale
    for k in range(ng):
        codec = r.choice(CODECS)
        # receiver: mpt_stream_dispatch on a plain stream, the input object (stream_input.c), waiting commands (stream_sync.c)
        mode = ("", " input", " wait")[k % 3]
        lines = ["st new " + codec + mode]
        how = r.choice(["bytes", "rand", "rand", "all"])
        for _ in range(r.choice([1, 2, 3, 6])):
            m = small_messages(r, codec, 1)[0] if (how == "bytes" or r.random() < 0.5) else c01.structured(r, codec)[:r.choice([40, 300, 1200])]
            if mode == " wait":
                # replies: the id byte with the reply bit (ids 1..12; 0 would use up the fallback command)
                m = [0x80 | r.randint(1, 12)] + list(m)
            if m and r.random() < 0.2:
                # a message that is given up: nothing of it may reach the receiver
                junk = [r.choice([0, 7, 9, 255]) for _ in range(r.choice([1, 3, 40, 300]))]
                lines += ["st push " + gen.hexs(junk), "st abort"]
            for c in (c01.chunkings(r, m, r.choice(["one", "rand"])) if m else []):
                lines.append("st push " + gen.hexs(c))
            lines.append("st term")
            if r.random() < 0.7:
                lines.append("st flush")
                n = c01.enc_len(codec, len(m)) + 1
                while n > 0 and r.random() < 0.8:
                    d = 1 if how == "bytes" else r.choice([1, 2, 3, 7, 20, 64, 65, 300]) if how == "rand" else 100000
                    lines += ["st deliver %d" % d, "st poll"] + (["st skip"] if mode != " wait" and r.random() < 0.1 else []) + ["st dispatch"]
                    n -= d
        lines += ["st flush"] + (["st mem"] if r.random() < 0.5 else []) + ["st deliver 1000000"] + (["st eof"] if r.random() < 0.3 else []) + ["st poll", "st dispatch", "st sync"]
        out.append(("glue%s:%s:%d" % (mode.replace(" ", "-"), codec, k), lines))
    # messages larger than the sender's socket buffer: the flush writes in parts, the write queue wraps around
    for k in range((3 if tier == "quick" else 30) * scale):
        codec = r.choice(CODECS)
        mode = ("", " input", " wait")[k % 3]
        lines = ["st new " + codec + mode]
        for j in range(r.choice([2, 3, 5])):
            n = r.choice([700, 3000, 6000])
            m = [0x85 if mode == " wait" else 7] + [r.choice([0, 0, 1, 7, 255]) for _ in range(n)]
            for c in c01.chunkings(r, m, r.choice(["one", "rand"])):
                lines.append("st push " + gen.hexs(c))
                if r.random() < 0.3:
                    lines.append("st flush1")
            lines.append("st term")
            lines.append(r.choice(["st flush1", "st flush1", "st flush"]))
            if r.random() < 0.6:
                lines += ["st flush", "st deliver %d" % r.choice([1000, 5000, 100000]), "st poll", "st dispatch"]
        lines += ["st flush", "st deliver 1000000", "st poll", "st dispatch", "st sync"]
        out.append(("glue-big%s:%s:%d" % (mode.replace(" ", "-"), codec, k), lines))
    # the reader queue is enlarged (mpt_stream_poll / mpt_stream_dispatch: mpt_queue_prepare(64)) while its content wraps
    # with more than 1 KiB on each side of the wrap point: a long message first, then two back to back
    for j, codec in enumerate(CODECS[:2] if tier == "quick" else CODECS * 3):
        mode = ("", " input", " wait")[j % 3]
        sizes = [2500, 1300, 2600] if j < 4 else [r.randrange(1200, 3000) for _ in range(3)]
        seg = 500 if j < 4 else r.choice([300, 500, 700, 1100])
        lines = ["st new " + codec + mode]
        for i, n in enumerate(sizes):
            m = [0x85 if mode == " wait" else 7] + [0 if r.random() < 0.04 else r.randrange(1, 256) for _ in range(n - 1)]
            lines += ["st push " + gen.hexs(m), "st term"]
            if i != 1:
                lines.append("st flush")
                for _ in range((sum(sizes[:i + 1]) * 2) // seg + 2 if i else (n * 2) // seg + 2):
                    lines += ["st deliver %d" % seg, "st poll", "st dispatch"]
        lines += ["st deliver 1000000", "st poll", "st dispatch", "st sync"]
        out.append(("glue-grow%s:%s:%d" % (mode.replace(" ", "-"), codec, j), lines))
    # a flush in the middle of a message, then a frame that ends exactly at the end of the write buffer: the encoder goes
    # on at the start of the storage, the finished data wraps and is written in two parts (lengths around the exact fit)
    for codec in CODECS[:2] if tier == "quick" else CODECS:
        for n in range(250, 259):
            a = [1 + (i * 7) % 250 for i in range(n)]
            a[10] = 0
            lines = ["st new " + codec, "st push " + gen.hexs(a[:11]), "st flush", "st push " + gen.hexs(a[11:]), "st term",
                     "st push 070809", "st term", "st push 4142", "st term", "st flush", "st push 1020003040", "st term", "st flush"]
            for _ in range(6):
                lines += ["st deliver 50", "st poll", "st dispatch"]
            lines += ["st deliver 1000000", "st poll", "st dispatch", "st sync"]
            out.append(("glue-fit:%s:%d" % (codec, n), lines))
    # the write queue wraps around after a partial write and is flushed in two parts
    for codec in CODECS[:2] if tier == "quick" else CODECS:
        lines = ["st new " + codec, "st push " + gen.hexs([7, 0, 9] * 2000), "st flush1", "st push " + gen.hexs([1, 0] * 1500), "st term",
                 "st push " + gen.hexs([5] * 700), "st term", "st flush", "st deliver 1000000", "st poll", "st dispatch", "st sync"]
        out.append(("glue-wrap:%s" % codec, lines))
    # full blocks that end exactly at the end of the write queue (the encoder takes a byte back and consumes nothing)
    for codec in CODECS:
        full = 222 if "zpe" in codec else 254
        for n1 in range(full - 2, full + 3):
            for n2 in (full - 1, full, full + 46):
                for mode in ("", " input", " wait"):
                    lines = ["st new " + codec + mode, "st push " + gen.hexs([0x87 if mode == " wait" else 7] + [7] * (n1 - 1)), "st term",
                             "st push " + gen.hexs([0x89 if mode == " wait" else 9] + [9] * (n2 - 1)), "st term",
                             "st flush", "st deliver 300", "st poll", "st dispatch", "st deliver 1000000", "st poll", "st dispatch", "st sync"]
                    out.append(("glue-full%s:%s:%d:%d" % (mode.replace(" ", "-"), codec, n1, n2), lines))
    return out


class _XX:
    """second part: the C++ wrappers encode_queue::push/trim, decode_queue::advance/current_message/pending_message
    (mpt++/queue.cpp) through harness/drvxx_cqueue.cpp: the queue scripts of the first part with 'eq take' -> 'eq trim',
    'dq recv' -> 'dq advance', 'dq drain' -> 'dq xdrain'"""
    id = "C02"
    area = "cqueue"
    driver = "drvxx_cqueue"
    cxx = True
    fixed_lines = 2

    @staticmethod
    def corpus(chk):
        return [(n, _XX.convert(s)) for n, s in gen.corpus(id) if s and (s[0].startswith("eq new") or _XX.plain_glue(s))]

    @staticmethod
    def plain_glue(lines):
        return bool(lines) and lines[0].startswith("st new") and len(lines[0].split()) == 3

    @staticmethod
    def convert(lines):
        out = []
        for ln in lines:
            w = ln.split()
            if w[0] == "eq" and w[1] == "take":
                out.append("eq trim " + ("all" if int(w[2]) >= 100 else w[2]))
            elif ln == "dq recv":
                out.append("dq advance")
            elif ln == "dq drain":
                out.append("dq xdrain")
            elif w[0] == "dq" and w[1] in ("peek", "shift", "feed", "get"):
                continue
            elif w[0] == "st":
                # the C++ input object io::stream::input as receiver of the glue scripts
                if w[1] in ("new", "push", "term", "flush", "deliver", "poll", "dispatch", "sync"):
                    out.append(ln)
            else:
                out.append(ln)
        return out

    @staticmethod
    def scripts(tier, seed, scale=1):
        out = []
        for k, (name, lines) in enumerate(scripts(tier, seed, scale)):
            if _XX.plain_glue(lines):
                out.append(("xx:" + name, _XX.convert(lines)))
                continue
            if not lines or not lines[0].startswith("eq new") or " raw " in lines[0]:
                continue
            # every third script of the exhaustive stream, every script of the other streams
            if name.startswith("ex:") and k % 3:
                continue
            out.append(("xx:" + name, _XX.convert(lines)))
        return out

    nontrivial = staticmethod(lambda script, c_lines: nontrivial(script, c_lines))
    tally = staticmethod(lambda chk, script, c_lines: tally(chk, script, c_lines))
    finding_key = staticmethod(lambda script, res: "xx:" + finding_key(script, res))


extra_parts = [_XX]


def _fields(ln):
    i = ln.find("| I ")
    if i < 0:
        return {}
    return dict(x.split("=", 1) for x in ln[i + 4:].split() if "=" in x)


def nontrivial(script, c_lines):
    if script and script[0].startswith("st new"):
        # glue: a delivery that completed no frame was followed by one that did
        part = False
        for op, ln in zip(script, c_lines):
            if op == "st dispatch":
                if ln.startswith("R msgs=- "):
                    part = True
                elif part:
                    return True
        return False
    split = False
    wrapped = False
    for op, ln in zip(script, c_lines):
        if op.startswith("dq wire") and " end=mid" in ln:
            split = True
        f = _fields(ln)
        try:
            if int(f["len"]) > 0 and int(f["off"]) + int(f["len"]) > int(f["max"]):
                wrapped = True
        except (KeyError, ValueError):
            pass
    return split and wrapped


def tally(chk, script, c_lines):
    chk.exhaustive = True   # stream 1 enumerates its stated scope completely
    d = chk.__dict__.setdefault("distribution", {})
    codec = script[0].split()[2] if script and len(script[0].split()) > 2 else "?"
    d[codec] = d.get(codec, 0) + 1
    for op, ln in zip(script, c_lines):
        w = op.split()
        if len(w) >= 2 and w[0] in ("eq", "dq"):
            k = w[0] + " " + w[1]
            d[k] = d.get(k, 0) + 1
        if ln.startswith("R refused") or "ret=MissingBuffer" in ln[:40]:
            d["refused"] = d.get("refused", 0) + 1
        if ln.startswith("R msgs=") and not ln.startswith("R msgs=- "):
            d["delivered"] = d.get("delivered", 0) + 1


def finding_key(script, res):
    op = (res.get("op") or "").split()
    codec = script[0].split()[2] if script and len(script[0].split()) > 2 else "?"
    return "%s:%s:%s" % (res["kind"], codec, " ".join(op[:2]))
