"""C12 — each request is answered at most once, to the right requester."""
import itertools

from .. import gen
from .. import run as _run

id = "C12"
area = "reply"
driver = "drv_reply"
cxx = False
fixed_lines = 2
link_extra = ("-Wl,--wrap=malloc", "-Wl,--wrap=realloc")
rule = ("kinds of scripts. stream: 's open <idlen> [ro]' (mpt_stream_input on a socketpair, the driver is the peer; ro = stream "
        "that cannot be written), then for 7 "
        "kinds of id header (zero, 1, 7fff.., reply-marked, ff.., 0100.., too short) a request frame handled by a scripted handler "
        "running EVERY act list up to length 3 over {reply:4142, reply:-, replynull, defer, ret:0, ret:-4, ret:5 (Default|Terminate flags)}, header widths "
        "0,1,2,3,8,9, plus 300-byte payloads and width 255/256; failing transport: every act list up to length 3 over {replyfail (the "
        "stream's write queue cannot grow: realloc wrapped, 1st growth), replyfail2 (2nd growth inside a 600-byte message: the "
        "started frame is taken back), reply, replynull, defer, ret} with at least one failing attempt, on the first request of "
        "a fresh stream / connection, followed by a second request; connection: the same requests through mpt_connection_dispatch on a "
        "stream-backed connection ('c open/req/dreply/close') and on a datagram socket ('c open <w> dgram', replies of 253..1000 bytes), "
        "deferred handles answered or dropped afterwards and after close, 'discard' = dispatch without handler; "
        "requester side: 'c await/send' resp. the C++ io::stream ('xr await/send/answer/sync/abort/close') with up to 3 (9 for "
        "follow-ups) requests in flight answered in every order incl. duplicates and unknown ids, through dispatch and through "
        "sync; reply commands that report failure (tags >= 900000) and commands that register a follow-up request from inside "
        "(tags 800000..899999), undecodable 9-byte ids; ids: 'r id2buf <id> <w>' followed by 'r buf2id <big-endian bytes of id>' for every id in "
        "{0,1,127,128,255,256, 2^k-1, 2^k, 2^k+1 for k = 15,16,23,24,31,32,39,40,47,48,55,56,63, 2^64-1} and seeded random "
        "ids x every width 0..9 (+ 16, 300), and buf2id on byte strings with leading zeros / 9-10 significant bytes; "
        "histories: 'r send <schedule>', 'r ctx <w>' then EVERY sequence of length <= 5 that starts with an arm (all sequences up to length 2; thorough: length 6 with the first two schedules) over "
        "{arm A, arm B, reply m, reply none, defer, dreply 0 m, dreply 1 m, drop 0, drop 1, drop ctx, creply} x 4 transport schedules "
        "(all ok; first fails; second fails; all fail), closed by 'drop 0, drop 1, drop ctx'; every sequence up to length 3 that "
        "contains one of {arm with NULL data, arm -, probe (interfaces of the context), reref (second reference released), "
        "creply with bad code / long text, defer with failing malloc, lreply (mpt_context_reply without context)}; plus seeded random histories of "
        "length 6..14 with header widths 0..9, over-long ids, contexts without transport pointer and malformed ops. "
        "non-trivial = a stream/connection request with a reply context whose handler replied more than once or not at all, or a reply through a deferred handle of a connection; an id script whose id needs the top bit or more than one byte (id >= 128), or a history in which the "
        "transport was called and a later answer attempt was refused / made no call, or a send was rejected; counted per "
        "distinct script")
assumptions = [
    "malloc/realloc fail only where the script injects it ('r defer nomem': the handle allocation; 'replyfail' acts: growth of "
    "the stream's write queue); mpt_log only formats its arguments",
    "the transport's send function is the harness callback: it logs id bytes and message and answers from the script's schedule",
    "handles are used as the API permits (no use of a deferred handle after it was released, no use of the context by the "
    "owner after `drop ctx`); the drivers answer bad-op for such lines",
    "ids are uint64_t; header widths up to 4096 bytes are exercised",
    "datagram connections without peer addresses (_smax = 0, socketpair); the address handling of mpt_outdata_recv/_reply is not exercised",
]
trusted = ["hand-written model MptModel/Impl/Reply.lean tied to mptcore/message/message_id.c, event/reply_deferrable.c, "
           "event/reply_set.c, event/context_reply.c by harness/drv_reply.c",
           "the mptio users of the scheme (stream_input.c, stream_reply.c, connection_dispatch.c stream and datagram branch, "
           "outdata_recv.c/outdata_reply.c, stream_sync.c) and mpt++/io_stream.cpp are tied to Impl/Reply.lean (StreamIn, "
           "Requester incl. failing and re-entrant reply commands) and to the driver-level compositions conActs / conAnswer "
           "(Driver/Reply.lean: arm, handler acts, generic reply) by harness/drv_reply.c / drvxx_reply.cpp over socketpairs",
           "mptio/output_remote.c is compiled into the driver's translation unit (its object type is private to the file): "
           "`c open <w> remote|rdgram` runs every connection op through the output object's input/output interfaces, `c sync` "
           "its sync (mpt_stream_sync resp. the datagram loop), `c probe` its conversions",
           "NOT covered: datagram sockets with peer addresses (_smax != 0), the logger/property interfaces of the output "
           "object beyond the probe, incomplete frames "
           "(stream_input.c streamDispatch read loop: property C02), allocation failure other than the two injected ones"]


def corpus(chk):
    return [(n, s) for n, s in gen.corpus(id) if not (s and s[0].startswith("xr "))]


def be(n, w):
    return gen.hexs(list((n % (256 ** w)).to_bytes(w, "big"))) if w else "-"


IDS = sorted(set([0, 1, 127, 128, 255, 256] + [2 ** k + d for k in (15, 16, 23, 24, 31, 32, 39, 40, 47, 48, 55, 56, 63) for d in (-1, 0, 1)]
                 + [2 ** 64 - 1, 2 ** 64 - 2]))
WIDTHS = list(range(0, 10)) + [16, 300]

A, B = "0102", "0304"
OPS = ["r arm " + A, "r arm " + B, "r reply 6d31", "r reply none", "r defer", "r dreply 0 6d32", "r dreply 1 6d33",
       "r drop 0", "r drop 1", "r drop ctx", "r creply 3 6869"]
# less frequent entry points, combined exhaustively only up to length 3
OPS2 = OPS + ["r arm self:0506", "r arm self:07", "r arm zero:2", "r arm -", "r probe", "r reref", "r creply -4 -", "r creply 200 61", "r defer nomem", "r lreply 2 6869", "r lreply -3 -", "r lreply 0 61", "r lreply -129 61"]
SCHEDS = ["r send", "r send fail", "r send ok fail", "r send fail fail fail fail fail fail fail fail"]
CLOSE = ["r drop 0", "r drop 1", "r drop ctx"]


def mkr(w, i):
    """reply id i for header width w (big-endian, reply mark set)"""
    return gen.hexs(list((i | (1 << (8 * w - 1))).to_bytes(w, "big"))) if w else ""


def scripts(tier, seed, scale=1):
    out = []
    r = gen.rng(id, tier, seed, "ids")
    ids = list(IDS) + [r.randrange(2 ** r.choice([8, 16, 33, 64])) for _ in range((40 if tier == "quick" else 400) * scale)]
    for n in ids:
        for w in WIDTHS:
            out.append(("id:%d/%d" % (n, w), ["r id2buf %d %d" % (n, w), "r buf2id " + be(n, w)]))
    for h in ["-", "00", "0000000000000000000000", "00ffffffffffffffff", "01ffffffffffffffff", "0100000000000000000",
              "010000000000000000", "80", "8000", "ff" * 8, "ff" * 9, "00" * 20 + "ff" * 8, "00" * 20 + "01" + "00" * 8, "7f", "0080"]:
        out.append(("buf:" + h[:20], ["r buf2id " + h, "r buf2id " + h]))
    # exhaustive histories
    top = 5 if tier == "quick" else 6
    for ln in range(1, top + 1):
        for seq in itertools.product(range(len(OPS)), repeat=ln):
            # a history starts by arming (anything else first is covered by the length-1/2 cases)
            if ln > 2 and seq[0] > 1:
                continue
            for si, sch in enumerate(SCHEDS if ln <= 5 else SCHEDS[:2]):
                out.append(("h:%s/%d" % ("".join("%x" % k for k in seq), si), [sch, "r ctx 2"] + [OPS[k] for k in seq] + CLOSE))
    for ln in (1, 2, 3):
        for seq in itertools.product(range(len(OPS2)), repeat=ln):
            if not any(k >= len(OPS) for k in seq):
                continue
            for si, sch in enumerate(SCHEDS[:3]):
                out.append(("h2:%s/%d" % (".".join("%x" % k for k in seq), si), [sch, "r ctx 2"] + [OPS2[k] for k in seq] + CLOSE))
    out.append(("h:longtext", ["r send", "r ctx 2", "r arm 0102", "r creply 1 " + "61" * 255, "r arm 0103", "r creply 1 " + "62" * 256,
                               "r arm 0104", "r creply 1 " + "63" * 300, "r creply 1 61", "r drop ctx"]))
    # stream-input variant over a socketpair: every act list up to length 3 x id kinds x header widths
    ACTS = ["reply:4142", "reply:-", "replynull", "defer", "ret:0", "ret:-4", "ret:5"]
    def ids(w):
        if w == 0:
            return ["", "61"]
        z = [0] * w
        out = [z, z[:-1] + [1], [0x7f] + [0xff] * (w - 1), [0x80] + z[1:-1] + ([9] if w > 1 else []), [0xff] * w, [1] + z[1:]]
        return [gen.hexs(x) if x else "" for x in out] + [gen.hexs(z[:-1])[:2 * (w - 1)]]      # last: header too short
    for w in (0, 1, 2, 3, 8, 9):
        for n in (1, 2, 3) if tier == "quick" else (1, 2, 3, 4):
            for seq in itertools.product(ACTS, repeat=n):
                if n >= 3 and w not in (2, 9):
                    continue
                lines = ["s open %d" % w]
                for k, idh in enumerate(ids(w)):
                    lines.append("s req %s %s" % ((idh + ["7a", "", "6100", "00"][k % 4]) or "-", ",".join(seq)))
                lines.append("s close")
                out.append(("s:%d/%s" % (w, "+".join(a.replace(":", "") for a in seq)), lines))
    # reply attempts the stream cannot take (its write queue may not grow: realloc wrapped; 1st growth = before the id,
    # 2nd growth = in the middle of a 600-byte message, which the stream has to take back): refused, nothing on the
    # wire, then retried / answered by default exactly once — first request of a fresh stream or connection
    BIG = "6b" * 600
    FACTS = ["replyfail:41", "replyfail:-", "replyfail2:" + BIG, "reply:4142", "replynull", "defer", "ret:-4"]
    for v in ("s", "c"):
        for w in (1, 2, 8):
            for n in (1, 2, 3):
                for seq in itertools.product(FACTS, repeat=n):
                    if not any(a.startswith("replyfail") for a in seq):
                        continue
                    idh = gen.hexs([0] * (w - 1) + [7])
                    lines = ["%s open %d" % (v, w), "%s req %s7a %s" % (v, idh, ",".join(seq)), "%s req %s7b reply:43" % (v, idh)]
                    if v == "c":
                        lines += ["c dreply 0 4444", "c dreply 0 none"]
                    lines.append("%s close" % v)
                    out.append(("%sf:%d/%s" % (v, w, "+".join(a.split(":")[0] + str(len(a)) for a in seq)), lines))
    # messages shorter than the id header (incl. the empty message), between ordinary requests
    for v in ("s", "c", "cd"):
        for w in (1, 2, 3, 9):
            opn = "c open %d dgram" % w if v == "cd" else "%s open %d" % (v, w)
            p = "c" if v == "cd" else v
            idh = gen.hexs([0] * (w - 1) + [5])
            lines = [opn, "%s req %s7a reply:41" % (p, idh)]
            for short in ["-"] + [gen.hexs([0] * k) for k in range(1, w)] + ([gen.hexs([0] * (w - 2) + [5])] if w > 1 else []):
                lines += ["%s req %s reply:42,ret:0" % (p, short), "%s req %s discard" % (p, short), "%s req %s7b ret:-4" % (p, idh)]
            lines.append("%s close" % p)
            out.append(("short:%s/%d" % (v, w), lines))
    # a stream that cannot be written (no transport to answer on): handlers run without reply context; the other
    # interfaces of the stream input (conversions, references, clone)
    for w in (0, 1, 2, 9):
        for seq in itertools.product(ACTS, repeat=2):
            lines = ["s open %d ro" % w, "s probe"]
            for k, idh in enumerate(ids(w)):
                lines.append("s req %s %s" % ((idh + ["7a", "", "6100", "00"][k % 4]) or "-", ",".join(seq)))
            lines += ["s req %s7b discard" % (ids(w)[1] if w else ""), "s req %s7c %s" % (ids(w)[1] if w else "", seq[1]),
                      "s probe", "s close", "s probe", "s open %d" % w, "s req %s7b discard" % (ids(w)[1] if w else ""), "s probe", "s req %s7a %s" % (ids(w)[1] if w else "", seq[0]), "s probe", "s close"]
            out.append(("sro:%d/%s" % (w, "+".join(a.replace(":", "") for a in seq)), lines))
    # stream-backed connection (connection_dispatch.c on the deferrable context): same requests, deferred handles
    # answered / dropped afterwards, also after the connection is closed
    for w in (0, 1, 2, 9):
        for n in (1, 2, 3):
            for seq in itertools.product(ACTS, repeat=n):
                if n >= 3 and w != 2:
                    continue
                lines = ["c open %d" % w]
                for k, idh in enumerate(ids(w)):
                    lines.append("c req %s %s" % ((idh + ["7a", "", "6100", "00"][k % 4]) or "-", ",".join(seq)))
                lines += ["c req %s discard" % ((i + "7a") or "-") for i in ids(w)]
                lines += ["c dreply 0 4444", "c dreply 0 none", "c dreply 1 none", "c dreply 2 -", "c close", "c dreply 3 46", "c dreply 4 none", "c req 0001 ret:0"]
                out.append(("c:%d/%s" % (w, "+".join(a.replace(":", "") for a in seq)), lines))
    # reply commands that register a follow-up request while they handle their reply (tags 800000..899999): with 8 and
    # more outstanding requests the command array has to grow (moves) during the call
    for w in (1, 2):
        for n in (1, 3, 8, 9):
            for first in range(1, min(n, 3) + 1):
                lines = ["c open %d" % w]
                for k in range(n):
                    lines += ["c await %d" % (800010 + 10 * k), "c send %02x" % (0x61 + k)]
                lines += ["c req %s41 ret:0" % mkr(w, first), "c send 7a", "c req %s42 ret:0" % mkr(w, n + 1), "c send 7b"]
                lines += ["c await 5", "c req %s43 ret:0" % mkr(w, (first % n) + 1), "c send 7c", "c req %s44 ret:0" % mkr(w, first), "c close"]
                out.append(("cfu:%d/%d/%d" % (w, n, first), lines))
    # the connection inside an mpt_output_remote() object (mptio/output_remote.c; stream-backed `remote`, datagram socket
    # `rdgram`), plain stream / datagram connections for comparison: requests with act lists, and the requester side
    # (await, send, replies taken by `c sync` = mpt_stream_sync resp. the output's own datagram loop, and by dispatch) with
    # replies in every order, duplicates, unknown ids, failing commands, datagrams that are no replies in between
    for mode in ("remote", "rdgram"):
        for w in (1, 2):
            for seq in itertools.product(ACTS, repeat=2):
                lines = ["c open %d %s" % (w, mode), "c probe"]
                for k, idh in enumerate(ids(w)):
                    lines.append("c req %s %s" % ((idh + ["7a", "", "6100", "00"][k % 4]) or "-", ",".join(seq)))
                lines += ["c req %s discard" % ((i + "7a") or "-") for i in ids(w)]
                lines += ["c dreply 0 4444", "c dreply 0 none", "c dreply 1 none", "c probe", "c close", "c dreply 2 46", "c probe"]
                out.append(("co:%s/%d/%s" % (mode, w, "+".join(a.replace(":", "") for a in seq)), lines))
    for mode in ("", " remote", " rdgram", " dgram"):
        for w in (1, 2):
            for n in (1, 2, 3):
                for order in itertools.product(range(1, n + 2), repeat=min(n + 1, 3)):
                    for via, base in (("sync", 10), ("sync1", 10), ("mixed", 10), ("sync1", 900010), ("req", 10)):
                        if mode == " dgram" and via != "req":
                            continue           # no sync function for a bare datagram connection
                        if mode in ("", " dgram") and via == "req" and base == 10 and mode == "":
                            continue           # covered by the cr: scripts
                        lines = ["c open %d%s" % (w, mode)]
                        for k in range(n):
                            lines += ["c await %d" % (base + k), "c send %02x" % (0x61 + k)]
                        frames = ["%s%02x" % (mkr(w, i), 0x41 + j) for j, i in enumerate(order)]
                        if via == "sync":
                            lines.append("c sync " + ",".join(frames))
                        else:
                            for j, fr in enumerate(frames):
                                lines.append("c sync " + fr if via == "sync1" or (via == "mixed" and j % 2) else "c req %s ret:0" % fr)
                        lines += ["c await 20", "c send 7a", "c sync %s55,%s56" % (mkr(w, 1), mkr(w, n + 1)) if mode != " dgram" else "c req %s55 ret:0" % mkr(w, 1),
                                  "c await 21", "c send 7b", "c req %s05 reply:41" % gen.hexs([0] * (w - 1) + [3]), "c close"]
                        out.append(("cs:%s/%d/%d/%s/%s%s" % (mode.strip() or "plain", w, n, "".join(map(str, order)), via, "F" if base > 10 else ""), lines))
    # the connection gets a new target (mpt_connection_assign -> close) while deferred handles are outstanding and commands
    # wait: the handles are detached, nothing of them may reach the new peer
    for mode in ("", " dgram", " remote", " rdgram"):
        for w in (1, 2):
            idh = gen.hexs([0] * (w - 1) + [7])
            for late in (["c dreply 0 6c617465"], ["c dreply 0 none"], ["c dreply 1 41", "c dreply 0 none"], ["c dreply 0 -", "c dreply 1 none"]):
                for wait in (0, 2):
                    lines = ["c open %d%s" % (w, mode), "c req %s7a defer" % idh, "c req %s7b reply:41" % idh, "c req %s7c defer,ret:-4" % idh]
                    for k in range(wait):
                        lines += ["c await %d" % (10 + k), "c send %02x" % (0x61 + k)]
                    lines += ["c reassign"] + late + ["c req %s7d reply:42" % idh, "c reassign", "c close", "c open %d%s" % (w, mode), "c req %s7e defer" % idh,
                                                     "c dreply 2 43", "c close"]
                    out.append(("cra:%s/%d/%d/%s" % (mode.strip() or "plain", w, wait, "+".join(x.split()[-1][:4] for x in late)), lines))
    # a datagram that is no reply while 1..9 commands wait (the output's sync reports how many)
    for w in (1, 2):
        for n in (1, 2, 3, 5, 9):
            idh = gen.hexs([0] * (w - 1) + [5])
            lines = ["c open %d rdgram" % w]
            for k in range(n):
                lines += ["c await %d" % (10 + k), "c send %02x" % (0x61 + k)]
            lines += ["c sync %s77" % idh, "c sync %s41,%s78" % (mkr(w, n), idh), "c sync %s42,%s79" % (mkr(w, 1), idh), "c close"]
            out.append(("cs:rdgram/wait/%d/%d" % (w, n), lines))
    for w in (1, 2):
        idh = gen.hexs([0] * (w - 1) + [5])
        out.append(("cs:rdgram/mix/%d" % w, ["c open %d rdgram" % w, "c sync %s41" % mkr(w, 1), "c sync %s77" % idh, "c await 10", "c send 61", "c await 11", "c send 62",
                                              "c sync %s41,%s77,%s42,%s,%s78" % (mkr(w, 1), idh, mkr(w, 2), "00" * w, idh), "c sync %s43" % mkr(w, 2),
                                              "c sync %s44" % mkr(w, 2), "c send 63", "c sync -", "c sync", "c close", "c sync 8141"]))
    # the same over a datagram socket (connection_dispatch.c datagram branch, mpt_outdata_recv / mpt_outdata_reply):
    # every datagram one message, replies are datagrams; long replies (more than the 256-byte reply buffer)
    for w in (0, 1, 2, 9):
        for n in (1, 2):
            for seq in itertools.product(ACTS, repeat=n):
                lines = ["c open %d dgram" % w]
                for k, idh in enumerate(ids(w)):
                    lines.append("c req %s %s" % ((idh + ["7a", "", "6100", "00"][k % 4]) or "-", ",".join(seq)))
                lines += ["c req %s discard" % ((i + "7a") or "-") for i in ids(w)]
                lines += ["c dreply 0 4444", "c dreply 0 none", "c dreply 1 none", "c dreply 2 -", "c await 5", "c send 61", "c close", "c dreply 3 46", "c dreply 4 none",
                          "c req 0001 ret:0"]
                out.append(("cd:%d/%s" % (w, "+".join(a.replace(":", "") for a in seq)), lines))
    for w in (1, 2, 8):
        idh = gen.hexs([0] * (w - 1) + [9])
        lines = ["c open %d dgram" % w]
        for ln in (253, 254, 255, 256, 257, 300, 1000):
            lines += ["c req %s7a reply:%s" % (idh, "6c" * (ln - w)), "c req %s7a reply:%s,reply:41" % (idh, "6d" * ln), "c req %s7b defer" % idh,
                      "c dreply %d %s" % ((ln - 253) if ln < 258 else (5 if ln == 300 else 6), "6e" * ln)]
        lines.append("c close")
        out.append(("cd:long/%d" % w, lines))
    # requester side of the C connection: requests with fresh ids, the peer's answers (ids with the mark) in every order
    def mk(w, i):
        return gen.hexs(list((i | (1 << (8 * w - 1))).to_bytes(w, "big"))) if w else ""
    for w in (1, 2, 4, 9):
        for n in (1, 2, 3):
            for order, base in itertools.product(itertools.product(range(1, n + 2), repeat=min(n + 1, 3)), (10, 900010)):
                if base > 10 and w in (4, 9):
                    continue
                lines = ["c open %d" % w]
                for k in range(n):
                    lines += ["c await %d" % (base + k), "c send %02x" % (0x61 + k)]
                for j, i in enumerate(order):
                    lines.append("c req %s%02x ret:0" % (mk(w, i), 0x41 + j))
                lines += ["c req %s66 discard" % mk(w, j + 1) for j in range(n)] + ["c req %s05 discard" % ("00" * (w - 1) if w else "")]
                if w == 9:
                    # a reply whose id does not decode (9 significant bytes) while handlers wait
                    lines += ["c req 81" + "ff" * 8 + "41 ret:0", "c req 81" + "ff" * 8 + "42 discard"]
                lines += ["c await 20", "c await 21", "c send 7a", "c req %s55 reply:41" % mk(w, n + 1), "c req %s01%s reply:4142" % ("00" * (w - 1), ""), "c close"]
                out.append(("cr:%d/%d/%s%s" % (w, n, "".join(map(str, order)), "F" if base > 10 else ""), lines))
    out.append(("s:long", ["s open 2", "s req 0007" + "61" * 300 + " reply:" + "62" * 300, "s req 0008" + "00" * 40 + " ret:-1", "s close",
                           "s open 256", "s open 255", "s req " + "01" * 255 + "63 replynull,replynull", "s close", "s close", "s req 00 ret:0"]))
    # random histories
    r = gen.rng(id, tier, seed, "random")
    nrand = (600 if tier == "quick" else 8000) * scale
    for k in range(nrand):
        w = r.choice([0, 1, 2, 2, 4, 8, 9, 70000 if r.random() < 0.02 else 3])
        lines = ["r send " + " ".join(r.choice(["ok", "ok", "fail"]) for _ in range(r.choice([0, 1, 3, 8]))),
                 "r ctx %d%s" % (w, " noptr" if r.random() < 0.1 else "")]
        nh = 0
        for _ in range(r.choice([6, 10, 14])):
            kind = r.choice(["arm", "arm", "reply", "reply", "defer", "dreply", "dreply", "drop", "dropctx", "send", "bad", "id", "creply", "misc"])
            msg = r.choice(["none", "-", "61", gen.hexs([r.randrange(256) for _ in range(r.choice([1, 2, 5]))])])
            if kind == "arm":
                ln = min(r.choice([w, w, w, max(0, w - 1), w + 1, 0]), 40)
                lines.append("r arm " + gen.hexs([r.choice([0, 0, 1, 0x7f, 0x80, 0xff, r.randrange(256)]) for _ in range(ln)]))
            elif kind == "reply":
                lines.append("r reply " + msg)
            elif kind == "defer":
                lines.append("r defer")
                nh += 1
            elif kind == "creply":
                lines.append("r creply %d %s" % (r.choice([0, 1, -1, -4, 127, -128, 128, 300]), gen.hexs([r.randrange(1, 256) for _ in range(r.choice([0, 1, 5]))])))
            elif kind == "misc":
                lines.append(r.choice(["r probe", "r reref", "r arm zero:%d" % r.choice([0, 1, w, w + 1]), "r creply x 61", "r creply 1 6100"]))
            elif kind == "dreply":
                lines.append("r dreply %d %s" % (r.randrange(nh + 1), msg))
            elif kind == "drop":
                lines.append("r drop %d" % r.randrange(nh + 1))
            elif kind == "dropctx":
                if r.random() < 0.4:
                    lines.append("r drop ctx")
            elif kind == "send":
                lines.append("r send " + " ".join(r.choice(["ok", "fail"]) for _ in range(r.choice([0, 1, 2, 4]))))
            elif kind == "id":
                n, ww = r.randrange(2 ** r.choice([7, 8, 15, 16, 63, 64])), r.choice(WIDTHS)
                lines += ["r id2buf %d %d" % (n, ww), "r buf2id " + be(n, ww)]
            else:
                lines.append(r.choice(["r reply", "r reply zz", "r arm", "r arm 1", "r dreply 0", "r dreply x 61", "r drop", "r drop -1",
                                       "r ctx", "r ctx x", "r send maybe", "r id2buf -1 2", "r id2buf 18446744073709551616 9", "r id2buf 1",
                                       "r buf2id", "r buf2id 1", "r nop", "m len", "r defer now", "r ctx 2 ptr"]))
        lines += CLOSE
        out.append(("rnd:%d" % k, lines))
    return out


class _XX:
    """second part: the C++ requester side, mpt++/io_stream.cpp (await / push / dispatch / sync) through
    harness/drvxx_reply.cpp, the driver being the answering peer on a socketpair"""
    id = "C12"
    area = "reply"
    driver = "drvxx_reply"
    cxx = True
    fixed_lines = 1
    link_extra = ["-fno-sanitize=vptr"]

    @staticmethod
    def corpus(chk):
        return [(n, s) for n, s in gen.corpus(id) if s and s[0].startswith("xr ")]

    @staticmethod
    def scripts(tier, seed, scale=1):
        out = []

        def mk(w, i):
            return gen.hexs(list((i | (1 << (8 * w - 1))).to_bytes(w, "big"))) if w else ""
        # exhaustive: up to 3 requests in flight, every order of answering (incl. duplicates and unknown ids),
        # through dispatch and through sync, header widths 1, 2, 8
        for w in (1, 2, 8):
            for n in (1, 2, 3):
                for order in itertools.product(range(1, n + 2), repeat=min(n + 1, 3)):
                    # tags from 900000 on: the reply command reports failure (returns -1) — the reply is still consumed
                    # and the command released, nothing is delivered twice by a later dispatch / sync
                    for via, base in (("answer", 10), ("sync", 10), ("mixed", 10), ("sync", 900010), ("mixed", 900010), ("answer", 900010), ("sync1", 10)):
                        if base > 10 and w == 8:
                            continue
                        lines = ["xr open %d" % w]
                        for k in range(n):
                            lines += ["xr await %d" % (base + k), "xr send %02x" % (0x61 + k)]
                        for j, i in enumerate(order):
                            op = via if via != "mixed" else ("sync" if j % 2 else "answer")
                            lines.append("xr %s %s%02x" % (op, mk(w, i), 0x41 + j))
                        lines += ["xr sync %s57" % mk(w, 1), "xr await 20", "xr send 7a", "xr answer %s55,%s56" % (mk(w, 1), mk(w, n + 1)), "xr close"]
                        out.append(("xr:%d/%d/%s/%s%s" % (w, n, "".join(map(str, order)), via, "F" if base > 10 else ""), lines))
        # commands that register a follow-up request while they handle their reply (tags 800000..899999)
        for w in (1, 2):
            for n in (1, 3, 8, 9):
                for via in ("answer", "sync"):
                    for first in range(1, min(n, 3) + 1):
                        lines = ["xr open %d" % w]
                        for k in range(n):
                            lines += ["xr await %d" % (800010 + 10 * k), "xr send %02x" % (0x61 + k)]
                        lines += ["xr %s %s41" % (via, mk(w, first)), "xr send 7a", "xr %s %s42" % (via, mk(w, n + 1)), "xr send 7b",
                                  "xr %s %s43" % (via, mk(w, (first % n) + 1)), "xr send 7c", "xr %s %s44" % (via, mk(w, first)), "xr close"]
                        out.append(("xfu:%d/%d/%s/%d" % (w, n, via, first), lines))
        # the C++ wrapper reply_data::set (mpt++/event.cpp) in front of mpt_reply_set: every sequence up to length 4 over
        # arm A / arm B / arm with length 0 / reply / reply none / drop ctx
        XOPS = ["xc arm 0102", "xc arm 0304", "xc arm -", "xc arm 010203", "xc reply 4142", "xc reply none", "xc drop ctx"]
        for ln in (1, 2, 3, 4):
            for seq in itertools.product(XOPS, repeat=ln):
                out.append(("xc:" + "".join(str(XOPS.index(o)) for o in seq), ["xc ctx 2"] + list(seq) + ["xc drop ctx", "xc arm 01", "xc ctx 1", "xc arm 05", "xc ctx x"]))
        out.append(("xr:idlen", ["xr open 0", "xr idlen 2", "xr await 3", "xr send 61", "xr answer 800141", "xr idlen 128", "xr idlen 129",
                                 "xr idlen 1", "xr await 4", "xr send 62", "xr answer 8242,8142", "xr idlen 0", "xr await 5", "xr close"]))
        out.append(("xr:misc", ["xr open 0", "xr await 1", "xr send 6162", "xr answer 6364", "xr sync 65", "xr close",
                                "xr open 2", "xr send 61", "xr answer 000568,00006a", "xr await 5", "xr abort", "xr send 62",
                                "xr sync 80014141,000177,80014242", "xr answer 8001", "xr close", "xr await 1", "xr open 256", "xr open x"]))
        # id space of a one-byte header: 127 requests, then ids are reused only when free
        lines = ["xr open 1"]
        for k in range(130):
            lines += ["xr await %d" % k, "xr send -"]
            if k % 3 == 0:
                lines.append("xr answer %02x" % (0x80 | ((k % 127) + 1)))
        lines += ["xr sync 81,82,83", "xr await 500", "xr send 61", "xr close"]
        out.append(("xr:idspace", lines))
        r = gen.rng(id, tier, seed, "xr-random")
        for k in range((300 if tier == "quick" else 4000) * scale):
            w = r.choice([1, 2, 2, 3, 8, 9])
            lines = ["xr open %d" % w]
            nreq = 0
            for _ in range(r.choice([5, 10, 20])):
                kind = r.choice(["req", "req", "answer", "answer", "sync", "ev", "send", "bad"])
                if kind == "req":
                    nreq += 1
                    lines += ["xr await %d" % r.randrange(100), "xr send " + gen.hexs([r.randrange(256) for _ in range(r.choice([0, 1, 3]))])]
                elif kind in ("answer", "sync"):
                    fs = []
                    for _ in range(r.choice([1, 1, 2, 3])):
                        i = r.choice([1, 2, 3, nreq, nreq + 1, r.randrange(1, 6)])
                        fs.append(mk(w, i) + gen.hexs([r.randrange(256) for _ in range(r.choice([0, 1, 2]))]).replace("-", ""))
                    lines.append("xr %s %s" % (kind, ",".join(fs)))
                elif kind == "ev":
                    lines.append("xr answer " + gen.hexs([0] * (w - 1) + [r.choice([0, 5])] + [r.randrange(256)]))
                elif kind == "send":
                    lines.append("xr send 61")
                else:
                    lines.append(r.choice(["xr await", "xr await x", "xr send", "xr answer", "xr answer 80", "xr sync ,", "xr frob", "xr answer zz"]))
            lines.append("xr close")
            out.append(("xrrnd:%d" % k, lines))
        return out

    @staticmethod
    def nontrivial(script, c_lines):
        # at least two requests were outstanding and a reply was routed to a handler
        waiting2 = any("waiting=2" in ln or "waiting=3" in ln for ln in c_lines)
        return waiting2 and any(ln.startswith("R ok") and "| C h" in ln and "(none)" not in ln for ln in c_lines)

    tally = staticmethod(lambda chk, script, c_lines: tally(chk, script, c_lines))
    finding_key = staticmethod(lambda script, res: finding_key(script, res))


extra_parts = [_XX]


def nontrivial(script, c_lines):
    sent = False
    for op, ln in zip(script, c_lines):
        w = op.split()
        if len(w) < 2 or not ln.startswith("R "):
            continue
        if w[1] == "id2buf" and len(w) == 4 and w[2].isdigit() and int(w[2]) >= 128:
            return True
        if w[0] == "c" and w[1] == "dreply" and "frame[" in ln:
            return True
        if w[0] in ("s", "c"):
            # a request with a reply context that was answered by default or saw a refused second attempt
            if w[1] == "req" and "ctx=1" in ln and ("refused" in ln or "acts=ret" in ln.replace("nodefer,", "") or "ok" not in _run.sections(ln).get("R", "")):
                return True
            continue
        sec = _run.sections(ln)
        c = sec.get("C", "-")
        if "->fail" in c:
            return True
        if w[1] in ("reply", "dreply", "drop") and sent and c == "-":
            return True
        if "send[" in c:
            sent = True
    return False


def tally(chk, script, c_lines):
    d = chk.__dict__.setdefault("distribution", {})
    for op, ln in zip(script, c_lines):
        w = op.split()
        k = w[1] if len(w) > 1 else "?"
        d[k] = d.get(k, 0) + 1
        if ln == "bad-op":
            d["bad-op"] = d.get("bad-op", 0) + 1
        elif "send[" in ln:
            d["transport-calls"] = d.get("transport-calls", 0) + ln.count("send[")
            d["transport-rejects"] = d.get("transport-rejects", 0) + ln.count("->fail")
        if ln.startswith("R refused"):
            d["refused"] = d.get("refused", 0) + 1


def finding_key(script, res):
    op = (res.get("op") or "").split()
    return "%s:%s" % (res["kind"], op[1] if len(op) > 1 else "?")
