"""C11 — event dispatch reaches exactly the registered handler."""
import itertools

from .. import gen

id = "C11"
area = "event"
driver = "drv_event"
cxx = False
fixed_lines = 1
rule = ("scripts = 'e new fb|nofb|builtin' followed by dispatcher ops (set/cset/clear/clearall/emit id|msg|cmd|none/hash/"
        "hashf (mpt_dispatch_hash with the message in fragments a,b,c, each fragment in a block of exactly its size)/"
        "emit cmd (the handler reached hands the message on with mpt_dispatch_hash and returns what that returned)/"
        "hashn (dispatch by hash without a message)/hold w k (k reservations in a row that stay outstanding, then released)/"
        "djb2 <hex> (mpt_hash_djb2 in C-string and counted mode)/rc on|off (events carry a reply context)/"
        "reentry <mode> <victims> (handlers whose end-of-life call unregisters another id, on a dispatcher of their own)/"
        "reserve/fini/drop (release the table through the array interface)/tcopy r (copy-construct the element of "
        "registration r through the content traits); second part: the C++ class mpt::dispatch (xe new/set/clear/get/"
        "setdef/seterr/reserve/emit/hash/del); the last operand of emit/hash is what the invoked handler returns, suffix z = it also "
        "clears the event id); stream 1 enumerates every history of length <= 3 (quick: 2) over the full alphabet and of "
        "length 3..5 (quick: 3..4) over the reduced one, over ids {0,1,2,djb2('a')} x handler results {0,1,2,3,-1,1z,3z}; stream 2 = "
        "boundary histories (ids 2^64-1/2^63/127/128/255/256, every reserve width, table growth at the 3rd/9th/"
        "14th element, raw tables created by reserve, sign-extended hash bytes, separators, white space); "
        "nested dispatch for every start mode x command registered/unregistered/without text x handler results, fragmented "
        "command messages split at every position into 2 and at every pair of positions into 3 fragments (header, leading "
        "blanks, inside the command word, empty fragments, texts around the 128-byte scratch buffer); "
        "stream 3 = random histories of 6..40 ops over up to 24 ids; non-trivial = the code's log shows an event "
        "delivered to a registered (non-fallback) handler and at least one end-of-life call, per distinct script")
assumptions = [
    "a handler answers with an int (flags or negative error) and may clear the event id, or re-enters the dispatcher exactly once through mpt_dispatch_hash on the same event and returns its result (emit cmd); end-of-life callbacks that unregister another id are driven on a dispatcher of their own (op reentry: judged against the property directly, not modelled); registering from inside a handler is not driven",
    "malloc never fails in the harness runs; the dispatcher's fallback reply context (_ctx) is NULL or the harness one (op ctx); events may carry a reply context of their own (op rc on: a harness context that swallows the replies)",
    "emitted messages are one contiguous part; messages dispatched by hash may come in up to 16 fragments (mpt_message_read/mpt_message_argv as modelled for C17 in Impl/Message.lean)",
    "for separators that are not graphic characters (white-space splitting) the command word is exact (text after leading white space up to the first white-space character) whenever it holds no quote character and is followed by a blank or the end of the message; only with quotes, or a form feed / zero byte right behind the word, the spec accepts any non-empty prefix of the payload (the quoting rules of mpt_memtok are mirrored by the model and compared with the code)",
    "the fallback is the harness handler (registration 0), none, or the library's built-in unknownEvent (start mode builtin; its answers are part of the spec vocabulary)",
    "a reserved element is activated by the caller (handler + argument set) before anything else happens",
    "mpt_hash is the default djb2 variant (no _mpt_hash_set call)",
]
trusted = ["hand-written model MptModel/Impl/Dispatch.lean tied to mptcore/event/*.c, misc/hash_djb2.c by harness/drv_event.c",
           "mpt++/event.cpp is exercised as a second driver part against the same model (compiled into the driver translation unit with -fno-sanitize=vptr: the command buffers are C objects with hand-made vtables)"]

M64 = (1 << 64) - 1


def corpus(chk):
    return [(n, s) for n, s in gen.corpus(id) if s and s[0].startswith("e ")]


def djb2(bs):
    h = 5381
    for b in bs:
        x = b if b < 128 else (b | (M64 ^ 0xff))
        h = ((h * 33) & M64) ^ x
    return h


HA = djb2(b"a")
RES_FULL = ["0", "1", "2", "3", "-1", "1z", "3z"]


def _alphabet_full():
    ops = []
    for i in (0, 1, 2):
        ops += ["e set %d" % i, "e cset %d" % i, "e clear %d" % i]
    ops += ["e set %d" % HA, "e clear %d" % HA, "e clearall", "e fini", "e reserve 1", "e reserve 0", "e drop", "e tcopy 1", "e tcopy 2"]
    for r in RES_FULL:
        for i in (0, 1, 2):
            ops.append("e emit id %d %s" % (i, r))
        ops.append("e emit msg 01ff %s" % r)
        ops.append("e emit msg 02 %s" % r)
        ops.append("e emit none %s" % r)
        ops.append("e hash 000061 %s" % r)          # Output header, text "a"
        ops.append("e hash 043a20613a62 %s" % r)    # Command header, sep ':', " a:b"
        ops.append("e emit cmd 000061 %s" % r)      # handler 0 hands the text "a" on
    ops += ["e emit msg - 1", "e hash 0000 1", "e hash 04 1", "e hash - 1", "e hash 00006100 1", "e hashn", "e hold 1 2", "e hold 1 130", "e tcopy 7"]
    return ops


def _alphabet_small(tier):
    return ["e set 1", "e set 2", "e cset 1", "e clear 1", "e clear 2", "e clearall", "e fini", "e reserve 1", "e drop",
            "e emit id 1 0", "e emit id 1 1", "e emit id 1 3z", "e emit id 1 -1", "e emit id 2 1", "e emit id 0 1",
            "e emit msg 01 3", "e emit none 0", "e emit none 1", "e emit none 1z", "e set %d" % HA,
            "e hash 000061 2"] + (["e hash 000061 -1", "e emit cmd 010061 3"] if tier != "quick" else [])


def _boundary():
    out = []
    big = [0, 1, 127, 128, 255, 256, 1 << 63, M64 - 1, M64]
    # every id boundary: register, emit, replace, clear
    for new in ("fb", "nofb"):
        for i in big:
            out.append(("b:id:%s:%d" % (new, i), ["e new " + new, "e set %d" % i, "e emit id %d 1" % i, "e emit none 0",
                                                   "e cset %d" % i, "e emit id %d 3z" % i, "e clear %d" % i,
                                                   "e emit id %d 0" % i, "e emit none 2", "e fini"]))
    # reserve: every width, on an empty table, on a raw table, on a typed table, next to extreme ids
    for w in range(0, 10):
        for pre in ([], ["e reserve 8"], ["e set 5"], ["e reserve 1", "e cset %d" % M64], ["e reserve 1", "e cset %d" % M64, "e cset 0"],
                    ["e reserve 2", "e cset 127"], ["e reserve 2", "e cset 126"], ["e reserve 2", "e cset 32767", "e cset 1"],
                    ["e reserve 8", "e cset %d" % ((1 << 63) - 1)], ["e reserve 8", "e cset %d" % (1 << 63)]):
            out.append(("b:res:%d:%d" % (w, len(out)), ["e new fb"] + pre + ["e reserve %d" % w, "e reserve %d" % w, "e emit id 0 1",
                                                          "e emit id 1 0", "e clear 1", "e reserve %d" % w, "e fini"]))
    # reserve with width 1 until the id space 1..127 is exhausted next to a large id
    out.append(("b:res:exhaust", ["e new fb", "e reserve 1", "e cset 200"] + ["e reserve 1"] * 130 + ["e clear 64", "e reserve 1", "e reserve 1", "e fini"]))
    # id space of width 1 exhausted in other ways: the maximum id set first, holes cleared and refilled, a second dispatcher start
    out.append(("b:res:exhaust2", ["e new nofb", "e cset 127"] + ["e reserve 1"] * 128 + ["e clear 127", "e reserve 1", "e reserve 1", "e clear 1", "e clear 50",
                                                                                       "e reserve 1", "e reserve 1", "e reserve 1", "e fini"]))
    out.append(("b:res:exhaust3", ["e new builtin", "e set 126", "e set 127", "e set 300"] + ["e reserve 1"] * 127 + ["e drop"] + ["e reserve 1"] * 129 + ["e fini"]))
    # table growth: typed (2 -> 8 -> 13 elements) and raw (8 -> ...), with holes
    for first in ("e set 100", "e reserve 8"):
        lines = ["e new fb", first]
        for k in range(1, 31):
            lines.append("e set %d" % (k + 200))
            if k % 4 == 0:
                lines.append("e clear %d" % (k + 198))
            if k % 7 == 0:
                lines.append("e emit id %d 1" % (k + 200))
            if k % 9 == 0:
                lines.append("e reserve 2")
        lines += ["e emit none 0", "e clearall", "e set 3", "e emit id 3 1", "e fini", "e set 4", "e emit id 4 0", "e fini"]
        out.append(("b:grow:" + first.split()[1], lines))
    # handler answers: other flags, int limits
    for r in ("4", "5", "6", "7", "65536", "65537", "131073", "2147483647", "2147483646", "-2147483648", "-17", "5z", "2z", "0z", "-1z"):
        out.append(("b:res:" + r, ["e new fb", "e set 1", "e emit id 1 " + r, "e emit none " + r, "e emit id 9 " + r, "e emit none 0",
                                   "e emit msg 01 " + r, "e hash 000061 " + r, "e set %d" % HA, "e hash 000061 " + r, "e fini"]))
    # command texts: sign extension, terminators, separators, white space
    texts = ["61", "6162", "ff", "80", "7f80ff", "6100", "610062", "00", "0061", "20", "2020", "2061", "09200a61", "3a", "3a61", "613a", "613a62",
             "20203a", "612062", "e4f6fc", "61" * 120, "61" * 130]
    for t in texts:
        for hdr in ("0000", "0400", "043a", "0061", "0100", "ff3a", "0441", "047e", "0421", "0420", "0409", "04ff", "0401", "047f"):
            msg = bytes.fromhex(hdr + t)
            lines = ["e new fb"]
            # register the ids the plausible readings hash to
            pay = bytes.fromhex(t)
            sep = msg[1] if msg[0] == 4 else 0
            if sep == 0:
                txt = pay.split(b"\0")[0]
            elif not (0x21 <= sep <= 0x7e):
                txt = pay.lstrip(b" \t\n\v\f\r").split(b"\0")[0].split(b" ")[0]
            else:
                txt = pay.lstrip(b" \t\n\v\f\r").split(bytes([sep]))[0]
            lines += ["e set %d" % djb2(txt), "e hash %s 2" % msg.hex(), "e hash %s -3" % msg.hex(), "e clear %d" % djb2(txt),
                      "e hash %s 1z" % msg.hex(), "e fini", "e hash %s 0" % msg.hex()]
            out.append(("b:hash:%s:%s" % (hdr, t[:12]), lines))
    # white-space separated arguments with quotes and backslashes (mpt_memtok)
    quoted = ["6120 62", "2761206227 2063", "2261 2722 62", "27615c27 6227 63", "2761", "61 27 62", "5c2761 62", "61096200", "0c61", "0c", "200c",
              "610b62", "610c62", "2227 2722 78", "615c 62", "275c5c27 61", "61002062", "27610027 62", "0061", "2000", "22 22", "6127 6227"]
    for q in quoted:
        pay = bytes.fromhex(q.replace(" ", "20"))
        for hdr in ("0420", "0409", "0480", "0401"):
            msg = bytes.fromhex(hdr) + pay
            ids = sorted({djb2(pay[:k]) for k in range(1, len(pay) + 1)} | {djb2(pay.lstrip(b" \t\n\v\f\r")[:k]) for k in range(1, len(pay) + 1)})
            lines = ["e new fb"] + ["e set %d" % i for i in ids[:12]] + ["e hash %s 2" % msg.hex(), "e hash %s -3" % msg.hex(), "e clearall",
                                                                      "e hash %s 1z" % msg.hex(), "e fini", "e hash %s 0" % msg.hex()]
            out.append(("b:quote:%s:%s" % (hdr, pay.hex()[:16]), lines))
    for m in ("-", "00", "04", "0000", "043a", "04ff61", "040161", "042061", "047f61"):
        out.append(("b:hashshort:" + m, ["e new fb", "e hash %s 1" % m, "e new nofb", "e hash %s 1" % m]))
    # default id bookkeeping chains
    for seq in itertools.product(["e emit id 1 1", "e emit id 1 1z", "e emit id 2 3", "e emit id 7 1", "e emit id 0 1", "e emit none 1",
                                  "e emit none 1z", "e emit none 2", "e clear 1", "e emit msg 02 1"], repeat=3):
        out.append(("b:def:" + "/".join(s[2:] for s in seq), ["e new fb", "e set 1", "e set 2"] + list(seq) + ["e emit none 0", "e fini"]))
    # built-in fallback: every event form, default bookkeeping around it
    for seq in itertools.product(["e emit id 1 1", "e emit id 7 0", "e emit id 0 0", "e emit msg 00 0", "e emit msg 0700 0", "e emit msg 01 1", "e emit none 0",
                                  "e hash 000061 1", "e hash 0000 1", "e clear 1", "e fini", "e set 7"], repeat=3):
        out.append(("b:builtin:" + "/".join(s[2:] for s in seq), ["e new builtin", "e set 1"] + list(seq) + ["e emit none 0", "e fini"]))
    # release through the content traits / copy through the traits, on tables made by set and by reserve, with holes
    for pre in (["e set 1", "e set 2", "e set 3"], ["e reserve 1", "e reserve 1"], ["e set 5", "e reserve 2", "e clear 5", "e set 6"],
                ["e reserve 1"] + ["e set %d" % (k + 10) for k in range(10)], ["e set 1", "e clearall", "e set 2"]):
        for new in ("fb", "nofb", "builtin"):
            out.append(("b:traits:%s:%d" % (new, len(pre)), ["e new " + new] + pre + ["e tcopy 1", "e tcopy 2", "e tcopy 3", "e tcopy 0", "e tcopy 99", "e drop",
                                                                               "e emit id 1 0", "e tcopy 1", "e drop", "e reserve 1", "e set 1", "e drop", "e fini"]))
    out += _nested() + _frags()
    # reservations that stay outstanding (placeholder handler): k in a row on tables of every shape, then released
    for pre in ([], ["e set 1"], ["e set 1", "e set 2", "e clear 1"], ["e cset 127"], ["e cset 126", "e cset 127"], ["e reserve 1", "e reserve 1", "e clear 1"],
                ["e set %d" % M64], ["e set 32767", "e set 5"], ["e set %d" % k for k in range(1, 20, 2)], ["e set 3", "e drop"], ["e set 3", "e clearall"]):
        for w, k in ((1, 1), (1, 3), (1, 126), (1, 127), (1, 128), (2, 5), (2, 300), (3, 2), (8, 4), (0, 2), (9, 2)):
            for new in ("fb", "builtin"):
                out.append(("b:hold:%s:%d:%d:%d" % (new, len(out), w, k),
                            ["e new " + new] + pre + ["e hold %d %d" % (w, k), "e reserve %d" % max(w, 1), "e hold %d %d" % (w, k), "e emit id 1 1",
                                                      "e clear 1", "e hold %d 2" % w, "e set 1", "e hold 1 127", "e fini", "e hold %d 1" % w]))
    # compaction inside reserve: every layout of free and active elements of tables with 2..7 elements, then every
    # handler must still be reached and finalised
    for n in range(2, 8):
        for mask in range(1, 1 << n):
            ids = [11 + k for k in range(n)]
            gone = [ids[k] for k in range(n) if mask >> k & 1]
            keep = [i for i in ids if i not in gone]
            for tail in (["e reserve 1"], ["e hold 1 2", "e reserve 2", "e reserve 1"]):
                out.append(("b:compact:%d:%d:%d" % (n, mask, len(tail)),
                            ["e new fb"] + ["e set %d" % i for i in ids] + ["e clear %d" % i for i in gone] + tail +
                            ["e emit id %d 0" % i for i in keep] + ["e emit id %d 1" % gone[0], "e fini"]))
    # events that carry a reply context (the harness one swallows the replies): every event form against every start
    # mode, default bookkeeping around it
    for new in ("fb", "nofb", "builtin"):
        for seq in itertools.product(["e emit id 1 1", "e emit id 7 0", "e emit id 9 1z", "e emit msg 0900 0", "e emit msg 01 1", "e emit none 0",
                                      "e hash 000061 1", "e hash 0000 1", "e hashn", "e emit cmd 010078 1", "e rc off"], repeat=2):
            out.append(("b:rc:%s:%s" % (new, "/".join(s[2:] for s in seq)),
                        ["e new " + new, "e set 1", "e emit id 1 1", "e rc on"] + list(seq) + ["e emit none 0", "e emit none 0", "e fini"]))
    # end-of-life callbacks that unregister another id (or their own): every victim assignment for up to 3 handlers,
    # every teardown form
    for n in (1, 2, 3):
        for vic in itertools.product(range(n + 1), repeat=n):
            modes = ["fini", "clearall", "drop"] + ["clear%d" % k for k in range(1, n + 1)] + ["cset%d" % k for k in range(1, n + 1)]
            out.append(("b:reentry:%s" % "".join(map(str, vic)), ["e new nofb"] + ["e reentry %s %s" % (m, ",".join(map(str, vic))) for m in modes]))
    out.append(("b:reentry:fallback", ["e new nofb", "e fbreentry", "e set 1", "e fbreentry", "e fini", "e fbreentry"]))
    out.append(("b:reentry:long", ["e new fb", "e reentry fini 2,3,4,5,6,7,8,0", "e reentry clearall 0,1,2,3,4,5,6,7", "e reentry drop 8,8,8,8,8,8,8,8",
                                  "e reentry clear8 0,0,0,0,0,0,0,1", "e reentry cset1 2,1", "e reentry fini 9", "e reentry clear3 1,2", "e reentry boom 1"]))
    # the dispatcher's own fallback reply context (_ctx): used by emit, released by fini, the dispatcher is used on
    for new in ("fb", "nofb", "builtin"):
        for seq in itertools.product(["e emit id 1 1", "e emit id 7 0", "e emit msg 0900 0", "e emit none 0", "e hash 0000 1", "e fini", "e ctx", "e rc on"], repeat=2):
            out.append(("b:ctx:%s:%s" % (new, "/".join(s[2:] for s in seq)),
                        ["e new " + new, "e set 1", "e ctx"] + list(seq) + ["e fini", "e emit id 1 0", "e emit id 7 1", "e set 2", "e emit id 2 1", "e ctx", "e emit id 9 0", "e fini"]))
    # message events in an event structure that was used before (its id field is still set): the first byte decides
    for new in ("fb", "nofb", "builtin"):
        for stale in (1, 2, 9, M64):
            for seq in itertools.product(["e emit msg 01ff 1", "e emit msg 02 0", "e emit msg 0900 3", "e emit cmd 010061 1", "e emit msg - 1", "e emit id 2 1", "e stale 0"], repeat=2):
                out.append(("b:stale:%s:%d:%s" % (new, stale % 1000, "/".join(s[2:] for s in seq)),
                            ["e new " + new, "e set 1", "e set 2", "e set %d" % HA, "e stale %d" % stale] + list(seq) + ["e emit none 0", "e fini"]))
    # known finding: an event reaches a reservation that is still outstanding
    out.append(("b:holdemit", ["e new nofb", "e set 5", "e holdemit 1"]))
    # the hash function itself: C string mode and counted mode
    for t in ["-", "61", "6162", "ff", "80", "7f80ff", "6100", "610062", "00", "0061", "e4f6fc00e4", "61" * 200, "ff" * 64 + "00" + "41"]:
        out.append(("b:djb2:" + t[:12], ["e new nofb", "e djb2 " + t, "e hashn", "e djb2 " + t]))
    # plain white-space separated command words: the word boundary is exact (no other cut is accepted)
    for txt in (b"ab c", b"  ab c", b"ab\tc", b"ab", b"ab ", b"a b c", b"abc def", b"x\n", b"\t\n run now", b"go\r\nnow", b"ab\x0bc", b"ab\x0cc", b"ab\x00c d", b"a'b c'", b"a\\ b"):
        for hdr in ("0420", "0409", "040a", "0480", "0401"):
            msg = bytes.fromhex(hdr) + txt
            word = txt.lstrip(b" \t\n\v\f\r")
            cuts = [djb2(word[:k]) for k in range(1, len(word) + 1)]
            out.append(("b:word:%s:%s" % (hdr, txt.hex()[:14]),
                        ["e new fb"] + ["e set %d" % c for c in sorted(set(cuts))[:14]] + ["e hash %s 2" % msg.hex(), "e hashf %s,%s 1" % (msg[:3].hex(), msg[3:].hex() or "-"),
                                                                                        "e emit cmd %s 1" % msg.hex(), "e clearall", "e hash %s 0" % msg.hex(), "e fini"]))
    # malformed op lines (both sides must answer bad-op)
    out.append(("b:badop", ["e new fb", "e set", "e set -1", "e set 01", "e set 18446744073709551616", "e emit id 1", "e emit id 1 +1",
                            "e emit id 1 -0", "e emit id 1 2147483648", "e emit id 1 -2147483649", "e emit msg 0g 1", "e emit msg 012 1",
                            "e hash zero:3 1", "e reserve x", "e fini now", "e new", "e new maybe",
                            "q push 00", "e emit none z", "e emit id 1 1zz", "e set 1"]))
    return out


def _nested():
    """a handler that hands the message on with mpt_dispatch_hash: the inner outcome (registered / fallback / built-in /
    nobody / no text / handler error) decides the bookkeeping of the outer mpt_dispatch_emit"""
    out = []
    start = djb2(b"start")
    msgs = [("reg", "0420" + b"  start now".hex()), ("unreg", "0420" + b" stop".hex()), ("notext", "04202020"), ("hdr", "04"),
            ("zero", "0400" + b"start".hex() + "00"), ("colon", "043a" + b" start:x".hex()), ("self", "0400" + "04"),
            ("ws", "0409" + b" 'start' x".hex())]
    for new in ("fb", "nofb", "builtin"):
        for name, m in msgs:
            for res in ("0", "1", "2", "3", "-5", "1z", "3z"):
                for pre in ([], ["e emit id 4 1"], ["e emit id 1 1"]):
                    e = "e emit cmd %s %s" % (m, res)
                    out.append(("b:nest:%s:%s:%s:%d" % (new, name, res, len(pre)),
                                ["e new " + new, "e set 1", "e set 4", "e set %d" % start, "e set %d" % djb2(b"\x04")] + pre +
                                [e, "e emit none 0", e, "e clear %d" % start, e, "e emit none 0", "e clear 4", e, "e emit none 0", "e fini"]))
    return out


def _split_lines(msg, cuts, ids):
    parts = []
    prev = 0
    for c in list(cuts) + [len(msg)]:
        parts.append(msg[prev:c].hex() or "-")
        prev = c
    f = ",".join(parts)
    return (["e new fb"] + ["e set %d" % i for i in ids] +
            ["e hashf %s 2" % f, "e hashf %s -3" % f] + ["e clear %d" % i for i in ids] + ["e hashf %s 1z" % f, "e new nofb", "e hashf %s 1" % f])


def _frags():
    """command messages in fragments: every 2-split, every 3-split of short messages, selected splits of long ones"""
    out = []
    short = [(bytes.fromhex("0420") + b"  start now", [b"start"]), (bytes.fromhex("0400") + b"start\0x", [b"start"]),
             (bytes.fromhex("043a") + b" \tstart:arg", [b"start"]), (bytes.fromhex("0000") + b"start", [b"start"]),
             (bytes.fromhex("0409") + b" 'st art' x", [b"st art", b"'st art'", b"'st"]), (bytes.fromhex("0420") + b"   ", []),
             (bytes.fromhex("0420") + b"go", [b"go"]), (bytes.fromhex("0100") + b"ab\0", [b"ab"])]
    for msg, words in short:
        ids = [djb2(w) for w in words]
        for a in range(0, len(msg) + 1):
            out.append(("b:frag2:%s:%d" % (msg.hex()[:14], a), _split_lines(msg, [a], ids)))
            for b in range(a, len(msg) + 1):
                out.append(("b:frag3:%s:%d:%d" % (msg.hex()[:14], a, b), _split_lines(msg, [a, b], ids)))
    # around the 128-byte scratch buffer: the text continues in the next fragment (graphic separator: one reading;
    # the white-space separator has one reading per prefix, so only a few of those)
    for n in (126, 127, 128, 129, 130, 140):
        for lead in (b"", b"  "):
            for sep, tail in ((b":", b""), (b":", b":x"), (b" ", b" x")):
                msg = bytes.fromhex("04") + sep + lead + b"a" * n + tail
                ids = [djb2(b"a" * n)]
                allcuts = ([2], [3], [2 + len(lead)], [2 + len(lead) + 1], [2 + len(lead) + n - 1], [2 + len(lead) + n], [1, 60], [4, 100, 131],
                           [len(msg)], [2, 2 + len(lead) + 64])
                if sep == b" ":
                    allcuts = ([2 + len(lead) + 1], [4, 100, 131]) if n in (128, 129) else ()
                for cuts in allcuts:
                    cuts = sorted(min(c, len(msg)) for c in cuts)
                    out.append(("b:fraglong:%d:%d:%s%d:%s" % (n, len(lead), sep.hex(), len(tail), "-".join(map(str, cuts))), _split_lines(msg, cuts, ids)))
    return out


def _random(tier, seed, scale):
    out = []
    n = (300 if tier == "quick" else 4000) * scale
    r = gen.rng(id, tier, seed, "random")
    texts = [b"a", b"ab", b"stop", b"\xff\x80", b"x y", b"run"]
    for k in range(n):
        nid = r.choice([3, 3, 6, 24])
        ids = [r.choice([0, 1, 2, 3, 5, 127, 128, 255, 256, 1000, M64, M64 - 1, 1 << 63]) for _ in range(nid)]
        ids += [djb2(t) for t in texts[:2]]
        lines = ["e new " + r.choice(["fb", "fb", "fb", "nofb", "builtin"])]
        if r.random() < 0.4:
            lines.append("e reserve %d" % r.choice([1, 1, 2, 8]))
        for _ in range(r.choice([6, 12, 25, 40])):
            kind = r.choice(["set", "set", "set", "cset", "clear", "clear", "emit", "emit", "emit", "msg", "none", "none", "hash", "reserve",
                             "clearall", "fini", "bad", "drop", "tcopy", "cmd", "hashf", "hold", "hashn", "rc"])
            res = r.choice(["0", "0", "1", "1", "2", "3", "-1", "-4", "1z", "3z", "4", "5", "%d" % r.randrange(-20, 70000)]
                           + (["%dz" % r.randrange(0, 8)] if r.random() < 0.2 else []))
            i = r.choice(ids)
            if kind in ("set", "cset", "clear"):
                lines.append("e %s %d" % (kind, i))
            elif kind == "emit":
                lines.append("e emit id %d %s" % (i, res))
            elif kind == "msg":
                lines.append("e emit msg %s %s" % (gen.hexs([r.choice([0, 1, 2, 3, 5, 127, 128, 255])] * r.choice([0, 1, 1, 1, 3])), res))
            elif kind == "none":
                lines.append("e emit none %s" % res)
            elif kind in ("hash", "cmd", "hashf"):
                t = r.choice(texts)
                hdr = r.choice([b"\0\0", b"\x04\0", b"\x04:", b"\x04;", b"\x01\x05", b"\x04 ", b"\x04\t", b"\x04\xff"])
                tail = r.choice([b"", b"\0", b":rest", b"\0junk", b";x", b" arg", b"' q'", b"\\ x"])
                lead = r.choice([b"", b"", b" ", b"\t "]) if hdr[0] == 4 and hdr[1] else b""
                m = hdr + lead + t + tail
                if kind == "hash":
                    lines.append("e hash %s %s" % (m.hex(), res))
                elif kind == "cmd":
                    if r.random() < 0.7:
                        lines.append("e set %d" % m[0])
                    lines.append("e emit cmd %s %s" % (m.hex(), res))
                    lines.append("e emit none 0")
                else:
                    cuts = sorted(r.randrange(0, len(m) + 1) for _ in range(r.choice([1, 1, 2, 3])))
                    parts = [m[a:b].hex() or "-" for a, b in zip([0] + cuts, cuts + [len(m)])]
                    lines.append("e hashf %s %s" % (",".join(parts), res))
            elif kind == "reserve":
                lines.append("e reserve %d" % r.choice([0, 1, 1, 2, 4, 8, 9]))
            elif kind == "clearall":
                if r.random() < 0.3:
                    lines.append("e clearall")
            elif kind == "drop":
                if r.random() < 0.3:
                    lines.append("e drop")
            elif kind == "tcopy":
                lines.append("e tcopy %d" % r.randrange(0, 12))
            elif kind == "hold":
                lines.append("e hold %d %d" % (r.choice([0, 1, 1, 1, 2, 8]), r.choice([1, 2, 5, 130])))
            elif kind == "hashn":
                lines.append("e hashn")
            elif kind == "rc":
                lines.append("e rc " + r.choice(["on", "on", "off"]))
            elif kind == "fini":
                if r.random() < 0.3:
                    lines.append("e fini")
            else:
                if r.random() < 0.1:
                    lines.append(r.choice(["e emit id 1", "e set x", "e hash 0z 1", "e frob", "e emit msg 1 1"]))
        out.append(("rnd:%d" % k, lines))
    return out


class _XX:
    """second part: the C++ class mpt::dispatch (mpt++/event.cpp) through harness/drvxx_event.cpp"""
    id = "C11"
    area = "event"
    driver = "drvxx_event"
    cxx = True
    fixed_lines = 1
    link_extra = ["-fno-sanitize=vptr"]

    @staticmethod
    def corpus(chk):
        return [(n, s) for n, s in gen.corpus(id) if s and s[0].startswith("xe ")]

    @staticmethod
    def scripts(tier, seed, scale=1):
        out = []
        alpha = ["xe set 1", "xe set 2", "xe set 0", "xe clear 1", "xe clear 2", "xe get 1", "xe get 0", "xe setdef 1", "xe setdef 2", "xe setdef 0",
                 "xe seterr", "xe reserve 1", "xe emit id 1 1", "xe emit id 1 0", "xe emit id 2 3z", "xe emit id 5 0", "xe emit msg 01 1",
                 "xe emit none 0", "xe emit none 1", "xe hash 000061 2", "xe set %d" % HA, "xe del", "xe emit cmd 010061 3", "xe emit cmd 0200 1", "xe rc on", "xe stale 2"]
        for new in ("fb", "nofb", "builtin"):
            for ln in range(1, (2 if tier == "quick" else 3) + 1):
                for combo in itertools.product(alpha, repeat=ln):
                    out.append(("xx:%s:%s" % (new, "/".join(c[3:] for c in combo)), ["xe new " + new] + list(combo) + ["xe del"]))
        small = ["xe set 1", "xe set 2", "xe clear 1", "xe setdef 1", "xe setdef 2", "xe seterr", "xe reserve 1", "xe emit id 1 1", "xe emit id 3 1", "xe emit none 0"]
        for combo in itertools.product(small, repeat=3 if tier == "quick" else 4):
            out.append(("xxs:" + "/".join(c[3:] for c in combo), ["xe new builtin"] + list(combo) + ["xe emit none 0", "xe del"]))
        out.append(("xx:badop", ["xe new fb", "xe set", "xe setdef", "xe setdef x", "xe seterr 1", "xe get", "xe frob", "xe del", "xe set 1", "xe del", "xe new maybe"]))
        r = gen.rng(id, tier, seed, "xx-random")
        for k in range((150 if tier == "quick" else 2500) * scale):
            ids = [r.choice([0, 1, 2, 3, 7, 255, 256, M64, HA]) for _ in range(r.choice([3, 6]))]
            lines = ["xe new " + r.choice(["fb", "nofb", "builtin", "builtin"])]
            for _ in range(r.choice([6, 15, 30])):
                kind = r.choice(["set", "set", "set", "clear", "get", "setdef", "setdef", "seterr", "reserve", "emit", "emit", "msg", "none", "hash"])
                i = r.choice(ids)
                res = r.choice(["0", "1", "2", "3", "-1", "1z", "3z", "5"])
                if kind in ("set", "clear", "get", "setdef"):
                    lines.append("xe %s %d" % (kind, i))
                elif kind == "seterr":
                    lines.append("xe seterr")
                elif kind == "reserve":
                    lines.append("xe reserve %d" % r.choice([0, 1, 2, 8]))
                elif kind == "emit":
                    lines.append("xe emit id %d %s" % (i, res))
                elif kind == "msg":
                    lines.append("xe emit msg %s %s" % (gen.hexs([r.choice([0, 1, 2, 7, 255])] * r.choice([0, 1, 2])), res))
                elif kind == "none":
                    lines.append("xe emit none %s" % res)
                else:
                    lines.append("xe hash %s %s" % (r.choice(["000061", "043a20613a62", "0000", "04206120"]), res))
            lines.append("xe del")
            out.append(("xxrnd:%d" % k, lines))
        return out

    nontrivial = staticmethod(lambda script, c_lines: nontrivial(script, c_lines))
    tally = staticmethod(lambda chk, script, c_lines: tally(chk, script, c_lines))
    finding_key = staticmethod(lambda script, res: finding_key(script, res))


extra_parts = [_XX]


def scripts(tier, seed, scale=1):
    out = []
    full = _alphabet_full()
    small = _alphabet_small(tier)
    for new in ("fb", "nofb", "builtin"):
        top_full = 2 if tier == "quick" else 3
        for ln in range(1, top_full + 1):
            for combo in itertools.product(full, repeat=ln):
                out.append(("ex:%s:%s" % (new, "/".join(c[2:] for c in combo)), ["e new " + new] + list(combo) + ["e fini"]))
    top_small = 4 if tier == "quick" else 5
    for ln in range(3, top_small + 1):
        for combo in itertools.product(small, repeat=ln):
            out.append(("exs:%s" % "/".join(c[2:] for c in combo), ["e new fb"] + list(combo) + (["e fini"] if tier != "quick" else [])))
    out += _boundary()
    out += _random(tier, seed, scale)
    return out


def nontrivial(script, c_lines):
    call = fin = False
    for ln in c_lines:
        if not ln.startswith("R "):
            continue
        i = ln.find(" log=")
        j = ln.find(" | ", i)
        if i < 0:
            continue
        for e in ln[i + 5:j if j > 0 else None].split(","):
            r, _, what = e.partition(":")
            if what == "F":
                fin = True
            elif what and r != "0":
                call = True
    return call and fin


def tally(chk, script, c_lines):
    d = chk.__dict__.setdefault("distribution", {})
    for op in script:
        w = op.split()
        k = w[1] if len(w) > 1 else "?"
        if k == "emit" and len(w) > 2:
            k = "emit-" + w[2]
        d[k] = d.get(k, 0) + 1
    for ln in c_lines:
        if ln.startswith("R refused") or ln.startswith("R ret=-"):
            d["refused/error"] = d.get("refused/error", 0) + 1


def finding_key(script, res):
    op = (res.get("op") or "").split()
    return "%s:%s" % (res["kind"], op[1] if len(op) > 1 else "?")
