"""C20 — layout object properties round-trip and do not interfere."""
import os
import sys

from .. import build, gen

id = "C20"
area = "layout"
driver = "drv_layout"
cxx = False
link_extra = ("-Wl,--wrap=realloc", "-Wl,--wrap=strdup")
fixed_lines = 1
rule = ("scripts start with 'y begin'; stream 1 (exhaustive over the generated tables): for every kind, every name "
        "of the setter chain, every listed property name, every proper prefix and one over-long variant of those names "
        "(upper/lower case) x the value set of the property's type (about 25 texts: range limits -1/0/+1, octal/hex "
        "numerals, blanks, trailing garbage, empty, over-long strings, colour names/#hex of every length, point texts "
        "with every separator) as 'new; preset of all properties; set; get; dump'; every name x null/nullstr; get of "
        "every name and prefix; stream 2 = colour texts; stream 3 = random set/reset/copy/get histories over up to 4 "
        "objects.  non-trivial = a script in which the code accepted at least one set that changed the dump, or a "
        "copy/reset that changed it, counted per distinct script")
assumptions = [
    "values reach the setters as text through mpt_object_set_string (separator argument NULL), as src = NULL, as typed "
    "scalar values (y setv) or, for string properties, through a source that answers 's' only (y sets); iterators and "
    "metatype sources are not exercised",
    "floating point texts are restricted to exactly representable decimal numerals (the model answers "
    "'unsupported' for inexact decimals, hex floats, inf/nan, subnormal results); strtof/strtod are trusted for those",
    "libc: strtoumax/strtoimax grammar, isspace/isgraph in the C locale; realloc/strdup fail only where 'y fail n' injects it "
    "(string properties and the sibling copy; allocation failures inside other handlers are not modelled)",
    "a point given as one number repeats it for y (mpt_fpoint_set: second element MissingData = single value, "
    "ed1bd33/b88fb5d of the C19 worker)",
    "the S column (which property a name stands for, what kind of value it holds, its limits) comes from the hand-written "
    "table Record.docs in MptModel/Spec/Record.lean, not from the generated setter chain; the meaning of a numeral, colour "
    "or point TEXT is the model's converter in S as well (shared, no independent statement)",
    "the type-directed assignment mpt_<kind>_set(obj, NULL, src) (name = NULL) and mpt_<kind>_get on a NULL object are not "
    "driven; the result code of mpt_<kind>_get(obj, \"\") (memcmp with the defaults over padding bytes) is not compared",
]
trusted = [
    "translate/layout_extract.py renders struct members, def_<kind> initialisers, elem[] tables, setter chains, "
    "colour table and attribute limits faithfully (cross-checked by executing the generated tables against the code)",
    "hand-written handler interpreters in MptModel/Impl/Layout.lean tied to mptplot/layout/*.c, "
    "mptcore/object/object_set_string.c, property_match.c and the text conversions by harness/drv_layout.c",
]

sys.path.insert(0, os.path.join(build.VERIF, "translate"))

_TABLES = {}
_CACHE = os.path.join(build.LEAN, "MptModel", "Generated", "LayoutTables.gen.json")


class _K:
    """what the generators need of one kind: names of the getter table, of the single-character table, and the
    setter chain (names, handler term)"""
    def __init__(self, d):
        self.name = d["name"]
        self.gets = [tuple(g) for g in d["gets"]]
        self.single = [tuple(g) for g in d["single"]]
        self.sets = [([tuple(n) for n in names], act) for names, act in d["sets"]]


def _tables():
    """python view of the extracted tables of the repo under test for the generators.  When the sources of the
    tree under test are no longer translatable the tables of the last good extraction are used (stored on every
    successful run), so that the generators still run against a changed tree."""
    import json
    import layout_extract as lx
    repo = build.REPO
    if repo in _TABLES:
        return _TABLES[repo]
    try:
        lay = lx.Layout(repo)
        lay.repo = repo
        data = []
        for kn in lx.KINDS:
            k = lx.extract_kind(repo, lay, kn)
            data.append({"name": k.name, "gets": [list(g) for g in k.gets], "single": [list(g) for g in k.single],
                         "sets": [[[list(n) for n in names], act] for names, act in k.sets]})
        try:
            if repo != "/repo":
                raise OSError("cache only the reference tree")
            tmp = _CACHE + ".tmp%d" % os.getpid()
            with open(tmp, "w") as f:
                json.dump(data, f)
            os.replace(tmp, _CACHE)
        except OSError:
            pass
    except Exception:
        if not os.path.exists(_CACHE):
            raise
        data = json.load(open(_CACHE))
        if repo != "/repo":
            # prefer the tables of the reference tree to a cache that may stem from another changed tree
            try:
                lay = lx.Layout("/repo")
                lay.repo = "/repo"
                data = []
                for kn in lx.KINDS:
                    k = lx.extract_kind("/repo", lay, kn)
                    data.append({"name": k.name, "gets": [list(g) for g in k.gets], "single": [list(g) for g in k.single],
                                 "sets": [[[list(n) for n in names], act] for names, act in k.sets]})
            except Exception:
                pass
    _TABLES[repo] = [_K(d) for d in data]
    return _TABLES[repo]


def generate(chk):
    import layout_extract as lx
    path = os.path.join(build.LEAN, "MptModel", "Generated", "LayoutTables.lean")
    try:
        lx.write(build.REPO, path)
    except Exception as e:
        # the model must not be left on the translation of some OTHER tree (an earlier run with VERIF_REPO):
        # the reference tree is the last good translation
        if build.REPO != "/repo":
            try:
                lx.write("/repo", path)
            except Exception:
                pass
        if isinstance(e, lx.TranslateError):
            raise build.BuildError("layout_extract: the layout sources left the translatable form (tie broken): %s" % e)
        raise build.BuildError("layout_extract failed: %r" % (e,))


def corpus(chk):
    return [(n, s_) for n, s_ in gen.corpus(id) if s_ and s_[0].startswith("y ")]


def hx(s):
    if isinstance(s, str):
        s = s.encode("latin-1")
    return s.hex() if s else "-"


def nm(name):
    return name if all(c.isalnum() or c in "_." for c in name) and not name.startswith("x:") else "x:" + name.encode().hex()


# value texts per kind of handler ---------------------------------------------------------------

def ints(lo, hi):
    vals = [lo - 1, lo, lo + 1, hi - 1, hi, hi + 1, (lo + hi) // 2, 7]
    out = [str(v) for v in vals]
    out += ["+%d" % hi, "0%o" % max(0, min(hi, 63)), "0x%x" % max(0, min(hi, 255)), "0X1f", "010", "08", "0x", "0xg",
            " 5", "\t9", "5 ", "5abc", "abc", "-", "--1", "+", "", " ", "  \t", "1e2", "1.5", "-0",
            "18446744073709551615", "18446744073709551616", "-9223372036854775809", "99999999999999999999999", "256", "65536",
            "4294967296", "-32769", "32768"]
    return out


FLOATS = ["0", "1", "-1", "0.5", "-0.25", "2.5", "100", "0.125", "1e2", "1E-0", "5e-1", "25e-2", "1.5e1", ".5", "5.", "+.75",
          "-.5", "1e", "1e+", "1e+1", "1.5abc", "1..5", ".", "+", "-", "abc", "", " ", " 0.5", "0.5 ", "00012", "1e400",
          "16777215", "16777216", "-16777215", "0.0000152587890625", "3.0517578125e-05", "5e-1x", "4096.0625", "0.75e2"]
POINTS = ["0.5", "0.25 0.75", "0.25,0.75", "0.25;0.75", "0.25/0.75", "0.25:0.75", "0.25x0.75", "1 1", "0 0", "0", "1", "2", "-1",
          "0.5 2", "2 0.5", "0.5 -1", "0.5 ", "0.5 abc", "abc", "0.5  0.75", " 0.5 0.25", "0.5 0.25 0.125", "", "3 4", "1e1 2",
          "16777215 1", "0.5,", ",0.5", "1e39", "0.5 1e39", " ", "  \t", "0.5   ", "0.5  \t", "0.5 \t0.25", "nan", "NaN", "inf", "-inf", "infinity", "0.5 nan", "nan 0.5", "inf 0.5", "nan abc", "0.5 -Infinity"]
CHARS = ["t", "b", "5", "tu", " t", "  ", "", "~", "!", "\x7f", "\x01", "\x80x", "\xff", "\t\tq", "0", "-1", "top", "T"]
STRINGS = ["a", "abc", "hello world", " lead", "trail ", "  ", "", "x" * 15, "x" * 16, "x" * 17, "y" * 255, "z" * 256, "w" * 300,
           "q" * 4096, "#1", "0", "\x01\x7f\x80\xff", "a b;c,d:e/f", "log", "red"]
COLOURS = ["red", "RED", "Green", "blue", "black", "white", "cyan", "magenta", "yellow", "red ", "red x", "redx", " red", "re",
           "orange", "#", "#1", "#12", "#123", "#1234", "#12345", "#123456", "#1234567", "#12345678", "#123456789", "#1234567890",
           "#ffffff", "#FFFFFF", "#00ff0080", "#gg0000", "#0g0000", "#1g", "#-1", "#+1", "# 1", "#  ", "#0x", "#0X10", "#x1", "", " ",
           "#000000", "#00000000", "#000000ff", "#ff", "#ff00", "0", "255"]
LOG = ["log", "LOG", "Log10", "lo", " log", "logarithmic", "l", "xlog"]
ALIGN = ["b", "e", "z", "bez", "BEZ", "bezb", "zzzz", "zzzze", "x", "b e", "", "beze", "ebz"]
CLIP = ["x", "y", "z", "xy", "xz", "yz", "xyz", "zyx", "xx", "w", "xw", "X", "", "7", "8", "9", "255", "256", "x y"]


def values_for(act):
    """act: the Lean term text of the handler (from the extractor)"""
    kind = act.split()[0]
    if kind == ".conv":
        ty = act.split()[1].strip("'")
        if ty == "y":
            return ints(0, 255)
        if ty == "n":
            return ints(-32768, 32767)
        if ty == "u":
            return ints(0, 4294967295)
        if ty == "f":
            return FLOATS + ["1e39", "-1e39", "3.5e38"]
        if ty == "d":
            return FLOATS + ["9007199254740991", "1e22"]
        if ty == "c":
            return CHARS
        return ints(0, 255) + FLOATS[:6]
    if kind == ".string":
        return STRINGS
    if kind == ".colour":
        return COLOURS
    if kind == ".lattr":
        _f, _d, lo, hi = [int(x) for x in act.split()[1:5]]
        return ints(lo, hi) + ["300", "255", "-1"]
    if kind == ".axisPos":
        return CHARS
    if kind == ".linePos":
        return FLOATS + ["1e39", "-1e39", "3.5e38"]
    if kind == ".fpoint":
        return POINTS
    if kind == ".intervals":
        return ints(0, 255) + LOG
    if kind == ".align":
        return ints(0, 255) + ALIGN
    if kind == ".clip":
        return ints(0, 255)[:12] + CLIP
    return ["1", "abc", ""]


def _point_ok(v):
    """a blank (non-empty) coordinate makes mpt_iterator_consume copy an indeterminate buffer: not generated"""
    import re
    return not (re.fullmatch(r"[ \t]+", v) or re.search(r"[^ \t][ \t]{2,}$", v) or re.search(r"^[ \t]*[-+.0-9eE]+[^ \t][ \t]+$", v))


def typed_values(act):
    """(type code, number text) pairs for 'y setv': values of the handler's own type and int32 values"""
    kind = act.split()[0]
    own = None
    if kind == ".conv":
        own = act.split()[1].strip("'")
    elif kind in (".lattr", ".intervals", ".align", ".clip"):
        own = "y"
    elif kind == ".linePos":
        own = "f"
    elif kind == ".axisPos":
        own = "c"
    if own is None:
        return []
    nums = {"y": ["0", "7", "255"], "n": ["-5", "0", "300"], "u": ["0", "42", "70000"], "f": ["0.5", "-2.25", "4.5"],
            "d": ["0.5", "-2.25", "4.5"], "c": ["116", "53"]}[own]
    out = [(own, x) for x in nums]
    if kind == ".linePos":
        # a double given to a float coordinate: inside the float range, and 2^200 beyond it (refused)
        out += [("d", "0.5"), ("d", "-2.25"), ("d", str(2 ** 200)), ("d", "-" + str(2 ** 200))]
    if own != "c":
        out += [("i", x) for x in ("0", "3", "9", "200", "300", "-1", "70000")]
    return out


def presets(k):
    """make every member differ from its default so that an unwanted reset or write is visible"""
    P = {"axis": [("title", "T"), ("begin", "2"), ("end", "3"), ("tlen", "0.5"), ("exp", "-4"), ("intv", "6"), ("sub", "2"),
                  ("dec", "3"), ("lpos", "l"), ("tpos", "t")],
         "line": [("color", "#10203040"), ("x1", "1"), ("x2", "2"), ("y1", "3"), ("y2", "4"), ("width", "2"), ("style", "3"),
                  ("symbol", "4"), ("size", "5")],
         "text": [("value", "V"), ("font", "F"), ("color", "#10203040"), ("pos", "0.25 0.75"), ("size", "12"), ("align", "7"),
                  ("angle", "45")],
         "graph": [("axes", "x y"), ("worlds", "w"), ("fg", "#10203040"), ("bg", "#50607080"), ("pos", "0.25 0.75"),
                   ("scale", "2 4"), ("type", "3"), ("align", "27"), ("clip", "9"), ("lpos", "r")],
         "world": [("color", "#10203040"), ("cycles", "9"), ("width", "2"), ("style", "3"), ("symbol", "4"), ("size", "5"),
                   ("alias", "A")]}
    return ["y set 0 %s %s" % (nm(n), hx(v)) for n, v in P[k.name]]


def name_variants(names):
    out = []
    for n in names:
        out.append(n)
        out.append(n.upper())
        for i in range(1, len(n)):
            out.append(n[:i])
        out.append(n + "x")
        out.append(n + "XYZ")
        if len(n) > 1:
            out.append(n[:-1] + "#")
    seen, res = set(), []
    for n in out:
        if n and n == n.strip() and n not in seen:
            seen.add(n)
            res.append(n)
    return res


def scripts(tier, seed, scale=1):
    kinds = _tables()
    out = []
    r_sub = gen.rng(id, tier, seed, "subset")
    for k in kinds:
        new = ["y begin", "y new " + k.name]
        pre = presets(k)
        listed = [g[0] for g in k.gets] + [g[0] for g in k.single]
        chain = [n for names, _a in k.sets for n, _ci in names]
        # every name of the chain x every value of its handler's type
        for names, act in k.sets:
            vals = values_for(act)
            for n, _ci in names:
                for v in vals:
                    try:
                        h = hx(v)
                    except UnicodeEncodeError:
                        continue
                    if "00" in [h[i:i + 2] for i in range(0, len(h), 2)]:
                        continue
                    for with_pre in ((True, False) if tier == "thorough" or v in vals[:6] or r_sub.random() < 0.15 else (True,)):
                        body = (pre if with_pre else []) + ["y set 0 %s %s" % (nm(n), h), "y get 0 %s" % nm(n), "y dump 0"]
                        out.append(("ex:%s:%s:%s:%d" % (k.name, n, h[:24], with_pre), new + body))
                # handlers with a second state behind the property (axis intervals: the log flag): every value again
                # from that state
                alt = {".intervals": "log", ".clip": "zx", ".align": "bez"}.get(act.split()[0])
                if alt is not None:
                    for v in vals + ["null", "nullstr"]:
                        try:
                            h = v if v in ("null", "nullstr") else hx(v)
                        except UnicodeEncodeError:
                            continue
                        if "00" in [h[i:i + 2] for i in range(0, len(h), 2)]:
                            continue
                        out.append(("alt:%s:%s:%s" % (k.name, n, h[:24]),
                                    new + ["y set 0 %s %s" % (nm(n), hx(alt)), "y set 0 %s %s" % (nm(n), h), "y get 0 %s" % nm(n), "y dump 0"]))
                # typed values through mpt_object_set_value: the property's own C type, and a 32 bit integer
                for t, num in typed_values(act):
                    out.append(("tv:%s:%s:%s:%s" % (k.name, n, t, num),
                                new + pre + ["y setv 0 %s %s %s" % (nm(n), t, num), "y get 0 %s" % nm(n), "y dump 0"]))
                for special in ("null", "nullstr"):
                    out.append(("ex:%s:%s:%s" % (k.name, n, special), new + pre + ["y set 0 %s %s" % (nm(n), special), "y dump 0"]))
                    out.append(("ex:%s:%s:%s:d" % (k.name, n, special), new + ["y set 0 %s %s" % (nm(n), special), "y dump 0"]))
        # string properties: a source that answers 's' only; an allocation that fails in exactly that call (with and
        # without a string already held), read after the refused call
        for names, act in k.sets:
            if not act.startswith(".string"):
                continue
            for n, _ci in names:
                for v in ("new text", "x", ""):
                    h = hx(v) if v else "-"
                    out.append(("sonly:%s:%s:%s" % (k.name, n, h), new + pre + ["y sets 0 %s %s" % (nm(n), h), "y get 0 %s" % nm(n), "y dump 0"]))
                    # a counted vector: a slice of a longer text, the whole text, the empty slice
                    if v:
                        for cnt in sorted(set((0, 1, len(v) // 2, len(v) - 1, len(v)))):
                            out.append(("vec:%s:%s:%s:%d" % (k.name, n, h, cnt), new + pre + ["y setvec 0 %s %s %d" % (nm(n), h, cnt), "y get 0 %s" % nm(n), "y dump 0"]))
                    for op in ("set", "sets"):
                        for fl in (1, 2):
                            for with_pre in (True, False):
                                out.append(("fail:%s:%s:%s:%s:%d:%d" % (k.name, n, op, h, fl, with_pre),
                                            new + (pre if with_pre else []) + ["y fail %d" % fl, "y %s 0 %s %s" % (op, nm(n), h),
                                                                                "y get 0 %s" % nm(n), "y dump 0", "y %s 0 %s %s" % (op, nm(n), hx("again")), "y dump 0"]))
        # the property given as identifier with a text value (mpt_object_set_property, the way configuration nodes reach
        # the objects): the same as a set by name
        for names, act in k.sets:
            for n, _ci in names:
                for v in values_for(act)[:5]:
                    try:
                        h = hx(v)
                    except UnicodeEncodeError:
                        continue
                    if "00" in [h[i:i + 2] for i in range(0, len(h), 2)]:
                        continue
                    out.append(("setp:%s:%s:%s" % (k.name, n, h[:24]), new + pre + ["y setp 0 %s %s" % (nm(n), h), "y get 0 %s" % nm(n), "y dump 0"]))
        # all four line attributes at once (mpt_lattr_set): each at, above and far above its limit, -1 = default
        if k.name in ("line", "world"):
            lim = {"width": 10, "style": 5, "symbol": 8, "size": 20}
            order = ["width", "style", "symbol", "size"]
            base = [2, 3, 4, 5]
            for i, a in enumerate(order):
                for v in (-1, 0, lim[a] - 1, lim[a], lim[a] + 1, 255, 256, 300):
                    vals = list(base)
                    vals[i] = v
                    for with_pre in (True, False):
                        out.append(("lattr:%s:%s:%d:%d" % (k.name, a, v, with_pre),
                                    new + (pre if with_pre else []) + ["y lattr 0 %d %d %d %d" % tuple(vals), "y dump 0"]))
            out.append(("lattr:%s:max" % k.name, new + pre + ["y lattr 0 10 5 8 20", "y dump 0", "y lattr 0 -1 -1 -1 -1", "y dump 0", "y lattr 0 11 6 9 21", "y dump 0"]))
        # no property name (NULL): assignment by the type of the value — no value, a text, a sibling, another kind
        for v in ("null", "nullstr", "-", hx(" "), hx("abc"), hx("0"), hx("#102030"), hx("1 2 3 4")):
            out.append(("auto:%s:%s" % (k.name, v), new + pre + ["y auto 0 %s" % v, "y dump 0", "y auto 0 %s" % v, "y dump 0"]))
            out.append(("auto0:%s:%s" % (k.name, v), new + ["y auto 0 %s" % v, "y dump 0"]))
        for what in ("colour", "lattr"):
            out.append(("autonone:%s:%s" % (k.name, what), new + pre + ["y autonone 0 %s" % what, "y dump 0"]))
        if k.name != "line":
            out.append(("autocopy:%s" % k.name, new + pre + ["y new " + k.name, "y autocopy 1 0", "y dump 1", "y autocopy 1 1", "y autocopy 0 1",
                                                            "y set 0 %s %s" % (nm(listed[0]), hx("1")), "y dump 1", "y dump 0"]))
            for k2 in kinds:
                if k2.name != k.name:
                    out.append(("xautocopy:%s:%s" % (k.name, k2.name), new + pre + ["y new " + k2.name, "y autocopy 0 1", "y dump 0"]))
        # copy while a strdup fails: equal properties or refused without change
        for fl in (1, 2, 3):
            out.append(("copyfail:%s:%d" % (k.name, fl), new + pre + ["y new " + k.name, "y set 1 %s %s" % (nm(listed[0]), hx("1")), "y fail %d" % fl,
                                                                       "y copy 1 0", "y dump 1", "y dump 0"]))
        # an axis with style/limit bits (as the C++ layer creates typed axes): no set, reset of one property or get
        # may change them
        if k.name == "axis":
            for fl in (1, 2, 3, 8, 11, 16, 27):
                head = ["y begin", "y newf axis %d" % fl]
                for names, act in k.sets:
                    for n, _ci in names:
                        vals = ["null", "nullstr", "-", hx(" "), hx("5")] + ([hx("log")] if act.startswith(".intervals") else [])
                        out.append(("style:%d:%s" % (fl, n), head + sum((["y set 0 %s %s" % (nm(n), v), "y dump 0"] for v in vals), [])
                                    + ["y new axis", "y copy 1 0", "y dump 1", "y reset 0", "y dump 0"]))
        # every name, prefix and over-long variant: set with a harmless value and get
        for n in name_variants(sorted(set(listed + chain))):
            out.append(("nm:%s:%s" % (k.name, n), new + pre + ["y get 0 %s" % nm(n), "y set 0 %s %s" % (nm(n), hx("1")),
                                                                "y get 0 %s" % nm(n), "y set 0 %s null" % nm(n), "y dump 0"]))
        # the empty name with sources that carry no sibling: reset or refusal
        for v in ("null", "nullstr", "-", hx(" "), hx("abc"), hx("0")):
            out.append(("empty:%s:%s" % (k.name, v), new + pre + ["y set 0 x:- %s" % v, "y dump 0"]))
        # reset and copy
        out.append(("reset:%s" % k.name, new + ["y whole 0"] + pre + ["y whole 0", "y reset 0", "y whole 0", "y dump 0"]))
        out.append(("copy:%s" % k.name, new + pre + ["y new " + k.name, "y copy 1 0", "y dump 1"] +
                    ["y set 0 %s %s" % (nm(n), hx("changed")) for n in listed[:3]] +
                    ["y set 0 %s null" % nm(n) for n in chain] + ["y dump 1", "y dump 0", "y copy 0 0", "y copy 1 1", "y reset 0", "y dump 1"]))
        out.append(("selfcopy:%s" % k.name, new + pre + ["y copy 0 0", "y dump 0", "y reset 0", "y copy 0 0"]))
        for k2 in kinds:
            if k2.name != k.name:
                out.append(("xcopy:%s:%s" % (k.name, k2.name), new + pre + ["y new " + k2.name, "y copy 0 1", "y copy 1 0", "y dump 0", "y dump 1"]))
    # colour texts
    cr = gen.rng(id, tier, seed, "colour")
    cols = list(COLOURS)
    for _ in range((200 if tier == "quick" else 3000) * scale):
        comp = [cr.choice([0, 1, 15, 16, 127, 128, 254, 255, cr.randrange(256)]) for _ in range(4)]
        if cr.random() < 0.5:
            comp[3] = 255
        txt = "#%02x%02x%02x" % tuple(comp[:3]) + ("" if comp[3] == 255 else "%02x" % comp[3])
        if cr.random() < 0.2:
            txt = txt.upper()
        if cr.random() < 0.15:
            txt = txt[:cr.randrange(1, len(txt) + 1)] + cr.choice(["", "g", " ", "x", "-", "00"])
        cols.append(txt)
    for i in range(0, len(cols), 10):
        out.append(("col:%d" % i, ["y begin"] + ["y colour " + hx(c) for c in cols[i:i + 10]]))
    # random histories
    r = gen.rng(id, tier, seed, "random")
    nrand = (300 if tier == "quick" else 4000) * scale
    for n_ in range(nrand):
        lines = ["y begin"]
        objs = []
        for _ in range(r.choice([1, 2, 2, 3, 4])):
            k = r.choice(kinds) if not objs or r.random() < 0.4 else objs[0]
            objs.append(k)
            lines.append("y new " + k.name)
        for _ in range(r.choice([4, 8, 16, 30])):
            i = r.randrange(len(objs))
            k = objs[i]
            what = r.random()
            if what < 0.62:
                names, act = r.choice(k.sets)
                n = r.choice(names)[0]
                if r.random() < 0.1:
                    n = r.choice([n.upper(), n[:max(1, len(n) - 1)], n + "s", n.capitalize()])
                vals = values_for(act)
                v = r.choice(vals) if r.random() < 0.9 else r.choice(STRINGS + FLOATS + COLOURS)
                if r.random() < 0.08:
                    lines.append("y set %d %s %s" % (i, nm(n), r.choice(["null", "nullstr"])))
                else:
                    try:
                        h = hx(v)
                    except UnicodeEncodeError:
                        h = hx("1")
                    lines.append("y set %d %s %s" % (i, nm(n), h))
            elif what < 0.77:
                n = r.choice([g[0] for g in k.gets] + [g[0] for g in k.single])
                if r.random() < 0.3:
                    n = n[:r.randrange(1, len(n) + 1)]
                lines.append("y get %d %s" % (i, nm(n)))
            elif what < 0.83:
                lines.append("y reset %d" % i)
            elif what < 0.85:
                lines.append("y set %d x:- %s" % (i, r.choice(["null", "nullstr", "-", hx("x")])))
            elif what < 0.97:
                lines.append("y copy %d %d" % (i, r.randrange(len(objs))))
            else:
                lines.append("y dump %d" % r.randrange(len(objs)))
        for i in range(len(objs)):
            lines.append("y dump %d" % i)
        out.append(("rnd:%d" % n_, lines))
    return out


def _dump_of(ln):
    i = ln.find("| C ")
    j = ln.find(" | I ")
    return ln[i + 4:j] if i >= 0 and j > i else None


class _ZZ:
    """second part: the C++ colour printer (mpt++/color.cpp operator<<) with the C parser, harness/drvxx_layout.cpp"""
    id = "C20"
    area = "layout"
    driver = "drvxx_layout"
    cxx = True
    fixed_lines = 1
    link_extra = ["-fno-sanitize=vptr"]

    @staticmethod
    def corpus(chk):
        return [(n, s_) for n, s_ in gen.corpus(id) if s_ and s_[0].startswith("z ")]

    @staticmethod
    def scripts(tier, seed, scale=1):
        out = []
        r = gen.rng(id, tier, seed, "zz")
        vals = []
        B = [0, 1, 15, 16, 127, 128, 254, 255]
        for a in B:
            for x in (0, 0x44, 0xaa, 255):
                vals.append((x, 255 - x, a ^ x, a))
        for _ in range((300 if tier == "quick" else 5000) * scale):
            vals.append(tuple(r.choice(B + [r.randrange(256)]) for _ in range(4)))
        for i in range(0, len(vals), 8):
            out.append(("zp:%d" % i, ["z begin"] + ["z print %02x%02x%02x%02x" % v for v in vals[i:i + 8]]))
        texts = list(COLOURS) + ["#44aa44aa", "#aaaaaaaa", "#01020304", "#ff00ff00", "#0000007f"]
        for i in range(0, len(texts), 8):
            out.append(("zr:%d" % i, ["z begin"] + ["z reprint " + hx(t) for t in texts[i:i + 8] if t]))
        return out

    @staticmethod
    def nontrivial(script, c_lines):
        return any("back=col:" in ln and not ln.split("back=col:")[1].startswith(("000000ff",)) for ln in c_lines)

    @staticmethod
    def tally(chk, script, c_lines):
        d = chk.__dict__.setdefault("distribution", {})
        d["z"] = d.get("z", 0) + len(script) - 1

    finding_key = staticmethod(lambda script, res: finding_key(script, res))


extra_parts = [_ZZ]


def nontrivial(script, c_lines):
    prev = {}
    for op, ln in zip(script, c_lines):
        w = op.split()
        if len(w) < 3 or not ln.startswith("R "):
            continue
        d = _dump_of(ln)
        if w[1] == "new":
            k = ln.split("k=")[1].split()[0] if "k=" in ln else None
            if k is not None:
                prev[k] = d
            continue
        k = w[2]
        if w[1] in ("set", "copy", "reset") and ln.startswith("R ok") and k in prev and prev[k] != d:
            return True
        if w[1] in ("set", "copy", "reset", "dump", "get"):
            prev[k] = d
    return False


def tally(chk, script, c_lines):
    d = chk.__dict__.setdefault("distribution", {})
    for op, ln in zip(script, c_lines):
        w = op.split()
        if len(w) < 2:
            continue
        key = w[1]
        d[key] = d.get(key, 0) + 1
        if ln.startswith("R refused"):
            d[key + ":refused"] = d.get(key + ":refused", 0) + 1
        if ln.startswith("R unsupported"):
            d["unsupported"] = d.get("unsupported", 0) + 1


def finding_key(script, res):
    op = (res.get("op") or "").split()
    return "%s:%s" % (res["kind"], op[1] if len(op) > 1 else "?")
