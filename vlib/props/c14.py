"""C14 — node trees stay structurally sound."""
import itertools
import re
import zlib

from .. import gen

id = "C14"
area = "node"
driver = "drv_node"
cxx = False
fixed_lines = 1
per_process = 400   # a faulting script costs a restart of its batch only
link_extra = ("-Wl,--wrap=malloc",)   # allocation failure injection for the clone ops ('n fail <k>')
rule = ("scripts = 'n begin', node ops, 'n end' (destroy everything, every byte must come back); "
        "stream 1 (exhaustive small scope): every forest that can be built from <=4 (quick) / <=5 (thorough) nodes by "
        "'stay root / last child of an earlier node / appended to an earlier top-level list', names from {a,b,unnamed} "
        "(patterns abab, aabb, aaaa, a-a-; 4-node states: the first two, 5-node states: the first), followed by EVERY "
        "single op with every operand for which the call's precondition can hold (every eighth state: all operands; positions 0,1,2,-1,-2; "
        "by position and by name; after/before/add/insert/unlink/move/swap/relink/clone/clone tree/clone list/clear/destroy/"
        "locate/pos), i.e. histories of length <=5 over <=5 nodes; stream 2: every ordered pair of structural ops on "
        "the 3-node states (names aab; positions 0,1,-1 quick / 0,1,2,-1,-2 thorough); stream 3: random histories (12-40 ops, up to ~60 nodes) biased to valid calls by a "
        "python mirror of the forest, with clones of trees of depth >=2, merges of lists with overlapping names, "
        "clear/destroy of inner nodes; stream 4: allocation failure injected (malloc wrapped) at every allocation of "
        "node/tree/list clones of 5 small structures incl. names that do not fit into the node; stream 5: names of "
        "1..300 bytes (every length around 20 and 212..218) on nodes made for the name ('new') and on nodes of the smallest "
        "size named afterwards ('newsmall', name stored outside the node), cloned alone/as tree/as list; every state of "
        "stream 1 also gets mpt_node_parse with an unknown limits character, with a syntactically broken input (both refused: "
        "nothing may change) and with an empty input (children replaced by nothing), and mpt_parse_node WITHOUT detaching the "
        "children ('pmerge': four small forests incl. nested namesakes are read and merged with the children); stream 6: every ordered tree of 6 and 7 "
        "(thorough: 8) nodes, 'relink x scramble' (all parent/predecessor links below x made wrong) for every inner node x; non-trivial = a node with a grandchild existed at some point of the history "
        "(seen in the code's own walk), counted per distinct script")
assumptions = [
    "calls respect the GNode-style preconditions of the insert functions: the inserted node is a root without "
    "siblings and not an ancestor of the position (both drivers skip other calls as 'precond'); "
    "mpt_node_move is called with lists from different top-level structures (proved and run) or with two sibling lists of "
    "ONE structure none of which lies inside the other's moving part (run only: the destination is not below a source "
    "element from `from` on, the source is not below or in the destination list); the list reference handed to it is the "
    "parent's child link when the node is a first child and a variable of the driver otherwise, its value after the "
    "call (first element that stayed, or NULL) is part of the compared verdict (the model does not store the caller's "
    "variable, its line carries the specification's value)",
    "mpt_gnode_swap is called with two nodes none of which lies below the other; mpt_gnode_relink is called on sound "
    "structures and ('relink x scramble') after the drivers pointed every parent/predecessor link below the node to the node itself",
    "malloc fails only where the scripts inject it ('n fail k' before a clone op); the model decides refusal by the "
    "number of allocations of the clone (value, node, name longer than the node's inline space)",
    "node names are unnamed or short UTF-8 texts without NUL (identifier comparison = equality of names); "
    "values are short texts stored through mpt_meta_new",
    "release-exactly-once of the compiled code is observed through AddressSanitizer (double free/use after free = fault) "
    "and the allocator's byte count at 'n end' (every byte allocated since 'n begin' is back)",
]
trusted = ["hand-written model MptModel/Impl/Nodes.lean tied to mptcore/node/*.c by harness/drv_node.c",
           "the walk of harness/drv_node.c (link checker of the real structure) and Store.walk of the model"]

POS = [0, 1, 2, -1, -2]


def corpus(chk):
    return gen.corpus(id)


# --------------------------------------------------------------------------- python mirror (generation only)
class Mirror:
    """ordered forest with the same op semantics as the spec; used only to bias generators to valid calls"""

    def __init__(self):
        self.name = {}
        self.kids = {}
        self.parent = {}
        self.tops = []          # list of lists of ids
        self.next = 0

    def alive(self):
        return sorted(self.name)

    def new(self, nm):
        i = self.next
        self.next += 1
        self.name[i] = nm
        self.kids[i] = []
        self.parent[i] = None
        self.tops.append([i])
        return i

    def sibs(self, x):
        p = self.parent[x]
        if p is not None:
            return self.kids[p]
        for l in self.tops:
            if x in l:
                return l
        raise KeyError(x)

    def detached(self, x):
        return self.parent[x] is None and self.sibs(x) == [x]

    def top_of(self, x):
        while self.parent[x] is not None:
            x = self.parent[x]
        return self.sibs(x)[0]

    def subtree(self, x):
        out = [x]
        for c in self.kids[x]:
            out += self.subtree(c)
        return out

    def can_place(self, p, x):
        return p != x and self.detached(x) and self.top_of(p) != x

    def _take_top(self, x):
        self.tops = [l for l in self.tops if l != [x]]

    def add_idx(self, n, f, pos):
        if pos == 0:
            return n
        if pos > 0:
            return min(f + pos - 1, n)
        return n - (-pos) if -pos < n else f

    def name_idx(self, l, f, nm, pos):
        al = [i for i, y in enumerate(l) if self.name[y] == nm]
        frm = [i for i in al if i >= f]
        if pos > 0:
            if not frm:
                return len(l)
            return frm[pos - 1] if pos - 1 < len(frm) else al[-1] + 1
        if not al:
            return len(l)
        k = -pos
        if k < len(al):
            return al[len(al) - 1 - k] + 1
        return frm[0] if frm else None

    def place(self, l, k, x, parent):
        if k is None:
            return
        self._take_top(x)
        l.insert(k, x)
        self.parent[x] = parent

    def add(self, f, pos, x, byname):
        l = self.sibs(f)
        j = l.index(f)
        k = self.name_idx(l, j, self.name[x], pos) if byname else self.add_idx(len(l), j, pos)
        self.place(l, k, x, self.parent[f])

    def insert(self, p, pos, x, byname):
        l = self.kids[p]
        k = self.name_idx(l, 0, self.name[x], pos) if byname else self.add_idx(len(l), 0, pos)
        self.place(l, k, x, p)

    def after(self, p, x, off=1):
        l = self.sibs(p)
        self.place(l, l.index(p) + off, x, self.parent[p])

    def unlink(self, x):
        l = self.sibs(x)
        l.remove(x)
        self.parent[x] = None
        self.tops = [t for t in self.tops if t]
        self.tops.append([x])

    def kill(self, x):
        for y in self.subtree(x):
            del self.name[y], self.kids[y], self.parent[y]

    def clear(self, x):
        for c in list(self.kids[x]):
            self.kill(c)
        self.kids[x] = []

    def destroy(self, x):
        if not self.detached(x):
            return
        self._take_top(x)
        self.kill(x)

    def _clone(self, x, deep):
        i = self.next
        self.next += 1
        self.name[i] = self.name[x]
        self.kids[i] = []
        self.parent[i] = None
        if deep:
            for c in self.kids[x]:
                k = self._clone(c, True)
                self.kids[i].append(k)
                self.parent[k] = i
        return i

    def clone(self, x, mode):
        if mode == 0:
            self.tops.append([self._clone(x, False)])
        elif mode == 1:
            self.tops.append([self._clone(x, True)])
        else:
            l = self.sibs(x)
            self.tops.append([self._clone(y, True) for y in l[l.index(x):]])

    def swap(self, a, b):
        if a == b or b in self.subtree(a) or a in self.subtree(b):
            return
        self.kids[a], self.kids[b] = self.kids[b], self.kids[a]
        for c in self.kids[a]:
            self.parent[c] = a
        for c in self.kids[b]:
            self.parent[c] = b

    def can_move_same(self, a, b):
        src = self.sibs(a)
        part = src[src.index(a):]
        if any(b in self.subtree(x) for x in part):
            return False
        return not any(a in self.subtree(y) for y in self.sibs(b))

    def pmerge(self, x, ents):
        """ents: list of (depth, name); the parsed forest takes the place of the children of x, old children are merged in"""
        if not ents:
            return
        ids, stack, top = [], [], []
        for d, nm in ents:
            i = self.next
            self.next += 1
            self.name[i] = nm
            self.kids[i] = []
            self.parent[i] = None
            del stack[d:]
            if stack:
                self.kids[stack[-1]].append(i)
                self.parent[i] = stack[-1]
            else:
                top.append(i)
            stack.append(i)
        old = self.kids[x]
        self._merge(old, 0, top, 0, x)
        for c in list(old):
            self.kill(c)
        self.kids[x] = top
        for c in top:
            self.parent[c] = x

    def switch(self, a, b):
        if a == b or b in self.subtree(a) or a in self.subtree(b):
            return
        la, lb = self.sibs(a), self.sibs(b)
        ia, ib = la.index(a), lb.index(b)
        la[ia], lb[ib] = b, a
        self.parent[a], self.parent[b] = self.parent[b], self.parent[a]

    def move(self, a, b):
        src = self.sibs(a)
        i = src.index(a)
        dst = self.sibs(b)
        self._merge(src, i, dst, dst.index(b), self.parent[b])
        self.tops = [t for t in self.tops if t]

    def _merge(self, src, i, dst, d, dpar):
        while i < len(src):
            s = src[i]
            m = [y for y in dst[d:] if self.name[y] == self.name[s]]
            if not m:
                src.pop(i)
                dst.append(s)
                self.parent[s] = dpar
                continue
            t = m[0]
            if self.kids[s]:
                if self.kids[t]:
                    self._merge(self.kids[s], 0, self.kids[t], 0, t)
                else:
                    self.kids[t] = self.kids[s]
                    self.kids[s] = []
                    for c in self.kids[t]:
                        self.parent[c] = t
            i += 1


# --------------------------------------------------------------------------- stream 1: states x every op
NAMES = ["abab", "aabb", "aaaa", "a-a-"]


def _states(n):
    """build choices for node i>=1: ('r',) | ('c', j) last child of j | ('s', j) appended to the top-level list of root j"""
    def rec(i, acc, roots):
        if i == n:
            yield list(acc)
            return
        yield from rec(i + 1, acc + [("r",)], roots + [i])
        for j in range(i):
            yield from rec(i + 1, acc + [("c", j)], roots)
        for j in roots:
            # only heads of top-level lists that are still roots of their own list
            yield from rec(i + 1, acc + [("s", j)], roots)
    yield from rec(1, [], [0])


def _build(n, choice, names):
    lines, m = [], Mirror()
    for i in range(n):
        nm = names[i % len(names)]
        lines.append("n new %s %s" % (nm, "v%d" % i if i % 2 == 0 else "-"))
        m.new(nm)
    for i, ch in enumerate(choice, 1):
        if ch[0] == "c":
            lines.append("n insert %d 0 %d" % (ch[1], i))
            m.insert(ch[1], 0, i, False)
        elif ch[0] == "s":
            lines.append("n add %d 0 %d" % (ch[1], i))
            m.add(ch[1], 0, i, False)
    return lines, m


def _all_ops(m, n, positions, full):
    ops = []
    T = range(n)
    det = [x for x in T if m.detached(x)]
    for x in T:
        ops += ["n unlink %d" % x, "n clear %d" % x, "n destroy %d" % x,
                "n clone %d" % x, "n clone %d tree" % x, "n clone %d list" % x, "n relink %d" % x,
                "n relink %d scramble" % x, "n nparse %d nsx empty" % x, "n nparse %d ns broken" % x,
                "n nparse %d nS empty" % x, "n pmerge %d 0:a=1" % x, "n pmerge %d 0:b;1:a=2;0:a" % x,
                "n pmerge %d 0:a;1:b=2;1:a;2:c=3;0:b=4" % x, "n pmerge %d -" % x]
        for p in positions:
            ops.append("n pos %d %d" % (x, p))
            for nm in ("a", "b"):
                ops.append("n locate %d %d %s" % (x, p, nm))
    for a in T:
        for b in T:
            ops.append("n move %d %d" % (a, b))
            ops.append("n swap %d %d" % (a, b))
            ops.append("n switch %d %d" % (a, b))
    xs = T if full else det
    for x in xs:
        for p in T:
            ops.append("n after %d %d" % (p, x))
            ops.append("n before %d %d" % (p, x))
            if p == x and not full:
                continue
            for pos in positions:
                for by in ("", " byname"):
                    ops.append("n add %d %d %d%s" % (p, pos, x, by))
                    ops.append("n insert %d %d %d%s" % (p, pos, x, by))
    return ops


def _stream1(tier):
    out = []
    top = 4 if tier == "quick" else 5
    for n in range(1, top + 1):
        pats = NAMES if n <= 3 or tier != "quick" else NAMES[:2]
        if n == 5:
            pats = NAMES[:1]
        for choice in _states(n):
            for names in pats:
                pre, m = _build(n, choice, names)
                # one state in eight also gets the calls whose precondition is not met
                full = (zlib.crc32(repr((n, choice, names)).encode()) % 8 == 0) or n <= 2
                for op in _all_ops(m, n, POS, full):
                    out.append(("ex:%d/%s/%s:%s" % (n, names, "".join("%s%s" % (c[0], c[1] if len(c) > 1 else "") for c in choice), op),
                                ["n begin"] + pre + [op, "n end"]))
    return out


# --------------------------------------------------------------------------- stream 2: pairs of structural ops
def _struct_ops(n, positions):
    ops = []
    T = range(n)
    for x in T:
        ops += ["n unlink %d" % x, "n clear %d" % x, "n destroy %d" % x, "n clone %d tree" % x, "n clone %d list" % x,
                "n relink %d scramble" % x]
        for p in T:
            if p == x:
                continue
            ops.append("n move %d %d" % (p, x))
            ops.append("n swap %d %d" % (p, x))
            ops.append("n after %d %d" % (p, x))
            ops.append("n before %d %d" % (p, x))
            for pos in positions:
                ops.append("n insert %d %d %d" % (p, pos, x))
                ops.append("n insert %d %d %d byname" % (p, pos, x))
                ops.append("n add %d %d %d" % (p, pos, x))
    return ops


def _stream2(tier):
    out = []
    n = 3
    positions = [0, 1, -1] if tier == "quick" else [0, 1, 2, -1, -2]
    ops = _struct_ops(n, positions)
    for choice in _states(n):
        for names in ["aab."]:
            pre, _ = _build(n, choice, names)
            for a, b in itertools.product(ops, ops):
                out.append(("pair:%s:%s;%s" % ("".join(map(str, choice)), a, b), ["n begin"] + pre + [a, b, "n end"]))
    return out


# --------------------------------------------------------------------------- stream 3: random histories
def _random_history(r, length):
    m = Mirror()
    lines = ["n begin"]
    names = ["a", "b", "a", "b", "c", "-", "."]

    def pick(xs):
        return r.choice(xs) if xs else None

    for _ in range(length):
        al = m.alive()
        det = [x for x in al if m.detached(x)]
        kind = r.choice(["new", "new", "insert", "insert", "insert", "add", "after", "before", "unlink", "move", "move",
                         "clone", "clonetree", "clonelist", "clear", "destroy", "locate", "pos", "wild", "swap", "relink", "nparse", "switch", "pmerge"])
        if not al or kind == "new" or (len(al) < 4 and r.random() < 0.5):
            nm = r.choice(names)
            if r.random() < 0.08:
                key = r.choice(["6162", "00", "ff00", "6162"])
                lines.append("n newkey %s %s" % (key, r.choice(["-", "x"])))
                m.new("#" + key)
                continue
            if r.random() < 0.15:
                nm = r.choice(["L", "M"]) * r.choice([19, 20, 21, 22, 200, 212, 213, 217]) + nm.strip("-.")
                lines.append("n %s %s %s" % (r.choice(["new", "newsmall"]), nm, r.choice(["-", "x"])))
            else:
                lines.append("n new %s %s" % (nm, r.choice(["-", "v%d" % m.next, "x"])))
            m.new(None if nm == "-" else nm)
            continue
        if kind == "wild":
            # calls that may not meet a precondition or name a dead node
            t = lambda: r.randrange(m.next + 1)
            lines.append(r.choice(["n insert %d %d %d" % (t(), r.choice(POS), t()), "n after %d %d" % (t(), t()),
                                   "n destroy %d" % t(), "n move %d %d" % (t(), t()), "n add %d 0 %d byname" % (t(), t()),
                                   "n unlink %d" % t(), "n clone %d x" % t(), "n insert %d 5x %d" % (t(), t())]))
            # keep the mirror in step for the well-formed ones: re-simulate conservatively
            w = lines[-1].split()
            try:
                args = [int(v) for v in w[2:] if re.fullmatch(r"-?\d+", v)]
                if w[1] == "insert" and len(w) == 5 and len(args) == 3 and args[0] in m.name and args[2] in m.name and m.can_place(args[0], args[2]):
                    m.insert(args[0], args[1], args[2], False)
                elif w[1] == "after" and len(args) == 2 and args[0] in m.name and args[1] in m.name and m.can_place(args[0], args[1]):
                    m.after(args[0], args[1])
                elif w[1] == "destroy" and args[0] in m.name:
                    m.destroy(args[0])
                elif w[1] == "move" and args[0] in m.name and args[1] in m.name and (m.top_of(args[0]) != m.top_of(args[1]) or m.can_move_same(args[0], args[1])):
                    m.move(args[0], args[1])
                elif w[1] == "add" and args[0] in m.name and args[1] in m.name and m.can_place(args[0], args[1]):
                    m.add(args[0], 0, args[1], True)
                elif w[1] == "unlink" and args[0] in m.name:
                    m.unlink(args[0])
            except (KeyError, ValueError, IndexError):
                pass
            continue
        if kind in ("insert", "add", "after", "before"):
            x = pick(det)
            cand = [p for p in al if x is not None and m.can_place(p, x)]
            p = pick(cand)
            if x is None or p is None:
                nm = r.choice(names)
                lines.append("n new %s -" % nm)
                m.new(None if nm == "-" else nm)
                continue
            pos = r.choice([0, 0, 1, 2, 3, -1, -2, -3])
            by = r.random() < 0.4
            if kind == "insert":
                lines.append("n insert %d %d %d%s" % (p, pos, x, " byname" if by else ""))
                m.insert(p, pos, x, by)
            elif kind == "add":
                lines.append("n add %d %d %d%s" % (p, pos, x, " byname" if by else ""))
                m.add(p, pos, x, by)
            elif kind == "after":
                lines.append("n after %d %d" % (p, x))
                m.after(p, x, 1)
            else:
                lines.append("n before %d %d" % (p, x))
                m.after(p, x, 0)
        elif kind == "unlink":
            x = pick(al)
            lines.append("n unlink %d" % x)
            m.unlink(x)
        elif kind == "move":
            a = pick(al)
            cand = [b for b in al if m.top_of(b) != m.top_of(a)]
            if r.random() < 0.4:
                # inside one structure: two sibling lists none of which lies in the other's moving part
                cand = [b for b in al if m.top_of(b) == m.top_of(a) and m.can_move_same(a, b)]
            b = pick(cand)
            if b is None:
                continue
            # prefer list heads as source
            if r.random() < 0.7:
                h = m.sibs(a)[0]
                if m.top_of(h) != m.top_of(b) or m.can_move_same(h, b):
                    a = h
            lines.append("n move %d %d" % (a, b))
            m.move(a, b)
        elif kind in ("clone", "clonetree", "clonelist"):
            if len(al) > 60:
                continue
            deep = [x for x in al if any(m.kids[c] for c in m.kids[x])]
            x = pick(deep) if deep and r.random() < 0.6 else pick(al)
            mode = {"clone": 0, "clonetree": 1, "clonelist": 2}[kind]
            lines.append("n clone %d%s" % (x, ["", " tree", " list"][mode]))
            m.clone(x, mode)
        elif kind == "clear":
            x = pick(al)
            lines.append("n clear %d" % x)
            m.clear(x)
        elif kind == "destroy":
            x = pick(det) if det and r.random() < 0.7 else pick(al)
            lines.append("n destroy %d" % x)
            m.destroy(x)
        elif kind == "swap":
            a, b = pick(al), pick(al)
            lines.append("n swap %d %d" % (a, b))
            m.swap(a, b)
        elif kind == "nparse":
            x = pick(al)
            lim, inp = r.choice([("nsx", "empty"), ("ns", "broken"), ("q", "empty"), ("ns", "empty"), ("Ew", "empty")])
            lines.append("n nparse %d %s %s" % (x, lim, inp))
            if inp == "empty" and all(c in "fcnswebFCNSWEB" for c in lim):
                m.clear(x)
        elif kind == "pmerge":
            x = pick(al)
            ents, d = [], 0
            for _ in range(r.choice([1, 2, 3, 4])):
                ents.append((d, r.choice(["a", "b", "c"]), r.random() < 0.5))
                d = r.choice([0, d, d + 1]) if not ents[-1][2] else r.choice([0, d])
            lines.append("n pmerge %d %s" % (x, ";".join("%d:%s%s" % (dd, nm, "=v" if hv else "") for dd, nm, hv in ents)))
            m.pmerge(x, [(dd, nm) for dd, nm, hv in ents])
        elif kind == "switch":
            a, b = pick(al), pick(al)
            lines.append("n switch %d %d" % (a, b))
            m.switch(a, b)
        elif kind == "relink":
            lines.append("n relink %d%s" % (pick(al), r.choice(["", " scramble", " scramble"])))
        elif kind == "locate":
            lines.append("n locate %d %d %s" % (pick(al), r.choice([0, 1, 2, 3, -1, -2]), r.choice(["a", "b", "c", "."])))
        else:
            lines.append("n pos %d %d" % (pick(al), r.choice([0, 1, 2, 3, -1, -2, -3])))
    lines.append("n end")
    return lines


def _stream_names(tier):
    """names around the inline capacity of a node's identifier (node made for the name, or made small and named
    afterwards: name stored outside the node), cloned alone / as tree / as list and located by name"""
    out = []
    lens = [1, 12, 19, 20, 21, 22, 23, 40, 100, 200, 205, 211, 212, 213, 215, 216, 217, 218, 300]
    alpha = "abcdefghijklmnopqrstuvwxyzABCDEFGHIJKLMNOPQRSTUVWXYZ0123456789"
    def name(ln, k):
        return ("%c%d_" % (alpha[k % 52], ln) + alpha[k % 7:] * 6)[:ln]
    k = 0
    for ln in lens:
        for how in ("new", "newsmall"):
            for val in ("-", "v"):
                k += 1
                nm, nm2 = name(ln, k), name(ln, k + 31)
                pre = ["n begin", "n %s %s %s" % (how, nm, val), "n newsmall %s -" % nm2, "n new kid x", "n insert 0 0 1", "n insert 1 0 2"]
                for op in ("n clone 0", "n clone 0 tree", "n clone 1 list", "n clone 1"):
                    out.append(("name:%d/%s/%s/%s" % (ln, how, val, op[2:].replace(" ", "_")),
                                pre + [op, "n locate 3 1 %s" % nm, "n locate 3 1 %s" % nm2, "n clone 3 tree", "n end"]))
    # nodes identified by a binary key instead of a text name (mpt_identifier_set(id, 0, len) + data)
    for j, (k1, k2) in enumerate((("6162", "00ff"), ("00", "0000"), ("ff01020304050607", "6162"), ("61", "61"))):
        pre = ["n begin", "n newkey %s v" % k1, "n newkey %s -" % k2, "n new a x", "n newkey %s -" % k1, "n insert 0 0 1", "n insert 1 0 2"]
        for op in ("n clone 0", "n clone 0 tree", "n clone 1 list", "n clone 1"):
            out.append(("name:key:%d/%s" % (j, op[2:].replace(" ", "_")),
                        pre + [op, "n add 0 0 3 byname", "n clone 0 list", "n end"]))
    return out


def _shapes(n):
    """all ordered trees with n nodes in pre-order numbering: parent of node i is a node on the rightmost path of 0..i-1"""
    def rec(i, parents, path):
        if i == n:
            yield list(parents)
            return
        for k in range(len(path)):
            yield from rec(i + 1, parents + [path[k]], path[:k + 1] + [i])
    yield from rec(1, [], [0])


def _stream_relink(tier):
    """mpt_gnode_relink on every ordered tree of 6 and 7 (thorough: 8) nodes: for every node with children all links
    below it are made wrong, relink must restore them (the walk after each op checks every link)"""
    out = []
    for n in ((6, 7) if tier == "quick" else (6, 7, 8)):
        for k, par in enumerate(_shapes(n)):
            lines = ["n begin"] + ["n new %s -" % "abc"[i % 3] for i in range(n)]
            for i, p in enumerate(par, 1):
                lines.append("n insert %d 0 %d" % (p, i))
            inner = sorted(set(par))
            for x in inner:
                lines.append("n relink %d scramble" % x)
            lines.append("n relink 0")
            out.append(("relink:%d/%d" % (n, k), lines + ["n end"]))
    return out


def _stream_fail(tier):
    """allocation failure at every malloc of the clone ops (`n fail k`): refused, nothing changed, nothing leaked"""
    out = []
    long = "L" * 230      # does not fit into the node: the name is allocated separately
    builds = [
        (["n new a v0"], 1),
        (["n new %s -" % long], 1),
        (["n new %s v0" % long, "n new b v1", "n insert 0 0 1"], 2),
        (["n new a v0", "n new %s v1" % long, "n new b -", "n new c v3", "n insert 0 0 1", "n insert 1 0 2", "n insert 0 0 3"], 4),
        (["n new a -", "n new b v1", "n new %s -" % long, "n add 0 0 1", "n insert 1 0 2"], 3),
    ]
    for bi, (pre, n) in enumerate(builds):
        for x in range(n):
            for mode in ("", " tree", " list"):
                for k in range(1, 13 if tier == "quick" else 20):
                    out.append(("fail:%d/%d%s/%d" % (bi, x, mode, k),
                                ["n begin"] + pre + ["n fail %d" % k, "n clone %d%s" % (x, mode), "n clone %d tree" % x, "n end"]))
    return out


def scripts(tier, seed, scale=1):
    out = _stream1(tier) + _stream2(tier) + _stream_fail(tier) + _stream_names(tier) + _stream_relink(tier)
    nrand = (400 if tier == "quick" else 6000) * scale
    r = gen.rng(id, tier, seed, "random")
    for k in range(nrand):
        out.append(("rnd:%d" % k, _random_history(r, r.choice([12, 20, 40]))))
    return out


_GRAND = re.compile(r"\([^()/]*\(")


def nontrivial(script, c_lines):
    for ln in c_lines:
        i = ln.find("| C ")
        if i >= 0 and _GRAND.search(ln[i:]):
            return True
    return False


def tally(chk, script, c_lines):
    d = chk.__dict__.setdefault("distribution", {})
    for op, ln in zip(script, c_lines):
        w = op.split()
        k = w[1] if len(w) > 1 else "?"
        if k == "clone" and len(w) > 3:
            k += "-" + w[3]
        if w[-1] == "byname":
            k += "-byname"
        d[k] = d.get(k, 0) + 1
        if ln.startswith("R precond"):
            d["precond"] = d.get("precond", 0) + 1
        elif ln.startswith("R refused"):
            d["refused"] = d.get("refused", 0) + 1
        elif ln == "bad-op":
            d["bad-op"] = d.get("bad-op", 0) + 1


def finding_key(script, res):
    op = (res.get("op") or "").split()
    return "%s:%s" % (res["kind"], op[1] if len(op) > 1 else "?")


# --------------------------------------------------------------------------- second part: the tree of the global configuration
class _CFG:
    """the node tree behind the process-wide configuration, changed through sub-tree views (config_global.c:
    make_global + mpt_node_assign, incl. the parent fix-up when the base or a prefix of it is a leaf); driven through
    harness/drv_config.c (C10's driver), whose every output line carries a link check of the whole global tree
    (prev/parent of every node against the child/next links)"""
    id = "C14"
    area = "config"
    driver = "drv_config"
    cxx = False
    fixed_lines = 1
    per_process = 25
    link_extra = ("-Wl,--wrap=malloc",)

    @staticmethod
    def corpus(chk):
        return []

    @staticmethod
    def scripts(tier, seed, scale=1):
        hx = lambda t: t.encode().hex() if t else "-"
        out = []
        k = 0
        for leaf in ("leaf", "a.leaf", "a.b.leaf"):
            for ext in ("", "b", "b.c", "b.c.d"):
                for valued in (True, False):
                    for rel in ("x", "x.y", "x.y.z"):
                        base = leaf + ("." + ext if ext else "")
                        lines = ["g begin", "g set - %s 2e %s" % (hx("o.p"), hx("0"))]
                        if valued:
                            lines.append("g set - %s 2e %s" % (hx(leaf), hx("v")))
                        else:
                            lines += ["g set - %s 2e %s" % (hx(leaf + ".t"), hx("v")), "g del - %s 2e" % hx(leaf + ".t")]
                        lines += ["g view %s 2e" % hx(base), "g set 0 %s 2e %s" % (hx(rel), hx("1")),
                                  "g has - %s 2e" % hx(base), "g get - %s 2e" % hx(base + "." + rel),
                                  "g set 0 %s 2e %s" % (hx("w"), hx("2")), "g del 0 %s 2e" % hx(rel.split(".")[0]),
                                  "g set 0 %s 2e %s" % (hx(rel), hx("3")), "g del - %s 2e" % hx(leaf),
                                  "g set 0 %s 2e %s" % (hx(rel), hx("4")), "g end"]
                        out.append(("cfgview:%d" % k, lines))
                        k += 1
        # mpt_node_assign with the name allocation of the last element failing: nothing may be released twice or lost
        from . import c10
        out += c10._failsize_scripts(hx)
        return out

    @staticmethod
    def nontrivial(script, c_lines):
        return any(ln.count("/") >= 3 for ln in c_lines)

    @staticmethod
    def tally(chk, script, c_lines):
        d = chk.__dict__.setdefault("distribution", {})
        d["cfg-view-op"] = d.get("cfg-view-op", 0) + len(script)

    @staticmethod
    def finding_key(script, res):
        op = (res.get("op") or "").split()
        return "%s:cfg-%s" % (res["kind"], op[1] if len(op) > 1 else "?")


# --------------------------------------------------------------------------- third part: trees built by the C++ parser wrapper
class _PARSE:
    """trees built and replaced by mpt::config_parser (mpt++/parse.cpp) through harness/drvxx_treeparse.cpp: open,
    read, then reset + read again 1..4 times on ONE parser object; the tree clauses are stated relationally (no parser
    model): every read gives a tree with sound links equal to the first one, the live heap bytes after every cycle are
    those after the first read, and everything is back after the target is cleared and the parser deleted"""
    id = "C14"
    area = "node"
    driver = "drvxx_treeparse"
    cxx = True
    fixed_lines = 1
    link_extra = ["-fno-sanitize=vptr"]

    @staticmethod
    def corpus(chk):
        return []

    @staticmethod
    def scripts(tier, seed, scale=1):
        files = ["a {\nb=1\n}\nc=2\n", "o=1\n", "s {\n t {\n u=v w\n }\n}\n", "x=1\ny=2\n", "", "a {\n}\n",
                 "srv {\n name = alpha\n opts {\n  mode = fast\n  level = 9\n }\n port = 8080\n}\nlog = file\n",
                 "k%s = v\n" % ("n" * 30), "a {\n b {\n c {\n d {\n e = 1\n }\n }\n }\n}\n"]
        out = []
        for i, f in enumerate(files):
            lines = ["n begin"]
            for cycles in (0, 1, 2, 4):
                lines.append("n cxxreread %s %d" % (f.encode().hex() if f else "-", cycles))
            out.append(("reread:%d" % i, lines + ["n end"]))
        # C++ nodes in a sibling list without parent: deleting one must unlink it from its neighbours
        lines = ["n begin"]
        for k in range(1, 6):
            for i in range(k):
                lines.append("n cxxlist %d %d" % (k, i))
        out.append(("cxxlist", lines + ["n end"]))
        return out

    @staticmethod
    def nontrivial(script, c_lines):
        return True

    @staticmethod
    def tally(chk, script, c_lines):
        d = chk.__dict__.setdefault("distribution", {})
        d["cxxreread"] = d.get("cxxreread", 0) + sum(1 for op in script if "cxxreread" in op)

    @staticmethod
    def finding_key(script, res):
        return "%s:cxxreread" % res["kind"]


extra_parts = [_CFG, _PARSE]
