"""C03 — decoders are safe and honest on arbitrary bytes."""
from .. import gen
from . import c01

id = "C03"
area = "codec"
driver = "drv_codec"
cxx = False
fixed_lines = 1
# allocation failures are injected through a wrapped malloc (harness/drv_codec.c)
link_extra = ["-Wl,--wrap=malloc"]
lean_modules = ["Driver.Codec"]
DECODERS = ["cobs", "cobs/r", "cobs/zpe", "cobs/zpe+r"]
ALPHA = [0x00, 0x01, 0x02, 0x1f, 0x20, 0xde, 0xdf, 0xe0, 0xe1, 0xfe, 0xff]
rule = ("scripts = 'dec new <codec> <align>:<hex> ...' (guarded segments at the given address offset mod 16), optional "
        "'dec state' head room, then 'dec run' repeated (resume after every return code), 'dec append'/'dec seg' (more input), "
        "'dec peek', 'dec size'.  Stream 1 (exhaustive) = every byte string over {00,01,02,1f,20,de,df,e0,e1,fe,ff} up to "
        "length 4 x 4 COBS decoders in one segment, and up to length 3 (quick) / 4 (thorough) additionally in every "
        "2-segmentation as two segments and as 2-step arrival; plus a seeded sample of longer strings (all three forms); "
        "stream 1b = every 3-segmentation (empty segments included) of every string of length 2 (thorough: 2..3) plus a third of the 3-segmentations of the strings of length 3 (thorough: a twelfth of those of length 4) "
        "and of valid multi-block frames (single and two frames back to back) for all 4 decoders, a third of them with a "
        "fourth, empty segment inserted, and of command text with head room; stream 2 = valid frames of structured "
        "messages (block-boundary lengths) mutated (byte flip, zero inserted, truncation, doubled delimiter) under random "
        "segmentations/alignments/head room, command text included; stream 3 = random bytes with peek/size calls in between; "
        "stream 4 = decoder states set by hand ('dec state': open blocks in data and zero part, with and without work area, waiting message) "
        "followed by run/peek/more input, and command text previews.  Third part (coded-queue driver): byte strings over the alphabet and mutated "
        "frames fed into the input queue ('dq feed'), 4-8 KiB queues enlarged while their content wraps with > 1 KiB on both sides, queues without decoder.  "
        "Non-trivial = a script in which a call returned an error, or a message was delivered after an earlier call had "
        "returned 0 (resumed), or a message was delivered from input spread over >= 2 segments, counted per distinct script")
assumptions = [
    "libc memcpy/memchr behave as specified",
    "every segment ends at the end of its heap block: AddressSanitizer reports any load or store behind a segment; in front of a segment "
    ">= 64 guard bytes show stray stores (a stray load in front of a segment is only seen when it changes an observable result); "
    "the theorems about indices are about the model (one flattened buffer)",
    "termination of the C loops is observed, not proved: a decoder call that does not return within 10 s is reported as a fault (alarm)",
    "the segment base address enters only through addr & 15 (pinned by the driver, passed to the model)",
]
trusted = ["hand-written model MptModel/Impl/Decode.lean tied to mptcore/convert/decode_cobs.c, decode_cobs_zpe.c, "
           "decode_command.c by harness/drv_codec.c (differential execution, all state fields and the storage compared)"]


def generate(chk):
    c01.generate(chk)


def corpus(chk):
    return gen.corpus(id)


def ref_encode(codec, msg):
    """greedy reference encoder (generator side only; frames are inputs, not oracles)"""
    zpe = "zpe" in codec
    tail = codec.endswith("r")
    maxlen = 0xdf if zpe else 0xff
    out = []
    run = []
    i = 0
    n = len(msg)
    while i < n:
        b = msg[i]
        if b == 0:
            if zpe and 1 <= len(run) <= 30 and i + 1 < n and msg[i + 1] == 0:
                out.append(len(run) + 0xe0)
                out.extend(run)
                run = []
                i += 2
                continue
            out.append(len(run) + 1)
            out.extend(run)
            run = []
        else:
            run.append(b)
            if len(run) + 1 == maxlen:
                out.append(maxlen)
                out.extend(run)
                run = []
        i += 1
    if tail and run and len(run) + 1 < run[-1] <= maxlen:
        out.append(run[-1])
        out.extend(run[:-1])
    else:
        out.append(len(run) + 1)
        out.extend(run)
    out.append(0)
    return out


def seg(align, bs):
    return "%d:%s" % (align, gen.hexs(bs))


def one_string(codec, x, mode, cut=0, align=0, align2=0):
    """script for byte string x"""
    runs = ["dec run"] * (2 + x.count(0))
    if mode == "one":
        return ["dec new %s %s" % (codec, seg(align, x))] + runs
    if mode == "two":
        return ["dec new %s %s %s" % (codec, seg(align, x[:cut]), seg(align2, x[cut:]))] + runs
    # arrival in two steps
    return ["dec new %s %s" % (codec, seg(align, x[:cut])), "dec run", "dec run", "dec append " + gen.hexs(x[cut:])] + runs


def strings(n):
    out = [[]]
    fr = [[]]
    for _ in range(n):
        fr = [m + [a] for m in fr for a in ALPHA]
        out.extend(fr)
    return out


def mutate(r, f):
    f = list(f)
    k = r.choice(["flip", "zero", "trunc", "dup", "ins", "none", "none"])
    if not f:
        return f
    if k == "flip":
        i = r.randrange(len(f))
        f[i] = r.choice([0, 1, 2, 0x1f, 0x20, 0xde, 0xdf, 0xe0, 0xe1, 0xfe, 0xff, r.randrange(256)])
    elif k == "zero":
        f.insert(r.randrange(len(f)), 0)
    elif k == "trunc":
        f = f[:r.randrange(len(f))]
    elif k == "dup":
        f.append(0)
    elif k == "ins":
        f.insert(r.randrange(len(f)), r.randrange(1, 256))
    return f


def segment(r, data, maxseg=4):
    """random segmentation as 'dec new' arguments plus later arrivals"""
    n = len(data)
    k = r.choice([1, 1, 2, 3, maxseg])
    cuts = sorted(r.randrange(n + 1) for _ in range(k - 1))
    parts, last = [], 0
    for c in cuts + [n]:
        parts.append(data[last:c])
        last = c
    return parts


def stream_script(r, codec, data, head):
    """feed `data` (possibly several frames) with head room `head`, in segments and arrivals"""
    pre = [0xdd] * head
    parts = segment(r, data)
    first = r.randrange(1, len(parts) + 1)
    segs = [seg(r.randrange(16), (pre if i == 0 else []) + p) for i, p in enumerate(parts[:first])]
    lines = ["dec new %s %s" % (codec, " ".join(segs))]
    if head:
        lines.append("dec state 0 %d 0 0 -1" % head)
    nrun = 2 + data.count(0)
    for _ in range(min(nrun, 3)):
        lines.append(r.choice(["dec run", "dec run", "dec run", "dec peek", "dec size %d" % r.choice([0, 1, 7, 300])]))
    for p in parts[first:]:
        if r.random() < 0.5:
            lines.append("dec append " + gen.hexs(p))
        else:
            lines.append("dec seg " + seg(r.randrange(16), p))
        lines.append(r.choice(["dec run", "dec run", "dec peek"]))
        lines.append("dec run")
    lines.extend(["dec run"] * min(nrun, 6))
    return lines


def scripts(tier, seed, scale=1):
    out = []
    # ---- stream 1: exhaustive
    top = 3 if tier == "quick" else 4
    strs = strings(top)
    r0 = gen.rng(id, tier, seed, "exhaustive")
    if tier == "quick":
        l4 = [[r0.choice(ALPHA) for _ in range(r0.choice([4, 5]))] for _ in range(400 * scale)]
        single = [x for x in strings(4) if len(x) == 4]
    else:
        l4 = [[r0.choice(ALPHA) for _ in range(r0.choice([5, 6]))] for _ in range(2000 * scale)]
        single = []
    for codec in DECODERS:
        for k, x in enumerate(single):
            out.append(("ex:%s:%s" % (codec, gen.hexs(x)), one_string(codec, x, "one", align=k % 16)))
        for k, x in enumerate(strs + l4):
            a = k % 16
            out.append(("ex:%s:%s" % (codec, gen.hexs(x)), one_string(codec, x, "one", align=a)))
            for cut in range(1, len(x)):
                out.append(("ex2:%s:%s:%d" % (codec, gen.hexs(x), cut), one_string(codec, x, "two", cut, a, (a * 7 + cut) % 16)))
                out.append(("exa:%s:%s:%d" % (codec, gen.hexs(x), cut), one_string(codec, x, "arrive", cut, a)))
    # ---- stream 1b: three and more segments (empty ones included), systematically
    def seg3(codec, x, i, j, a, empty_at=None):
        parts = [x[:i], x[i:j], x[j:]]
        if empty_at is not None:
            parts.insert(empty_at, [])
        segs = " ".join(seg((a + 5 * k) % 16, p) for k, p in enumerate(parts))
        return ["dec new %s %s" % (codec, segs)] + ["dec run"] * (2 + x.count(0))
    top3 = 3 if tier == "quick" else 4
    s3 = [x for x in strings(top3) if len(x) >= 2]
    # valid multi-block frames: a boundary in front of every code byte and in front of the delimiter occurs
    base_msgs = [[0x11, 0x22, 0, 0x33, 0x44, 0, 0x55], [0x11, 0, 0, 0x22], [0, 0x11], [0x11, 0x22, 0x33, 0xff],
                 [0x11, 0, 0, 0, 0x22, 0], [0xe0, 0, 0xdf], [7] * 30 + [0, 0, 9], [1, 2, 3, 0, 0, 4, 5, 6, 0, 0, 7]]
    for codec in DECODERS:
        for k, x in enumerate(s3):
            n = len(x)
            for i in range(0, n + 1):
                for j in range(i, n + 1):
                    if n >= top3 and (i + j + k) % (3 if tier == "quick" else 12):
                        continue        # a third (thorough: a twelfth) of the splits of the longest strings (length 3 quick, length 4 thorough)
                    out.append(("s3:%s:%s:%d:%d" % (codec, gen.hexs(x), i, j), seg3(codec, x, i, j, k)))
        for k, m in enumerate(base_msgs):
            f = ref_encode(codec, m)
            two = f + ref_encode(codec, m[:3])
            for x in (f, two):
                n = len(x)
                if n > 14:
                    cuts = [(i, j) for i in range(0, n + 1) for j in range(i, n + 1) if r0.random() < 60.0 / (n * n)]
                else:
                    cuts = [(i, j) for i in range(0, n + 1) for j in range(i, n + 1)]
                for (i, j) in cuts:
                    out.append(("s3f:%s:%d:%d:%d" % (codec, k, i, j), seg3(codec, x, i, j, k)))
                    if (i + j + k) % 3 == 0:
                        out.append(("s4f:%s:%d:%d:%d" % (codec, k, i, j), seg3(codec, x, i, j, k, empty_at=(i + j) % 4)))
    # command text over several segments (two bytes of head room in the first segment)
    for k, m in enumerate([[0x68, 0x69], [0x61], [0x61, 0x62, 0x63, 0x64]]):
        x = [0xdd, 0xdd] + m + [0] + m[:1] + [0]
        n = len(x)
        for i in range(0, n + 1):
            for j in range(i, n + 1):
                parts = [x[:i], x[i:j], x[j:]]
                segs = " ".join(seg((k + 3 * q) % 16, p) for q, p in enumerate(parts))
                out.append(("s3c:%d:%d:%d" % (k, i, j), ["dec new command " + segs, "dec state 0 2 0 0 -1", "dec run", "dec run", "dec run"]))
    # ---- stream 2: mutated valid frames
    r = gen.rng(id, tier, seed, "frames")
    nb = (120 if tier == "quick" else 2500) * scale
    for k in range(nb):
        for codec in DECODERS + ["command"]:
            data = []
            for _ in range(r.choice([1, 1, 2, 3])):
                m = c01.structured(r, codec)
                if codec == "command":
                    m = [b if b else 0x2e for b in m][:r.choice([3, 40, 300])]
                    f = m + [0]
                else:
                    if r.random() < 0.5:
                        m = m[:r.choice([5, 40, 260])]
                    f = ref_encode(codec, m)
                data.extend(mutate(r, f))
            head = r.choice([0, 0, 2, 5, 16, len(data)]) if codec != "command" else r.choice([2, 2, 3, 0, 1])
            out.append(("fr:%s:%d" % (codec, k), stream_script(r, codec, data, head)))
    # ---- stream 3: random bytes
    r = gen.rng(id, tier, seed, "random")
    nr = (150 if tier == "quick" else 3000) * scale
    for k in range(nr):
        codec = r.choice(DECODERS + ["command"])
        n = r.choice([1, 3, 8, 20, 60, 300])
        p0 = r.choice([0.02, 0.1, 0.3])
        data = [0 if r.random() < p0 else r.choice(ALPHA + [r.randrange(256)] * 6) for _ in range(n)]
        out.append(("rnd:%s:%d" % (codec, k), stream_script(r, codec, data, r.choice([0, 1, 2, 4, 32]))))
    # ---- stream 4: decoder states set by hand (consistent offsets pos + len <= curr <= storage size, open blocks in
    # their data and zero parts, with and without work area — also states no decoder call leaves behind, e.g. an
    # open data block without a byte of work area), then run / peek / more input.  The spec column is silent
    # there; code and model are compared, guards and sanitizers watch the accesses.
    r = gen.rng(id, tier, seed, "states")
    ns = (500 if tier == "quick" else 8000) * scale
    inputs = [[0x41, 0x42, 0x43, 0], [0x41, 0, 0x42, 0], [0x02, 0x41, 0], [0xe1, 0x41, 0], [0x41], [0, 0]]
    for k in range(ns):
        codec = r.choice(DECODERS + ["command"])
        code = r.choice([0, 1, 2, 3, 5, 0xdf, 0xe0, 0xe1, 0xe2, 0xff]) if codec != "command" else 0
        bpos = r.choice([0, 0, 1, 2])
        pos = r.randrange(3)
        ln = r.randrange(3)
        curr = pos + ln + r.choice([0, 0, 1, 2, 3])
        msg = r.choice([-1, -1, ln])
        pad = [r.choice([0x11, 0x22, 0]) for _ in range(curr)]
        x = pad + r.choice(inputs)
        cut = r.randrange(curr, len(x) + 1)     # the storage holds at least the `curr` bytes the state claims to have consumed
        lines = ["dec new %s %s" % (codec, seg(r.randrange(16), x[:cut])), "dec state %d %d %d %d %d" % (code + 256 * bpos, curr, pos, ln, msg)]
        lines.append(r.choice(["dec run", "dec peek", "dec run"]))
        if cut < len(x):
            lines.append(("dec append " + gen.hexs(x[cut:])) if r.random() < 0.6 else ("dec seg " + seg(r.randrange(16), x[cut:])))
        lines += [r.choice(["dec run", "dec peek"]), "dec run", "dec run"]
        out.append(("st:%s:%d" % (codec, k), lines))
    # reset (dec(state, 0, 0)) with a delivered message still waiting, between two frames, and inside a frame;
    # then the following frames on the same state
    for codec in DECODERS:
        for k, (m1, m2) in enumerate([([0x41, 0x42], [0x43, 0x44]), ([0x41], [0x42, 0, 0, 0x43]), ([0x31, 0x32, 0x33], [0x34]), ([], [0x35, 0x36])]):
            f1, f2, f3 = ref_encode(codec, m1), ref_encode(codec, m2), ref_encode(codec, [0x7a])
            for head in (0, 18):
                pad = [0xdd] * head
                new = "dec new %s %s" % (codec, seg(k + head, pad + f1 + f2 + f3))
                st = ["dec state 0 %d 0 0 -1" % head] if head else []
                out.append(("rst:%s:%d:%d" % (codec, k, head), [new] + st + ["dec run", "dec size 0", "dec run", "dec run", "dec size 0", "dec size 0", "dec run", "dec run"]))
                out.append(("rst2:%s:%d:%d" % (codec, k, head), [new] + st + ["dec size 0", "dec run", "dec run", "dec size 0", "dec run", "dec run"]))
    # command text: a preview (peek) that finds the end of a message in progress
    for k, m in enumerate([[0x68, 0x69], [0x61], [0x61, 0x62, 0x63, 0x64, 0x65]]):
        for cut in range(len(m) + 1):
            out.append(("cpk:%d:%d" % (k, cut), ["dec new command %s" % seg(k, [0xdd, 0xdd] + m[:cut]), "dec state 0 2 0 0 -1", "dec run",
                                                "dec peek", "dec append " + gen.hexs(m[cut:] + [0, 0x62, 0]), "dec peek", "dec peek", "dec run", "dec run", "dec peek", "dec run"]))
    return out


def nontrivial(script, c_lines):
    err = False
    resumed = False
    saw0 = False
    multi = len(script[0].split()) > 4 or any(op.startswith("dec seg") for op in script)
    delivered = False
    for op, ln in zip(script, c_lines):
        if not (op == "dec run" or op == "dec peek"):
            continue
        if not ln.startswith("R ret="):
            continue
        ret = ln[6:].split()[0]
        if ret == "0":
            saw0 = True
        elif ret == "1":
            delivered = True
            if saw0:
                resumed = True
        elif not ret.isdigit():
            err = True
    return err or resumed or (multi and delivered)


def tally(chk, script, c_lines):
    chk.exhaustive = True   # stream 1 enumerates its stated scope completely
    d = chk.__dict__.setdefault("distribution", {})
    codec = script[0].split()[2]
    d[codec] = d.get(codec, 0) + 1
    for op, ln in zip(script, c_lines):
        if ln.startswith("R ret=") and (op == "dec run" or op == "dec peek"):
            k = "ret=" + ln[6:].split()[0]
            d[k] = d.get(k, 0) + 1


def finding_key(script, res):
    op = (res.get("op") or "").split()
    codec = script[0].split()[2] if script and len(script[0].split()) > 2 else "?"
    return "%s:%s:%s" % (res["kind"], codec, " ".join(op[:2]))


# Second part (added by the lead): mptcore/queue/queue_recv.c and queue_peek.c are anchors of C03 too — the
# decoders as they are used through the framed input queue.  The coded-queue driver, model and generators of
# C02 are run as an extra part of this check (seeded changes C03-4 and C03-6 live in those two files).
from . import c02 as _c02  # noqa: E402


class _DQF:
    """third part: arbitrary and malformed bytes fed into the framed input queue ('dq feed'), so that
    mpt_queue_recv / mpt_queue_peek / mpt_message_read see more than encoder-produced frames"""
    id = "C03"
    area = "cqueue"
    driver = "drv_cqueue"
    cxx = False
    fixed_lines = 1

    @staticmethod
    def corpus(chk):
        return [(n, s) for n, s in gen.corpus(id) if s and s[0].startswith("dq new")]

    @staticmethod
    def scripts(tier, seed, scale=1):
        out = []
        r = gen.rng(id, tier, seed, "dqfeed")

        def recv_ops(n, codec):
            ops = []
            for _ in range(n):
                ops.append(r.choice(["dq recv", "dq recv", "dq drain", "dq msg", "dq peek 4", "dq peek 100 nodst", "dq shift"]))
            return ops
        # every string over the boundary alphabet up to length 2 (thorough: 3) plus a sample of longer ones, fed at once and byte by byte, rings with wrap offsets
        if tier == "quick":
            strs = strings(2) + [[r.choice(ALPHA) for _ in range(r.choice([3, 3, 4]))] for _ in range(350 * scale)]
        else:
            strs = strings(3) + [[r.choice(ALPHA) for _ in range(r.choice([4, 4, 5]))] for _ in range(3000 * scale)]
        for codec in DECODERS:
            for k, x in enumerate(strs):
                if not x:
                    continue
                mx = 16
                new = "dq new %s max=%d off=%d align=%d" % (codec, mx, (k * 5) % (mx + 1), k % 16)
                runs = ["dq recv"] * (2 + x.count(0))
                out.append(("dqf:%s:%s" % (codec, gen.hexs(x)), [new, "dq feed " + gen.hexs(x)] + runs + ["dq msg", "dq drain"]))
                if len(x) > 1:
                    lines = [new]
                    for b in x:
                        lines += ["dq feed " + gen.hexs([b]), "dq recv"]
                    out.append(("dqb:%s:%s" % (codec, gen.hexs(x)), lines + ["dq recv", "dq drain"]))
        # mutated valid frames (several per stream), random pieces, small and large rings, growth on request
        n = (150 if tier == "quick" else 2500) * scale
        for k in range(n):
            codec = r.choice(DECODERS + ["command"])
            data = []
            for _ in range(r.choice([1, 2, 3, 5])):
                m = c01.structured(r, codec)[:r.choice([3, 12, 40])]
                if codec == "command":
                    f = [b or 0x2e for b in m] + [0]
                else:
                    f = ref_encode(codec, m)
                data.extend(mutate(r, f) if r.random() < 0.7 else f)
            mx = r.choice([8, 16, 64, 300])
            lines = ["dq new %s max=%d off=%d align=%d" % (codec, mx, r.randrange(mx + 1), r.randrange(16))]
            pos = 0
            while pos < len(data):
                step = r.choice([1, 1, 2, 3, 7, 20])
                lines.append("dq feed " + gen.hexs(data[pos:pos + step]))
                pos += step
                lines += recv_ops(r.choice([0, 1, 1, 2]), codec)
                if r.random() < 0.15:
                    mx += r.choice([1, 8, 64])
                    lines.append("dq grow %d" % mx)
            lines += ["dq drain", "dq recv", "dq msg", "dq drain"]
            out.append(("dqr:%s:%d" % (codec, k), lines))
        # large input queues (4-8 KiB) that are enlarged while their content wraps around the storage end with more
        # than 1 KiB on both sides (mpt_queue_align -> mpt_memrev beyond its two short-cut sizes): filled directly,
        # and filled by the work-area retry of mpt_queue_recv after the decoder reported MissingBuffer
        def cframe(codec, n, k):
            m = [((k * 7 + i) % 250) + 1 for i in range(n)]
            return (m + [0]) if codec == "command" else ref_encode(codec, m)
        for k in range((6 if tier == "quick" else 60) * scale):
            codec = (DECODERS + ["command"])[k % 5]
            mx = r.choice([4096, 5000, 6144, 8192])
            off = r.randrange(1100, mx - 1100)
            upper = mx - off
            if upper > 4096:
                off = mx - r.randrange(1100, 4000); upper = mx - off
            total = upper + r.randrange(1030, off + 1)
            data = []
            while len(data) < total - 120:
                data.extend(cframe(codec, r.choice([40, 98, 200]), len(data)))
            lines = ["dq new %s max=%d off=%d align=%d" % (codec, mx, off, r.randrange(16)),
                     "dq feed " + gen.hexs(data), "dq recv", "dq grow %d" % (mx + r.choice([64, 1000, mx])),
                     "dq recv", "dq recv", "dq feed " + gen.hexs(cframe(codec, 30, k)), "dq drain", "dq msg"]
            out.append(("dqbig:%s:%d" % (codec, k), lines))
        # previews (mpt_queue_peek with a destination) of complete well-formed frames: what is handed out must be a
        # prefix of the reference decoding, whatever the queue geometry
        for codec in DECODERS + ["command"]:
            for k, m in enumerate([[0x68, 0x69], [0x61], [0x41, 0x42, 0x43, 0x44, 0x45, 0x46], [0x31, 0x32, 0x33]]):
                f = (m + [0]) if codec == "command" else ref_encode(codec, m)
                g = ([0x7a, 0]) if codec == "command" else ref_encode(codec, [0x7a])
                for mx, off in ((16, 0), (16, 13), (24, 20)):
                    new = "dq new %s max=%d off=%d align=%d" % (codec, mx, off, (k * 3 + off) % 16)
                    out.append(("dqpk:%s:%d:%d" % (codec, k, off), [new, "dq feed " + gen.hexs(f + g), "dq peek 1", "dq peek 4", "dq peek 100", "dq recv",
                                                                     "dq peek 4", "dq recv", "dq peek 4", "dq msg", "dq recv", "dq peek 2"]))
                    out.append(("dqpk2:%s:%d:%d" % (codec, k, off), [new, "dq feed " + gen.hexs(f[:1]), "dq peek 4", "dq recv", "dq feed " + gen.hexs(f[1:] + g), "dq peek 1", "dq peek 3", "dq peek 100", "dq peek 100 nodst",
                                                                      "dq recv", "dq msg"]))
        # the delivered message handed to the consumer (mpt_message_get, with and without continuation vector) for
        # every position of the frame relative to the end of the storage
        for codec in DECODERS + ["command"]:
            f = [0x41, 0x42, 0] if codec == "command" else ref_encode(codec, [0x41, 0x42])
            n = 4 if codec == "command" else 2
            for off in range(17):
                out.append(("dqget:%s:%d" % (codec, off), ["dq new %s max=16 off=%d align=%d" % (codec, off, off % 16), "dq feed " + gen.hexs(f + f), "dq recv", "dq msg",
                                                         "dq get 0 %d novec" % n, "dq get 0 %d vec" % n, "dq get 1 %d novec" % (n - 1), "dq get 0 1 novec",
                                                         "dq get 0 %d novec" % (n + 2), "dq recv", "dq get 0 %d novec" % n, "dq get 0 %d vec" % n]))
        # input queue without a decoder ("final data available" paths of mpt_queue_recv / mpt_queue_peek)
        for k in range((40 if tier == "quick" else 400) * scale):
            mx = r.choice([8, 16, 40])
            lines = ["dq new raw max=%d off=%d align=%d" % (mx, r.randrange(mx + 1), r.randrange(16))]
            for _ in range(r.randrange(1, 5)):
                lines.append("dq feed " + gen.hexs([r.choice(ALPHA) for _ in range(r.choice([1, 2, 5]))]))
                lines += [r.choice(["dq recv", "dq recv", "dq peek 3", "dq peek 100", "dq peek 100 nodst", "dq msg", "dq shift"]) for _ in range(r.randrange(1, 4))]
            out.append(("dqraw:%d" % k, lines + ["dq recv", "dq peek 4", "dq recv", "dq msg"]))
        for k in range((3 if tier == "quick" else 24) * scale):
            codec = ["cobs/zpe", "cobs/zpe+r"][k % 2]
            mx = r.choice([4096, 4096, 6000])
            lines = ["dq new %s max=%d off=0 align=%d" % (codec, mx, r.randrange(16))]
            # delivered frames move the data start to about 1100
            nsmall = r.randrange(11, 14)
            for j in range(nsmall):
                lines += ["dq feed " + gen.hexs(cframe(codec, 98, j)), "dq recv"]
            # a frame of "one data byte + eliminated zero pair" blocks: the decoder runs out of work area, the queue
            # hands over all its free space and is full, its content wraps
            big = []
            for j in range(r.randrange(300, 420)):
                big += [0xE1, 0x41 + j % 50]
            big += [0]
            first = r.randrange(40, 80)
            lines += ["dq feed " + gen.hexs(big[:first]), "dq recv", "dq grow %d" % (mx + 256), "dq recv"]
            pos = first
            while pos < len(big):
                step = min(200, len(big) - pos)
                lines += ["dq grow %d" % (mx + 256 + pos), "dq feed " + gen.hexs(big[pos:pos + step]), "dq recv"]
                pos += step
            lines += ["dq msg", "dq feed " + gen.hexs(cframe(codec, 30, k)), "dq drain"]
            out.append(("dqwork:%s:%d" % (codec, k), lines))
        return out

    @staticmethod
    def nontrivial(script, c_lines):
        # the input queue reported an error for fed bytes, or delivered a message after one
        return any(ln.startswith("R ret=") and ln[6:].split()[0] in ("BadValue", "MissingData", "MissingBuffer") for ln in c_lines) or \
            any("last=BadValue" in ln or "last=MissingData" in ln for ln in c_lines)

    @staticmethod
    def tally(chk, script, c_lines):
        d = chk.__dict__.setdefault("distribution", {})
        d["dqfeed"] = d.get("dqfeed", 0) + 1

    finding_key = staticmethod(lambda script, res: finding_key(script, res))


class _Lighter:
    """a part of another property run inside this check: same driver, model, rules — but its thorough tier is run by
    its own check (./check C02 --tier thorough); here the generators keep their quick budgets (random budgets x3 in
    the thorough tier; every second script in the quick tier) so that C03 stays inside its time budgets"""
    def __init__(self, inner):
        self._inner = inner

    def __getattr__(self, k):
        return getattr(self._inner, k)

    def scripts(self, tier, seed, scale=1):
        xs = self._inner.scripts("quick", seed, scale * (3 if tier == "thorough" else 1))
        # quick tier: every second script (the full set is C02's own quick tier; which half alternates with the seed)
        return xs if tier != "quick" else xs[seed % 2::2]


extra_parts = [_Lighter(q) for q in [_c02] + list(getattr(_c02, "extra_parts", []))] + [_DQF]
