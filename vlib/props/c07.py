"""C07 — scalar conversion is exact or refused."""
import os
import struct
import sys
from fractions import Fraction

from .. import build, gen

id = "C07"
area = "convert"
driver = "drv_convert"
cxx = False
fixed_lines = 0
lean_modules = ["Driver.Convert"]
rule = ("ops: 'c val|vval|consume|argv src tgt value' = one conversion through mpt_data_converter(src) / mpt_value_convert / mpt_iterator_consume / a variadic call (mpt_process_vararg, mpt_value_argv), performed with "
        "and without destination (tgt may be 'l' = long); 'c null src tgt' = the converter with a NULL source, 'c vnull' = mpt_value_convert of a value without address; 'c ftoken tgt hex' = one token of a text file through the file iterator (mpt_iterator_file) and mpt_iterator_consume; 'c argvreset src v1 v2' = two variadic values read, the iterator reset, read again; 'c fseq text types' = one file iterator over several words, one mpt_iterator_consume per type letter (a refused element is asked for again); 'c sconv word t1 t2' = one string iterator element, value() taken once, queried as t1 and then converted to t2; 'c skip' / 'c consume-none' = the type-0 and no-value branches of mpt_iterator_consume; "
        "'c sweep src tgt lo hi' = the same for every integer of the range, summarised (verdict "
        "runs, inexact results, query-mode differences); 'c text fn tgt hex' = numeral text through mpt_convert_number / "
        "mpt_convert_string / mpt_c[u]intN (fn cint) / mpt_cchar..mpt_culong (fn cnat); 'c ftext' = the same for f/d/e targets, the model side running its decimal strtod model (oracle word for hex/inf/nan); "
        "'c fpoint val|text' = mpt_fpoint_set (a consumer of mpt_iterator_consume with target 'f') from typed values / a numeral word. Stream 1 (exhaustive): every value of every "
        "8/16-bit source type (c b y n q) x all 12 targets, both modes. Stream 2: 32/64-bit and floating sources at every "
        "target limit +-2, powers of two +-1, float format limits; numerals = sign x prefix x magnitude at each limit +-1, "
        "2^64+-1, 30 digits, leading space, garbage suffix. Stream 3: random values/numerals. Ops whose floating target cannot hold the source exactly "
        "(known finding c_ne_s:rounded) are generated into scripts of their own. non-trivial = a script in which "
        "the real code both accepted and refused (a range limit or a malformed/valid numeral pair was straddled), counted per "
        "distinct script")
assumptions = [
    "LP64 x86-64 ABI: plain char is signed, long double is the x87 80-bit format in 16 bytes; integer narrowing wraps",
    "hardware/compiler integer->float and float->float conversions round to nearest, ties to even (modelled by Spec/Float.lean `round`; "
    "checked per op against the real code and against the exact rational oracle of vlib/props/c07.py)",
    "glibc strtoimax/strtoumax follow the modelled grammar (C locale, bases 0/8/10/16, saturation with ERANGE); "
    "isspace/isgraph are the C-locale tables, undefined outside 0..255",
    "strtof/strtod/strtold on decimal text behave as the model strtoDec (Impl/Convert.lean): longest prefix "
    "ws* [+-]? (D+[.D*]|.D+) ([eE][+-]?D+)?, value = correctly rounded (nearest-even) value of the number, infinity and ERANGE on overflow; "
    "the driver runs this model against the real libc on every decimal ftext op and against the rational oracle. Hexadecimal numerals, "
    "inf/infinity and nan are not modelled: for those the libc result is taken from the oracle word and only the theorems that hold "
    "for every libc behaviour (text_float_total, text_float_no_saturation) apply (glibc 2.36 misrounds inexact hexadecimal numerals in the "
    "subnormal range, such numerals are not generated)",
    "isspace/isgraph are called with plain char in the text functions: bytes above 0x7f are negative arguments, which glibc's "
    "tables cover (neither blank nor printable)",
    "NaN sources are limited to the default quiet NaN",
]
trusted = [
    "translate/cextract.py (clang-14 JSON AST -> Generated/ConvInt.lean and Generated/ConvText.lean, closed grammar, regenerated every run)",
    "models of glibc strtoimax/strtoumax and of strtof/strtod/strtold on decimal text, hand models of mpt_value_convert / mpt_iterator_consume / "
    "mpt_convert_string / the 'c' branch of mpt_convert_number / mpt_fpoint_set in MptModel/Impl/Convert.lean (evaluator semantics of the "
    "generated tables included), tied by harness/drv_convert.c",
]

TRANSLATE = os.path.join(build.VERIF, "translate")


def generate(chk):
    """regenerate lean/MptModel/Generated/ConvInt.lean from the tree under test"""
    if TRANSLATE not in sys.path:
        sys.path.insert(0, TRANSLATE)
    import cextract
    errors = []
    for what, fn in (("convint", cextract.generate_convint), ("convtext", cextract.generate_convtext)):
        try:
            path, changed = fn(build.REPO, build.LEAN)
            chk.notes.append("translator: %s %s" % (os.path.basename(path), "rewritten" if changed else "unchanged"))
        except cextract.TranslateError as e:
            errors.append("translator (cextract %s) rejected the source: %s" % (what, e))
    if errors:
        raise build.BuildError("\n".join(errors))


def corpus(chk):
    out = []
    for name, ops in gen.corpus(id):
        plain = [op for op in ops if rounded_result(op) is None]
        rnd = [op for op in ops if rounded_result(op) is not None]
        if plain:
            out.append((name, plain))
        if rnd:
            out.append((name + ":rounded", rnd))
    return out


# ---------------------------------------------------------------------------------------------- types

INTS = {"c": (-128, 127), "b": (-128, 127), "y": (0, 255), "n": (-2 ** 15, 2 ** 15 - 1), "q": (0, 2 ** 16 - 1),
        "i": (-2 ** 31, 2 ** 31 - 1), "u": (0, 2 ** 32 - 1), "x": (-2 ** 63, 2 ** 63 - 1), "t": (0, 2 ** 64 - 1)}
FLTS = {"f": (24, -126, 127, 8, False, 4), "d": (53, -1022, 1023, 11, False, 8), "e": (64, -16382, 16383, 15, True, 10)}
ALL = list("cbynqiuxtfde")
SMALL = list("cbynq")
WIDE = list("iuxt")
TEXT_TGT = list("bynqiuxt")


def fmax(fmt):
    p, emin, emax = FLTS[fmt][:3]
    return Fraction((2 ** p - 1) * 2 ** (emax - p + 1))


def round_to(fmt, x):
    """correctly rounded (nearest-even) value of the Fraction x in format fmt: Fraction, or 'inf'/'-inf'"""
    p, emin, emax = FLTS[fmt][:3]
    if x == 0:
        return Fraction(0)
    neg = x < 0
    a = -x if neg else x
    # exponent of the leading bit
    e = a.numerator.bit_length() - a.denominator.bit_length()
    if Fraction(2) ** e > a:
        e -= 1
    elif Fraction(2) ** (e + 1) <= a:
        e += 1
    q = max(e - (p - 1), emin - (p - 1))
    scaled = a / Fraction(2) ** q
    n = scaled.numerator // scaled.denominator
    rem = scaled - n
    if rem > Fraction(1, 2) or (rem == Fraction(1, 2) and n % 2 == 1):
        n += 1
    r = n * Fraction(2) ** q
    if r > fmax(fmt):
        return "-inf" if neg else "inf"
    return -r if neg else r


def encode(fmt, x, negzero=False):
    """value bytes (little-endian hex) of the Fraction x, exactly representable in fmt"""
    p, emin, emax, ew, explicit, nbytes = FLTS[fmt]
    fb = p if explicit else p - 1
    if x in ("inf", "-inf"):
        bits = ((1 << ew) - 1) << fb
        if explicit:
            bits |= 1 << (p - 1)
        if x == "-inf":
            bits |= 1 << (ew + fb)
        return bits.to_bytes(nbytes, "little").hex()
    neg = x < 0 or negzero
    a = abs(x)
    bits = 0
    if a != 0:
        e = a.numerator.bit_length() - a.denominator.bit_length()
        if Fraction(2) ** e > a:
            e -= 1
        elif Fraction(2) ** (e + 1) <= a:
            e += 1
        if e < emin:
            sig = a / Fraction(2) ** (emin - (p - 1))
            assert sig.denominator == 1
            bits = sig.numerator
        else:
            sig = a / Fraction(2) ** (e - (p - 1))
            assert sig.denominator == 1, (fmt, x)
            s = sig.numerator
            bits = ((e + emax) << fb) | (s if explicit else s - (1 << (p - 1)))
    if neg:
        bits |= 1 << (ew + fb)
    return bits.to_bytes(nbytes, "little").hex()


def decode(fmt, hexs):
    """Fraction / 'inf' / '-inf' / 'nan' of little-endian value bytes"""
    p, emin, emax, ew, explicit, nbytes = FLTS[fmt]
    bits = int.from_bytes(bytes.fromhex(hexs), "little")
    fb = p if explicit else p - 1
    frac = bits & ((1 << fb) - 1)
    bexp = (bits >> fb) & ((1 << ew) - 1)
    neg = (bits >> (fb + ew)) & 1
    if bexp == (1 << ew) - 1:
        payload = frac & ((1 << (p - 1)) - 1) if explicit else frac
        if payload:
            return "nan"
        return "-inf" if neg else "inf"
    if bexp == 0:
        v = Fraction(frac) * Fraction(2) ** (emin - (p - 1))
    else:
        sig = frac if explicit else frac + (1 << (p - 1))
        v = Fraction(sig) * Fraction(2) ** (bexp - emax - (p - 1))
    return -v if neg else v


def fhex(fmt, x):
    return encode(fmt, x)


# ---------------------------------------------------------------------------------------------- generators

def _limits():
    s = set()
    for lo, hi in INTS.values():
        s.update((lo, hi))
    s.update((0, 32, 33, 126, 127))
    return sorted(s)


def _near(values, lo, hi, width=2):
    out = set()
    for v in values:
        for d in range(-width, width + 1):
            if lo <= v + d <= hi:
                out.add(v + d)
    return sorted(out)


def _int_boundary(src):
    lo, hi = INTS[src]
    pts = set(_limits())
    for k in range(0, 65):
        pts.update((2 ** k, -(2 ** k)))
    return _near(pts, lo, hi)


def _float_points(fmt):
    """interesting finite values of format fmt as Fractions"""
    p, emin, emax = FLTS[fmt][:3]
    pts = set()
    ulp = lambda e: Fraction(2) ** (e - (p - 1))
    for other in FLTS:
        po, emino, emaxo = FLTS[other][:3]
        if po > p:
            continue
        m = fmax(other)
        # neighbours of the other format's largest value, of the rounding midpoint above it, of its smallest values
        for base in (m, m + Fraction(2) ** (emaxo - po), Fraction(2) ** (emaxo + 1)):
            for d in (-2, -1, 0, 1, 2):
                pts.add(base + d * ulp(emaxo))
        tiny = Fraction(2) ** (emino - (po - 1))
        for base in (tiny, tiny / 2, tiny * 3 / 2, Fraction(2) ** emino):
            for d in (-1, 0, 1):
                pts.add(base + d * Fraction(2) ** max(emin - (p - 1), emino - po - (p - 1)))
    for k in (0, 1, 7, 8, 15, 16, 23, 24, 25, 31, 32, 52, 53, 54, 63, 64, 65, 100, 127, 128):
        if k <= emax:
            for d in (-1, 0, 1):
                pts.add(Fraction(2) ** k + d * ulp(k))
    pts.update(Fraction(v) for v in _limits())
    pts.update((Fraction(1, 2), Fraction(3, 2), Fraction(33) + Fraction(1, 4), fmax(fmt), Fraction(2) ** (emin - (p - 1)), Fraction(0)))
    good = set()
    for x in pts:
        if x < 0 or x > fmax(fmt):
            continue
        if round_to(fmt, x) == x:
            good.add(x)
            good.add(-x)
    return sorted(good)


def _numerals(tgt, r=None):
    """numeral strings around the limits of tgt"""
    lo, hi = INTS[tgt]
    mags = set()
    for L in (lo, hi, 0, 2 ** 63 - 1, 2 ** 63, 2 ** 64 - 1, 2 ** 64, -(2 ** 63)):
        for d in (-1, 0, 1):
            mags.add(abs(L + d))
    mags.add(10 ** 29 + 7)
    out = []
    for m in sorted(mags):
        for sign in ("", "-", "+"):
            for fmt in ("%d", "0x%x", "0%o", "0X%X"):
                out.append(sign + (fmt % m))
    out += ["", " ", "  \t", " 12", "\t-7", "12abc", "0x", "0xg", "-", "+", "- 1", "abc", "08", "0b1", "1 2", " +0", "-0", "00", "1e3", "0x1p3", "٣", "12\x0034"]
    return out


def _chunks(name, ops, n):
    return [("%s/%d" % (name, k // n), ops[k:k + n]) for k in range(0, len(ops), n)]


def _src_fraction(src, val):
    """exact value of a source operand: Fraction, or 'inf'/'-inf'/'nan'"""
    if src in INTS:
        return Fraction(int(val))
    if val == "nan":
        return "nan"
    return decode(src, val)


def rounded_result(op):
    """for an op whose (floating) target cannot hold the source number exactly: what the code is known to answer —
    the correctly rounded value, as it appears in the R section; None if the op is exact / not of that kind"""
    w = op.split()
    if len(w) == 5 and w[1] in ("val", "vval", "consume", "argv") and w[3] in FLTS:
        x = _src_fraction(w[2], w[4])
        if isinstance(x, Fraction):
            r = round_to(w[3], x)
            if r not in ("inf", "-inf") and r != x:
                return "out=%s" % encode(w[3], r, negzero=x < 0 and r == 0)
        return None
    if len(w) in (5, 6) and w[1] == "fpoint" and w[2] == "val":
        outs, inexact = [], False
        for v in w[4:]:
            x = _src_fraction(w[3], v)
            if not isinstance(x, Fraction):
                outs.append(encode("f", x) if x != "nan" else "nan")
                continue
            r = round_to("f", x)
            if r in ("inf", "-inf"):
                return None
            inexact = inexact or r != x
            negz = (x < 0 or (w[3] in FLTS and bytes.fromhex(v)[-1] & 0x80 != 0)) and r == 0
            outs.append(encode("f", r, negzero=negz))
        if inexact:
            return "x=%s y=%s" % (outs[0], outs[-1])
        return None
    if len(w) == 6 and w[1] == "ftext":
        alts = [a.split(":") for a in w[5].split(",")] if w[5] != "-" else []
        if alts:
            k, v = max(alts, key=lambda a: int(a[0]))
            if v.startswith("~"):
                return "n=%s out=%s" % (k, v[1:])
        return None
    if len(w) == 5 and w[1] == "ftoken" and w[2] in FLTS:
        alts = [a.split(":") for a in w[4].split(",")] if w[4] not in ("-", "0:-") else []
        if alts:
            k, v = max(alts, key=lambda a: int(a[0]))
            if v.startswith("~"):
                return "out=%s" % v[1:]
        return None
    if len(w) == 5 and w[1] == "fpoint" and w[2] == "text":
        alts = [a.split(":") for a in w[4].split(",")] if w[4] != "-" else []
        full = [v for k, v in alts if int(k) == len(bytes.fromhex(w[3]))]
        if full and full[0].startswith("~"):
            return "x=%s y=%s" % (full[0][1:], full[0][1:])
        return None
    return None


def scripts(tier, seed, scale=1):
    """ops whose floating target cannot hold the source exactly (known finding `c_ne_s:rounded`) are kept in scripts of
    their own, so that they never hide another failure of the same script"""
    out = []
    for name, ops in _scripts(tier, seed, scale):
        plain = [op for op in ops if rounded_result(op) is None]
        rnd = [op for op in ops if rounded_result(op) is not None]
        if plain:
            out.append((name, plain))
        for k in range(0, len(rnd), 4):
            out.append(("%s:rounded:%d" % (name, k // 4), rnd[k:k + 4]))
    return out


def _scripts(tier, seed, scale=1):
    out = []
    thorough = tier != "quick"
    # ---- stream 1: exhaustive 8/16-bit sources x all targets, both modes
    for s in SMALL:
        lo, hi = INTS[s]
        for t in ALL:
            out.append(("sweep:%s>%s" % (s, t), ["c sweep %s %s %d %d" % (s, t, lo, hi)]))
    # ---- stream 2: boundary directed
    for s in WIDE + SMALL:
        pts = _int_boundary(s)
        for t in ALL:
            lo, hi = INTS.get(t, (None, None))
            for op in ("val", "vval", "consume"):
                if s in SMALL and op == "val":
                    continue        # covered by the sweep
                if op == "consume" and s in SMALL and not thorough:
                    continue
                sel = pts
                if not thorough and t in INTS:
                    # quick: the neighbourhoods of this target's limits and of the source's limits, plus every 4th point
                    keep = set(_near([lo, hi, 0, 33, 126, INTS[s][0], INTS[s][1]], INTS[s][0], INTS[s][1], 2))
                    sel = [v for k, v in enumerate(pts) if v in keep or k % 4 == 0]
                if op == "consume" and not thorough:
                    sel = sel[::3]
                out += _chunks("bnd:%s:%s>%s" % (op, s, t), ["c %s %s %s %d" % (op, s, t, v) for v in sel], 12)
    for s in FLTS:
        pts = _float_points(s)
        for t in ALL:
            for op in ("val", "vval", "consume"):
                sel = pts if (thorough or t in FLTS) else pts[::5]
                if op != "val" and not thorough:
                    sel = sel[::3]
                ops = ["c %s %s %s %s" % (op, s, t, fhex(s, x)) for x in sel]
                ops += ["c %s %s %s %s" % (op, s, t, v) for v in (encode(s, "inf"), encode(s, "-inf"), "nan", encode(s, Fraction(0), negzero=True))]
                out += _chunks("bnd:%s:%s>%s" % (op, s, t), ops, 12)
    chars = ["", " ", "a", " a", "\t\n z", "ab", " ~", "\x7f", " \x01", "\x80", " \xe9x", "  ", "!", " 0"]
    out += _chunks("num:char", ["c text %s c %s" % (fn, gen.hexs(x.encode("latin-1"))) for x in chars for fn in ("number", "string")], 14)
    for t in TEXT_TGT:
        nums = _numerals(t)
        for fn in ("number", "string", "cint"):
            sel = nums if (thorough or fn != "cint") else nums[::4]
            out += _chunks("num:%s:%s" % (fn, t), ["c text %s %s %s" % (fn, t, gen.hexs(x.encode("utf-8", "surrogateescape"))) for x in sel], 10)
    # texts without a numeral only (a script stops at its first failing op: kept apart from the numerals)
    garbage = ["abc", "x1", "-", "+", "--1", "+-2", " z", "\t", ".5", "e5", "- 1", "0x", "-0x", "z9", "\x80", "_1"]
    for t in TEXT_TGT:
        for fn in ("number", "string", "cint"):
            out += _chunks("num:none:%s:%s" % (fn, t), ["c text %s %s %s" % (fn, t, gen.hexs(x.encode("latin-1"))) for x in garbage], 8)
    for t in FLTS:
        out += _ftext_scripts(t, thorough)
    # values through a variadic call (mpt_process_vararg / mpt_value_argv) and through mpt_fpoint_set
    for s in list(INTS) + list(FLTS):
        pts = _int_boundary(s) if s in INTS else None
        for t in ALL:
            if s in INTS:
                keep = set(_near([INTS[s][0], INTS[s][1], 0, 2 ** 31, -(2 ** 31), 2 ** 32, 2 ** 53, 2 ** 63] + list(INTS.get(t, (0, 0))), INTS[s][0], INTS[s][1], 1))
                sel = [v for k, v in enumerate(pts) if v in keep or (thorough and k % 3 == 0)]
                ops = ["c argv %s %s %d" % (s, t, v) for v in sel]
            else:
                fp = _float_points(s)
                sel = fp if thorough else fp[::7]
                ops = ["c argv %s %s %s" % (s, t, fhex(s, x)) for x in sel]
            out += _chunks("argv:%s>%s" % (s, t), ops, 16)
    ops = []
    for s in list(FLTS) + ["x", "t", "i", "y"]:
        if s in FLTS:
            vals = [fhex(s, x) for x in _float_points(s) if thorough or abs(x) >= Fraction(2) ** 120 or abs(x) <= 4]
            vals += [encode(s, "inf"), encode(s, "-inf")]
        else:
            vals = ["%d" % v for v in _near([INTS[s][0], INTS[s][1], 0, 2 ** 24, 2 ** 24 + 1], INTS[s][0], INTS[s][1], 1)]
        for k, v in enumerate(vals):
            ops.append("c fpoint val %s %s" % (s, v))
            ops.append("c fpoint val %s %s %s" % (s, vals[(k * 7 + 3) % len(vals)], v))
    out += _chunks("fpoint:val", ops, 20)
    words = ["0.5", "-2", "3e38", "-3e38", "1e39", "-4e38", "1e38", "3.4028235e38", "3.4028236e38", "1e300", "-1e300", "inf", "-inf", "nan", "1e-50", "0x1p127",
             "0x1p128", "abc", "x1", "16777217", "340282346638528859811704183484516925440", "340282356779733661637539395458142568448", "1e4000"]
    out += _chunks("fpoint:text", [_fpoint_text_op(w) for w in words], 12)
    # ---- the target code 'l' (long), NULL sources, the native-type wrappers, the iterator's skip / no-value branches
    ops = []
    for s_ in list(INTS) + list(FLTS):
        if s_ in INTS:
            vals = ["%d" % v for v in _near([INTS[s_][0], INTS[s_][1], 0, 2 ** 31, 2 ** 63 - 1, 2 ** 63], INTS[s_][0], INTS[s_][1], 1)]
        else:
            vals = [fhex(s_, Fraction(3)), fhex(s_, Fraction(-1, 2))]
        for op in ("val", "vval", "consume", "argv"):
            ops += ["c %s %s l %s" % (op, s_, v) for v in (vals if (thorough or op == "val") else vals[::3])]
    out += _chunks("long:val", ops, 16)
    ops = []
    for x in _numerals("x"):
        ops += ["c text %s l %s" % (fn, gen.hexs(x.encode("utf-8", "surrogateescape"))) for fn in ("number", "string")]
    out += _chunks("long:text", ops if thorough else ops[::3], 12)
    out += _chunks("null", ["c null %s %s" % (s_, t_) for s_ in ALL for t_ in ALL], 16)
    for t_ in "bixyut":
        nums = _numerals(t_)
        sel = nums if thorough else nums[::3]
        out += _chunks("num:cnat:%s" % t_, ["c text cnat %s %s" % (t_, gen.hexs(x.encode("utf-8", "surrogateescape"))) for x in sel], 10)
    ops = ["c skip %s %s" % (s_, "5" if s_ in INTS else fhex(s_, Fraction(5))) for s_ in ALL]
    ops += ["c consume-none %s" % t_ for t_ in list(ALL) + ["l"]]
    out += _chunks("iter", ops, 13)
    # ---- values without address, numbers of a text file (file iterator), the vararg iterator across a reset
    out += _chunks("vnull", ["c vnull %s %s" % (s_, t_) for s_ in ALL for t_ in ALL], 16)
    ops = []
    for t_ in TEXT_TGT:
        nums = [x for x in _numerals(t_) if x and not any(ch in x for ch in " \t\n\r\v\f\0") and len(x) < 200]
        ops += ["c ftoken %s %s 0:-" % (t_, gen.hexs(x.encode("utf-8", "surrogateescape"))) for x in (nums if thorough else nums[::3])]
    out += _chunks("ftoken:int", ops, 12)
    ops = []
    for t_ in "fd":
        for w_ in ["0.5", "-2", "1e39", "-1e39", "1e38", "3.4028235e38", "3.4028236e38", "1e308", "1e309", "-1e309", "0.1", "16777217", "abc", "1e", "0x1p4", "inf",
                   "nan", "1.5x", "1e-50", "1e-400", "9007199254740993", "12345678901234567890123", ".5", "5.", "-.5e1", "+7"]:
            data = w_.encode()
            alts = ftext_oracle(t_, data)
            ops.append("c ftoken %s %s %s" % (t_, gen.hexs(data), ",".join("%d:%s" % a for a in alts) or "0:-"))
    out += _chunks("ftoken:flt", ops, 12)
    ops = []
    for s_ in "iuxt":
        pts = _near([INTS[s_][0], INTS[s_][1], 0, 11, 22], INTS[s_][0], INTS[s_][1], 1)
        ops += ["c argvreset %s %d %d" % (s_, pts[k], pts[(k * 5 + 2) % len(pts)]) for k in range(len(pts))]
    fp = _float_points("d")
    ops += ["c argvreset d %s %s" % (fhex("d", fp[k]), fhex("d", fp[(k * 7 + 3) % len(fp)])) for k in range(0, len(fp), 1 if thorough else 9)]
    out += _chunks("argvreset", ops, 12)
    # ---- state left behind: a refused element of the file iterator asked for again with another type; one element of the
    # string iterator converted twice through the same value()
    ops = []
    for text in ["7 300 9", "7 300", "70000 70000 5", "12", "-1 8", "5 256 -3 4", "200 300 400 70000", "1 99999999999 2", "0x10 0400 9", "255 256 65535 65536"]:
        for types in ["yyi", "yy", "yyy", "nqx", "ii", "yu", "byn", "ytx", "qqi", "yyqi"]:
            ops.append("c fseq %s %s" % (gen.hexs(text.encode()), types))
    out += _chunks("fseq", ops, 10)
    ops = []
    for w_ in ["12.5", "1e3", "1e400", "2.25", "4711", "089", "12", "-3.5e2", "255", "256", "0x1p4", "7e0", "65536.5", "1e39", "-0.5"]:
        for t1 in "cbyiqx" + "fd":
            for t2 in "dfixyn":
                if t1 == t2 or (t1 in FLTS and w_.startswith("0x")):
                    continue          # the model's strtod is decimal; the oracle word belongs to t2
                al = ftext_oracle(t2, w_.encode()) if t2 in FLTS else []
                if t2 in FLTS and any(v.startswith("~") for _k, v in al[-1:]):
                    continue          # inexact in the target: the rounding finding has its own scripts
                ops.append("c sconv %s %s %s %s" % (gen.hexs(w_.encode()), t1, t2, ",".join("%d:%s" % a for a in al) or "0:-"))
    out += _chunks("sconv", ops if thorough else ops[::2], 12)
    # ---- stream 3: random
    r = gen.rng(id, tier, seed, "random")
    nrand = (2000 if not thorough else 60000) * scale
    ops = []
    for _ in range(nrand):
        s = r.choice(WIDE + WIDE + list(FLTS))
        t = r.choice(ALL)
        op = r.choice(["val", "val", "vval", "consume", "argv"])
        if s in INTS:
            lo, hi = INTS[s]
            k = r.choice([8, 16, 24, 32, 53, 64])
            v = r.randrange(-(2 ** k), 2 ** k)
            v = max(lo, min(hi, v))
            ops.append("c %s %s %s %d" % (op, s, t, v))
        else:
            p, emin, emax = FLTS[s][:3]
            m = r.randrange(2 ** (p - 1), 2 ** p)
            e = r.choice([r.randrange(emin, emax + 1), r.randrange(-160, 140), r.randrange(-70, 70), r.randrange(0, 64)])
            e = max(emin, min(emax, e))
            x = Fraction(m) * Fraction(2) ** (e - (p - 1))
            if r.random() < 0.3:
                # few significant bits: exactly representable in narrower formats
                keep = r.choice([1, 8, 24, 53])
                m2 = (m >> (p - min(p, keep))) << (p - min(p, keep))
                x = Fraction(m2) * Fraction(2) ** (e - (p - 1))
            if r.random() < 0.5:
                x = -x
            ops.append("c %s %s %s %s" % (op, s, t, fhex(s, x)))
    out += _chunks("rnd:val", ops, 25)
    ops = []
    for _ in range(nrand // 2):
        t = r.choice(TEXT_TGT)
        fn = r.choice(["number", "string", "cint"])
        if r.random() < 0.05:
            text = "".join(r.choice(" \t") for _ in range(r.randrange(0, 3))) + "".join(chr(r.choice([r.randrange(1, 256), r.randrange(33, 127)])) for _ in range(r.randrange(0, 3)))
            ops.append("c text %s c %s" % (r.choice(["number", "string"]), gen.hexs(text.encode("latin-1"))))
            continue
        lo, hi = INTS[t]
        k = r.choice([7, 8, 15, 16, 31, 32, 63, 64, 70])
        m = r.randrange(0, 2 ** k)
        body = r.choice(["%d", "%d", "0x%x", "0%o", "0X%X"]) % m
        text = r.choice(["", "", " ", "\t ", "  "]) + r.choice(["", "", "-", "+"]) + body + r.choice(["", "", "", " ", "x", "9z", ".5", "\n"])
        if r.random() < 0.08:
            text = "".join(r.choice(" -+0x19afz\t") for _ in range(r.randrange(0, 6)))
        ops.append("c text %s %s %s" % (fn, t, gen.hexs(text.encode())))
    out += _chunks("rnd:text", ops, 25)
    out += _chunks("rnd:ftext", _ftext_random(r, nrand // 4), 25)
    return out


# ---------------------------------------------------------------------------------------------- float text (differential oracle)

import re

_FNUM = re.compile(
    r"[ \t\n\v\f\r]*(?P<sign>[+-]?)(?:"
    r"0[xX](?P<hi>[0-9a-fA-F]*)(?:\.(?P<hf>[0-9a-fA-F]*))?(?:[pP](?P<he>[+-]?[0-9]+))?"
    r"|(?P<di>[0-9]*)(?:\.(?P<df>[0-9]*))?(?:[eE](?P<de>[+-]?[0-9]+))?"
    r"|(?P<inf>[iI][nN][fF](?:[iI][nN][iI][tT][yY])?)"
    r"|(?P<nan>[nN][aA][nN])"
    r")")


def float_numeral(text):
    """exact value of a complete floating numeral (strtod grammar, C locale): (negative, Fraction | 'inf' | 'nan') or None"""
    m = _FNUM.fullmatch(text)
    if not m:
        return None
    neg = m.group("sign") == "-"
    if m.group("inf"):
        return neg, "inf"
    if m.group("nan"):
        return neg, "nan"
    if m.group("hi") is not None:
        hi, hf = m.group("hi"), m.group("hf") or ""
        if not hi and not hf:
            return None
        v = Fraction(int(hi + hf, 16), 16 ** len(hf))
        if m.group("he"):
            v *= Fraction(2) ** int(m.group("he"))
        return neg, v
    di, df = m.group("di") or "", m.group("df") or ""
    if not di and not df:
        return None
    v = Fraction(int(di + df), 10 ** len(df))
    if m.group("de"):
        v *= Fraction(10) ** int(m.group("de"))
    return neg, v


def ftext_oracle(tgt, data):
    """all (k, value text) such that the first k bytes of the C string are a floating numeral; value text = value bytes of the
    correctly rounded number in the target format, 'nan', or 'ovf' for a finite number that rounds to infinity"""
    text = data.split(b"\0")[0].decode("latin-1")
    out = []
    ks = range(1, len(text) + 1)
    if len(text) > 48:
        # long numerals (decimal expansions of the format limits): only the shortest and the longest prefixes are listed
        ks = list(range(1, 9)) + list(range(len(text) - 3, len(text) + 1))
    for k in ks:
        r = float_numeral(text[:k])
        if r is None:
            continue
        neg, v = r
        if v == "inf":
            out.append((k, encode(tgt, "-inf" if neg else "inf")))
        elif v == "nan":
            out.append((k, "nan"))
        else:
            x = round_to(tgt, -v if neg else v)
            if x in ("inf", "-inf"):
                out.append((k, "ovf" if x == "inf" else "-ovf"))
            else:
                # `~` = the numeral is not exactly representable: the value is its correctly rounded neighbour
                out.append((k, ("" if x == (-v if neg else v) else "~") + encode(tgt, x, negzero=neg and x == 0)))
    return out


def _libc_quirk(tgt, data):
    """glibc 2.36 misrounds hexadecimal numerals whose value is inexact in the subnormal range of the target
    (e.g. strtof("0x1.000001p-150") = 0, nearest is 2^-149): libc, not the code under test -> not generated"""
    text = data.split(b"\0")[0].decode("latin-1")
    for k in range(len(text), 0, -1):
        r = float_numeral(text[:k])
        if r is None:
            continue
        neg, v = r
        if isinstance(v, Fraction) and "x" in text[:k].lower() and v != 0:
            p, emin, emax = FLTS[tgt][:3]
            return v < Fraction(2) ** emin and round_to(tgt, v) != v
        return False
    return False


def _ftext_op(fn, tgt, text):
    data = text.encode("latin-1") if isinstance(text, str) else text
    if _libc_quirk(tgt, data):
        return "# skipped (libc hex subnormal rounding): %s %s" % (tgt, gen.hexs(data))
    alts = ftext_oracle(tgt, data)
    return "c ftext %s %s %s %s" % (fn, tgt, gen.hexs(data), ",".join("%d:%s" % a for a in alts) or "-")


if hasattr(sys, "set_int_max_str_digits"):
    sys.set_int_max_str_digits(0)      # LDBL_MAX has 4933 decimal digits


def _fpoint_text_op(word):
    data = word.encode("latin-1")
    alts = ftext_oracle("f", data)
    return "c fpoint text %s %s" % (gen.hexs(data), ",".join("%d:%s" % a for a in alts) or "-")


def _dec(x, frac=40):
    """exact decimal numeral of a non-negative Fraction whose expansion terminates within `frac` fractional digits
    (truncated there otherwise)"""
    n = x.numerator * 10 ** frac // x.denominator
    s = str(n).rjust(frac + 1, "0")
    return (s[:-frac] + "." + s[-frac:]).rstrip("0").rstrip(".")


def _ftext_numerals(tgt):
    p, emin, emax = FLTS[tgt][:3]
    out = ["", " ", "\t ", "0", "-0", "+0.0", ".5", "5.", ".", "-.5e-3x", "e5", "1e", "1e+", "1e+5", "1E5", "12abc", " 12.5 ", "0x", "0x.", "0x1p", "0x1p3",
           "0x1.8p1", "0X.8P+4", "inf", "-inf", "+INF", "infinity", "-Infinity", "infx", "in", "nan", "-nan", "nanx", "1_0", "--1", "+-1", "1..2", "1.2.3",
           "0x1.fffffep127", "0x1.ffffffp127", "0x1.fffffefp127", "0x1.ffffff0000001p127", "0x1p128", "-0x1p128", "0x1p-149", "0x1p-150", "0x1.000001p-150",
           "0x1.fffffffffffffp1023", "0x1.fffffffffffff8p1023", "0x1.fffffffffffff7ffp1023", "0x1p1024", "0x1p-1074", "0x1p-1075", "0x1.8p-1075",
           "0x1.fffffffffffffffep16383", "0x1.ffffffffffffffffp16383", "0x1p16384", "0x1p-16445", "0x1p-16446",
           "1e38", "1e39", "-1e39", "3.4028234e38", "3.4028235e38", "3.4028236e38", "1e308", "1e309", "1.7976931348623157e308", "1.7976931348623159e308",
           "1e4932", "1e4933", "-1e4933", "1.18973149535723176502e4932", "1.18973149535723176509e4932", "1e-45", "1e-46", "7e-46", "4.9e-324", "2e-324", "1e-4951", "1e-5000",
           "16777217", "16777219", "9007199254740993", "18446744073709551617", "0.1", "0.3", "123456789.123456789", "1e22", "1e23", "8.5", "33.25"]
    m = fmax(tgt)
    half = Fraction(2) ** (emax - p)          # half an ulp of the largest binade
    for x in (m, m + half, m + half - half / 2 ** 30, m + half + half / 2 ** 30, m - half, Fraction(2) ** (emax + 1)):
        out.append(_dec(x))
        out.append("-" + _dec(x))
    tiny = Fraction(2) ** (emin - (p - 1))
    for x in (tiny, tiny / 2, tiny / 2 + tiny / 2 ** 40, tiny * 3 / 2):
        e10 = 0
        y = x
        while y < 1:
            y *= 10
            e10 -= 1
        out.append(_dec(y, 60) + "e%d" % e10)
    return out


def _ftext_scripts(t, thorough):
    nums = _ftext_numerals(t)
    ops = []
    for k, x in enumerate(nums):
        for fn in ("cflt", "number", "string"):
            if thorough or fn == "cflt" or k % 3 == 0:
                ops.append(_ftext_op(fn, t, x))
    return _chunks("fnum:%s" % t, ops, 10)


def _ftext_random(r, n):
    ops = []
    for _ in range(n):
        t = r.choice(list(FLTS))
        fn = r.choice(["cflt", "number", "string"])
        kind = r.random()
        if kind < 0.6:
            nd = r.choice([1, 3, 8, 9, 17, 18, 21, 40])
            digs = "".join(r.choice("0123456789") for _ in range(nd))
            dot = r.randrange(0, nd + 1)
            body = digs[:dot] + r.choice([".", ".", ""]) + digs[dot:] if r.random() < 0.7 else digs
            if r.random() < 0.7:
                body += r.choice("eE") + r.choice(["", "-", "+"]) + str(r.choice([r.randrange(0, 50), r.randrange(0, 400), r.randrange(0, 5200)]))
        elif kind < 0.85:
            nd = r.choice([1, 6, 7, 13, 14, 16, 17, 20])
            digs = "".join(r.choice("0123456789abcdef") for _ in range(nd))
            dot = r.randrange(0, nd + 1)
            body = "0x" + digs[:dot] + "." + digs[dot:]
            if r.random() < 0.8:
                body += "p" + r.choice(["", "-", "+"]) + str(r.choice([r.randrange(0, 160), r.randrange(0, 1100), r.randrange(0, 16500)]))
        else:
            body = "".join(r.choice(" -+.0x19efpinfa") for _ in range(r.randrange(0, 8)))
        text = r.choice(["", "", " ", "\t "]) + r.choice(["", "", "-", "+"]) + body + r.choice(["", "", "", " ", "x", "e", ".5"])
        ops.append(_ftext_op(fn, t, text))
    return ops


# ---------------------------------------------------------------------------------------------- evidence hooks

class _XX:
    """second part: a scalar held in the C++ template mpt::metatype::value<T> (mptcore/meta.h) and converted through its
    convert(), with and without destination, through harness/drvxx_convert.cpp"""
    id = "C07"
    area = "convert"
    driver = "drvxx_convert"
    cxx = True
    fixed_lines = 0

    @staticmethod
    def corpus(chk):
        return []

    @staticmethod
    def scripts(tier, seed, scale=1):
        out = []
        for s_ in "iuxt":
            pts = _int_boundary(s_)
            for t_ in ALL:
                sel = pts if tier != "quick" else [v for k, v in enumerate(pts) if k % 3 == 0 or v in _near(list(INTS.get(t_, (0, 0))) + [0, -1, 128, 2 ** 63 - 1, 2 ** 64 - 1], INTS[s_][0], INTS[s_][1], 1)]
                ops = ["cx hold %s %s %d" % (s_, t_, v) for v in sel]
                ops = [op for op in ops if _xx_rounded(op) is None]
                out += _chunks("xx:hold:%s>%s" % (s_, t_), ops, 12)
        for s_ in "df":
            fp = _float_points(s_)
            for t_ in ALL:
                sel = fp if tier != "quick" else fp[::4]
                ops = ["cx hold %s %s %s" % (s_, t_, fhex(s_, x)) for x in sel]
                ops = [op for op in ops if _xx_rounded(op) is None]
                out += _chunks("xx:hold:%s>%s" % (s_, t_), ops, 12)
        return out

    nontrivial = staticmethod(lambda script, c_lines: nontrivial(script, c_lines))
    tally = staticmethod(lambda chk, script, c_lines: None)
    finding_key = staticmethod(lambda script, res: finding_key(script, res))


def _xx_rounded(op):
    """a `cx hold` op whose floating target cannot hold the source exactly (the rounding finding has its own scripts)"""
    w = op.split()
    return rounded_result("c vval %s %s %s" % (w[2], w[3], w[4]))


extra_parts = [_XX]


def nontrivial(script, c_lines):
    ok = ref = False
    for ln in c_lines:
        if ln.startswith("R wrong="):
            c = ln.split(" | ")[1] if " | " in ln else ""
            ok = ok or ":ok" in c
            ref = ref or ":refused" in c
        else:
            ok = ok or ln.startswith("R dst=ok") or ln.startswith("R ok ")
            ref = ref or ln.startswith("R dst=refused") or ln.startswith("R refused")
    return ok and ref


def oracle_check(op, ln):
    """independent re-computation (Python fractions) of what the real code printed for a conversion to a floating
    target: None = agrees / not applicable, else a message"""
    w = op.split()
    if len(w) != 5 or w[1] not in ("val", "vval", "consume", "argv") or w[3] not in FLTS or not ln.startswith("R dst=ok out="):
        return None
    src, tgt, val = w[2], w[3], w[4]
    out = ln.split()[2][4:]
    negzero = False
    if src in INTS:
        x = Fraction(int(val))
    elif val == "nan":
        x = "nan"
    else:
        x = decode(src, val)
        negzero = bytes.fromhex(val)[-1] & 0x80 != 0       # the sign survives rounding to zero
    if x == "nan":
        want = "nan"
    elif x in ("inf", "-inf"):
        want = encode(tgt, x)
    else:
        r = round_to(tgt, x)
        if r in ("inf", "-inf"):
            return "finite %s became infinite (accepted, out=%s)" % (val, out)
        want = encode(tgt, r, negzero=negzero and r == 0)
    if out != want:
        return "python oracle expects out=%s, code stored %s" % (want, out)
    return None


def tally(chk, script, c_lines):
    d = chk.__dict__.setdefault("distribution", {})
    for k, (op, ln) in enumerate(zip(script, c_lines)):
        msg = oracle_check(op, ln)
        if msg:
            chk.stats["c_ne_s"] += 1
            chk.report("c_ne_s", [op], {"kind": "c_ne_s", "line": 0, "op": op, "detail": msg}, "oracle-%d" % len(chk.violations))
        elif msg is None and ln.startswith("R dst=ok out=") and op.split()[3] in FLTS and op.split()[1] in ("val", "vval", "consume", "argv"):
            d["oracle:agreed"] = d.get("oracle:agreed", 0) + 1
    for op, ln in zip(script, c_lines):
        w = op.split()
        if len(w) < 4:
            continue
        verdict = ("ok" if ln.startswith("R dst=ok") else "refused" if ln.startswith("R dst=refused") else
                   "empty" if ln.startswith("R dst=empty") else "summary" if ln.startswith("R wrong=") else "other")
        k = "%s:%s" % (w[1], verdict)
        d[k] = d.get(k, 0) + 1
        if w[1] in ("val", "vval", "consume", "argv", "sweep"):
            k = "src:" + w[2]
            d[k] = d.get(k, 0) + 1
            k = "tgt:" + w[3]
            d[k] = d.get(k, 0) + 1


def finding_key(script, res):
    if res.get("kind") == "c_ne_s":
        want = rounded_result(res.get("op") or "")
        detail = res.get("detail") or ""
        code = detail.split("spec allows:")[0]
        if want is not None and ("dst=ok" in code or "R ok" in code or code.strip().startswith("code: ok")) and (" " + want + " ") in (" " + code.replace("|", " ") + " "):
            return "c_ne_s:rounded"
    op = (res.get("op") or "").split()
    if len(op) >= 4:
        return "%s:%s:%s>%s" % (res["kind"], op[1], op[2], op[3])
    return "%s:%s" % (res["kind"], op[1] if len(op) > 1 else "?")
