"""C19 — value generators follow the iterator protocol and their formulas."""
import itertools

from .. import gen

id = "C19"
area = "iter"
driver = "drv_iter"
cxx = False
fixed_lines = 1
rule = ("scripts = 'it begin', 'it create <hex of description>' or 'it profile <n> <hex>', then value/xvalue/advance/"
        "reset/clone/use/walk ops on the real iterator objects; stream 1 = 60 hand-picked descriptions (every "
        "generator kind, counts 0,1,2,3, 2^32-1) x EVERY op sequence up to length 3 (quick) / 4 (thorough) over "
        "{read, advance, reset, clone+switch, walk}; stream 2 = boundary/malformed descriptions (missing parentheses, "
        "double blanks, octal counts, counts around 2^32, empty fields), exhausted-clone/reset cases, the array "
        "fillers; stream 3 = grammar-generated descriptions and structural mutations of them with random op "
        "sequences up to length 8; descriptions marked exact use only dyadic literals and are compared bit-exactly "
        "(xvalue), the others as decimals of at most 8 digits (tolerance 1e-12) or rounded to 6 digits; non-trivial = a script in which an iterator was accepted "
        "and yielded at least two elements ('more' seen or a walk of >= 2 values), or a malformed description was "
        "refused, counted per distinct script; further streams: text argument iterator (number, word and key reads "
        "over padded texts with blank/comma/semicolon separators), buffer iterator, mpt_iterator_consume and the "
        "iterator-argument forms of the linear/range/factor creators fed from text and buffer sources, grid-less "
        "polynomial sources, extreme parameters (infinite literals, subnormal factors, counts around 2^32), histories "
        "inside one process (a refused range or subnormal element before lists with infinite elements) and a grid "
        "owner appending points inside and beyond the reserved space while a source over the grid is alive; "
        "non-dyadic range bounds and steps (count checked, values by the tolerant rendering); metatype plumbing, values "
        "that are no description, mpt_range_set with vectors, element reads as string; S column: accepted for every "
        "canonical description and canonical profile description with its denotation, refused for certainly malformed "
        "texts, malformed counts, recognised descriptions without a sequence and malformed profiles; text arguments stay "
        "judged after an advance over an unread element (it ends like a read one or extends to the end of the text)")
assumptions = [
    "decimal literals are compared exactly (xvalue) only when every number involved is a dyadic fraction; otherwise "
    "with the tolerant decimal rendering of the drivers (8-digit decimals within 1e-12, else 6 digits); rounding of arbitrary doubles, overflow, nan, hexadecimal literals, digit runs "
    "> 15 and exponents > 2 digits are outside the model (both drivers answer 'unmodelled')",
    "'file' profiles (mpt_iterator_file) are not modelled; infinite literals are modelled as the value 2^2000 "
    "(printed 'inf'), NaN not at all",
    "C locale (LC_ALL=C) for isspace/isalpha/strtod",
]
trusted = ["hand-written model MptModel/Impl/Iter.lean tied to mptplot/values/iterator_*.c, values_linear.c, "
           "values_bound.c and the scanners mpt_cdouble/mpt_cuint32/mpt_string_nextvis by harness/drv_iter.c"]


def corpus(chk):
    return gen.corpus(id)


def H(s):
    return s.encode("latin-1").hex() if s else "-"


# (kind, text, exact) ; kind c = create, p<n> = profile with n grid points
BASE = [
    ("c", "lin(4 : 0 1)", True), ("c", "linear(8:-2 2)", True), ("c", "LIN(1 : 3 5)", True), ("c", "lin(2)", True),
    ("c", "lin(3 : 1 2)", False), ("c", "lin(10 : 0.1 0.7)", False), ("c", "Linear( 16 : 1 3 )", True),
    ("c", "lin(0 : 0 1)", True), ("c", "lin(1:2.5 2.5)", True),
    ("c", "range(0 1 : 0.25)", True), ("c", "range(0 5)", True), ("c", "range(-2 2 : 0.5)", True),
    ("c", "Range(1 2 : 1)", True), ("c", "range(0 1 : 2)", True), ("c", "range(1 0)", True), ("c", "range(1 1)", True),
    ("c", "range(0 3 : 1.25)", True), ("c", "range(0 0.3:0.1)", False), ("c", "range(0.1 0.7 : 0.2)", False),
    ("c", "range(0 1 : 0.3)", False), ("c", "range(-0.3 0.3 : 0.15)", False),
    ("c", "fac(3:2)", True), ("c", "fac(4:2:0.5:1)", True), ("c", "factor(0:2)", True), ("c", "fact(1:3::7)", True),
    ("c", "fac(5:1.5:2:0.25)", True), ("c", "fac(3)", True), ("c", "fac(6:0.1:3:1)", False),
    ("c", "fac(2:0)", True), ("c", "fac(2:-1:2)", True), ("c", "fac(2:2:0)", True), ("c", "fac(4294967295:2)", True),
    ("c", "1 2 3", True), ("c", "0.5", True), ("c", "-1.25 +3 .5 5. 1e1 2.5e-1", True), ("c", "0.1 0.2 0.3", False),
    ("c", "1 x 3", True), ("c", "1 2 ", True), ("c", "1,2", True), ("c", " 7 8", True), ("c", "4\t5\n6", True),
    ("c", "", False), ("c", "  ", False), ("c", None, False),
    ("p3", "lin 0 1", True), ("p5", "linear : -1 1", True), ("p2", "lin:2 4", True), ("p1", "lin 0 1", True),
    ("p9", "line 0 4", True), ("p4", "lin 1", True),
    ("p3", "bound 1 2 3", True), ("p5", "boundary: 0.5 0 -0.5", True), ("p2", "bound 1 2 3", True),
    ("p1", "bound 1 2 3", True), ("p4", "bounda 3 2 1", True),
    ("p4", "poly 1 0", True), ("p5", "poly 1 0 0 : 1", True), ("p3", "poly 2 -1 3 : 0.5 1", True), ("p4", "poly: 3", True),
    ("p4", "poly", True), ("p6", "poly 1 2 3 4 : 1 1 1", True), ("p0", "lin 0 1", True),
    ("c", "lin(4294967294 : 0 4294967294)", True), ("c", "fac(4294967294:1:1:1)", True),
]


def _create(kind, text):
    if kind == "c":
        return "it create " + ("null" if text is None else H(text))
    return "it profile %s %s" % (kind[1:], "null" if text is None else H(text))


def _opseq_lines(seq, exact, start_slots=1):
    """translate abstract ops into lines; tracks slot numbers for clone+switch"""
    lines = []
    nslot = start_slots
    rd = "it xvalue" if exact else "it value"
    for o in seq:
        if o == "r":
            lines.append(rd)
        elif o == "a":
            lines.append("it advance")
        elif o == "z":
            lines.append("it reset")
        elif o == "c":
            lines.append("it clone")
            # the clone may be refused (polynomial): 'use' of a missing slot is bad-op on both sides
            lines.append("it use %d" % nslot)
            nslot += 1
        elif o == "w":
            lines.append("it walk 3")
    return lines, nslot


def _finish(nslot, exact):
    rd = "it xvalue" if exact else "it value"
    out = [rd, "it walk 6", "it advance", rd]
    for k in range(nslot):
        out += ["it use %d" % k, rd, "it reset", "it walk 5"]
    return out


def _exhaustive(top):
    out = []
    for bi, (kind, text, exact) in enumerate(BASE):
        for n in range(0, top + 1):
            for seq in itertools.product("razcw", repeat=n):
                lines, ns = _opseq_lines(seq, exact)
                out.append(("ex:%d:%s" % (bi, "".join(seq)), ["it begin", _create(kind, text)] + lines + _finish(ns, exact)))
    return out


MALFORMED = [
    "lin", "lin(", "lin()", "lin(4", "lin(4 : 0 1", "lin 4 : 0 1)", "lin(4 :: 0 1)", "lin(4 : 0)", "lin(4 : 0 1 2)",
    "lin(4  : 0 1)", "lin (4 : 0 1)", "lin  (4 : 0 1)", "lin(-4 : 0 1)", "lin(+4 : 0 1)", "lin(010 : 0 8)",
    "lin(08 : 0 1)", "lin(4.5 : 0 1)", "lin(4 : a b)", "lin(4294967295 : 0 1)", "lin(4294967296 : 0 1)",
    "lin(99999999999999 : 0 1)", "lin(4 : 0 1) tail", "lin(4 : 0 1))", "linx(4 : 0 1)", "li(4 : 0 1)",
    "linearlinearlinearlinearlinearl(4)", "abcdefghijklmnopqrstuvwxyzabcde(4)", "abcdefghijklmnopqrstuvwxyzabcdef",
    "range", "range(", "range()", "range(0)", "range(0 1", "range(0 1 :)", "range(0 1 : )", "range(0 1 : 0)",
    "range(0 1 : -0.5)", "range(0 1 : 0.0000001)", "range(0 1 : 0.000001)", "range(0 1000000 : 1)", "range(5 5 : 1)",
    "range(0 1 : 0.5 : 3)", "range(0 1 0.5)", "range (0 1)", "rangee(0 1)", "range(0 1 : 1)", "range(2 2)",
    "fac", "fac(", "fac()", "fac( )", "fac(:2)", "fac(3:)", "fac(3::)", "fac(3:::)", "fac(3:2::)", "fac(3:2:::1)",
    "fac(3:2:3:4:5)", "fac(3:0:2)", "fac(3:-2)", "fac(3:2:-1)", "fac(3 : 2 : 3 : 4)", "fac(3:2", "fac 3", "facto(3)",
    "fac(4294967296:2)", "fac(3:2:3:x)", "fac(3:x)",
    "x", "-", "+", ".", "1e", "e1", "(1 2)", "1 2 (", ":1", "1:2", "1;2",
    "lin(abc)", "lin(4 ; 0 1)", "lin(-3 : 0 1)", "lin(e)", "lin(4 5)", "lin(4x)", "lin( x )", "lin(+)", "lin(4\t: 0 1)", "\tlin(;)",
    "fac(3x)", "fac(x)", "fac(3 ; 2)", "fac(-1)", "fac(3:0::1)", "fac(3:-1::2)", "fac(3:1e-320::2)", "FAC( 7 )x", "lin(0)", "lin(0 : 2 3)",
    "lin(2:0 1)junk", "lin(2:0 1) 3", "fac(3) 4", "fac(3:2:1:0)x", "range(0 1)x", "range(0 1 : 0.5) :", "lin(2:0 1) \t ", "lin(2)\n",
    "range(1 0)", "range(1 0 : 0.5)", "range(2 2 : 1)", "range(0 1 : -1)", "range(3 -3)",
]

PROFILES = [
    (3, "lin"), (3, "lin 1"), (3, "lin1 2"), (3, "linx 1 2"), (3, "LINEAR 1 2"), (3, "linearx 1 2"), (3, "lin::1 2"),
    (3, "lin : : 1 2"), (3, " lin 1 2"), (3, "li 1 2"), (3, "bound"), (3, "bound 1 2"), (3, "bound1 2 3"),
    (3, "BOUNDARY 1 2 3"), (3, "boundaryy 1 2 3"), (3, "boun 1 2 3"), (3, "polyx 1"), (3, "poly1"), (3, "poly:1 2"),
    (3, "poly 1 2 : "), (3, "poly 1 2 : x"), (3, "poly x"), (3, "POLY 2"), (3, "poly 1 1 1 1 1 1 1 1"),
    (3, ""), (3, " "), (3, None), (3, "other 1 2"), (2, "poly 1 2 3:1 2 3 4"), (7, "poly 1 -3 3 -1"),
    (5, "poly " + " ".join(["1"] * 130)), (4, "poly 1 0 : 0.5"),
    (3, "lin 0 1 junk"), (3, "lin 0 1 2"), (3, "bound 1 2 3 4"), (3, "bound 1 2 3 x"), (4, "poly 1 2 x"), (4, "poly 1 2 : 1 x"),
    (4, "poly 1 2 : 1 2"), (4, "poly 1 2 :"), (4, "poly 1 2 : "), (4, "poly 1 2 3 : 1 : 2"), (5, "lin 0 1 \t"), (4, "poly 1 0 \n"),
    (5, "poly " + " ".join(["1"] * 128)), (5, "poly " + " ".join(["1"] * 129)),
]


def _boundary():
    out = []
    k = 0
    for text in MALFORMED:
        out.append(("mal:%d" % k, ["it begin", "it create " + H(text), "it value", "it advance", "it walk 12", "it reset", "it walk 3",
                                   "it clone", "it use 1", "it walk 12"]))
        k += 1
    for n, text in PROFILES:
        rd = "it value" if text and len(text) > 100 else "it xvalue"
        out.append(("prof:%d" % k, ["it begin", _create("p%d" % n, text), rd, "it advance", rd, "it walk 9", "it reset",
                                    rd, "it walk 140", "it clone", "it use 1", "it walk 3"]))
        k += 1
    # clones taken at the end and past the end, resets after partial walks
    for kind, text, exact in BASE:
        rd = "it xvalue" if exact else "it value"
        lines = ["it begin", _create(kind, text), "it walk 40", "it clone", "it use 1", rd, "it advance", "it reset", "it walk 4",
                 "it use 0", rd, "it advance", "it advance", "it clone", "it use 2", rd, "it advance", "it reset", "it walk 3",
                 "it use 0", "it reset", rd, "it advance", rd, "it reset", rd, "it walk 50"]
        out.append(("endclone:%d" % k, lines))
        k += 1
    # array fillers
    lines = ["it begin"]
    for p in range(0, 6):
        for ld in range(0, 4):
            lines.append("it vlinear %d %d -1 3" % (p, ld))
            lines.append("it vbound %d %d 1/2 2 -1" % (p, ld))
    lines += ["it vlinear 9 1 0 1", "it vlinear 3 2 5 5", "it vlinear 65 1 0 1", "it vlinear 2 9 0 1", "it vlinear x 1 0 1",
              "it vlinear 2 1 +1 2", "it vbound 64 8 1 2 3", "it vbound 2 1 1 2"]
    out.append(("fill", lines))
    return out


def _lit(r, exact):
    """a decimal literal; exact = dyadic value"""
    if exact:
        num = r.choice([0, 1, 2, 3, 5, 7, 12, 25, 100, r.randrange(0, 64)])
        den = r.choice([1, 1, 2, 4, 8])
        v = num / den
        forms = ["%g" % v]
        if v == int(v):
            forms += ["%d" % int(v), "%d." % int(v), "%de0" % int(v)]
            if int(v) % 10 == 0 and v:
                forms.append("%de1" % (int(v) // 10))
        else:
            forms += [("%.4f" % v).rstrip("0"), ("%.6f" % v).rstrip("0").lstrip("0"), "%se-1" % ("%g" % (v * 10))]
        return r.choice(forms)
    return r.choice(["0.1", "0.3", "1.7", "2e-1", "3.14159", "12.5", "7", "0.7", "1e1", "33.3"])


def _pos(r, exact):
    s = _lit(r, exact)
    while float(s) == 0:
        s = _lit(r, exact)
    return s


def _gen_desc(r):
    """(kind, text, exact, family)"""
    exact = r.random() < 0.6
    fam = r.choice(["lin", "range", "fac", "vals", "plin", "pbound", "ppoly"])
    sp = lambda: r.choice(["", "", " "])
    if fam == "lin":
        n = r.choice([1, 2, 4, 8, 16, 32]) if exact else r.choice([1, 2, 3, 5, 7, 10, 12])
        kw = r.choice(["lin", "linear", "LIN", "Linear"])
        a, b = _pos(r, exact), _pos(r, exact)
        if r.random() < 0.3:
            a, b = "-" + a, "-" + b
        elif exact and r.random() < 0.3:
            a = "-" + a
        return "c", "%s(%s%d%s:%s%s %s%s)" % (kw, sp(), n, sp(), sp(), a, b, sp()), exact, fam
    if fam == "range":
        a = r.choice([0, 1, -2, 3, 10])
        w = r.choice([1, 2, 4, 5, 8])
        st = r.choice(["0.5", "0.25", "1", "2", "0.125", "1.5", "4", None])
        if st is None and w not in (5,):
            st = "0.5"
        if not exact:
            # non-dyadic bounds and steps: the quotient width/step is a whole number or far from one
            from decimal import Decimal
            lo = Decimal(r.choice(["0", "0.1", "-0.3", "1.7", "-2", "0.05"]))
            stp = Decimal(r.choice(["0.1", "0.2", "0.3", "0.05", "0.15", "0.7", "1.1"]))
            wd = stp * r.choice([1, 2, 3, 7, 10, 12]) + r.choice([Decimal(0), Decimal(0), stp / 2, stp / 4])
            txt = "%s(%s%s %s%s:%s%s%s)" % (r.choice(["range", "Range"]), sp(), lo, lo + wd, sp(), sp(), stp, sp())
            return "c", txt, False, fam
        txt = "%s(%s%d %d%s%s)" % (r.choice(["range", "Range", "RANGE"]), sp(), a, a + w, sp(), "" if st is None else ":%s%s%s" % (sp(), st, sp()))
        return "c", txt, True, fam
    if fam == "fac":
        n = r.choice([0, 1, 2, 3, 6, 10])
        kw = r.choice(["fac", "fact", "factor", "FAC"])
        parts = [str(n)]
        k = r.choice([0, 1, 2, 3])
        if k >= 1:
            parts.append(r.choice(["2", "0.5", "1.5", "4", "1"]) if exact else _pos(r, False))
        if k >= 2:
            parts.append(r.choice(["2", "0.5", "1.5", "3", ""]) if exact else r.choice(["1.1", "0.9", "3", ""]))
        if k >= 3:
            parts.append(r.choice(["1", "0", "-2", "0.25"]) if exact else _lit(r, False))
        return "c", "%s(%s)" % (kw, ":".join(parts)), exact, fam
    if fam == "vals":
        n = r.choice([1, 2, 3, 6])
        vals = [("-" if r.random() < 0.3 else "") + _lit(r, exact) for _ in range(n)]
        return "c", r.choice(["", " "]) + r.choice([" ", " ", "  ", "\t"]).join(vals) + r.choice(["", "", " "]), exact, fam
    n = r.choice([2, 3, 5, 9]) if fam != "ppoly" else r.choice([1, 2, 4, 6])
    if fam == "plin":
        kw = r.choice(["lin", "linear", "LIN", "line", "lin:", "linear :"])
        return "p%d" % n, "%s %s %s" % (kw, ("-" if r.random() < 0.3 else "") + _lit(r, True), _lit(r, True)), True, fam
    if fam == "pbound":
        kw = r.choice(["bound", "boundary", "BOUND", "bound:", "bounda"])
        return "p%d" % n, "%s %s %s %s" % (kw, _lit(r, True), "-" + _lit(r, True), _lit(r, True)), True, fam
    nc = r.choice([1, 2, 3, 4])
    co = [str(r.randrange(-3, 4)) for _ in range(nc)]
    sh = [r.choice(["0.5", "1", "-1", "2"]) for _ in range(r.randrange(0, nc))]
    return "p%d" % n, "poly %s%s" % (" ".join(co), (" : " + " ".join(sh)) if sh else ""), True, fam


def _mutate(r, text):
    """structural mutation: digits are never altered"""
    cs = list(text)
    for _ in range(r.choice([1, 1, 2, 3])):
        idx = [i for i, c in enumerate(cs) if not c.isdigit() and c not in ".-eE"]
        op = r.choice(["del", "ins", "rep", "dup", "swap"])
        alpha = " ():+xy:\t"
        if op == "ins" or not idx:
            cs.insert(r.randrange(len(cs) + 1), r.choice(alpha))
        elif op == "del":
            del cs[r.choice(idx)]
        elif op == "rep":
            cs[r.choice(idx)] = r.choice(alpha)
        elif op == "dup":
            i = r.choice(idx)
            cs.insert(i, cs[i])
        else:
            i = r.choice(idx)
            if i + 1 < len(cs) and not cs[i + 1].isdigit() and cs[i + 1] not in ".-eE":
                cs[i], cs[i + 1] = cs[i + 1], cs[i]
    return "".join(cs)


def _random(tier, seed, scale):
    out = []
    r = gen.rng(id, tier, seed, "random")
    n = (400 if tier == "quick" else 4000) * scale
    for k in range(2 * n):
        kind, text, exact, fam = _gen_desc(r)
        mutated = k >= n
        if mutated:
            text = _mutate(r, text)
            exact = False
        seq = [r.choice("rrraaaazcw") for _ in range(r.randrange(0, 9))]
        lines, ns = _opseq_lines(seq, exact)
        out.append(("%s:%d" % ("mut" if mutated else "gen", k), ["it begin", _create(kind, text)] + lines + _finish(ns, exact)))
    return out


# (text, separators, number of elements when the text is a canonical number list else None)
STRINGS = [
    ("1 2 3", None, 3), ("1,2;3", None, 3), ("0.5", None, 1), ("", None, 0), ("  ", None, None), ("1  2", None, None),
    ("1 x", None, None), ("1,,2", None, None), (" 7", None, None), ("1 2 ", None, None), ("4:5/6", None, 3),
    ("1,2", ",", 2), ("1 2", ",", None), ("3;4", "", None), (None, None, 0), ("x", None, None),
    ("-1.5e1 +2.25", None, 2), ("1\t2\n3", None, None), ("8", "", 1),
    ("4   0 1", None, 3), ("1, 2, 3", None, 3), ("  7", None, 1), ("1 \t2", None, 2), ("5 ,6", None, None), ("1,  2;\t3", None, 3),
]


def _strings(top):
    out = []
    for si, (text, sep, n) in enumerate(STRINGS):
        create = "it string %s %s" % ("null" if text is None else H(text), "null" if sep is None else H(sep))
        for k in range(0, top + 1):
            for seq in itertools.product("razcw", repeat=k):
                lines, ns = _opseq_lines(seq, True)
                out.append(("str:%d:%s" % (si, "".join(seq)), ["it begin", create] + lines + _finish(ns, True)))
    return out


BUFFERS = ["636d640061006262 00", "610062", "", None, "0000", "00", "61", "6100", "61 00 00 62 00", "78797a00 31 00 32 2e35 00 2d33"]


def _bufops(seq, nslot0=1):
    lines, nslot = [], nslot0
    for o in seq:
        if o == "r":
            lines.append("it svalue")
        elif o == "a":
            lines.append("it advance")
        elif o == "z":
            lines.append("it reset")
        elif o == "c":
            lines += ["it clone", "it use %d" % nslot]
            nslot += 1
        elif o == "w":
            lines.append("it swalk 2")
        elif o == "x":
            lines.append("it xvalue")
        elif o == "k":
            lines.append("it consume skip")
        elif o == "d":
            lines.append("it consume d")
    return lines, nslot


def _buffers(top):
    out = []
    for bi, data in enumerate(BUFFERS):
        hx = "null" if data is None else (data.replace(" ", "") or "-")
        for kind in ("buffer", "args"):
            for k in range(0, top + 1):
                for seq in itertools.product("razcw", repeat=k):
                    lines, ns = _bufops(seq)
                    fin = ["it svalue", "it swalk 9", "it advance", "it svalue"]
                    for j in range(ns):
                        fin += ["it use %d" % j, "it svalue", "it reset", "it swalk 9"]
                    out.append(("buf:%s:%d:%s" % (kind, bi, "".join(seq)), ["it begin", "it %s %s" % (kind, hx)] + lines + fin))
            out.append(("bufx:%s:%d" % (kind, bi), ["it begin", "it %s %s" % (kind, hx), "it xvalue", "it consume d", "it consume u",
                                                    "it consume skip", "it svalue", "it walk 3", "it from lin", "it from fac"]))
    return out


ARGSRC = [
    ("lin", ["4   0 1", "4, 0, 1", " 4 0  1", "4 0 1", "2,-1;2", "8 1 3 9", "4", "4 0", "x 0 1", "4 x 1", "0 0 1", "4294967295 0 1", "1 2.5 2.5", " 4 0 1", "4  0 1", ""]),
    ("range", ["0 0.3 0.1", "0 1 0.3", "0.1 0.7 0.2 ", "0 1 0.25", "0 1", "-2 2 0.5", "1 0 0.5", "1 1 1", "0 1 2", "0 1 0", "0 1 x", "0 3 1.25 7", "x 1 0.5", "", "1", "0 x 0.5"]),
    ("fac", ["3  2", "3, 2,  0.5", "3", "3 2", "3 2 0.5", "3 2 0.5 1", "0 2", "3 0", "3 -1", "3 2 0", "3 2 -1", "x", "3 x", "3 2 x", "3 2 0.5 x",
             "4294967295 2", "5 1.5 2 0.25 9"]),
]


def _fromiter(top):
    out = []
    k = 0
    for kind, texts in ARGSRC:
        for text in texts:
            src = "it string %s null" % H(text)
            # the created generator gets slot 1 (when accepted); the source stays slot 0
            for n in range(0, min(top, 2) + 1):
                for seq in itertools.product("razcw", repeat=n):
                    ex = not any(t in text for t in ("0.3", "0.1", "0.7", "0.2 "))
                    lines, ns = _opseq_lines(seq, ex, start_slots=2)
                    out.append(("from:%d:%s" % (k, "".join(seq)),
                                ["it begin", src, "it from " + kind, "it use 1"] + lines + _finish(ns, ex)
                                + ["it use 0", "it xvalue", "it consume d", "it advance"]))
            k += 1
    # a polynomial source supplies the parameters: 0, 1, 0.25 at the grid points -1, -0.5, 0
    for n in ("5", "3"):
        out.append(("frompoly:%s" % n, ["it begin", "it profile %s %s" % (n, H("poly -3.5 -3.25 0.25")), "it from range", "it use 1", "it walk 9",
                                        "it use 0", "it xvalue", "it consume d", "it consume d"]))
    out.append(("frompoly:d", ["it begin", "it poly 5 " + H("-3.5 -3.25 0.25"), "it consume d", "it consume d", "it consume skip", "it consume d",
                               "it reset", "it from range", "it use 1", "it walk 9"]))
    # generators, buffers and partly consumed texts as argument sources
    for kind in ("lin", "range", "fac"):
        out.append(("fromgen:%s" % kind, ["it begin", "it create " + H("4 0 1 0.25 7"), "it from " + kind, "it use 1", "it walk 9", "it use 0", "it walk 9"]))
        out.append(("fromlin:%s" % kind, ["it begin", "it create " + H("lin(4 : 0 1)"), "it from " + kind, "it use 1", "it walk 9", "it use 0", "it walk 9"]))
        out.append(("frompart:%s" % kind, ["it begin", "it string %s null" % H("9 4 0 1 0.5 2"), "it consume d", "it from " + kind, "it use 1", "it walk 9",
                                           "it use 0", "it consume d", "it consume d", "it consume d"]))
    return out


def _polydirect(top):
    """mpt_iterator_poly called directly: with and without grid data, every op sequence (reads before a reset
    included: the cached value must not survive it)"""
    out = []
    descs = ["1 0 0 : -4", "2 1", "1", None, "0.5 -1 2 : 1 0.5", "x", ""]
    for di, d in enumerate(descs):
        for n in ("none", "0", "7"):
            create = "it poly %s %s" % (n, "null" if d is None else H(d))
            for k in range(0, top + 2):
                for seq in itertools.product("raz", repeat=k):
                    lines, ns = _opseq_lines(seq, True)
                    out.append(("polyd:%d:%s:%s" % (di, n, "".join(seq)),
                                ["it begin", create] + lines + ["it xvalue", "it reset", "it xvalue", "it walk 4", "it reset", "it walk 3",
                                                                "it clone"]))
    return out


EXTREME = [
    "range(0 inf)", "range(-inf 0)", "range(0 1 : inf)", "range(nan 1)", "range(0 1 : nan)", "range(-1.7e308 1.7e308)",
    "range(-1.7e308 1.7e308 : 1e307)", "lin(4 : -1.7e308 1.7e308)", "lin(4 : 0 inf)", "lin(4 : -inf 0)", "lin(4 : nan 1)",
    "lin(4 : 0 nan)", "lin(4 : -9e307 9e307)", "lin(4 : -8e307 8e307)", "lin(4 : 1e309 2)", "lin(4 : 0 1.7e308)",
    "lin(2 : -1e308 1e308)", "fact(3:2:nan)", "fact(3:2:4:nan)", "fact(3:nan)", "fact(3:inf)", "fact(3:2:inf)", "fact(3:2:4:inf)",
    "fact(3:2:4:-inf)", "fac(3:1e308:1e10)", "fac(3:1e-320)", "fac(3:2:1e-320)", "fac(3:1e400)", "lin(4 : 0 1)", "fac(3:2)",
    "Lin(4 : INF 1)", "range(0 Infinity)", "lin(4 : NaN 1)", "lin(4 : 0 -nan)",
]


def _extreme():
    lines = ["it begin"] + ["it xcreate " + H(d) for d in EXTREME]
    return [("extreme", lines)]


KEYS = [("abc,def", None), ("abc def gh", None), ("a b,c", ","), ("a, b;c/d:e", None), ("x", None), ("", None), ("a,,b", None),
        (",a", None), ("a,", None), ("k1;k2;k3", ";"), ("one two", ""), (" lead", None), ("a:b c", ": "), ("ab", None), ("  ", None), (" ,", None),
        ("a  ", None), (",", ","),
        ("alpha\tbeta\tgamma", "\t"), ("a\nb\nc", "\n,"), ("k1\tk2,k3", ",\t"), ("one two", "\t")]


def _keys():
    out = []
    for ki, (text, sep) in enumerate(KEYS):
        create = "it string %s %s" % (H(text), "null" if sep is None else H(sep))
        for pre in ([], ["it kwalk 1"], ["it kwalk 2", "it reset"], ["it xvalue"], ["it advance"], ["it clone", "it use 1"]):
            out.append(("key:%d:%d" % (ki, len(pre)), ["it begin", create] + pre + ["it kwalk 9", "it reset", "it kwalk 9", "it kwalk 2"]))
    return out


def _words(top):
    out = []
    for si, (text, sep, n) in enumerate(STRINGS):
        create = "it string %s %s" % ("null" if text is None else H(text), "null" if sep is None else H(sep))
        for k in range(0, top + 2):
            for seq in itertools.product("oar", repeat=k):
                lines = [{"o": "it word", "a": "it advance", "r": "it xvalue"}[o] for o in seq]
                out.append(("word:%d:%s" % (si, "".join(seq)), ["it begin", create] + lines + ["it word", "it advance", "it word", "it reset", "it word", "it walk 5"]))
    return out


def _history():
    """state left behind by earlier calls in the same process (errno, shared buffers) must not change what a
    source yields: refused range / subnormal element before value lists with infinite elements; the owner of a
    grid array appends points (inside and beyond the reserved space) while a source over it is alive"""
    out = []
    refused = ["range(0 1 : 2)", "range(0 1 : 0.0000001)", "range(1 0)", "lin(0 : 0 1)", "x"]
    lists = ["1 inf 3", "-inf 0 inf", "2 1e-320 5 -inf 7", "1e-310 Infinity", "inf", "1 +INF -Inf 2", "3 infinit 4", "1e-323 inf 1"]
    k = 0
    for pre in refused + [None]:
        for lst in lists:
            lines = ["it begin"]
            if pre is not None:
                lines.append("it create " + H(pre))
            lines += ["it create " + H(lst), "it value", "it walk 9", "it reset", "it walk 9", "it clone", "it use %d" % (1 if pre is None or True else 1),
                      "it walk 9"]
            out.append(("hist:%d" % k, lines))
            k += 1
    for n, add in ((5, 3), (5, 4), (5, 1), (9, 15), (9, 16), (2, 1), (7, 1), (1, 1), (3, 0)):
        for desc in ("poly 1 0 0 : -4", "poly 1 -8 16", "lin 0 1", "bound 1 2 3"):
            create = "it profile %d %s" % (n, H(desc))
            for variant in range(5):
                lines = ["it begin", create]
                if variant == 0:
                    lines += ["it walk 40", "it grow 0 %d" % add, "it reset", "it walk 40"]
                elif variant == 1:
                    lines += ["it xvalue", "it advance", "it grow 0 %d" % add, "it walk 40", "it reset", "it walk 40"]
                elif variant == 2:
                    lines += ["it walk 40", "it xvalue", "it advance", "it grow 0 %d" % add, "it xvalue", "it advance", "it walk 3"]
                elif variant == 3:
                    lines += ["it grow 0 %d" % add, "it walk 40", "it grow 0 %d" % add, "it reset", "it walk 40"]
                else:
                    lines += ["it clone", "it grow 0 %d" % add, "it xvalue", "it walk 40", "it grow 1 1", "it grow 9 1"]
                out.append(("grow:%d" % k, lines))
                k += 1
    out.append(("growd", ["it begin", "it poly 5 " + H("1 0 0 : -4"), "it walk 9", "it grow 0 3", "it reset", "it walk 9",
                          "it poly none " + H("2 1"), "it grow 1 4", "it walk 3", "it create " + H("1 2"), "it grow 2 1"]))
    return out


def _consume():
    out = []
    srcs = [("it create " + H("1 2 3"), True), ("it create " + H("1 x 3"), True), ("it create " + H("lin(2 : 0 1)"), True),
            ("it create " + H("fac(0:2)"), True), ("it profile 3 " + H("poly 1 0"), True), ("it string %s null" % H("1 2 3"), True),
            ("it string %s null" % H("7 x 8"), True), ("it string %s null" % H("0.5"), True), ("it string %s null" % H("4 "), True),
            ("it string %s null" % H("4   "), True), ("it string %s null" % H("  "), True), ("it string - null", True),
            ("it create " + H("-nan 1"), True), ("it create " + H("1 -nan 2"), True), ("it create " + H("+nan"), True),
            ("it create " + H("1 nan(x) 2"), True), ("it create " + H(" nan"), True)]
    for si, (src, _e) in enumerate(srcs):
        for n in range(0, 4):
            for seq in itertools.product("dukr", repeat=n):
                lines = []
                for o in seq:
                    lines.append({"d": "it consume d", "u": "it consume u", "k": "it consume skip", "r": "it xvalue"}[o])
                out.append(("cons:%d:%s" % (si, "".join(seq)), ["it begin", src] + lines + ["it xvalue", "it advance", "it text", "it reset", "it walk 4"]))
    return out


def _narrow():
    """an element read more than once, the later reading narrower (uint32) and possibly refused: the element keeps
    its end, the following elements are not lost"""
    out = []
    texts = ["-5 7 8", "1 2 -3 4 5", "300 7 8", "1.5 2 3", "7,-1;x", "4 5", "-1"]
    for ti, t in enumerate(texts):
        for n in range(0, 5):
            for seq in itertools.product("rua", repeat=n):
                lines = [{"r": "it xvalue", "u": "it uvalue", "a": "it advance"}[o] for o in seq]
                out.append(("narrow:%d:%s" % (ti, "".join(seq)), ["it begin", "it string %s null" % H(t)] + lines
                            + ["it xvalue", "it uvalue", "it advance", "it walk 6", "it reset", "it walk 6"]))
    return out


def _messages(top):
    """buffer argument iterator made from a NUL-delimited message (mpt_message_iterator, separator 0): empty
    arguments inside and at the ends, an unterminated last argument, a message split in two parts"""
    out = []
    msgs = [("73657400616c7068610000626574610067616d6d6100", None), ("007800", None), ("6100620000", None), ("6100", None), ("61", None),
            ("00", None), ("0000", None), ("-", None), ("610062", None), ("73657400616c", "7068610000626574610067616d6d6100"),
            ("736574", "00616c70686100"), ("7365740061", "-"), ("-", "6100006200"), ("6100", "00620000")]
    for mi, (a, b) in enumerate(msgs):
        create = "it msg " + a + ("" if b is None else " " + b)
        for k in range(0, min(top, 3) + 1):
            for seq in itertools.product("razcw", repeat=k):
                lines, ns = _bufops(seq)
                fin = ["it svalue", "it swalk 9", "it advance", "it svalue"]
                for j in range(ns):
                    fin += ["it use %d" % j, "it svalue", "it reset", "it swalk 9"]
                out.append(("msg:%d:%s" % (mi, "".join(seq)), ["it begin", create] + lines + fin))
    return out


def _plumbing():
    """metatype plumbing of every kind of source, values that are no description, mpt_range_set with
    non-iterator values, an unknown element type for mpt_iterator_consume"""
    out = []
    creates = ["it create " + H("lin(4 : 0 1)"), "it create " + H("fac(3:2)"), "it create " + H("1 2 3"),
               "it profile 4 " + H("bound 1 2 3"), "it profile 4 " + H("poly 1 0"), "it poly none " + H("1 0"),
               "it string %s null" % H("1 2 3"), "it buffer 610062620000", "it args 610062620000"]
    for k, c in enumerate(creates):
        out.append(("plumb:%d" % k, ["it begin", c, "it meta", "it consume Z", "it advance", "it meta", "it advance", "it advance",
                                     "it advance", "it consume Z", "it meta", "it clone", "it use 1", "it meta"]))
    for k, t in enumerate(["1 2 3", "  ab c", "", " ", "x"]):
        out.append(("plumb:rest:%d" % k, ["it begin", "it string %s null" % H(t), "it rest", "it advance", "it rest", "it reset", "it value",
                                          "it rest", "it advance", "it rest", "it advance", "it rest"]))
    out.append(("plumb:elems", ["it begin"] + ["it elems %d %d" % (z, c) for z in (2, 3, 4, 5, 8, 12, 16, 24, 7) for c in (1, 2, 3, 4, 9)]))
    # clones of sources whose parameters do not round-trip in floating point replay the identical values (bit by bit)
    for k, d in enumerate(["lin(3 : 0.1 0.3)", "lin(5 : 0.4 1.3)", "range(0 0.3 : 0.1)", "range(0 0.6 : 0.2)", "lin(7 : 0.1 0.7)", "range(0.1 1.2 : 0.1)",
                           "fac(5:0.1:0.3:0.7)", "0.1 0.2 0.3", "lin(4 : 0 1)", "range(0 1 : 0.3)", "lin(10 : -0.7 0.9)"]):
        for pre in ([], ["it advance"], ["it advance", "it advance"], ["it walk 2", "it reset"]):
            out.append(("plumb:clone:%d:%d" % (k, len(pre)), ["it begin", "it create " + H(d)] + pre + ["it cmpclone 40", "it reset", "it cmpclone 3", "it cmpclone 40"]))
    for k, (n, d) in enumerate([(4, "lin 0.1 0.7"), (5, "bound 0.1 0.2 0.3"), (3, "lin 0.4 1.3")]):
        out.append(("plumb:pclone:%d" % k, ["it begin", "it profile %d %s" % (n, H(d)), "it advance", "it cmpclone 40", "it reset", "it cmpclone 40"]))
    out.append(("plumb:val", ["it begin", "it fromval lin", "it fromval range", "it fromval fac", "it rangeset vec2", "it rangeset vec3",
                              "it rangeset vecnull", "it rangeset type", "it rangeset itnull"]))
    return out


def scripts(tier, seed, scale=1):
    top = 3 if tier == "quick" else 4
    return (_exhaustive(top) + _strings(top) + _buffers(top) + _fromiter(top) + _polydirect(top) + _extreme() + _words(top) + _keys() + _history() + _consume() + _boundary() + _plumbing() + _narrow() + _messages(top)
            + _random(tier, seed, scale))


class _XS:
    """second driver part: the C++ value source template mpt::source<T> of mptcore/types.h (positive and negative steps)"""
    id = "C19"
    area = "iter"
    driver = "drvxx_iter"
    cxx = True
    fixed_lines = 1
    link_extra = []

    @staticmethod
    def corpus(chk):
        return []

    @staticmethod
    def scripts(tier, seed, scale=1):
        out = []
        top = 5 if tier == "quick" else 6
        for di, data in enumerate(["1,2,3,4,5", "7", "1,2", "3,1,4,1,5,9"]):
            for step in (1, -1, 2, -2, 3, -3):
                create = "xs new %d %s" % (step, data)
                # every sequence of value / advance / reset; then a long tail of advances past the end
                seqs = [s for n in range(0, 4) for s in itertools.product("raz", repeat=n)]
                lines = []
                for seq in seqs:
                    lines.append(create)
                    lines += [{"r": "xs value", "a": "xs advance", "z": "xs reset"}[o] for o in seq]
                    lines += ["xs value"] + ["xs advance", "xs value"] * (top + 4)
                out.append(("xs:%d:%d" % (di, step), lines))
        return out

    nontrivial = staticmethod(lambda script, c_lines: any(ln.startswith("R more") for ln in c_lines))
    tally = staticmethod(lambda chk, script, c_lines: None)
    finding_key = staticmethod(lambda script, res: finding_key(script, res))


extra_parts = [_XS]


def nontrivial(script, c_lines):
    for ln in c_lines:
        if ln.startswith("R more") or ln.startswith("R refused |"):
            return True
        if ln.startswith("R str ") or ln.startswith("R ok val="):
            return True
        if ln.startswith("R vals="):
            i = ln.find(" n=")
            try:
                if i > 0 and int(ln[i + 3:].split(" ", 1)[0]) >= 2:
                    return True
            except ValueError:
                pass
    return False


def tally(chk, script, c_lines):
    d = chk.__dict__.setdefault("distribution", {})
    for op in script:
        w = op.split()
        if len(w) > 1:
            d[w[1]] = d.get(w[1], 0) + 1
    for ln in c_lines[1:2]:
        key = "create:" + ln.split(" ", 2)[1] if ln.startswith("R ") else "create:?"
        d[key] = d.get(key, 0) + 1


def finding_key(script, res):
    """known-defect regions are named by the model driver (tag=... in its I section); every other failure is
    keyed by kind and op verb"""
    import re
    m = re.search(r"\btag=(\S+)", res.get("model") or "")
    if m and res["kind"] == "c_ne_s":
        return "c_ne_s:" + m.group(1)
    op = (res.get("op") or "").split()
    return "%s:%s" % (res["kind"], op[1] if len(op) > 1 else "?")
