"""C06 — type registry: unique, stable, correctly described types."""
import os
import sys

from .. import build, gen

id = "C06"
area = "types"
driver = "drv_types"
cxx = False
per_process = 1          # the registry is process-global and has no reset
fixed_lines = 1          # every script starts with `t reset`
lean_modules = ["Driver.Types"]
rule = ("one script = one process = one registry history: 't reset' then registrations ('t basic size', 't generic size [if]', "
        "'t iface name', 't meta name') interleaved with lookups by id ('t traits|itraits|mtraits id', 't size id' for built-ins, "
        "'t sweep' = every id 0..0x1100 plus all named entries, and the ids whose description OBJECT is no longer the one handed out first: the driver records the pointer of every description at its first sighting) and by name ('t named name len', 't alias text', 't alias0 text' = without the end output); 't rawdata' = the get-or-register helper mpt_rawdata_type_traits(). Stream 1 "
        "(exhaustive): every built-in id, every id sweep on the fresh registry, every integer size 0..17, every message format byte 0..255 and type id -2..299 through mpt_msgvalfmt_*. Stream 2: fill each of "
        "the four ranges to capacity -1/0/+2 (64/48/1791/1792), chunk boundaries at multiples of 30, name length 0..5, duplicate / "
        "cross-kind / built-in / short-name collisions, length-limited lookups around the stored length. Stream 3: random "
        "histories. non-trivial = a history in which an entry registered earlier is found again (by id, by name or in a sweep) "
        "after at least one later registration, counted per distinct script")
assumptions = [
    "S states the LP64 x86-64 sizes of the C types behind the built-in ids (Spec/Registry.lean abiSize, hand-written); M takes every sizeof "
    "from clang-14 (translate/cextract.py clang_sizeof: probe unit compiled to LLVM IR -> Generated sizeofC); 't size' prints the harness compiler's sizeof",
    "malloc/calloc never fail in the harness runs; atexit clean-up is not observed",
    "the chunk lists of metatype and generic entries are modelled flattened (chunks are filled strictly in order)",
    "the traits of the four static managed types (identifier, meta reference, array, command) are read by the translator from the static record of the function mpt_type_traits returns for the id (misc/identifier.c, meta/meta_reference_traits.c, array/array_traits.c, event/command_traits.c): { init, fini, sizeof(T) }",
]
trusted = [
    "translate/cextract.py (clang-14 JSON AST of type_traits.c/types.h/type_int.c -> Generated/TypeIds.lean, TypeTables.lean, regenerated every run)",
    "hand-written model MptModel/Impl/Registry.lean tied to mptcore/types/type_traits.c, alias_typeid.c by harness/drv_types.c, and to the C++ wrappers (mpt++/type_traits_wrap.cpp, metatype_basic.cpp) by harness/drvxx_types.cpp",
]

TRANSLATE = os.path.join(build.VERIF, "translate")


def generate(chk):
    if TRANSLATE not in sys.path:
        sys.path.insert(0, TRANSLATE)
    import cextract
    try:
        paths, changed = cextract.generate_types(build.REPO, build.LEAN)
    except cextract.TranslateError as e:
        raise build.BuildError("translator (cextract types) rejected the source: %s" % e)
    chk.notes.append("translator: Generated/TypeIds.lean, TypeTables.lean %s" % ("rewritten" if changed else "unchanged"))


def corpus(chk):
    return [(n, sc) for n, sc in gen.corpus(id) if sc and sc[0].startswith("t ")]


BUILTIN = [1, 4, 5, 8, 9, 11, 24, 25, 26] + [ord(c) for c in "cbynqiuxtfdes"] + \
          [ord(c) - 0x60 + 0x40 for c in "cbynqiuxtfdes"] + [0x40] + list(range(0x80, 0x89)) + [0x100, 0x800, 0x801, 0x802, 0x803]
CAP = {"basic": 64, "iface": 48, "meta": 1791, "generic": 1792}
BASE = {"basic": 0xc0, "iface": 0x90, "meta": 0x101, "generic": 0x900}


def hx(s):
    if s is None:
        return "null"
    if isinstance(s, str):
        s = s.encode("latin-1")
    return gen.hexs(s)


def add_op(kind, k, r=None):
    if kind == "basic":
        return "t basic %d" % ((k % 200) + 1)
    if kind == "generic":
        return "t generic %d%s" % ((k % 300) + 1, ["", " i", " f", " if"][k % 4])
    return "t %s %s" % (kind, hx("%s.%05d" % ("if" if kind == "iface" else "mt", k)))


def S(name, ops):
    return (name, ["t reset"] + ops)


def scripts(tier, seed, scale=1):
    out = []
    thorough = tier != "quick"
    # ---- stream 1: the fresh registry
    out.append(S("fresh:abi", ["t abi", "t sweep"]))
    for i in BUILTIN:
        out.append(S("fresh:size:%d" % i, ["t size %d" % i]))
    out.append(S("fresh:int", ["t int %d" % k for k in range(0, 18)] + ["t uint %d" % k for k in range(0, 18)]))
    # message value formats: every format byte, every scalar-range type id (exhaustive)
    out.append(S("fresh:msgfmt:type", ["t mtype %d" % f for f in range(256)]))
    out.append(S("fresh:msgfmt:size", ["t msize %d" % f for f in range(256)]))
    out.append(S("fresh:msgfmt:code", ["t mcode %d" % t for t in range(-2, 300)]))
    ids = list(range(0, 0x1101)) if thorough else sorted(set(BUILTIN + list(range(0, 0x110)) + [0x7ff, 0x800, 0x804, 0x8ff, 0x900, 0xfff, 0x1000, 0x1100]))
    for k in range(0, len(ids), 64):
        out.append(S("fresh:traits:%d" % k, ["t %s %d" % (op, i) for i in ids[k:k + 64] for op in ("traits", "itraits", "mtraits")]))
    # ---- stream 2: capacities and chunk boundaries
    for kind in ("basic", "iface", "meta", "generic"):
        cap = CAP[kind]
        for fill in (cap - 1, cap, cap + 2):
            ops = []
            for k in range(fill):
                ops.append(add_op(kind, k))
                if k in (28, 29, 30, 31, 59, 60, 61, cap - 2, cap - 1):
                    probe = BASE[kind] + k
                    ops += ["t traits %d" % p for p in (probe - 1, probe, probe + 1)]
                    if kind in ("iface", "meta"):
                        ops += ["t %straits %d" % (kind[0], p) for p in (probe - 1, probe, probe + 1)]
                        ops.append("t named %s -1" % hx("%s.%05d" % ("if" if kind == "iface" else "mt", max(0, k - 30))))
            ops.append("t sweep")
            # the other kinds are unaffected by the exhausted range
            ops += ["t basic 3", "t generic 5", "t iface %s" % hx("other.name"), "t meta %s" % hx("other.meta"), "t sweep"]
            out.append(S("cap:%s:%d" % (kind, fill), ops))
    # names
    names = ["", "a", "ab", "abc", "abcd", "abcde", "logger", "metatype", "log", "iter", "out", "meta", "iterator", "solver",
             "with space", "co:lon", "x" * 300, "caf\xe9\xff", "abcd", "ABCD", "abcd ", None, None]
    for first in ("iface", "meta"):
        ops = []
        for n in names:
            ops.append("t %s %s" % (first, hx(n)))
        for n in names:
            if n:
                ops.append("t %s %s" % ("meta" if first == "iface" else "iface", hx(n)))
        for n in names:
            if n is None:
                continue
            for ln in sorted(set([-1, 0, 1, 3, 4, len(n) - 1, len(n), len(n) + 1, len(n) + 5])):
                if ln >= -1:
                    ops.append("t named %s %d" % (hx(n + "tail") if ln > len(n) else hx(n), ln))
            ops.append("t named %s %d" % (hx(n + "XY"), len(n)))
        ops.append("t sweep")
        out.append(S("names:%s" % first, ops))
    al = ["logger", "log", "logger:sym", "log:sym", "logger : sym", "logger \t:  sym x", ":sym", " :sym", "  : ", "nosuch:sym", "metatype:", "meta", "meta:x",
          "my.type:lib.so", "my.type", "my.typ:x", "my.type:", "a:b:c", "iter", "out", "output", "iterator", "metatype", "convertable", "lo", "logg", "iter ", "outp"]
    out.append(S("alias", ["t meta %s" % hx("my.type")] + ["t alias %s" % hx(a) for a in al]))
    out.append(S("alias:noend", ["t meta %s" % hx("my.type")] + ["t alias0 %s" % hx(a) for a in al]))
    out.append(S("alias:fresh", ["t alias %s" % hx(a) for a in al]))
    # the "get or register" helper of mptplot: the same entry on every call, also when the name is taken / the range full
    out.append(S("rawdata", ["t rawdata", "t rawdata", "t iface %s" % hx("mpt.rawdata"), "t named %s -1" % hx("mpt.rawdata"), "t rawdata", "t sweep"]))
    out.append(S("rawdata:taken", ["t meta %s" % hx("mpt.rawdata"), "t rawdata", "t rawdata", "t sweep"]))
    out.append(S("rawdata:full", [add_op("iface", k) for k in range(48)] + ["t rawdata", "t rawdata", "t sweep"]))
    # description objects: an id keeps resolving to the object handed out first (the driver records the pointer of every
    # description at its first sighting; `t sweep` lists the ids that resolve to another object).  Other allocations are
    # interleaved with the registrations, sweeps sit on both sides of every multiple of 16 and of the chunk size 30.
    for kind in ("basic", "generic", "meta", "iface"):
        ops = []
        for k in range(CAP[kind] + 1 if kind in ("basic", "iface") else 100):
            ops.append(add_op(kind, k))
            ops.append("t %s %s" % ("meta" if kind != "meta" else "iface", hx("obj.%s.%03d" % (kind, k))) if k % 3 == 0 else "t traits %d" % (BASE[kind] + k))
            if k % 16 in (15, 0, 1) or k % 30 in (29, 0, 1):
                ops.append("t sweep")
        ops.append("t sweep")
        out.append(S("objects:%s" % kind, ops))
    # ---- stream 3: random histories
    r = gen.rng(id, tier, seed, "random")
    nhist = (200 if not thorough else 2000) * scale
    for h in range(nhist):
        ops = []
        pool = ["logger", "metatype", "iterator", "log", "meta", "iter", "out", "abc", "abcd"]
        regs = []
        n = r.choice([10, 40, 120, 300]) if not thorough else r.choice([10, 40, 120, 400, 2200])
        heavy = r.choice(["basic", "iface", "meta", "generic", None])
        for k in range(n):
            kind = r.choice(["basic", "generic", "iface", "meta", "lookup", "lookup", "name", "alias"])
            if r.random() < 0.02:
                ops.append("t rawdata")
            if heavy and r.random() < 0.6:
                kind = heavy
            if kind == "basic":
                ops.append("t basic %d" % r.choice([0, 1, 8, 255, 256, r.randrange(1, 5000)]))
            elif kind == "generic":
                ops.append("t generic %d%s" % (r.choice([0, 1, 24, r.randrange(1, 100000)]), r.choice(["", "", " i", " f", " if"])))
            elif kind in ("iface", "meta"):
                c = r.random()
                if c < 0.1:
                    nm = None
                elif c < 0.3:
                    nm = r.choice(pool)
                elif c < 0.4:
                    nm = "".join(r.choice("abz.") for _ in range(r.randrange(0, 6)))
                else:
                    nm = "n%d.%s" % (len(pool), r.choice(["x", "type", "a:b", "w s"]))
                ops.append("t %s %s" % (kind, hx(nm)))
                if nm:
                    pool.append(nm)
            elif kind == "lookup":
                i = r.choice([r.randrange(0, 0x1101), 0x80 + r.randrange(0, 0x40), 0x100 + r.randrange(0, 40), 0xc0 + r.randrange(0, 0x40), 0x900 + r.randrange(0, 40)])
                ops.append("t %s %d" % (r.choice(["traits", "traits", "itraits", "mtraits"]), i))
            elif kind == "name":
                nm = r.choice(pool)
                ln = r.choice([-1, -1, len(nm), len(nm), len(nm) - 1, len(nm) + 1, 0, 4])
                ops.append("t named %s %d" % (hx(nm + r.choice(["", "", "x", ":y"])), ln))
            else:
                nm = r.choice(pool)
                ops.append("t alias %s" % hx(nm + r.choice(["", ":s", " : s", ":"])))
            if r.random() < (0.02 if n <= 400 else 0.004):
                ops.append("t sweep")
        ops.append("t sweep")
        out.append(S("rnd:%d" % h, ops))
    return out


class _XX:
    """second part: the C++ face of the registry (mpt::type_traits wrappers of mpt++/type_traits_wrap.cpp and
    metatype::basic::pointer_traits of mpt++/metatype_basic.cpp) through harness/drvxx_types.cpp"""
    id = "C06"
    area = "types"
    driver = "drvxx_types"
    cxx = True
    per_process = 1
    fixed_lines = 1

    @staticmethod
    def corpus(chk):
        return [(n, sc) for n, sc in gen.corpus(id) if sc and sc[0].startswith("tx ")]

    @staticmethod
    def scripts(tier, seed, scale=1):
        out = []
        X = lambda name, ops: (name, ["tx reset"] + ops)
        names = ["", "a", "abc", "abcd", "basic", "logger", "metatype", "meta", "iter", "abcd", None, None, "x" * 40]
        for first in ("iface", "meta"):
            other = "meta" if first == "iface" else "iface"
            ops = ["tx %s %s" % (first, hx(n)) for n in names] + ["tx %s %s" % (other, hx(n)) for n in names if n is not None]
            ops += ["tx named %s %d" % (hx(n), ln) for n in names if n for ln in (-1, len(n), len(n) - 1)]
            ops += ["tx basicmeta", "tx basicmeta", "tx sweep"]
            out.append(X("xx:names:%s" % first, ops))
        # the basic metatype: registered on first use, whatever was registered under its name before
        for pre in ([], ["tx meta %s" % hx("basic")], ["tx iface %s" % hx("basic")], ["tx iface %s" % hx("basic"), "tx meta %s" % hx("other")],
                    ["tx meta null", "tx iface null"], ["tx basic 8", "tx generic 24 if"]):
            out.append(X("xx:basicmeta:%d" % len(out), pre + ["tx basicmeta", "tx named %s -1" % hx("basic"), "tx basicmeta",
                                                              "tx meta %s" % hx("basic"), "tx iface %s" % hx("basic"), "tx sweep"]))
        # type_properties<T>::id(): asks without registering, registers once, answers the same id from then on
        out.append(X("xx:propid", ["tx propid0 ptr", "tx propid0 obj", "tx propid ptr", "tx generic 24 if", "tx propid ptr", "tx propid0 ptr", "tx propid obj",
                                   "tx propid obj", "tx propid0 obj", "tx traits 2304", "tx traits 2306", "tx sweep"]))
        out.append(X("xx:propid:obj-first", ["tx propid obj", "tx propid ptr", "tx propid obj", "tx propid ptr", "tx sweep"]))
        out.append(X("xx:fresh", ["tx sweep"] + ["tx traits %d" % i for i in BUILTIN] + ["tx basic 0", "tx basic 12", "tx generic 0", "tx generic 40 f"]))
        for kind in ("basic", "iface"):
            cap = CAP[kind]
            ops = [add_op(kind, k).replace("t ", "tx ", 1) for k in range(cap + 2)] + ["tx basicmeta", "tx sweep"]
            out.append(X("xx:cap:%s" % kind, ops))
        if tier != "quick":
            ops = [add_op("meta", k).replace("t ", "tx ", 1) for k in range(CAP["meta"])] + ["tx basicmeta", "tx sweep"]
            out.append(X("xx:cap:meta", ops))
        r = gen.rng(id, tier, seed, "xx-random")
        for h in range((40 if tier == "quick" else 400) * scale):
            pool = ["basic", "logger", "abcd", "", "abc"]
            ops = []
            for k in range(r.choice([8, 25, 60])):
                kind = r.choice(["basic", "generic", "iface", "meta", "iface", "meta", "traits", "named", "basicmeta"])
                if kind == "basic":
                    ops.append("tx basic %d" % r.choice([0, 1, 8, 300]))
                elif kind == "generic":
                    ops.append("tx generic %d%s" % (r.choice([0, 1, 24]), r.choice(["", " i", " if"])))
                elif kind in ("iface", "meta"):
                    c = r.random()
                    nm = None if c < 0.15 else r.choice(pool) if c < 0.5 else "n%d.%s" % (len(pool), r.choice(["x", "basic"]))
                    ops.append("tx %s %s" % (kind, hx(nm)))
                    if nm:
                        pool.append(nm)
                elif kind == "traits":
                    ops.append("tx traits %d" % r.choice([0x80 + r.randrange(0x40), 0x100 + r.randrange(30), 0xc0 + r.randrange(8), 0x900 + r.randrange(8), r.randrange(0x1101)]))
                elif kind == "named":
                    nm = r.choice([p for p in pool if p] or ["basic"])
                    ops.append("tx named %s %d" % (hx(nm), r.choice([-1, len(nm), len(nm) + 1])))
                else:
                    ops.append("tx basicmeta")
            ops.append("tx sweep")
            out.append(X("xxrnd:%d" % h, ops))
        return out

    nontrivial = staticmethod(lambda script, c_lines: nontrivial(script, c_lines))
    tally = staticmethod(lambda chk, script, c_lines: tally(chk, script, c_lines))
    finding_key = staticmethod(lambda script, res: finding_key(script, res))


extra_parts = [_XX]


def nontrivial(script, c_lines):
    mine = {}
    n_adds = 0
    for k, ln in enumerate(c_lines):
        if ln.startswith("R ok fresh="):
            i = ln.find("| C id=")
            if i >= 0:
                try:
                    mine[int(ln[i + 7:].split()[0])] = n_adds
                except ValueError:
                    pass
            n_adds += 1
        elif ln.startswith("R found id="):
            try:
                i = int(ln.split()[2][3:])
            except ValueError:
                continue
            if i in mine and mine[i] < n_adds - 1:
                return True
        elif ln.startswith("R traits=") and n_adds >= 2:
            return True
    return False


def tally(chk, script, c_lines):
    d = chk.__dict__.setdefault("distribution", {})
    for op, ln in zip(script, c_lines):
        w = op.split()
        if len(w) < 2:
            continue
        v = "ok" if ln.startswith("R ok") else "refused" if ln.startswith("R refused") else "found" if ln.startswith("R found") else \
            "none" if ln.startswith("R none") else "other"
        k = "%s:%s" % (w[1], v)
        d[k] = d.get(k, 0) + 1


def finding_key(script, res):
    op = (res.get("op") or "").split()
    if len(op) >= 3 and op[1] in ("size", "traits"):
        return "%s:id:%s" % (res["kind"], op[2])
    return "%s:%s" % (res["kind"], op[1] if len(op) > 1 else "?")
