"""C15 — reference counts track handles exactly."""
import itertools

from .. import gen

id = "C15"
area = "refcount"
driver = "drv_refcount"
cxx = False
fixed_lines = 1
rule = ("scripts start with 'r begin' and end with 'r end'; stream 1 (exhaustive): the stand-alone counter at 0, 1, 2, max-1, "
        "max x all raise/lower words up to length 4; per object kind (harness metatype, harness buffer, library heap buffer, "
        "library rawdata) every history of length <= 3 (thorough: length 4 for the plain preset pair 1/1, length 3 for all 25 preset pairs) over take/copy/drop/assign/assigno/ext (library heap buffers: also detach with a too small, a sufficient and a larger length) on 2 objects "
        "and 2 handles with counter presets 0, 1, 2, max-1, max; stream 2 (boundary): presets max-1/max/0 with assignment and "
        "self-assignment; stream 3: random histories over 3 objects of mixed kinds and 3 handles; part g: the library's unshareable metatypes "
        "(geninfo, buffer metatype over a harness buffer with presets 1, 0, max): every history of length 3 over new/addref/take/wrap/clone/unref.  non-trivial = a history in "
        "which the code destroyed an object (callback log 'D' or finalised elements) or refused a reference, counted per distinct script")
assumptions = [
    "destruction is judged on the callback log of harness-owned objects (metatype/buffer vtables that count addref/unref and "
    "mark the object destroyed instead of freeing it) and on the element finalisers of library heap buffers; library rawdata "
    "objects have no callback: early/late destruction shows only as an ASan/LSan report",
    "counter values 0, max-1, max are reached by presetting the harness objects' counter, never by 2^64 operations",
    "reply contexts (part k), notifier inputs (part n), output_local targets (r lo), the C++ reference<T>/unique_array "
    "templates (part x) and the library's unshareable metatypes (part g) are driven with driver-local model code: the "
    "theorems of Props/C15.lean cover the history machine of part r (Op) and the handle operations of part x (XOp) only",
]
trusted = ["hand-written model MptModel/Impl/Refcount.lean tied to misc/refcount.c, meta_reference_traits.c, array_traits.c, "
           "array_clone.c, data_converter.c (_mpt_metatype_wrap), buffer_alloc.c (addref/unref), rawdata_create.c by harness/drv_refcount.c"]

PRESETS = ["0", "1", "2", "max-1", "max"]


def corpus(chk):
    return [(n, s_) for n, s_ in gen.corpus(id) if s_ and s_[0].startswith("r ")]


def _ops(nobj, nh, kinds_ext):
    ops = []
    for h in range(nh):
        ops.append("r drop %d" % h)
        for o in range(nobj):
            ops.append("r take %d %d" % (h, o))
            ops.append("r assigno %d %d" % (h, o))
        ops.append("r assigno %d null" % h)
        for g in range(nh):
            if g != h:
                ops.append("r copy %d %d" % (h, g))
            ops.append("r assign %d %d" % (h, g))
    for o in range(nobj):
        if kinds_ext[o]:
            ops.append("r ext %d addref" % o)
            ops.append("r ext %d unref" % o)
    return ops


def scripts(tier, seed, scale=1):
    out = []
    # stand-alone counter
    for v in ["0", "1", "2", "3", "max-1", "max"]:
        for n in range(1, 5):
            for wds in itertools.product(["raise", "lower"], repeat=n):
                out.append(("cnt:%s:%s" % (v, "".join(w[0] for w in wds)), ["r begin", "r cnt " + v] + ["r " + w for w in wds]))
    # array of references: n elements replaced in ONE assignment by a rotation of the content / by the content itself,
    # while the array holds the only reference to an object (sizes below, at and above the 256 byte side store of
    # mpt_buffer_set: 32 and 33 pointers)
    for n in (2, 3, 8, 31, 32, 33, 34, 40, 61, 64):
        head = ["r begin", "r obj meta 1", "r obj meta 1", "r arr new %d" % n]
        for rel in ([], ["r ext 1 unref"], ["r ext 0 unref"], ["r ext 1 unref", "r ext 0 unref"]):
            for act in (["r arr rot 1"], ["r arr rot %d" % (n - 1)], ["r arr self"], ["r arr rot 1", "r arr rot 1"], ["r take 0 1", "r arr rot 1", "r drop 0"]):
                out.append(("arr:%d:%s:%s" % (n, "".join(x[6] for x in rel), "|".join(x[2:] for x in act)),
                            head + rel + act + ["r arr drop", "r end"]))
                out.append(("arrend:%d:%s:%s" % (n, "".join(x[6] for x in rel), "|".join(x[2:] for x in act)), head + rel + act + ["r end"]))
    # a dispatcher whose parameter handlers hold references (mpt_dispatch_param): counter presets where the second or third
    # reference is refused; everything retained is given back exactly once by fini / at the end
    for pre in ("1", "2", "max-1", "max", "0"):
        head = ["r begin", "r obj meta " + pre, "r obj meta 1"]
        if pre == "max-1":
            heads = [head, head + ["r ext 0 unref"], head + ["r ext 0 unref", "r ext 0 unref"]]
        else:
            heads = [head]
        for hd in heads:
            for mid in ([], ["r take 0 0"], ["r ext 0 unref"], ["r take 0 0", "r ext 0 unref"]):
                for tail in (["r dsp fini"], [], ["r dsp fini", "r dsp param 0", "r dsp fini"], ["r dsp fini", "r drop 0"]):
                    out.append(("dsp:%s:%d:%s:%s" % (pre, len(hd), "|".join(x[2:] for x in mid), "|".join(x[2:] for x in tail)),
                                hd + ["r dsp param 0"] + mid + tail + ["r end"]))
    # the array of references re-used as a raw buffer (mpt_array_reserve with no element type): smaller, equal, larger
    for n in (2, 8, 40):
        for ln in (0, 8, n * 8, n * 8 + 64, 4096):
            for rel in ([], ["r ext 1 unref"], ["r ext 1 unref", "r ext 0 unref"]):
                out.append(("arrraw:%d:%d:%d" % (n, ln, len(rel)), ["r begin", "r obj meta 1", "r obj meta 1", "r arr new %d" % n] + rel +
                            ["r arr raw %d" % ln, "r arr new 3", "r arr raw 8", "r end"]))
    depth = 3 if tier == "quick" else 4
    # exhaustive histories per kind
    for kind in ("meta", "buf"):
        pairs = [(a, "1") for a in PRESETS] + [("max", "max"), ("1", "max")]
        if tier == "quick":
            # quick tier: the boundary presets once per side; the array handle paths differ from the pointer paths only
            # in mpt_array_clone
            pairs = [("1", "1"), ("0", "1"), ("2", "1"), ("max", "1"), ("1", "max")] if kind == "meta" else [("1", "1"), ("max", "1")]
        for p0, p1 in pairs:
            if True:
                head = ["r begin", "r obj %s %s" % (kind, p0), "r obj %s %s" % (kind, p1)]
                ops = _ops(2, 2, [True, True])
                # thorough: depth 4 for the plain pair, depth 3 for the others
                d = depth if (tier == "quick" or (p0, p1) == ("1", "1")) else 3
                for hist in itertools.product(ops, repeat=d):
                    out.append(("ex:%s:%s/%s:%s" % (kind, p0, p1, "|".join(x[2:] for x in hist)), head + list(hist) + ["r end"]))
    # the local output's target reference (mptplot/history/output_local.c, property ""): assign, re-assign the
    # value already held (also as sole owner), replace, drop
    for p0 in ("1", "2", "max", "0"):
        head = ["r begin", "r obj meta %s" % p0, "r obj meta 1", "r lo new"]
        ops = ["r lo set 0", "r lo set 1", "r lo drop", "r take 0 0", "r take 0 1", "r drop 0", "r ext 0 unref", "r ext 1 unref",
               "r ext 0 addref", "r assigno 0 0", "r assigno 0 1"]
        for hist in itertools.product(ops, repeat=3 if p0 != "1" or tier == "quick" else 4):
            out.append(("ex:lo:%s:%s" % (p0, "|".join(x[2:] for x in hist)), head + list(hist) + ["r end"]))
    # the stream input reference traits (mptio/input_traits.c) on the metatype objects
    for p0, p1 in [(a, "1") for a in PRESETS] + [("max", "max"), ("0", "0")]:
        head = ["r begin", "r traits input", "r obj meta %s" % p0, "r obj meta %s" % p1]
        ops = [x for x in _ops(2, 2, [True, True]) if x.split()[1] in ("take", "copy", "drop", "ext")]
        for hist in itertools.product(ops, repeat=3):
            out.append(("ex:input:%s/%s:%s" % (p0, p1, "|".join(x[2:] for x in hist)), head + list(hist) + ["r end"]))
    if tier != "quick":
        for kind in ("meta", "buf"):
            for p0 in PRESETS:
                for p1 in ("0", "2", "max-1", "max"):
                    if (p0, p1) in (("max", "max"), ("1", "max")):
                        continue
                    head = ["r begin", "r obj %s %s" % (kind, p0), "r obj %s %s" % (kind, p1)]
                    for hist in itertools.product(_ops(2, 2, [True, True]), repeat=3):
                        out.append(("ex:%s:%s/%s:%s" % (kind, p0, p1, "|".join(x[2:] for x in hist)), head + list(hist) + ["r end"]))
    for kind, arg in (("rbuf", "10"), ("raw", "1")):
        head = ["r begin", "r obj %s %s" % (kind, arg), "r obj %s %s" % (kind, "0" if kind == "rbuf" else "1")]
        ops = _ops(2, 2, [False, False])
        if kind == "rbuf":
            # private copies of shared / unshared library buffers: too small (refused), sufficient, larger than the buffer;
            # mpt_array_reserve on empty handles, shared (also EMPTY shared) and unshared buffers
            ops = ops + ["r detach %d %d" % (h, n) for h in range(2) for n in (1, 10, 30)]
            ops = ops + ["r reserve %d %d" % (h, n) for h in range(2) for n in ((4, 30) if tier == "quick" else (0, 4, 30))]
        for hist in itertools.product(ops, repeat=3):
            out.append(("ex:%s:%s" % (kind, "|".join(x[2:] for x in hist)), head + list(hist) + ["r end"]))
    # mixed kinds: a buffer handle cannot take library and harness buffers at once
    for hist in itertools.product(_ops(2, 2, [True, False]), repeat=2 if tier == "quick" else 3):
        out.append(("ex:mix:%s" % "|".join(x[2:] for x in hist), ["r begin", "r obj buf 1", "r obj rbuf 3"] + list(hist) + ["r end"]))
    # random histories
    r = gen.rng(id, tier, seed, "random")
    for k in range((400 if tier == "quick" else 6000) * scale):
        lines = ["r begin"]
        kinds = []
        meta_side = r.random() < 0.5
        if meta_side and r.random() < 0.4:
            lines.append("r traits input")
        for _ in range(r.choice([1, 2, 3, 3])):
            kd = r.choice(["meta", "meta", "raw"]) if meta_side else r.choice(["buf", "buf", "rbuf"])
            if r.random() < 0.15:
                kd = r.choice(["meta", "buf", "rbuf", "raw"])
            kinds.append(kd)
            if kd in ("meta", "buf"):
                lines.append("r obj %s %s" % (kd, r.choice(["1", "1", "2", "3", "0", "max-1", "max"])))
            elif kd == "rbuf":
                lines.append("r obj rbuf %d" % r.choice([0, 0, 1, 3, 9, 10, 24, 25]))
            else:
                lines.append("r obj raw 1")
        ops = _ops(len(kinds), 3, [kd in ("meta", "buf") for kd in kinds])
        if "rbuf" in kinds:
            ops = ops + ["r detach %d %d" % (h, n) for h in range(3) for n in (0, 1, 3, 8, 9, 24, 25, 40)]
            ops = ops + ["r reserve %d %d" % (h, n) for h in range(3) for n in (0, 1, 8, 9, 25)]
        if "meta" in kinds and r.random() < 0.5:
            lines.append("r lo new")
            ops = ops + ["r lo set %d" % o for o, kd in enumerate(kinds) if kd == "meta"] * 2 + ["r lo drop"]
        for _ in range(r.choice([4, 8, 16, 30])):
            lines.append(r.choice(ops))
        lines.append("r end")
        out.append(("rnd:%d" % k, lines))
    return out


def _xops(nobj, nh):
    ops = []
    for h in range(nh):
        ops += ["x drop %d" % h, "x detach %d" % h, "x next %d" % h]
        for g in range(nh):
            if g != h:
                ops.append("x copy %d %d" % (h, g))
            ops += ["x assign %d %d" % (h, g), "x move %d %d" % (h, g)]
    for o in range(nobj):
        ops.append("x ext %d unref" % o)
        for g in range(nh):
            ops.append("x setnext %d %d" % (o, g))
    return ops


class _XX:
    """second part: the C++ handle class mpt::reference<T> (mptcore/core.h, mpt++/refcount_wrap.cpp) through
    harness/drvxx_refcount.cpp: reference-counted nodes that own a handle to another node (chains)"""
    id = "C15"
    area = "refcount"
    driver = "drvxx_refcount"
    cxx = True
    fixed_lines = 1
    link_extra = ["-fno-sanitize=vptr"]

    @staticmethod
    def corpus(chk):
        return [(n, s_) for n, s_ in gen.corpus(id) if s_ and s_[0].startswith("x ")]

    @staticmethod
    def scripts(tier, seed, scale=1):
        out = []
        depth = 3 if tier == "quick" else 4
        for c0 in (["1", "max"] if tier == "quick" else ["1", "2", "3", "max-1", "max"]):
            head = ["x begin", "x new 0 %s" % c0, "x new 1 1"]
            for hist in itertools.product(_xops(2, 2), repeat=depth if c0 == "1" else 3):
                out.append(("xx:%s:%s" % (c0, "|".join(x[2:] for x in hist)), head + list(hist) + ["x end"]))
        head = ["x begin", "x new 0 1", "x new 1 1", "x new 2 1"]
        for hist in itertools.product(_xops(3, 3), repeat=2):
            out.append(("xx3:%s" % "|".join(x[2:] for x in hist), head + list(hist) + ["x end"]))
        # chains: 0 -> 1 -> 2 held only through the first handle, then walked
        chain = head + ["x setnext 1 2", "x setnext 0 1", "x drop 1", "x drop 2"]
        for hist in itertools.product(["x next 0", "x assign 1 0", "x copy 2 0", "x move 1 0", "x drop 0", "x next 1", "x setnext 2 0",
                                       "x setnext 0 0", "x detach 0", "x ext 0 unref"], repeat=3):
            out.append(("xchain:%s" % "|".join(x[2:] for x in hist), chain + list(hist) + ["x end"]))
        # unique_array handles: shared NoCopy buffers refuse a private copy while they hold elements
        uops = []
        for a in range(2):
            uops += ["x ua insert %d" % a, "x ua resize %d 0" % a, "x ua resize %d 2" % a, "x ua drop %d" % a]
            uops += ["x ua copy %d %d" % (a, b) for b in range(2)]
        for hist in itertools.product(uops, repeat=3 if tier == "quick" else 5):
            out.append(("xua:%s" % "|".join(x[5:] for x in hist), ["x begin"] + list(hist) + ["x ua drop 0", "x ua drop 1"]))
        ru = gen.rng(id, tier, seed, "xua-random")
        uops3 = []
        for a in range(3):
            uops3 += ["x ua insert %d" % a] * 2 + ["x ua resize %d %d" % (a, n) for n in (0, 1, 5, 40)] + ["x ua drop %d" % a]
            uops3 += ["x ua copy %d %d" % (a, b) for b in range(3)]
        for k in range((300 if tier == "quick" else 4000) * scale):
            out.append(("xuarnd:%d" % k, ["x begin"] + [ru.choice(uops3) for _ in range(ru.choice([4, 8, 16, 30]))] +
                        ["x ua drop %d" % a for a in range(3)]))
        r = gen.rng(id, tier, seed, "xx-random")
        for k in range((300 if tier == "quick" else 4000) * scale):
            lines = ["x begin"]
            n = r.choice([1, 2, 3, 3])
            for i in range(n):
                lines.append("x new %d %s" % (i, r.choice(["1", "1", "1", "2", "3", "max-1", "max"])))
            ops = _xops(n, 3)
            for _ in range(r.choice([4, 8, 16, 30])):
                lines.append(r.choice(ops))
            lines.append("x end")
            out.append(("xxrnd:%d" % k, lines))
        return out

    nontrivial = staticmethod(lambda script, c_lines: nontrivial(script, c_lines))
    tally = staticmethod(lambda chk, script, c_lines: tally(chk, script, c_lines))
    finding_key = staticmethod(lambda script, res: finding_key(script, res))


class _KK:
    """third part: deferrable reply contexts (mptcore/event/reply_deferrable.c) through harness/drv_refctx.c;
    destruction is seen through a wrapped free(), allocation failure is injected through a wrapped malloc()"""
    id = "C15"
    area = "refcount"
    driver = "drv_refctx"
    cxx = False
    fixed_lines = 1
    link_extra = ("-Wl,--wrap=malloc", "-Wl,--wrap=free")

    @staticmethod
    def corpus(chk):
        return [(n, s_) for n, s_ in gen.corpus(id) if s_ and s_[0].startswith("k ")]

    @staticmethod
    def scripts(tier, seed, scale=1):
        out = []
        ops = ["k arm 0", "k addref 0", "k unref 0", "k sendfail 1"]
        for h in range(2):
            ops += ["k defer %d 0" % h, "k defer %d 0 nomem" % h, "k release %d" % h]
        for hist in itertools.product(ops, repeat=4 if tier == "quick" else 5):
            out.append(("kk:%s" % "|".join(x[2:] for x in hist), ["k begin", "k new"] + list(hist) + ["k end"]))
        r = gen.rng(id, tier, seed, "kk-random")
        ops2 = []
        for o in range(2):
            ops2 += ["k arm %d" % o, "k addref %d" % o, "k unref %d" % o]
            for h in range(3):
                ops2 += ["k defer %d %d" % (h, o), "k defer %d %d nomem" % (h, o)]
        ops2 += ["k release %d" % h for h in range(3)] * 2 + ["k sendfail 1", "k sendfail 0"]
        for k in range((300 if tier == "quick" else 4000) * scale):
            lines = ["k begin", "k new"] + (["k new"] if r.random() < 0.5 else [])
            for _ in range(r.choice([4, 8, 16, 30])):
                lines.append(r.choice(ops2))
            lines.append("k end")
            out.append(("kkrnd:%d" % k, lines))
        return out

    @staticmethod
    def nontrivial(script, c_lines):
        return any(":freed" in ln or ln.startswith("R refused") for ln in c_lines)

    tally = staticmethod(lambda chk, script, c_lines: tally(chk, script, c_lines))
    finding_key = staticmethod(lambda script, res: finding_key(script, res))


class _NN:
    """fourth part: stream inputs held by a notifier (mptio/notify/*.c) through harness/drv_refnotify.c: harness inputs with
    a logging vtable that name one of three real descriptors"""
    id = "C15"
    area = "refcount"
    driver = "drv_refnotify"
    cxx = False
    fixed_lines = 1

    @staticmethod
    def corpus(chk):
        return [(n, s_) for n, s_ in gen.corpus(id) if s_ and s_[0].startswith("n ")]

    @staticmethod
    def scripts(tier, seed, scale=1):
        out = []
        ops = []
        for i in range(2):
            ops += ["n add %d" % i, "n config %d" % i] + ["n change %d %s" % (i, s_) for s_ in ("0", "1", "none")]
        ops += ["n clear 0", "n clear 1", "n fini"]
        # "file": a descriptor epoll refuses — the input is never held by the notifier
        for c0, s0, s1 in (("1", "0", "1"), ("1", "0", "0"), ("max", "0", "1"), ("2", "none", "0"), ("1", "file", "0")):
            head = ["n begin", "n input %s %s" % (c0, s0), "n input 1 %s" % s1]
            for hist in itertools.product(ops, repeat=3 if tier == "quick" else 4):
                out.append(("nn:%s%s%s:%s" % (c0, s0, s1, "|".join(x[2:] for x in hist)), head + list(hist) + ["n end"]))
        # readiness: one readable descriptor, wait, then the reported input is cleared / fails / is fetched
        wops = ["n wait", "n next", "n clear 0", "n clear 1", "n add 0", "n add 1", "n nextfail 0 1", "n change 0 1", "n fini"]
        head = ["n begin", "n input 1 0", "n input 1 1", "n add 0", "n add 1", "n ready 0", "n ext 0"]
        head = head[:-1]
        for hist in itertools.product(wops, repeat=3 if tier == "quick" else 4):
            out.append(("nw:%s" % "|".join(x[2:] for x in hist), head + list(hist) + ["n next", "n end"]))
        r = gen.rng(id, tier, seed, "nn-random")
        for k in range((300 if tier == "quick" else 4000) * scale):
            n = r.choice([1, 2, 3])
            lines = ["n begin"] + ["n input %s %s" % (r.choice(["1", "1", "2", "0", "max"]), r.choice(["0", "1", "2", "none", "file"])) for _ in range(n)]
            rops = []
            for i in range(n):
                rops += ["n add %d" % i, "n add %d" % i, "n config %d" % i] + ["n change %d %s" % (i, s_) for s_ in ("0", "1", "2", "none")] + ["n nextfail %d %d" % (i, b) for b in (0, 1)]
            rops += ["n clear %d" % s_ for s_ in range(3)] + ["n clear file", "n wait", "n next", "n wait", "n next", "n fini"]
            if r.random() < 0.6:
                lines.append("n ready %d" % r.randrange(3))
            for _ in range(r.choice([4, 8, 16, 30])):
                lines.append(r.choice(rops))
            lines.append("n end")
            out.append(("nnrnd:%d" % k, lines))
        return out

    nontrivial = staticmethod(lambda script, c_lines: nontrivial(script, c_lines))
    tally = staticmethod(lambda chk, script, c_lines: tally(chk, script, c_lines))
    finding_key = staticmethod(lambda script, res: finding_key(script, res))


class _GG:
    """fifth part: the library's own (unshareable) metatype implementations mpt_meta_geninfo (meta/meta_geninfo.c) and
    mpt_meta_buffer (array/meta_buffer.c) through harness/drv_refmeta.c; the buffer metatype holds a reference to a
    harness buffer with a logging vtable"""
    id = "C15"
    area = "refcount"
    driver = "drv_refmeta"
    cxx = False
    fixed_lines = 1

    @staticmethod
    def corpus(chk):
        return [(n, s_) for n, s_ in gen.corpus(id) if s_ and s_[0].startswith("g ")]

    @staticmethod
    def scripts(tier, seed, scale=1):
        out = []
        ops = ["g new info", "g new mbuf", "g addref 0", "g take 0", "g wrap 0", "g clone 0", "g clone 1", "g unref 0", "g unref 1"]
        if tier != "quick":
            ops += ["g take 1", "g addref 1", "g drop"]
        for pre in (("1", "0", "max") if tier == "quick" else ("1", "2", "0", "max-1", "max")):
            for first in ("g new mbuf", "g new info"):
                for hist in itertools.product(ops, repeat=3 if tier == "quick" else 4):
                    out.append(("gg:%s:%s:%s" % (pre, first[6:], "|".join(x[2:] for x in hist)),
                                ["g begin", "g buf " + pre, first] + list(hist) + ["g end"]))
        r = gen.rng(id, tier, seed, "gg-random")
        rops = ["g new info", "g new mbuf"] + ["g %s %d" % (o, m) for o in ("addref", "take", "wrap", "clone", "unref") for m in range(5)] + ["g drop"]
        for k in range((300 if tier == "quick" else 4000) * scale):
            lines = ["g begin", "g buf " + r.choice(["1", "1", "2", "3", "0", "max-1", "max"])]
            for _ in range(r.choice([4, 8, 16])):
                lines.append(r.choice(rops))
            lines.append("g end")
            out.append(("ggrnd:%d" % k, lines))
        return out

    @staticmethod
    def nontrivial(script, c_lines):
        return any("D " in ln or ln.startswith("R refused") or ln.startswith("R ret=0") for ln in c_lines)

    tally = staticmethod(lambda chk, script, c_lines: tally(chk, script, c_lines))
    finding_key = staticmethod(lambda script, res: finding_key(script, res))


extra_parts = [_XX, _KK, _NN, _GG]


def nontrivial(script, c_lines):
    for ln in c_lines:
        if ln.startswith("R refused"):
            return True
        i = ln.find("| C ")
        if i >= 0:
            c = ln[i + 4:ln.find(" | I ")]
            for w in c.split():
                if w.startswith("o") and (w.endswith("D") or w.endswith("D!")):
                    return True
                if w.startswith("el=") and w != "el=-":
                    return True
    return False


def tally(chk, script, c_lines):
    d = chk.__dict__.setdefault("distribution", {})
    for op, ln in zip(script, c_lines):
        w = op.split()
        if len(w) < 2:
            continue
        d[w[1]] = d.get(w[1], 0) + 1
        if ln.startswith("R refused"):
            d[w[1] + ":refused"] = d.get(w[1] + ":refused", 0) + 1
        if ln == "bad-op":
            d["bad-op"] = d.get("bad-op", 0) + 1


def finding_key(script, res):
    op = (res.get("op") or "").split()
    return "%s:%s" % (res["kind"], op[1] if len(op) > 1 else "?")
