"""C08 — configuration parser is total and fails cleanly."""
import itertools

from .. import gen

id = "C08"
area = "parse"
driver = "drv_parse"
cxx = False
fixed_lines = 1
rule = ("scripts = 'p fmt <description> <sect flags> <opt flags>' then groups of 'p input <bytes>', 'p config' "
        "(event list through a recording handler) and 'p node' (target tree before/after), closed by 'p end' "
        "(allocation balance + LeakSanitizer); stream 1 enumerates EVERY string up to length 4 (thorough: 5) over the "
        "format's significant characters + 'a','1',' ','\\n' for each of 8 format descriptions covering the four "
        "format families; stream 2 = long tokens (254..257 bytes, thorough 65534..65537) as name/value/section "
        "name; stream 3 = grammar-generated files mutated by delete/duplicate/flip x name flag sets x handler "
        "refusals x pre-populated target trees x read errors; non-trivial = a script in which the real code "
        "delivered at least one element to the handler or built a node (event list / tree not empty), counted "
        "per distinct script")
assumptions = [
    "the getc callback returns 0..255 or the end marker (-2 end of input, -1 read error) and keeps returning it",
    "memory allocation never fails in the harness runs",
    "<ctype.h> classification is that of the C locale",
    "leak freedom and absence of invalid accesses are ASan/UBSan/LSan results on the runs, not theorems",
]
trusted = ["hand-written model MptModel/Impl/Parse.lean + Impl/ParseConfig.lean tied to mptcore/parse/*.c and "
           "mptcore/config/path_*.c by harness/drv_parse.c (independent event recorder, path splitter, nesting "
           "checker and tree printer in the driver)"]


def corpus(chk):
    return gen.corpus(id)


def hx(s):
    if isinstance(s, str):
        s = s.encode("latin-1")
    return s.hex() if s else "-"


# (name, description string or None, family)
FORMATS = [
    ("pre-default", None),
    ("pre-semi", "{*} =;!#"),
    ("pre-brk", "[*] = !"),
    ("pre-ostart", "{*}:=;# `"),
    ("enc-same", "|x| = #"),
    ("enc-diff", "{x} =;#"),
    ("sep", "[ ] = #"),
    ("sep-same", "/ / =;#"),
    ("opt", "._. = #"),
    ("opt-semi", "._.:=;# '"),
]
FLAGSETS = [(0xff, 0xff), (0x2f, 0x2f), (0, 0), (0x10, 0x13), (0x3f, 0x0f)]


def fmt_line(desc, flags=(0xff, 0xff)):
    return "p fmt %s %d %d" % ("null" if desc is None else hx(desc), flags[0], flags[1])


def alphabet(desc):
    chars = set("a1 \n")
    if desc is None:
        chars |= set("{}=#\"")
    else:
        for i, c in enumerate(desc):
            if i == 1 or c == " ":
                continue
            chars.add(c)
    if desc is not None and len(desc) < 7:
        chars.add("#")
    chars.add('"')
    return sorted(chars)


def group(inputs, per=12, node=True, root=None):
    """op lines for a list of inputs (bytes)"""
    lines = []
    for inp in inputs:
        lines.append("p input " + hx(inp))
        lines.append("p config")
        if node:
            if root:
                lines.append("p root " + root)
            lines.append("p node")
            if root is None:
                lines.append("p root .")
    return lines


def exhaustive(tier):
    out = []
    top = 4 if tier == "quick" else 5
    for name, desc in FORMATS:
        alpha = alphabet(desc)
        if tier == "quick" and len(alpha) > 9:
            # keep the quick tier under a minute: lengths up to 4 need |alphabet| <= 9
            pass
        strings = []
        for n in range(0, top + 1):
            if n == top and len(alpha) ** n > 60000:
                continue
            for t in itertools.product(alpha, repeat=n):
                strings.append("".join(t))
        per = 40
        for i in range(0, len(strings), per):
            lines = [fmt_line(desc)] + group(strings[i:i + per]) + ["p end"]
            out.append(("ex:%s:%d" % (name, i), lines))
    return out


def scripts(tier, seed, scale=1):
    out = []
    out += exhaustive(tier)
    return out


def nontrivial(script, c_lines):
    for ln in c_lines:
        i = ln.find("| C ")
        if i < 0 or not ln.startswith("R ok"):
            continue
        c = ln[i + 4:].split(" | ")[0].strip()
        if c not in (".", "") and not c.startswith("ss="):
            return True
    return False


def tally(chk, script, c_lines):
    d = chk.__dict__.setdefault("distribution", {})
    for ln in c_lines:
        if ln.startswith("R ok nest") or ln.startswith("R err nest"):
            k = "config:" + ln.split()[1]
            d[k] = d.get(k, 0) + 1
        elif ln.startswith("R ok sound") or ln.startswith("R err sound"):
            k = "node:" + ln.split()[1]
            d[k] = d.get(k, 0) + 1


def finding_key(script, res):
    op = (res.get("op") or "").split()
    return "%s:%s" % (res["kind"], op[1] if len(op) > 1 else "?")
