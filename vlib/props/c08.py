"""C08 — configuration parser is total and fails cleanly."""
import itertools

from .. import gen

id = "C08"
area = "parse"
driver = "drv_parse"
cxx = False
fixed_lines = 1
# allocation requests of the library go through counting wrappers of the driver (op `p oom`)
link_extra = ["-Wl,--wrap=malloc", "-Wl,--wrap=calloc", "-Wl,--wrap=realloc"]
rule = ("scripts = 'p fmt <description> <sect flags> <opt flags>' then groups of 'p input <bytes>', 'p config' "
        "(event list through a recording handler) and 'p node' (target tree before/after), closed by 'p end' "
        "(allocation balance + LeakSanitizer); stream 1 enumerates EVERY string up to length 4 (length 5 where that is at most 60000 strings; thorough: up "
        "to 600000 strings per length, i.e. length 5 everywhere and 6 for the small alphabets) over the format's significant "
        "characters + 'a','1',' ','\\n','\"' for each of 10 format descriptions covering the four format families; stream 2 = long tokens (254..257 bytes, thorough also 65534..65537 through both entry points) as name/value/section "
        "name, plus in every tier names and values of 65534..65537 bytes through mpt_parse_node into an empty and a "
        "filled target (one script each, closed by the allocation balance); stream 2b = formats WITHOUT assign "
        "character (7 descriptions) x option names of 1..300 bytes around the path buffer's allocation steps x empty / "
        "short values (the recording handler reads every value and checks that it lies in the stored data); stream 2c = a section path of EVERY length 1..330 (thorough 1..1400, crossing the path buffer capacities 64, 192, 320, ...) "
        "with an anonymous section / empty-named element / named section / option inside; stream 3 = grammar-generated files mutated by delete/duplicate/flip x name flag sets x handler "
        "refusals x pre-populated target trees x read errors, each file also through mpt_node_parse (stdio stream, name restriction texts, with and without logger) and default-format files through mpt_parse_folder; non-trivial = a script in which the real code "
        "delivered at least one element to the handler or built a node (event list / tree not empty), counted "
        "per distinct script; behind every parse (every sixth one in stream 1) the op 'p stat' / 'x stat' compares "
        "return code, line counter, number of getc calls, consumed bytes and the representation (inline / buffer) of "
        "the stored values with the model in the observable column (a difference fails the check); 'p config fail=k' "
        "reports whether the handler refused: 'ok' together with 'refused=yes' is not an allowed outcome; 'p config keep' "
        "(behind every plain 'p config', every twelfth in stream 1) runs the same parse with a handler that keeps a SHARED "
        "reference (struct copy + addref) to the path buffer of every event and verifies and releases them afterwards; "
        "'p node' into an empty target must deliver exactly the tree the reported events describe (Spec/EventTree.lean); "
        "stream 4 (oom) = 44 inputs (values of 1..700 bytes, thorough up to 65536, long names, nesting) x allocation "
        "request k = 1..36 (thorough 80) refused: a failure has to leave the scratch target empty and nothing allocated; "
        "stream 5 = 400000 nested sections (text built by the driver; thorough 1000000); the C++ part also removes the file "
        "behind the parser ('x unlink'); stream 6 = every string of length <= 4 (thorough 5) over section start, assign "
        "character, 'a', blank, line feed and NUL that contains a NUL x the 10 formats (without 'p stat', every fourth script "
        "again with it); in streams 1, 6 and the random formats the tree ('p node') is asked for before the event list; "
        "'p config keep' also demands the same event list as the plain 'p config' of the same input (kept=differs otherwise)")
assumptions = [
    "the getc callback returns 0..255 or the end marker (-2 end of input, -1 read error) and keeps returning it",
    "memory allocation never fails in the harness runs",
    "<ctype.h> classification is that of the C locale",
    "leak freedom and absence of invalid accesses are ASan/UBSan/LSan results on the runs, not theorems",
    "'the target is left as it was on failure' is a correspondence result ('p node', 'p nparse', 'x read': error only "
    "together with the old target, printed by walking the real tree); the fail_clean theorems are definitional in M",
    "observations of the end marker are not counted as reads (no upper bound on getc calls is proved; the count is "
    "compared with the model on every script)",
]
trusted = ["hand-written model MptModel/Impl/Parse.lean + Impl/ParseConfig.lean tied to mptcore/parse/*.c and "
           "mptcore/config/path_*.c by harness/drv_parse.c (independent event recorder, path splitter, nesting "
           "checker and tree printer in the driver)"]


STAT_AFTER = {"p": ("config", "node", "nparse", "folder"), "x": ("read",)}


def with_stat(lines, every=1):
    """behind every parse (every `every`-th one in the exhaustive stream) the op `p stat` / `x stat`: return code, line
    counter, number of getc calls, consumed bytes (and the representation of the values of the tree) of the real
    code are compared with the model there (observable section: a difference is a failure of the check, not drift)"""
    out = []
    k = 0
    for ln in lines:
        out.append(ln)
        w = ln.split()
        if len(w) > 1 and w[0] in STAT_AFTER and w[1] in STAT_AFTER[w[0]]:
            k += 1
            if k % every == 0:
                out.append(w[0] + " stat")
    return out


def with_keep(lines, every=1):
    """behind (every `every`-th) plain `p config` the same parse with a handler that keeps shared references to the
    path buffer of every event"""
    out = []
    k = 0
    for ln in lines:
        out.append(ln)
        if ln == "p config":
            k += 1
            if k % every == 0:
                out.append("p config keep")
    return out


def keep_all(named, every=1):
    return [(n, with_keep(s, every)) for n, s in named]


def stat_all(named, every=1):
    return [(n, with_stat(s, every)) for n, s in named]


def corpus(chk):
    return stat_all(gen.corpus(id))


def hx(s):
    if isinstance(s, str):
        s = s.encode("latin-1")
    return s.hex() if s else "-"


# (name, description string or None, family)
FORMATS = [
    ("pre-default", None),
    ("pre-semi", "{*} =;!#"),
    ("pre-brk", "[*] = !"),
    ("pre-ostart", "{*}:=;# `"),
    ("enc-same", "|x| = #"),
    ("enc-diff", "{x} =;#"),
    ("sep", "[ ] = #"),
    ("sep-same", "/ / =;#"),
    ("opt", "._. = #"),
    ("opt-semi", "._.:=;# '"),
]
FLAGSETS = [(0xff, 0xff), (0x2f, 0x2f), (0, 0), (0x10, 0x13), (0x3f, 0x0f)]


def fmt_line(desc, flags=(0xff, 0xff)):
    return "p fmt %s %d %d" % ("null" if desc is None else hx(desc), flags[0], flags[1])


def alphabet(desc):
    chars = set("a1 \n")
    if desc is None:
        chars |= set("{}=#\"")
    else:
        for i, c in enumerate(desc):
            if i == 1 or c == " ":
                continue
            chars.add(c)
    if desc is not None and len(desc) < 7:
        chars.add("#")
    chars.add('"')
    return sorted(chars)


def group(inputs):
    """op lines for a list of inputs: events, then the tree built in an empty target"""
    lines = []
    for inp in inputs:
        # the tree first: it is judged against the spec column (tree the elements describe), a difference in the event
        # list afterwards would only be a difference to the model
        lines.append("p input " + hx(inp))
        lines.append("p root .")
        lines.append("p node")
        lines.append("p config")
    return lines


def exhaustive(tier):
    out = []
    top = 5 if tier == "quick" else 6
    cap = 60000 if tier == "quick" else 600000
    for name, desc in FORMATS:
        alpha = alphabet(desc)
        strings = []
        for n in range(0, top + 1):
            if len(alpha) ** n > cap:
                break
            for t in itertools.product(alpha, repeat=n):
                strings.append("".join(t))
        per = 40
        for i in range(0, len(strings), per):
            lines = [fmt_line(desc)] + group(strings[i:i + per]) + ["p end"]
            out.append(("ex:%s:%d" % (name, i), lines))
    return out


def long_tokens(tier):
    out = []
    lens = [254, 255, 256, 257]
    if tier != "quick":
        lens += [65534, 65535, 65536, 65537]
    for L in lens:
        N = "n" * L
        cases = [
            ("pre-default", None, ["%s=1\n" % N, "a=%s\n" % N, "%s {\nb=2\n}\n" % N, "a=\"%s\"\n" % N,
                                   "a {\nb=%s\n}\nc=3\n" % N, "%s\n{\n}\n" % N, "a=x %s y\n" % (" " * L)]),
            ("pre-semi", "{*} =;!#", ["%s=1;" % N, "a=%s;" % N, "%s{b=2;}" % N, "%s;" % N, "a{%s;}" % N]),
            ("sep", "[ ] = #", ["[%s]\nb=2\n" % N, "[a]\n%s=2\n" % N, "[a]\nb=%s\n" % N, "[%s" % N]),
            ("enc-same", "|x| = #", ["|%s\nb=2\n|c\n" % N, "|a\n%s=2\n" % N, "|a\nb=%s\n" % N]),
            ("enc-diff", "{x} =;#", ["{%s\nb=2;" % N, "%s=2;x" % N, "b=%s;x" % N]),
            ("opt", "._. = #", ["%s=1\n" % N, "a=%s\n" % N, "%s\n" % N]),
        ]
        for name, desc, inputs in cases:
            for flags in ((0xff, 0xff), (0x2f, 0x2f)):
                for i, inp in enumerate(inputs):
                    lines = [fmt_line(desc, flags), "p input " + hx(inp), "p config", "p node", "p tree", "p end"]
                    out.append(("long:%d:%s:%d:%x" % (L, name, i, flags[0]), lines))
    # the 16 bit limits (identifier length, former valid counter) on the tree builder path, every tier:
    # names and values of 65534..65537 bytes, as option / section / value, with and without a value behind
    # a refused name, into an empty and into a filled target; one script per case so that a leak is
    # attributed to it ('p end' compares the allocation balance and asks LeakSanitizer)
    for L in (65534, 65535, 65536, 65537):
        N = "n" * L
        big = [
            ("pre-default", None, "%s=some value\n" % N),
            ("pre-default", None, "a=%s\n" % N),
            ("pre-default", None, "%s {\nb=2\n}\nc=3\n" % N),
            ("pre-default", None, "s {\n%s = \"v w\"\n}\n" % N),
            ("pre-semi", "{*} =;#", "sect {\n  %s = some value;\n}\n" % N),
            ("pre-semi", "{*} =;#", "sect {\n  k = %s;\n}\n" % N),
            ("sep", "[ ] = #", "[s]\n%s=v\n" % N),
            ("sep", "[ ] = #", "[%s]\nb=2\n" % N),
            ("enc-same", "|x| = #", "|s\n%s = v\n|t\n" % N),
            ("opt", "._. = #", "%s=%s\n" % (N, "v" * 300)),
        ]
        for i, (name, desc, inp) in enumerate(big):
            for root in (".", "61(62=31),63=32"):
                lines = [fmt_line(desc), "p root " + root, "p input " + hx(inp), "p node", "p end"]
                out.append(("big:%d:%s:%d:%s" % (L, name, i, "e" if root == "." else "f"), lines))
    return out


def buffer_steps(tier):
    """elements committed exactly when the path buffer is full (capacities 64, 192, 320, ...): the full path of
    the open sections has every length 1..N; inside, an anonymous section / an element with empty name (no stored
    delimiter: mpt_path_add has to grow the buffer itself), a named section and an option"""
    out = []
    top = 330 if tier == "quick" else 1400
    inners = ["{\nx=1\n}\n", "{\n{\ny=2\n}\n}\n", "b {\nx=1\n}\n", "=1\nc=2\n", "\n{\n}\n"]
    per = 8
    for lo in range(1, top + 1, per):
        lines = [fmt_line(None)]
        for n in range(lo, min(top, lo + per - 1) + 1):
            for k, inner in enumerate(inners):
                if k and n % 64 not in (62, 63, 0, 1):
                    continue
                inp = "a" * n + "{\n" + inner + "}\n"
                lines += ["p input " + hx(inp), "p config", "p root .", "p node"]
            if n % 64 in (62, 63, 0):
                # the same total length split over two levels of sections
                inp = "s{\n" + "a" * (n - 2) + "{\n{\nx=1\n}\n}\n}\n" if n > 2 else "s{\n}\n"
                lines += ["p input " + hx(inp), "p config", "p root .", "p node"]
        lines.append("p end")
        out.append(("steps:%d" % lo, lines))
    return out


NOASSIGN = [
    # (name, description): white space is the assign character
    ("opt", " _    #"),
    ("opt-semi", "._.  ;#"),
    ("sep", "[ ]   #"),
    ("sep-semi", "[ ]  ;#"),
    ("enc-same", "|x|   #"),
    ("enc-diff", "{x}   #"),
    ("pre", "{*}   #"),
]


def noassign(tier):
    """formats without assign character: an option name followed by white space and an empty (or short) value;
    names around the allocation steps of the path buffer (first 64 bytes, then steps of 128)"""
    out = []
    lens = [1, 2, 7, 30, 31, 32, 33, 34, 40, 59, 60, 61, 63, 64, 65, 100, 120, 127, 128, 129, 190, 200, 255, 256, 300]
    if tier != "quick":
        lens += list(range(35, 59, 3)) + [500, 1000, 4000]
    tails = [" \n", "\t\n", "  # c\n", " ;", " \n\n", " v\n", "  \"\"\n", " "]
    for name, desc in NOASSIGN:
        for L in lens:
            N = "k" * L
            inputs = [N + t for t in tails]
            inputs += ["a 1\n" + N + " \n" + N + " \nz 2\n"]
            if desc[0] in "[|{":
                op, cl = desc[0], ("]" if desc[0] == "[" else "")
                inputs += ["%sS%s\n%s \n" % (op, cl, N), "%sS%s\nb 1\n%s \n%sT%s\n%s \n" % (op, cl, N, op, cl, N)]
            if desc[1] == "*":
                inputs += ["S {\n%s \n}\n" % N]
            lines = [fmt_line(desc)]
            for inp in inputs:
                lines += ["p input " + hx(inp), "p config", "p root .", "p node"]
            lines.append("p end")
            out.append(("noassign:%s:%d" % (name, L), lines))
    return out


# ---------------------------------------------------------------- grammar-generated files
NAMES = ["a", "b1", "sec", "x_y", "1st", "n m", "", "k.v", "Z"]
VALUES = ["1", "two words", "", "x=y", "a#b", "sp #c", "\"q\"", "'s t'", "\"e\\\"q\"", "tr  ", "0"]


def _tree(r, depth):
    n = r.choice([0, 1, 2, 3, 4]) if depth else r.choice([1, 2, 3, 4])
    items = []
    for _ in range(n):
        if depth < 3 and r.random() < 0.4:
            items.append((r.choice(NAMES), None, _tree(r, depth + 1)))
        else:
            items.append((r.choice(NAMES), r.choice(VALUES), None))
    return items


def _ws(r):
    return r.choice(["", "", " ", "  ", "\t", " \n", "\n\n", " # note\n", "\n#c\n"])


def _write(r, items, style, delims, depth=0):
    ss, se, os_, as_, oe = delims
    eol = oe if oe else "\n"
    out = []
    for name, val, kids in items:
        if kids is None:
            out.append("%s%s%s%s%s%s%s" % (_ws(r), os_ or "", name, r.choice(["", " "]), as_ or " ", r.choice(["", " "]) + val, eol))
        elif style == "pre":
            out.append("%s%s%s%s%s%s%s%s" % (_ws(r), name, r.choice(["", " ", "\n"]), ss, _ws(r), _write(r, kids, style, delims, depth + 1), _ws(r), se))
        elif style == "sep":
            out.append("%s%s%s%s\n%s" % (_ws(r), ss, name, se, _write(r, kids, style, delims, depth + 1)))
        elif style == "enc":
            out.append("%s%s%s\n%s%s" % (_ws(r), ss, name, _write(r, kids, style, delims, depth + 1), se if r.random() < 0.5 else ""))
        else:
            out.append(_write(r, kids, style, delims, depth + 1))
    return "".join(out)


GRAMMARS = [
    # (description, style, (sstart, send, ostart, assign, oend))
    (None, "pre", ("{", "}", "", "=", "")),
    ("{*} =;!#", "pre", ("{", "}", "", "=", ";")),
    ("[*] = !", "pre", ("[", "]", "", "=", "")),
    ("{*}:=;# `", "pre", ("{", "}", ":", "=", ";")),
    ("(*)  ,%", "pre", ("(", ")", "", "", ",")),
    ("[ ] = #", "sep", ("[", "]", "", "=", "")),
    ("/ / =;#", "sep", ("/", "/", "", "=", ";")),
    ("< >:=\n#", "sep", ("<", ">", ":", "=", "\n")),
    ("|x| = #", "enc", ("|", "|", "", "=", "")),
    ("{x} =;#", "enc", ("{", "}", "", "=", ";")),
    ("@x@:=;#", "enc", ("@", "@", ":", "=", ";")),
    ("._. = #", "opt", ("", "", "", "=", "")),
    ("._.:=;# '", "opt", ("", "", ":", "=", ";")),
    ("._.  \n#", "opt", ("", "", "", "", "")),
]
ROOTS = [None, None, None, "61", "61(62=31),63=32", "736563(61=39),736563(7a),62=31", "-(61=31),-=32"]


LIMITS = ["null", "null", hx("ns"), hx("ENSWFCBenswfcb"), "-", hx("E"), hx("Es w"), hx("z"), hx("sS\tx")]


def _mutate(r, text, alpha):
    b = bytearray(text.encode("latin-1"))
    for _ in range(r.choice([0, 1, 1, 2, 3])):
        kind = r.choice(["del", "dup", "flip", "ins", "cut"])
        if not b:
            kind = "ins"
        if kind == "del":
            del b[r.randrange(len(b))]
        elif kind == "dup":
            i = r.randrange(len(b))
            j = min(len(b), i + r.choice([1, 2, 5, 20]))
            b[i:i] = b[i:j]
        elif kind == "flip":
            b[r.randrange(len(b))] = r.choice(alpha)
        elif kind == "ins":
            b.insert(r.randrange(len(b) + 1), r.choice(alpha))
        else:
            del b[r.randrange(len(b)):]
    return bytes(b)


def grammar(tier, seed, scale):
    out = []
    r = gen.rng(id, tier, seed, "grammar")
    n = (1500 if tier == "quick" else 12000) * scale
    per = 6
    k = 0
    while k < n:
        desc, style, delims = r.choice(GRAMMARS)
        flags = r.choice(FLAGSETS)
        sig = [ord(c) for c in "".join(delims) + "#!\"'`\\ \n\t=a1."] + [0, 0x80, 0xff, 0x0b]
        lines = [fmt_line(desc, flags)]
        for _ in range(per):
            text = _write(r, _tree(r, 0), style, delims)
            data = _mutate(r, text, sig) if r.random() < 0.8 else text.encode("latin-1")
            end = " err" if r.random() < 0.08 else ""
            lines.append("p input %s%s" % (hx(data), end))
            lines.append("p config" + (" fail=%d" % r.randrange(6) if r.random() < 0.1 else ""))
            root = r.choice(ROOTS)
            lines.append("p root " + (root or "."))
            lines.append("p node")
            if r.random() < 0.2:
                # parse a second time into the tree just built: merge of a tree with itself
                lines.append("p node")
            if r.random() < 0.5:
                # the stdio front end: replaces instead of merging, puts the old children back on failure
                lines.append("p root " + (r.choice(ROOTS[3:]) if r.random() < 0.8 else "."))
                lines.append("p nparse %s %s" % (r.choice(LIMITS), r.choice(["log", "nolog", "nolog"])))
            if desc is None and end == "" and r.random() < 0.3:
                lines.append("p folder")
            k += 1
        lines.append("p end")
        out.append(("gram:%d" % k, lines))
    return out


def formats(tier, seed, scale):
    """random format descriptions (delimiter sets, comment and escape lists, odd lengths)"""
    out = []
    r = gen.rng(id, tier, seed, "formats")
    pool = "{}[]()<>|/=:;,!#%\"'` \n\ta1*x_"
    n = (250 if tier == "quick" else 2500) * scale
    for k in range(n):
        ln = r.choice([0, 1, 2, 3, 4, 5, 6, 7, 8, 9, 10, 12, 14, 16])
        desc = "".join(r.choice(pool) for _ in range(ln))
        if ln >= 2 and r.random() < 0.8:
            desc = desc[0] + r.choice("*x _") + desc[2:]
        alpha = sorted(set(desc + "a1 \n=#"))
        lines = [fmt_line(desc, r.choice(FLAGSETS))]
        for _ in range(8):
            inp = "".join(r.choice(alpha) for _ in range(r.choice([1, 2, 3, 5, 8, 13])))
            lines += ["p input " + hx(inp), "p root .", "p node", "p config"]
        lines.append("p end")
        out.append(("fmt:%d" % k, lines))
    return out


def oom(tier, seed):
    """allocation refusal: for each input (short and long names / values, nesting, values of 249..700 bytes that take
    the buffer metatype) mpt_parse_node into a scratch target is run once per allocation request k = 1..N with
    request k refused; a failure has to leave the scratch target empty and nothing may stay allocated"""
    r = gen.rng(id, tier, seed, "oom")
    out = []
    vals = [1, 40, 249, 250, 300, 320, 700] + ([5000, 65536] if tier != "quick" else [])
    inputs = []
    for L in vals:
        v = "v" * L
        inputs.append((None, "a=%s\n" % v))
        inputs.append((None, "s {\nshort = value\nlong = \"%s\"\nt {\nu=%s\n}\n}\nlast=1\n" % (v, v)))
        inputs.append(("{*} =;#", "sect { short = value; long = %s; }\nlast = four;\n" % v))
        inputs.append(("[ ] = #", "o=1\n[s]\nk=%s\n[t]\n" % v))
        inputs.append(("|x| = #", "|s\nk=%s\n" % v))
        inputs.append(("{x} = #", "{s\nk=%s\n}\n" % v))
    for L in (1, 63, 64, 200, 300):
        inputs.append((None, "%s {\n%s=1\n}\n" % ("n" * L, "m" * L)))
    inputs.append((None, "a {\nb {\nc {\nd {\ne=1\n}\n}\n}\n}\n"))
    top = 36 if tier == "quick" else 80
    for i, (desc, text) in enumerate(inputs):
        lines = [fmt_line(desc), "p input " + hx(text)]
        lines += ["p oom %d" % k for k in range(1, top + 1)]
        lines += ["p root .", "p node", "p end"]
        out.append(("oom:%d" % i, lines))
    return out


def nul_bytes(tier):
    """zero bytes at every position of short inputs (the character source may deliver them; mpt_parse_getchar hands
    them to the caller without storing them): every string of length <= 4 (thorough 5) over section start, assign
    character, 'a', blank, line feed and NUL that contains a NUL, for each of the 10 format descriptions"""
    out = []
    top = 4 if tier == "quick" else 5
    for name, desc in FORMATS:
        d = desc or "{*} = #"
        alpha = sorted(set([d[0], d[4] if len(d) > 4 and d[4] != " " else "=", "a", " ", "\n", "\0"]))
        strings = []
        for n in range(1, top + 1):
            for t in itertools.product(alpha, repeat=n):
                if "\0" in t:
                    strings.append("".join(t))
        per = 60
        for i in range(0, len(strings), per):
            out.append(("nul:%s:%d" % (name, i), [fmt_line(desc)] + group(strings[i:i + per]) + ["p end"]))
    return out


def deep(tier):
    """nesting depth beyond what a recursive cleanup survives: the text is built by the driver"""
    lines = [fmt_line(None), "p deep 20 closed", "p deep 20 open", "p deep 400000 closed"]
    if tier != "quick":
        lines += ["p deep 400000 open", "p deep 1000000 closed"]
    return [("deep", lines + ["p end"])]


def scripts(tier, seed, scale=1):
    out = stat_all(keep_all(exhaustive(tier), 12), 6)
    rest = []
    rest += long_tokens(tier)
    rest += noassign(tier)
    rest += buffer_steps(tier)
    rest += grammar(tier, seed, scale)
    rest += formats(tier, seed, scale)
    # (without `p stat`: a difference in the counters would hide a wrong tree later in the same script)
    nul = nul_bytes(tier)
    rest += [(n + ":stat", l) for n, l in nul[::4]]
    out += nul
    return out + stat_all(keep_all(rest)) + oom(tier, seed) + deep(tier)


def nontrivial(script, c_lines):
    for ln in c_lines:
        i = ln.find("| C ")
        if i < 0 or not ln.startswith("R ok"):
            continue
        c = ln[i + 4:].split(" | ")[0].strip()
        if c not in (".", "", "-") and not c.startswith("ss=") and not c.startswith("code="):
            return True
    return False


def tally(chk, script, c_lines):
    d = chk.__dict__.setdefault("distribution", {})
    for ln in c_lines:
        if ln.startswith("R ok nest") or ln.startswith("R err nest"):
            k = "config:" + ln.split()[1]
            d[k] = d.get(k, 0) + 1
        elif ln.startswith("R ok sound") or ln.startswith("R err sound"):
            k = "node:" + ln.split()[1]
            d[k] = d.get(k, 0) + 1


def finding_key(script, res):
    op = (res.get("op") or "").split()
    return "%s:%s" % (res["kind"], op[1] if len(op) > 1 else "?")


class _XX:
    """second part: the C++ wrapper mpt::config_parser (mpt++/parse.cpp) through harness/drvxx_parse.cpp:
    open / read / reset / read sequences on ONE parser object"""
    id = "C08"
    area = "parse"
    driver = "drvxx_parse"
    cxx = True
    fixed_lines = 1
    # nodes and values are C objects with hand-made vtables: UBSan's C++ vptr check cannot accept them
    link_extra = ["-fno-sanitize=vptr"]

    @staticmethod
    def corpus(chk):
        return stat_all([(n, s) for n, s in gen.corpus(id) if s and s[0].startswith("x ")])

    @staticmethod
    def scripts(tier, seed, scale=1):
        return stat_all(_XX._scripts(tier, seed, scale))

    @staticmethod
    def _scripts(tier, seed, scale=1):
        out = []
        r = gen.rng(id, tier, seed, "xx")
        # fixed sequences: good file read twice, failing file in between, rewritten file, stale state after a failure
        good = ["a {\nb=1\n}\nc=2\n", "o=1\n", "s {\n t {\n u=v w\n }\n}\n", "x=1\ny=2\n"]
        bad = ["a {\n", "}\n", "n" * 300, "k" * 40 + " ", "a {\n b=1\n", "q\"\n"]
        for desc in (None, "{*} =;!#", "[ ] = #", "|x| = #"):
            for g in good:
                for b in bad:
                    lines = ["x new 255 255", "x fmt " + ("null" if desc is None else hx(desc)),
                             "x file " + hx(g), "x open", "x read", "x reset", "x read", "x read",
                             "x file " + hx(b), "x reset", "x read log", "x read",
                             "x file " + hx("=1\n{\nz=3\n}\n"), "x reset", "x read",
                             "x file " + hx(g), "x reset", "x read", "x open", "x read", "x end"]
                    out.append(("xx:seq:%s:%d:%d" % (hx(desc or "d"), good.index(g), bad.index(b)), lines))
        # the file disappears while the parser holds it: reset fails, the parser has no input until the next open
        for g in good[:2]:
            out.append(("xx:unlink:%d" % good.index(g),
                        ["x new 255 255", "x fmt null", "x file " + hx(g), "x open", "x read", "x unlink", "x reset", "x read",
                         "x file " + hx(good[2]), "x reset", "x open", "x read", "x unlink", "x read", "x open",
                         "x file " + hx(g), "x read", "x end"]))
        n = (150 if tier == "quick" else 1500) * scale
        for k in range(n):
            desc, style, delims = r.choice(GRAMMARS)
            flags = r.choice(FLAGSETS + [(14, 2)])
            sig = [ord(c) for c in "".join(delims) + "#!\"'`\\ \n\t=a1."] + [0x80, 0xff, 0x0b]
            lines = ["x new %d %d" % flags, "x fmt " + ("null" if desc is None else hx(desc))]
            opened = False
            for _ in range(r.choice([2, 4, 7])):
                text = _write(r, _tree(r, 0), style, delims)
                data = _mutate(r, text, sig) if r.random() < 0.6 else text.encode("latin-1")
                lines.append("x file " + hx(data))
                lines.append("x open" if (not opened or r.random() < 0.3) else "x reset")
                opened = True
                if r.random() < 0.3:
                    lines.append("x root " + (r.choice(ROOTS[3:])))
                lines.append("x read" + (" log" if r.random() < 0.3 else ""))
                if r.random() < 0.5:
                    lines += ["x reset", "x read"]
                if r.random() < 0.2:
                    lines.append("x read")
            lines.append("x end")
            out.append(("xx:rnd:%d" % k, lines))
        return out

    @staticmethod
    def nontrivial(script, c_lines):
        return nontrivial(script, c_lines)

    @staticmethod
    def tally(chk, script, c_lines):
        d = chk.__dict__.setdefault("distribution", {})
        for ln in c_lines:
            if ln.startswith("R ok sound") or ln.startswith("R err sound"):
                k = "xx-read:" + ln.split()[1]
                d[k] = d.get(k, 0) + 1

    finding_key = staticmethod(lambda script, res: finding_key(script, res))


extra_parts = [_XX]
